"""Entry point: ./check <ID> [--tier quick|thorough] [--replay file]"""
import argparse
import importlib
import os
import sys
import traceback

import common


def main() -> int:
    ap = argparse.ArgumentParser()
    ap.add_argument("pid")
    ap.add_argument("--tier", default=os.environ.get("VERIF_TIER", "quick"), choices=["quick", "thorough"])
    ap.add_argument("--replay", default=None)
    args = ap.parse_args()
    pid = args.pid.upper()
    chk = common.Check(pid, args.tier)
    try:
        mod = importlib.import_module(f"checks.{pid.lower()}")
    except ModuleNotFoundError:
        print(f"no check for {pid}")
        return 2
    if args.replay:
        return mod.replay(args.replay)
    try:
        common.standard_obligations(chk)
        mod.run(chk, args.tier)
    except Exception:
        tb = traceback.format_exc()
        chk.oblige("check machinery ran to completion", False, tb)
        sys.stderr.write(tb)
    return chk.finish()


if __name__ == "__main__":
    sys.exit(main())
