"""Fail-closed extraction of dispatch/data tables from the working tree's sources (ast-based).

Emits Coq definitions (coq/gen/<pid>/Tables.v):
  iter_fields_tbl   : what each grammar node class's __iter__ yields (attribute names, in order)
  visitor_methods   : the visit_* methods each GrammarVisitor subclass defines
  bool_visitors     : for the boolean visitors, each method body translated to a small expression
                      language (Analysis/Visitor.v: bexp)
Anything outside the recognised shapes raises ExtractError (a broken obligation)."""
from __future__ import annotations

import ast
from pathlib import Path

from common import REPO, cstr, clist


class ExtractError(Exception):
    pass


def _classes(path: Path) -> dict[str, ast.ClassDef]:
    tree = ast.parse(path.read_text())
    return {n.name: n for n in tree.body if isinstance(n, ast.ClassDef)}


def _mro(classes: dict[str, ast.ClassDef], name: str) -> list[str]:
    out = [name]
    for b in classes[name].bases:
        if isinstance(b, ast.Name) and b.id in classes:
            out += _mro(classes, b.id)
    return out


def _method(classes, name: str, meth: str) -> ast.FunctionDef | None:
    for c in _mro(classes, name):
        for n in classes[c].body:
            if isinstance(n, ast.FunctionDef) and n.name == meth:
                return n
    return None


NODE_CLASSES = ["Rule", "Rhs", "Alt", "NamedItem", "NameLeaf", "StringLeaf", "Group", "Opt", "Repeat0", "Repeat1",
                "Gather", "PositiveLookahead", "NegativeLookahead", "Forced", "Cut"]


def iter_fields() -> dict[str, list[str]]:
    """class -> attribute names yielded by __iter__ (MRO-resolved)."""
    classes = _classes(REPO / "src/pegen/grammar.py")
    out = {}
    for c in NODE_CLASSES:
        if c not in classes:
            raise ExtractError(f"grammar.py: class {c} not found")
        m = _method(classes, c, "__iter__")
        if m is None:
            raise ExtractError(f"grammar.py: {c} has no __iter__")
        fields = []
        for st in m.body:
            if isinstance(st, ast.Expr) and isinstance(st.value, ast.Constant):
                continue  # docstring
            if isinstance(st, ast.Expr) and isinstance(st.value, ast.Yield):
                v = st.value.value
                if (isinstance(v, ast.Attribute) and isinstance(v.value, ast.Name) and v.value.id == "self"):
                    fields.append(v.attr)
                    continue
            if (isinstance(st, ast.If) and isinstance(st.test, ast.Constant) and st.test.value is False):
                continue  # `if False: yield` -- makes it a generator that yields nothing
            raise ExtractError(f"grammar.py:{st.lineno}: unrecognised statement in {c}.__iter__")
        out[c] = fields
    return out


def visitor_methods() -> dict[str, list[str]]:
    res = {}
    for f, names in (("parser_generator.py", ["RuleCheckingVisitor", "NullableVisitor"]),
                     ("python_generator.py", ["InvalidNodeVisitor", "PythonCallMakerVisitor"]),
                     ("first_sets.py", ["FirstSetCalculator"]),
                     ("validator.py", ["SubRuleValidator"])):
        classes = _classes(REPO / "src/pegen" / f)
        for n in names:
            if n not in classes:
                raise ExtractError(f"{f}: class {n} not found")
            ms = []
            for c in _mro(classes, n):
                ms += [m.name for m in classes[c].body
                       if isinstance(m, ast.FunctionDef) and m.name.startswith("visit_")]
            res[n] = sorted(set(ms))
    return res


# ---------------------------------------------------------------- boolean visitor bodies -> bexp
def _arg_name(fn: ast.FunctionDef) -> str:
    if len(fn.args.args) != 2:
        raise ExtractError(f"line {fn.lineno}: visitor method {fn.name} must take (self, node)")
    return fn.args.args[1].arg


def _bexp(e: ast.expr, node: str, where: str) -> str:
    def is_visit_call(x):
        return (isinstance(x, ast.Call) and isinstance(x.func, ast.Attribute) and x.func.attr == "visit"
                and isinstance(x.func.value, ast.Name) and x.func.value.id == "self" and len(x.args) == 1
                and not x.keywords)

    def field_of(x):
        if isinstance(x, ast.Attribute) and isinstance(x.value, ast.Name) and x.value.id == node:
            return x.attr
        return None

    if isinstance(e, ast.Constant) and isinstance(e.value, bool):
        return f"(BConst {'true' if e.value else 'false'})"
    if is_visit_call(e):
        f = field_of(e.args[0])
        if f:
            return f"(BVisit {cstr(f)})"
    if isinstance(e, ast.BoolOp):
        parts = [_bexp(v, node, where) for v in e.values]
        ctor = "BOr" if isinstance(e.op, ast.Or) else "BAnd"
        acc = parts[-1]
        for p in reversed(parts[:-1]):
            acc = f"({ctor} {p} {acc})"
        return acc
    if isinstance(e, ast.UnaryOp) and isinstance(e.op, ast.Not):
        f = field_of(e.operand)
        if f:
            return f"(BNotField {cstr(f)})"
        return f"(BNot {_bexp(e.operand, node, where)})"
    # any(self.visit(x) for x in node.f) / any([self.visit(x) for x in node.f]) / all(...)
    if (isinstance(e, ast.Call) and isinstance(e.func, ast.Name) and e.func.id in ("any", "all")
            and len(e.args) == 1 and isinstance(e.args[0], (ast.GeneratorExp, ast.ListComp))):
        comp = e.args[0]
        if len(comp.generators) == 1 and not comp.generators[0].ifs and isinstance(comp.generators[0].target, ast.Name):
            var = comp.generators[0].target.id
            f = field_of(comp.generators[0].iter)
            elt = comp.elt
            if (f and is_visit_call(elt) and isinstance(elt.args[0], ast.Name) and elt.args[0].id == var):
                lazy = isinstance(comp, ast.GeneratorExp)
                ctor = {("any", True): "BAnyLazy", ("any", False): "BAnyEager",
                        ("all", True): "BAllLazy", ("all", False): "BAllEager"}[(e.func.id, lazy)]
                return f"({ctor} {cstr(f)})"
    # node.value.startswith("lit")  /  name.startswith("lit") after `name = node.value`
    if (isinstance(e, ast.Call) and isinstance(e.func, ast.Attribute) and e.func.attr == "startswith"
            and len(e.args) == 1 and isinstance(e.args[0], ast.Constant) and isinstance(e.args[0].value, str)):
        f = field_of(e.func.value)
        if f:
            return f"(BStartsWith {cstr(f)} {cstr(e.args[0].value)})"
    # self.helper(node) where helper is another method: inlined by the caller
    raise ExtractError(f"{where}: unrecognised expression {ast.unparse(e)!r}")


def _body_bexp(classes, cls: str, fn: ast.FunctionDef, depth=0) -> str:
    node = _arg_name(fn)
    where = f"{cls}.{fn.name}"
    stmts = [s for s in fn.body if not (isinstance(s, ast.Expr) and isinstance(s.value, ast.Constant))]
    # simple alias: `name = node.value`
    alias = {}
    out = None
    pre = []
    for s in stmts:
        if (isinstance(s, ast.Assign) and len(s.targets) == 1 and isinstance(s.targets[0], ast.Name)
                and isinstance(s.value, ast.Attribute) and isinstance(s.value.value, ast.Name)
                and s.value.value.id == node):
            alias[s.targets[0].id] = s.value
            continue
        if isinstance(s, ast.Expr):
            pre.append(s.value)
            continue
        if isinstance(s, ast.Return) and s.value is not None and s is stmts[-1]:
            out = s.value
            continue
        raise ExtractError(f"{where}: unrecognised statement at line {s.lineno}")
    if out is None:
        raise ExtractError(f"{where}: no final return")

    class Sub(ast.NodeTransformer):
        def visit_Name(self, n):
            return alias.get(n.id, n)

    def conv(e):
        e = Sub().visit(e)
        # call of a helper method on self with the node as only argument: inline it
        if (isinstance(e, ast.Call) and isinstance(e.func, ast.Attribute) and isinstance(e.func.value, ast.Name)
                and e.func.value.id == "self" and e.func.attr != "visit" and len(e.args) == 1
                and isinstance(e.args[0], ast.Name) and e.args[0].id == node and depth < 2):
            h = _method(classes, cls, e.func.attr)
            if h is None:
                raise ExtractError(f"{where}: helper {e.func.attr} not found")
            return _body_bexp(classes, cls, h, depth + 1)
        return _bexp(e, node, where)

    acc = conv(out)
    for p in reversed(pre):
        acc = f"(BSeq {conv(p)} {acc})"
    return acc


SPECIAL = {("NullableVisitor", "visit_Rule"), ("NullableVisitor", "visit_NamedItem"), ("NullableVisitor", "visit_NameLeaf")}


def bool_visitor(file: str, cls: str) -> list[tuple[str, str]]:
    """-> [(method name, bexp term)], special (flag-setting) methods are shape-checked separately."""
    classes = _classes(REPO / "src/pegen" / file)
    out = []
    for c in reversed(_mro(classes, cls)):
        for m in classes[c].body:
            if isinstance(m, ast.FunctionDef) and m.name.startswith("visit_"):
                if (cls, m.name) in SPECIAL:
                    out.append((m.name, f"(BSpecial {cstr(m.name)})"))
                else:
                    out.append((m.name, _body_bexp(classes, cls, m)))
    return out


# shapes of the flag-setting NullableVisitor methods and of compute_nullables (normalised source)
def _norm(fn) -> str:
    body = [s for s in fn.body if not (isinstance(s, ast.Expr) and isinstance(s.value, ast.Constant))]
    return "\n".join(ast.unparse(s) for s in body)


EXPECTED_SPECIAL = {
    "visit_Rule": "if rule in self.visited:\n    return rule.nullable\nself.visited.add(rule)\nif self.visit(rule.rhs):\n"
                  "    rule.nullable = True\nreturn rule.nullable",
    "visit_NamedItem": "if self.visit(item.item):\n    item.nullable = True\nreturn item.nullable",
    "visit_NameLeaf": "if node.value in self.rules:\n    return self.visit(self.rules[node.value])\nreturn False",
    "compute_nullables": "while True:\n    known = sum((rule.nullable for rule in rules.values()))\n"
                         "    nullable_visitor = NullableVisitor(rules)\n    for rule in rules.values():\n"
                         "        nullable_visitor.visit(rule)\n    if sum((rule.nullable for rule in rules.values())) == known:\n"
                         "        break",
}


def nullable_special_shapes() -> dict[str, bool]:
    tree = ast.parse((REPO / "src/pegen/parser_generator.py").read_text())
    classes = {n.name: n for n in tree.body if isinstance(n, ast.ClassDef)}
    res = {}
    for name in ("visit_Rule", "visit_NamedItem", "visit_NameLeaf"):
        m = _method(classes, "NullableVisitor", name)
        res[name] = m is not None and _norm(m) == EXPECTED_SPECIAL[name]
    fn = next((n for n in tree.body if isinstance(n, ast.FunctionDef) and n.name == "compute_nullables"), None)
    res["compute_nullables"] = fn is not None and _norm(fn) == EXPECTED_SPECIAL["compute_nullables"]
    return res


def tables_v() -> str:
    it = iter_fields()
    vm = visitor_methods()
    lines = ["From Coq Require Import List String Bool.", "From Pegen Require Import Analysis.Visitor.",
             "Import ListNotations.", "Open Scope string_scope.",
             f"Definition iter_fields_tbl : list (string * list string) := "
             f"{clist(list(it.items()), lambda kv: f'({cstr(kv[0])}, {clist(kv[1], cstr)})')}.",
             f"Definition visitor_methods_tbl : list (string * list string) := "
             f"{clist(list(vm.items()), lambda kv: f'({cstr(kv[0])}, {clist(kv[1], cstr)})')}."]
    for file, cls, name in (("parser_generator.py", "NullableVisitor", "nullable_tbl"),
                            ("python_generator.py", "InvalidNodeVisitor", "invalid_tbl")):
        bv = bool_visitor(file, cls)
        lines.append(f"Definition {name} : list (string * bexp) := "
                     f"{clist(bv, lambda kv: f'({cstr(kv[0])}, {kv[1]})')}.")
    return "\n".join(lines) + "\n"


if __name__ == "__main__":
    print(tables_v())
    print(nullable_special_shapes())
