"""Child process: build generated parsers from grammar text and run them on inputs under time
and memory limits.  stdin: JSON list of jobs {"grammar": text, "inputs": [source text, ...],
"mode": ...}; stdout: JSON list of results.  Used by the checks so that a looping or exploding
parser cannot take the check down."""
from __future__ import annotations

import io
import json
import resource
import signal
import sys
import tokenize


TIME_LIMIT = 0.5


class Timeout(Exception):
    pass


def _alarm(signum, frame):
    raise Timeout()


def build(grammar_text: str, regenerate: bool = False):
    from pegen.grammar_parser import GeneratedParser as GrammarParser
    from pegen.python_generator import PythonParserGenerator
    from pegen.tokenizer import Tokenizer
    tk = Tokenizer(tokenize.generate_tokens(io.StringIO(grammar_text).readline))
    g = GrammarParser(tk).start()
    if not g:
        raise SyntaxError("grammar text unreadable")
    out = io.StringIO()
    PythonParserGenerator(g, out).generate("<runner>")
    if regenerate:
        # a second parser generated from the SAME grammar object (nothing may be left over from the first run)
        out = io.StringIO()
        PythonParserGenerator(g, out).generate("<runner>")
    ns = {}
    exec(compile(out.getvalue(), "<generated>", "exec"), ns)
    return g, ns["GeneratedParser"]


def canon(v, depth=0):
    import tokenize as _t
    if depth > 40:
        return "..."
    if isinstance(v, _t.TokenInfo):
        return ["tok", v.type, v.string, list(v.start)]
    if isinstance(v, list):
        return ["list"] + [canon(x, depth + 1) for x in v]
    if isinstance(v, tuple):
        return ["tuple"] + [canon(x, depth + 1) for x in v]
    if v is None or isinstance(v, (bool, int, str)):
        return v
    return ["obj", type(v).__name__, repr(v)[:80]]


def run_one(P, source: str, verbose=False, call_invalid=False, rule="start"):
    from pegen.tokenizer import Tokenizer
    tk = Tokenizer(tokenize.generate_tokens(io.StringIO(source).readline))
    p = P(tk, verbose=verbose)
    p.call_invalid_rules = call_invalid
    signal.setitimer(signal.ITIMER_REAL, TIME_LIMIT)
    try:
        res = getattr(p, rule)()
        return {"kind": "ok", "value": canon(res), "mark": tk.mark(), "fetched": len(tk._tokens),
                "invalid_flag": p.call_invalid_rules}
    except Timeout:
        return {"kind": "timeout"}
    except RecursionError:
        return {"kind": "recursion"}
    except MemoryError:
        return {"kind": "memory"}
    except SyntaxError as e:
        return {"kind": "SyntaxError", "msg": e.msg, "lineno": e.lineno, "offset": e.offset}
    except BaseException as e:       # noqa
        return {"kind": "exc", "type": type(e).__name__, "msg": str(e)[:200]}
    finally:
        signal.setitimer(signal.ITIMER_REAL, 0)


def main():
    resource.setrlimit(resource.RLIMIT_AS, (3 << 30, 3 << 30))
    signal.signal(signal.SIGALRM, _alarm)
    sys.setrecursionlimit(2500)
    jobs = json.load(sys.stdin)
    out = []
    real_stdout = sys.stdout
    sys.stdout = io.StringIO()
    for job in jobs:
        try:
            signal.setitimer(signal.ITIMER_REAL, 5.0)
            g, P = build(job["grammar"], bool(job.get("regenerate")))
            signal.setitimer(signal.ITIMER_REAL, 0)
        except BaseException as e:   # noqa
            signal.setitimer(signal.ITIMER_REAL, 0)
            out.append({"build_error": f"{type(e).__name__}: {str(e)[:200]}"})
            continue
        res = []
        dead = False
        for src in job["inputs"]:
            sys.stdout = io.StringIO()
            if dead:
                res.append({"kind": "skipped"})
                continue
            if "rules" in job:
                one = {"kind": "multi", "by_rule": {}}
                for rn in job["rules"]:
                    o = run_one(P, src, rule=rn, call_invalid=job.get("call_invalid", False))
                    one["by_rule"][rn] = [o["kind"], bool(o.get("value")) if o["kind"] == "ok" else False, o.get("mark", 0)]
                    if o["kind"] in ("timeout", "memory"):
                        one["kind"] = o["kind"]
            else:
                one = run_one(P, src, verbose=job.get("verbose", False), call_invalid=job.get("call_invalid", False))
            res.append(one)
            if one["kind"] in ("timeout", "memory"):
                dead = True         # a looping parser: do not burn the budget on the remaining inputs
        out.append({"results": res, "keywords": list(getattr(P, "KEYWORDS", ())), "soft_keywords": list(getattr(P, "SOFT_KEYWORDS", ()))})
    sys.stdout = real_stdout
    json.dump(out, sys.stdout)


if __name__ == "__main__":
    main()
