"""K-gen: compare the generator model (Gen/Gen.v + Gen/Render.v, driven by the extracted tables)
with PythonParserGenerator's output, text for text."""
from __future__ import annotations

import io

import grammar2coq as g2c
from common import cstr, clist, cN

from pegen import grammar as G
from pegen import python_generator as PGN
from pegen.python_generator import PythonParserGenerator

FILENAME = "<gen>"

PRELUDE = g2c.HEADER + """From Pegen Require Import Analysis.Visitor Analysis.RuleCheck Analysis.Nullable Gen.Gen Gen.Render.
Require Import Tables.
Definition PREFIX : string := %s.
Definition SUFFIX : string := %s.
Definition TOKENS : list string := %s.
Inductive egen := EText (t : string) | EGrammarError | EValueErr | EAssert | ESyntax.
Definition run_gen (g : grammar) (fresh : N) : ir_module + egen :=
  match check_grammar iter_fields_tbl TOKENS g with
  | Some _ => inr EGrammarError
  | None =>
      match analyse nullable_tbl iter_fields_tbl (rules g) with
      | AValueError => inr EValueErr
      | ATableError => inr EAssert
      | AOk an =>
          match generate invalid_tbl iter_fields_tbl PREFIX SUFFIX "%s" fresh g an with
          | inl m => inl m
          | inr EAssertion => inr EAssert
          | inr EValueError => inr EValueErr
          | inr (EActionSyntax _) => inr ESyntax
          | inr EFuel => inr EAssert
          end
      end
  end.
Definition gen_ok (g : grammar) (fresh : N) (e : egen) : bool :=
  match run_gen g fresh, e with
  | inl m, EText t => String.eqb (render m) t
  | inr EGrammarError, EGrammarError | inr EValueErr, EValueErr | inr EAssert, EAssert | inr ESyntax, ESyntax => true
  | _, _ => false
  end.
"""


def prelude(tokens: list[str]) -> str:
    return PRELUDE % (cstr(PGN.MODULE_PREFIX), cstr(PGN.MODULE_SUFFIX), clist(tokens, cstr), FILENAME)


def real_generate(g, **kw):
    """-> ('text', str) | ('GrammarError'|'ValueError'|'AssertionError'|'SyntaxError'|other, msg)"""
    out = io.StringIO()
    try:
        gen = PythonParserGenerator(g, out, **kw)
        gen.generate(FILENAME)
    except G.GrammarError as e:
        return ("GrammarError", str(e))
    except ValueError as e:
        return ("ValueError", str(e))
    except AssertionError as e:
        return ("AssertionError", str(e))
    except SyntaxError as e:
        return ("SyntaxError", str(e))
    except Exception as e:       # noqa
        return (type(e).__name__, str(e))
    return ("text", out.getvalue())


def case(g) -> tuple[str, tuple] | None:
    """(coq case term, real result) for a fresh grammar object (ids assigned before generation)."""
    tr = g2c.Translator()
    term = tr.grammar(g)
    fresh = len(tr.ids) + 1000
    res = real_generate(g)
    exp = {"text": lambda: f"(EText {cstr(res[1])})", "GrammarError": lambda: "EGrammarError",
           "ValueError": lambda: "EValueErr", "AssertionError": lambda: "EAssert", "SyntaxError": lambda: "ESyntax"}
    if res[0] not in exp:
        return None, res
    return f"({term}, {cN(fresh)}, {exp[res[0]]()})", res


CASE_T = "grammar * N * egen"
OK = "fun c => let '(g, fresh, e) := c in gen_ok g fresh e"


def first_diff(a: str, b: str) -> str:
    la, lb = a.splitlines(), b.splitlines()
    for i, (x, y) in enumerate(zip(la, lb)):
        if x != y:
            return f"line {i + 1}: {x!r} != {y!r}"
    return f"length {len(la)} vs {len(lb)}"
