"""Translate pegen Grammar objects (as read by the working tree's shipped GrammarParser, or built
directly) into Coq terms of Pegen.Grammar.Ast.  Fail-closed: anything the model cannot represent
raises Untranslatable."""
from __future__ import annotations

import ast
import io
import tokenize

from common import cstr, cbool, copt, clist, cN

from pegen import grammar as G
from pegen.grammar_parser import GeneratedParser as GrammarParser
from pegen.tokenizer import Tokenizer

LOCATION_FORMATTING = ("lineno=start_lineno, col_offset=start_col_offset, "
                       "end_lineno=end_lineno, end_col_offset=end_col_offset")
UNREACHABLE_FORMATTING = "None  # pragma: no cover"


class Untranslatable(Exception):
    pass


def read_grammar(text: str) -> G.Grammar:
    tok = Tokenizer(tokenize.generate_tokens(io.StringIO(text).readline))
    p = GrammarParser(tok)
    g = p.start()
    if not g:
        raise p.make_syntax_error("<grammar>")
    return g


def action_info(text: str) -> tuple[list[str], bool]:
    """Independent re-computation of what the generator derives from an action: the names used in
    the substituted text (sorted) and whether ast.parse accepts it."""
    sub = text.replace("LOCATIONS", LOCATION_FORMATTING).replace("UNREACHABLE", UNREACHABLE_FORMATTING)
    try:
        tree = ast.parse(sub)
    except SyntaxError:
        return [], False
    except Exception:
        return [], False
    names = sorted({n.id for n in ast.walk(tree) if isinstance(n, ast.Name)})
    return names, True


class Translator:
    def __init__(self):
        self.ids: dict[int, int] = {}
        self.keep = []  # keep objects alive so id() stays unique

    def nid(self, obj) -> int:
        k = id(obj)
        if k not in self.ids:
            self.ids[k] = len(self.ids) + 1
            self.keep.append(obj)
        return self.ids[k]

    def action(self, a) -> str:
        if a is None or a == "":
            # pegen treats "" like no action (`if action:` / `if not action`); metagrammar never
            # produces "", constructed grammars might.
            return "None" if a is None else f'(Some {{| atext := ""; aused := []; aparses := true |}})'
        used, ok = action_info(a)
        return (f"(Some {{| atext := {cstr(a)}; aused := {clist(used, cstr)}; "
                f"aparses := {cbool(ok)} |}})")

    def item(self, it) -> str:
        t = type(it)
        if t is G.NameLeaf:
            return f"(NameLeaf {cstr(it.value)})"
        if t is G.StringLeaf:
            v = it.value
            try:
                ev = ast.literal_eval(v)
            except Exception:
                raise Untranslatable(f"string leaf {v!r} is not a literal")
            if not isinstance(ev, str) or len(v) < 2 or v[1:-1] != ev or v[0] != v[-1] or v[0] not in "'\"":
                raise Untranslatable(f"string leaf {v!r}: escapes/prefixes are outside the model")
            return f"(StringLeaf {cstr(v)})"
        if t is G.Group:
            return f"(Group {self.rhs(it.rhs)})"
        if t is G.Opt:
            return f"(Opt {self.item(it.node)})"
        if t is G.Repeat0:
            return f"(Repeat0 {cN(self.nid(it))} {self.item(it.node)})"
        if t is G.Repeat1:
            return f"(Repeat1 {cN(self.nid(it))} {self.item(it.node)})"
        if t is G.Gather:
            return f"(Gather {cN(self.nid(it))} {self.item(it.separator)} {self.item(it.node)})"
        if t is G.PositiveLookahead:
            return f"(PosLook {self.item(it.node)})"
        if t is G.NegativeLookahead:
            return f"(NegLook {self.item(it.node)})"
        if t is G.Forced:
            return f"(Forced {self.item(it.node)})"
        if t is G.Cut:
            return "Cut"
        if t is G.Rhs:
            return f"(RhsItem {self.rhs(it)})"
        raise Untranslatable(f"unknown item class {t.__name__}")

    def rhs(self, r) -> str:
        if type(r) is not G.Rhs:
            raise Untranslatable(f"expected Rhs, got {type(r).__name__}")
        return f"(Rhs {cN(self.nid(r))} {clist(r.alts, self.alt)})"

    def alt(self, a) -> str:
        if type(a) is not G.Alt:
            raise Untranslatable(f"expected Alt, got {type(a).__name__}")
        return f"(Alt {clist(a.items, self.nitem)} {self.action(a.action)})"

    def nitem(self, n) -> str:
        if type(n) is not G.NamedItem:
            raise Untranslatable(f"expected NamedItem, got {type(n).__name__}")
        return f"(NItem {cN(self.nid(n))} {copt(n.name, cstr)} {copt(n.type, cstr)} {self.item(n.item)})"

    def rule(self, r) -> str:
        return (f"{{| rname := {cstr(r.name)}; rtype := {copt(r.type, cstr)}; "
                f"rrhs := {self.rhs(r.rhs)}; rmemo := {cbool(r.memo)} |}}")

    def grammar(self, g) -> str:
        metas = clist(list(g.metas.items()), lambda kv: f"({cstr(kv[0])}, {copt(kv[1], cstr)})")
        return f"{{| rules := {clist(list(g.rules.values()), self.rule)}; metas := {metas} |}}"


def grammar_term(g) -> str:
    return Translator().grammar(g)


def dump(g) -> object:
    """Structural dump of a Grammar (repr() is unusable: Forced has no __repr__)."""
    def it(x):
        t = type(x)
        if t in (G.NameLeaf, G.StringLeaf):
            return [t.__name__, x.value]
        if t is G.Group:
            return ["Group", rhs(x.rhs)]
        if t in (G.Opt, G.Repeat0, G.Repeat1, G.PositiveLookahead, G.NegativeLookahead, G.Forced):
            return [t.__name__, it(x.node)]
        if t is G.Gather:
            return ["Gather", it(x.separator), it(x.node)]
        if t is G.Cut:
            return ["Cut"]
        if t is G.Rhs:
            return ["Rhs", rhs(x)]
        return ["?", repr(x)]

    def rhs(r):
        return [[[[n.name, n.type, it(n.item)] for n in a.items], a.action] for a in r.alts]

    return {"rules": [[r.name, r.type, bool(r.memo), rhs(r.rhs)] for r in g.rules.values()],
            "metas": list(g.metas.items())}


HEADER = """From Coq Require Import List String NArith Bool.
From Pegen Require Import Base.StrUtil Grammar.Ast.
Import ListNotations.
Open Scope string_scope.
"""
