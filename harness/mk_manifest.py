"""Writes /verif/MANIFEST.json from the table below (kept in one place so it stays valid)."""
import json
from pathlib import Path

VERIF = Path(__file__).resolve().parent.parent
LEVEL_NOTE = ("Trusted: Coq 8.16.1 kernel incl. vm_compute (no native_compute); no axioms (every Props theorem is "
              "'Closed under the global context', enforced by the check); the harness Python (translator, table "
              "extractor, case generators, comparison). The theorems are about hand-written Gallina models; the "
              "models are tied to /repo on every run by re-translation of grammars/tables and by correspondence "
              "cases evaluated with vm_compute against the implementation's behaviour.")

CLAIMS = {
 "C18": dict(
   text="Coq theorems (Props/C18.v): for every grammar and both SIMPLE_STR settings the validator model reports an "
        "alternative iff an earlier alternative's item sequence is a prefix of it, and what it reports is such a pair. "
        "The model (Analysis/Validator.v, Grammar/Printer.v) is tied to validator.py / grammar.py __str__ by "
        "correspondence on enumerated and random grammars each run; the implementation is also compared with the "
        "property's own definition (item-wise prefix) on the same grammars to produce concrete failing inputs.",
   design="6/C18", technique="Coq proof (list-prefix characterisation) + vm_compute correspondence with validator.py"),
}
NOT_YET = {}
NOT_APPLICABLE = {
 "C06": "equates the generated parser with CPython's own C parser/ast.parse, for which no executable model exists "
        "or can be written here; comparing two programs on a corpus would be differential testing standing in for a "
        "proof (DESIGN.md section 11)",
}

def main():
    props = [json.loads(l)["id"] for l in open(VERIF / "properties.jsonl")]
    checks = []
    for pid in props:
        if pid in CLAIMS:
            c = CLAIMS[pid]
            checks.append({
                "property_id": pid,
                "quick_cmd": f"./check {pid} --tier quick",
                "thorough_cmd": f"./check {pid} --tier thorough",
                "evidence_file": f"/verif/evidence/{pid}.json",
                "replay_cmd_template": f"./check {pid} --replay {{path}}",
                "engine": "coq-model",
                "level_claimed": {"category": "proof", "text": c["text"], "design_ref": c["design"]},
                "level_note": LEVEL_NOTE + " " + c.get("note", ""),
                "technique": c["technique"],
            })
    na = []
    for pid in props:
        if pid in CLAIMS:
            continue
        reason = NOT_APPLICABLE.get(pid) or NOT_YET.get(pid) or "check not built yet in this development (see DESIGN.md section 10 for the build order)"
        na.append({"property_id": pid, "reason": reason})
    m = {
        "version": 1,
        "setup_cmd": "cd /verif && coq/build.sh",
        "hooks": {"guard": "PEGEN_VERIF", "enable": "none needed: all observation is by wrapping from outside; "
                  "checks run /repo's working tree with PYTHONPATH=/repo/src",
                  "baseline_off_cmd": "cd /verif && /venv/bin/python harness/baseline.py",
                  "source_commits": [], "add_only": True},
        "engines": [{"name": "coq-model", "path": "/verif/coq", "serves_properties": sorted(CLAIMS),
                     "kind_free_text": "Coq 8.16 development (models + theorems) with Python harness for "
                                       "translation of grammars/tables and vm_compute correspondence"}],
        "checks": checks,
        "not_applicable": na,
        "notes": "One entry point: ./check <ID> --tier quick|thorough. fix: commits in /repo and recorded defects are "
                 "listed in /verif/known_findings.json.",
    }
    (VERIF / "MANIFEST.json").write_text(json.dumps(m, indent=1))

if __name__ == "__main__":
    main()
