"""Writes /verif/MANIFEST.json from the table below (kept in one place so it stays valid)."""
import json
from pathlib import Path

VERIF = Path(__file__).resolve().parent.parent
LEVEL_NOTE = ("Trusted: Coq 8.16.1 kernel incl. vm_compute (no native_compute); no axioms (every Props theorem is "
              "'Closed under the global context', enforced by the check); the harness Python (translator, table "
              "extractor, case generators, comparison). The theorems are about hand-written Gallina models; the "
              "models are tied to /repo on every run by re-translation of grammars/tables and by correspondence "
              "cases evaluated with vm_compute against the implementation's behaviour.")

CLAIMS = {
 "C18": dict(
   text="Coq theorems (Props/C18.v): for every grammar and both SIMPLE_STR settings the validator model reports an "
        "alternative iff an earlier alternative's item sequence is a prefix of it, and what it reports is such a pair. "
        "The model (Analysis/Validator.v, Grammar/Printer.v) is tied to validator.py / grammar.py __str__ by "
        "correspondence on enumerated and random grammars each run; the implementation is also compared with the "
        "property's own definition (item-wise prefix) on the same grammars to produce concrete failing inputs.",
   design="6/C18", technique="Coq proof (list-prefix characterisation) + vm_compute correspondence with validator.py"),
}
CLAIMS["C14"] = dict(
   text="Coq theorems (Props/C14.v), unbounded in the raw stream and in the operation sequence: every run of "
        "peek/getnext/mark/reset/diagnose/last-non-whitespace refines an abstract cursor over the filtered token list "
        "(token returned = function of the cursor index; reset+getnext replays; diagnose returns the furthest fetched "
        "token and never moves the cursor); laziness invariant on the number of items pulled; the line table holds the "
        "real text of every line a pulled token touches, get_lines answers identically with and without a path. The "
        "model (Runtime/Tokenizer.v) is tied to tokenizer.py by correspondence on op sequences over real and synthetic "
        "token streams; the property's abstract cursor is also run against the implementation directly.",
   design="6/C14", technique="Coq refinement proof (invariant over op sequences) + vm_compute correspondence with tokenizer.py",
   note="Assumes tokenize's contract that TokenInfo.line is the text of the physical lines the token spans. Known finding: "
        "a line holding only a backslash continuation is not recoverable (see known_findings.json).")
CLAIMS["C16"] = dict(
   text="Coq theorems (Props/C16.v). Unbounded (any graph, any component list, any iteration order): the leader "
        "candidate set computed from the enumerated cycles equals the set of members lying on every simple cycle; the "
        "designated leader is such a member; ValueError is raised only if every member is avoided by some cycle and never "
        "if some member lies on every cycle; singleton groups are cyclic iff self-loop. SCC computation: exhaustive kernel "
        "evaluation for all digraphs on <= 3 vertices under all vertex and adjacency orders and all 65536 4-vertex digraphs "
        "under 2x2 orders (bounds in the statements); and, unbounded, a verified CHECKER (Proofs/SccCheck.v): for any graph "
        "and any component list accepted by scc_check the components are exactly the mutual-reachability classes, each "
        "vertex once, and flags accepted by lr_check are exactly the vertices on a cycle -- evaluated every run on the "
        "components and left_recursive flags the REAL code produced for each explored graph. Model tied to "
        "sccutils.py/compute_left_recursives by correspondence (exhaustive <= 3 vertices x all orders, 4 vertices "
        "sampled/all, 5-7 vertices sampled) with a brute-force oracle of the property run on the implementation.",
   design="6/C16", technique="Coq proof (DFS cycle enumeration sound+complete, unbounded) + verified SCC checker applied to the real output + exhaustive vm_compute for SCC <= 4 vertices + correspondence",
   note="The SCC ALGORITHM is proved correct only up to 4 vertices; beyond that its output is validated per explored graph by "
        "the verified checker (translation validation), not proved for all graphs.")
CLAIMS["C17"] = dict(
   text="Coq theorems (Props/C17.v) over a file-system model of build_python_generator: for every previous state of the "
        "output path, every grammar-level outcome and every SET of fault points (exception or process kill at any "
        "intercepted open/write/close/replace/unlink, any partial write), the output path afterwards holds its old "
        "content or the complete new parser, the latter only when generation succeeded; a raised failure leaves it "
        "untouched; a grammar-level failure performs no file operation. The model is tied to build.py/__main__.py by "
        "fault-injection runs of the real entry points (CLI and build API) whose operation trace, outcome and final "
        "contents must equal the model's prediction; the same runs check the property directly on the implementation.",
   design="6/C17", technique="Coq proof over a fault-point file-system model + fault-injection correspondence with build.py and the CLI",
   note="Assumes os.replace is atomic; kills are simulated in-process (no further file operation takes effect after the kill point).")
CLAIMS["C13"] = dict(
   text="Coq theorems (Props/C13.v): for every grammar, the up-front check (model of validate_rule_names, the start/"
        "trailer test and RuleCheckingVisitor driven by the extracted __iter__ table) accepts iff no rule/item name "
        "starts with an underscore, a start rule or trailer exists, and every name referenced at ANY depth is a rule or "
        "token -- under the decidable side condition fields_ok on the table, which is re-extracted from grammar.py and "
        "re-proved (vm_compute) on every run, together with the dispatch table of RuleCheckingVisitor. Correspondence: "
        "model vs PythonParserGenerator on grammars with a defect planted at every syntactic position (17 contexts and "
        "nested pairs, whole-body groups, every token kind). The second half: C13_every_reference_resolves -- for every module "
        "whose calls all name one of its methods or a runtime primitive (refs_ok, decidable), no run on any input, "
        "configuration, fuel or state ends in AttributeError; and C13_generated_modules_resolve_every_reference (Proofs/GenRefs.v): "
        "for EVERY grammar whose leaf names are rules or token kinds the call maker knows and whose literals are quoted, every "
        "module the generator model emits satisfies refs_ok -- each self.n() names a rule, a helper rule the generator queued "
        "and then emits (invariant over the call maker, its node cache and the work list) or a runtime primitive; the hypothesis "
        "is evaluated in Coq on every shipped .gram file on every run; refs_ok is "
        "also evaluated every run on the module the generator "
        "model produces for each accepted grammar (model tied to the generator by K-gen), and the real parsers are run over "
        "accepted grammars x inputs (also a second generation from the same grammar object) in a sandboxed child process; "
        "one known finding (token names without a runtime primitive).",
   design="6/C13", technique="Coq proofs (up-front check parametric in extracted tables; reference resolution of the IR interpreter; every module the generator model emits resolves its references, by an invariant over the call maker and its work list) + instance lemmas + correspondence on planted defects + execution of accepted grammars",
   note="End to end since fix 62f3f48: C13_accepted_grammars_resolve -- a grammar the up-front check accepts (with the real generator's "
        "token set, all of whose kinds the call maker knows: instance lemma per run) yields a module whose runs never end in "
        "AttributeError (RuleCheckProofs + GenRefs + ExecRefs glued in Proofs/GenAccepted.v). NameError from an ACTION (an unbound "
        "name in user code) is outside the theorem; it depends on the action text.")
CLAIMS["C03"] = dict(
   text="Coq theorems (Props/C03.v), for every monotone method table, every grammar and every rule order: the rule flags "
        "computed by the model of compute_nullables (depth-first passes with a visited set, repeated until stable; "
        "generated from the NullableVisitor method bodies and __iter__ tables extracted from the source on every run) "
        "are the LEAST set closed under the nullability equations, hence independent of the order of the rules. "
        "Instance lemmas re-proved each run: the extracted table is monotone, total and well-formed (a visit_* method "
        "that is never dispatched, as visit_LookAhead was, fails it). Correspondence: rule/item nullable flags, first "
        "graph, left-recursive/leader flags of the model vs the implementation over grammars x permutations; the components "
        "and left_recursive flags the REAL generator computed are validated, per (grammar, order), by the verified checker of "
        "C16 (they are exactly the mutual-reachability classes of the real first graph / the rules on a cycle of it). On the "
        "implementation: flags equal across permutations, parse results equal across permutations on enumerated inputs, "
        "no RecursionError. TERMINATION THEOREM (Proofs/PegTotal.v, C03_no_cycle_at_one_position_means_every_parse_terminates), "
        "for all grammars, token lists and action interpretations: given nullable flags closed under the equations of the "
        "extracted table and a rank of the rules that strictly decreases along every initial invocation (references reachable "
        "without consuming a token: after nullable items, inside groups, optionals, repetitions, forced items, gather elements "
        "and separators, and inside LOOKAHEAD OPERANDS), and no repetition over something that can match nothing, every rule has "
        "a result at every position in the reference semantics (no infinite derivation; nested induction on remaining input, "
        "rank, structure). The conditions are a verified decidable checker evaluated per explored grammar that the real analysis "
        "finds free of left recursion, with the REAL flags and a rank computed from the REAL first graph: a missing edge fails it.",
   design="6/C03", technique="Coq proofs (simulation of the stateful visitor by its pure reading; least pre-fixed point; termination of the reference semantics by rank) + table re-extraction + verified checkers on the real analysis output + correspondence over permutations",
   note="Item flags and first-graph rows are theorems too (C03_item_flags_are_exact: after the analysis a NamedItem is flagged exactly "
        "when the pure reading with the final rule flags says so -- Proofs/VisitAll.v shows the table-driven visitor reaches every "
        "NamedItem inside a node, Proofs/NullableItems.v that the last pass settles them; C03_first_graph_order_independent: every "
        "rule's set of initial invocations is the same under every permutation of the rules). Partial: the step from the first graph "
        "to the left-recursive flags is the SCC computation (C16: verified checker per explored graph); termination is a theorem about the reference semantics (the generated parser is tied to it case "
        "by case, C01), instantiated per explored grammar. Completeness of left-recursion marking is "
        "relative to the SCC computation (C16).")
CLAIMS["C10"] = dict(
   text="The generator is modelled as a Coq function (Gen/Gen.v: call maker with its identity cache, helper-rule "
        "numbering, work list, flatten, dedupe, action handling; Gen/Render.v) driven by the tables extracted from the "
        "source each run; the tie is text equality: render(generate g) must equal, character for character, what "
        "PythonParserGenerator writes (or the same error class) on every repository grammar incl. python.gram (thorough) "
        "and on random grammars. Theorems (Props/C10.v): the keyword tables are strictly sorted, duplicate-free and have "
        "exactly the collected members; for EVERY grammar and analysis result the module the generator model emits has one "
        "method per rule, named after it, in grammar order, followed by helper methods _tmp_k/_loop0_k/_loop1_k/_gather_k with "
        "pairwise distinct numbers k (Proofs/GenNames.v: the work list is only extended at its end by rules named after fresh "
        "counter values), hence -- decimal rendering being injective, Proofs/DecimalInj.v -- no method name is defined twice when "
        "the rule names are distinct and do not begin with an underscore (C10_method_names_pairwise_distinct), and its keyword tables are strictly sorted and hold exactly the quoted words of the grammar "
        "(C10_generated_keyword_tables_sorted_and_exact, from the C11 generator theorem); determinism w.r.t. set "
        "iteration/rule order rests on Props/C03.v and C16.v. On the "
        "implementation: compile() of every output, one method per rule in grammar order, keyword tuples equal to an "
        "independent count, and byte-identical output across PYTHONHASHSEED values, entry points (memory, build API, "
        "CLI), repeated generation from one Grammar object and warm-up histories.",
   design="6/C10", technique="Coq model of the generator checked by exact text correspondence + generator invariants (methods follow the rules; tables sorted and exact) + determinism sweeps over seeds/entry points/histories",
   note="'Is valid Python' is decided by compile() of real outputs (text-level fact, no theorem). Known finding: invalid_x* generates an uncompilable module.")
CLAIMS["C05"] = dict(
   text="Coq theorem (Props/C05.v) over the runtime model (Runtime/Exec.v: memoize incl. verbose path, memoize_left_rec "
        "with its growth loop, logger, token primitives, lookahead helpers, expect_forced, and an interpreter of the "
        "generated IR): for every well-formed IR module (decidable ir_wf), every token list, verbose on/off, cache "
        "on/off, every truthy interpretation of actions, every fuel and every reachable state, each invocation that "
        "yields a falsy value leaves the cursor unchanged, successful ones never move it backwards, lookahead helpers "
        "never move it, and the cache only holds such entries (induction on fuel with a cache invariant). "
        "C05_generated_parsers_keep_the_position_invariant (Proofs/GenWf.v): ir_wf holds of EVERY module the generator model emits "
        "for a grammar whose forced items stand directly among the items of alternatives, without a repetition of a cut and "
        "without underscore rule names -- so the invariant holds for every parser generated from such a grammar; that shape is "
        "evaluated in Coq on every .gram file shipped with the repository (python.gram, metagrammar.gram ...) on every run. The model is "
        "tied to parser.py and the generated code by K-run: outcome, value, position, tokens fetched and the WHOLE "
        "per-invocation event trace of real generated parsers (wrapped from outside) must equal the model's under the "
        "four configurations. The same invariant is monitored on the real parsers incl. the shipped meta-grammar parser "
        "on every .gram file and the Python parser on test sources and invalid snippets in both passes.",
   design="6/C05", technique="Coq proof (invariant by induction on interpreter fuel) + per-invocation trace correspondence with real parsers",
   note="Hypothesis: action results are truthy. Known findings: explicit falsy action after consuming; four invalid_ rules of python.gram in error mode.")
CLAIMS["C04"] = dict(
   text="K-run correspondence under all four configurations {quiet,verbose} x {cache on, cache off} (outcome, value, position, "
        "tokens fetched, full event trace of model vs real parser) plus, on the implementation, equality of outcome/value/"
        "tokens consumed/error position across the four configurations over grammars x exhaustively enumerated inputs. Coq "
        "(Props/C04.v): the full verbose statement is REFUTED by a computed witness (showpeek fetches a token: recorded "
        "finding); proved for all modules/inputs/states: a cache hit replays exactly the recorded result and end position, "
        "and every cache entry reachable in any run records an end position consistent with its result (from the C05 invariant). "
        "The cache half is REFUTED in error mode too (C04_cache_refuted_in_error_mode: a result cached inside a "
        "*_without_invalid rule is replayed outside it; recorded finding); error mode x {cache on, off} is swept as well "
        "(grammars with invalid_ rules) and must agree wherever no *_without_invalid rule intervenes. Where the equality is true "
        "it is now a THEOREM (C04_cache_transparent_partial): for every module without a left-recursive leader, run quietly "
        "with error mode off -- or with error mode ON if the module has no *_without_invalid method --, every method/input/fuel: whenever the uncached run terminates the cached run returns the same "
        "outcome (value, failure, or exception incl. the token a SyntaxError points at) and, on a normal outcome, the same "
        "position and furthest token fetched -- by three inductions over the interpreter (more fuel never changes an answer; "
        "the uncached run reads its state only through the position; simulation whose invariant says every memo entry is what "
        "the uncached invocation at its position returns); and at the level of the generator "
        "(C04_generated_parsers_without_leaders_are_cache_transparent, Proofs/GenDeco.v): for every grammar in which the analysis "
        "finds no leader the emitted module has no @memoize_left_rec method, so the theorem applies to its parser.",
   design="6/C04", technique="Coq proof of cache transparency (fuel monotonicity + state-independence + simulation) for modules without leaders, refutation witnesses for the verbose and error-mode cases, cache-consistency invariant + four-configuration trace correspondence (normal and error mode)",
   note="Partial: the transparency theorem excludes left-recursive leaders (their seed growing reads and overwrites the cache "
        "by design: covered by the C02 theorems and the four-configuration correspondence), verbose tracing and error mode with *_without_invalid "
        "methods (where the equality is false of the faithful model: the two recorded findings).")
CLAIMS["C11"] = dict(
   text="Coq theorems (Props/C11.v) over the runtime model, for every module: NAME matches a token iff kind NAME and text not "
        "in KEYWORDS; SOFT_KEYWORD iff kind NAME and text in SOFT_KEYWORDS; a quoted literal that is not also a token-kind "
        "name matches iff the texts are equal; keyword tables are sorted sets of what was collected; the kind/literal "
        "conflation of expect() is REFUTED by computed witnesses (two recorded findings); "
        "C11_keyword_tables_are_exactly_the_quoted_words: for every grammar the tables hard_keywords/soft_keywords of a plain "
        "traversal contain exactly the quoted identifier-like literals occurring at any depth of any rule (declarative "
        "occurrence relation), and every run checks in Coq that the tables the REAL generator emitted equal them on each "
        "explored grammar. Tie: K-gen/K-run; on the implementation: hard/soft keywords hidden at 15 syntactic positions (also "
        "with both quote styles, non-ASCII letters, names of the token module, a second generation from the same grammar "
        "object) must appear in the tables and NAME/SOFT_KEYWORD must accept/reject accordingly.",
   design="6/C11", technique="Coq theorems on the primitive tests, on the keyword traversal and on the generator (its tables are exactly the quoted words, for all grammars) + refutation witnesses + per-grammar table validation + positional keyword sweep with K-run correspondence",
   note="C11_generated_keyword_tables_are_exactly_the_quoted_words (Proofs/GenKw.v, GenKwSound.v): for EVERY grammar whose "
        "repetition/gather/group nodes have pairwise distinct identities, the KEYWORDS / SOFT_KEYWORDS tables of the module the "
        "generator MODEL emits have exactly the members of hard_keywords / soft_keywords (both inclusions; invariant over the call "
        "maker, its node cache and the work list); distinctness of identities is evaluated in Coq on every shipped .gram file each run; "
        "the real generator's tables are compared with them on every explored grammar. "
        "The model's identifier test is ASCII (non-ASCII keywords are covered on the implementation only).")
CLAIMS["C12"] = dict(
   text="Coq theorems (Props/C12.v): (1) for every module, input, configuration, fuel and state, every invocation that returns "
        "leaves call_invalid_rules as it found it (without_invalid methods clear it for their body and restore it on match, "
        "failure and cut); (2) with the flag off a guarded alternative is exactly skipped, and as a whole-program theorem "
        "(C12_flag_off_equals_parser_without_guarded_alternatives, Proofs/ExecStrip.v): from any state whose flag is off the "
        "generated module and the module with every guarded alternative deleted compute the same outcome, position, tokens "
        "fetched, cache and invocation trace, for every method, input, configuration and fuel; (3) under decidable conditions on "
        "the InvalidNodeVisitor table extracted from the source each run (re-proved as instance lemmas), the guard is emitted "
        "exactly for alternatives mentioning an invalid* name at ANY nesting depth -- also stated for the generator itself "
        "(C12_generated_guards_are_exact: whatever rule emit_rule emits, original or helper, in whatever state, the k-th "
        "alternative of the method is guarded iff the k-th alternative of the flattened rule body mentions such a name); "
        "C12_flag_on_equals_parser_without_guards (Proofs/ExecUnguard.v): with the flag ON, a module without *_without_invalid methods "
        "computes exactly what the module with every guard removed computes; C12_without_invalid_mark_inert_when_flag_off "
        "(Proofs/ExecUnwi.v): with the flag OFF a *_without_invalid method switches nothing. Tie: K-gen/K-run. On the implementation: "
        "parser(G) with the flag off equals parser(G minus those alternatives) on enumerated inputs for 14 placements, no "
        "invalid_ rule is invoked with the flag off, and the flag is monitored at every call in both modes.",
   design="6/C12", technique="Coq proofs (flag preservation and whole-program strip equivalence by induction on fuel; detector exactness via table simulation) + strip-equivalence sweep",
   note="The whole-program theorem deletes alternatives in the generated module (IR); that generating from the grammar with the "
        "alternatives deleted gives the same module up to helper numbering is checked on enumerated inputs, not proved.")
CLAIMS["C15"] = dict(
   text="Coq theorems (Props/C15.v). C15_action_receives_the_span_of_the_match (Proofs/LocRun.v, interpreter level): for "
        "EVERY IR module, every behaviour of the methods it calls (cache replays, seed growing, tracing, error mode), every "
        "state a method is entered in (i.e. every history of backtracking, lookahead and cache reuse) and every fuel: when a "
        "non-loop method that captures the start position returns a truthy value, that value is what the action of one of "
        "its alternatives produced in an environment where start_lineno/start_col_offset are those of the token at the "
        "entry position and -- if the alternative uses LOCATIONS and the matched range holds a non-layout token -- "
        "end_lineno/end_col_offset are those of the LAST non-layout token INSIDE the matched range. "
        "C15_generated_parsers_give_actions_the_span_of_the_match (Proofs/GenWf.v generated_loc_ok): its two hypotheses on the "
        "method are a theorem about the generator model for EVERY grammar of the class of C05's generator theorem (invariant "
        "over the call maker and the work list), so the statement holds of every method with a LOCATIONS alternative in every "
        "generated parser; the class condition is evaluated on all shipped grammar files (python.gram among them). List level: the token "
        "whose end is used is the last token before the cursor that is not NEWLINE/INDENT/DEDENT/ENDMARKER, independent of "
        "how many tokens were fetched beyond the cursor. Instance condition (every method with a LOCATIONS alternative has "
        "m_locations and is not a loop helper) evaluated in Coq on the generator model's module of every explored grammar. "
        "Tie: K-run under the four configurations on grammars whose actions use LOCATIONS at rule level, in groups, loops, "
        "after lookaheads and in left-recursive rules (values carry the four numbers); direct comparison with the matched "
        "span for start-rule actions.",
   design="6/C15", technique="Coq proof over the IR interpreter (induction over the alternatives of a method; list-level proof "
        "of the end-token scan) + instance condition evaluated in Coq + value-carrying K-run correspondence",
   note="The degenerate case (only layout tokens matched) is outside the statement, as in the property's quantifier.")
CLAIMS["C02"] = dict(
   text="Coq (Props/C02.v), for ANY method body, key, mark, state: (1) invariant: the growth loop of memoize_left_rec returns "
        "a match ending at or after the mark, leaves the cursor at the mark for a falsy result and stores only consistent "
        "seeds; (2) C02_growth_loop_computes_the_iteration_limit / C02_decorator_returns_and_records_the_limit: for any "
        "sequence of results r0 (the primed failure) .. rn with strictly growing end positions such that the body maps the "
        "cached seed rk to r(k+1) and, from rn, fails or makes no progress, the loop returns exactly rn, leaves the cursor at "
        "its end and records it -- 'the longest match obtained by repeatedly re-evaluating the alternatives with the previous "
        "result substituted for the recursive call'; (3) C02_growth_terminates: with more fuel than positions left the loop "
        "never runs out of fuel; (4) about the generator (Proofs/GenDeco.v): whatever original rule it emits, a rule the analysis "
        "marked left-recursive is decorated @memoize_left_rec exactly when it is the chosen leader and @logger otherwise, and only "
        "such leaders ever grow a seed; (5) the property's own example as a theorem (Proofs/GrowAxb.v): on every module whose "
        "method a is the one emitted for  a: a 'x' | 'b'  -- for every number of x tokens, every following token and every "
        "sufficient fuel -- the rule returns the left-nested tree of  b x*  and stops after the last x, and refuses any input not "
        "starting with b; the same for INDIRECT recursion  a: c 'x' | 'b' ; c: a  (Proofs/GrowIndirect.v) entered at the leader a "
        "or at the other member c, and for HIDDEN recursion  a: 'q'? a 'x' | 'b'  (Proofs/GrowHidden.v) "
        "(instances: those methods are, as rendered text, the methods of the real generator's output). Examples show "
        "the hypotheses satisfiable. Tie: K-gen (decorator choice incl. helper rules) and K-run with event traces through growth. On the "
        "implementation: left-recursive families (recursive reference bare/named/grouped/behind lookahead/behind nullable "
        "rule/in optional/in loop; cycles of 2-3 rules entered at any member, one member also self-recursive; helpers inside "
        "cycles) x all inputs up to length 5-6: accepted language vs the regular language denoted, vs the right-iterative/"
        "distributed rewrite, left-nesting, termination.",
   design="6/C02", technique="Coq theorems on the seed-growing loop (invariant, iteration limit, termination) + family sweeps with metamorphic rewrites and K-run correspondence",
   note="Partial: that the body of a generated rule meets the step hypotheses w.r.t. a reference semantics of left recursion "
        "is not a theorem (no such reference semantics is defined); it is covered by the family sweeps.")
CLAIMS["C08"] = dict(
   text="Closed-instance property decided by evaluation plus one generic Coq lemma (Props/C08.v): if one regeneration step "
        "maps a text to itself then every later stage equals it. Re-established on every run: (a) instance lemma by "
        "vm_compute: the generator MODEL's text for metagrammar.gram equals the text the real generator writes; (b) on the "
        "implementation: that text equals the shipped grammar_parser.py as Python ASTs; stages 2 and 3 (regenerating with the "
        "regenerated parser) are byte-identical to stage 1; the shipped and the regenerated parser read every .gram file of "
        "the repository to structurally equal grammars.",
   design="6/C08", technique="Coq lifting lemma + vm_compute instance of the generator model + staged regeneration on the implementation",
   note="The reader side (regenerated parser reads the meta-grammar to the same grammar) is established by execution, not inside Coq.")
CLAIMS["C01"] = dict(
   text="End-to-end compilation-correctness THEOREMS (detailed in the note): for every grammar and generated module that satisfy a decidable "
        "instance condition (evaluated in Coq on the generator model's output, which K-gen ties to the real generator's text) -- "
        "repetitions, gathers, groups, optionals, lookaheads, cuts, forced items, explicit actions, invalid_ rules in the first pass, the "
        "packrat cache; pegen's own metagrammar among the instances -- whatever a rule's method returns or raises as SyntaxError is what "
        "the reference semantics of the SOURCE grammar prescribes, for all token lists, states and fuel. Outside that class (left "
        "recursion, LOCATIONS, bare invalid_ alternatives in the second pass) and as the tie to the code: "
        "reference semantics in Coq (Sem/Peg.v: sequence, ordered choice with commitment, optional, greedy */+, s.e+, &/!, "
        "cut, forced, documented value rule, raising actions) with theorems (Props/C01.v): the relation is FUNCTIONAL (one "
        "outcome per item and position), successful matches never end before they start, and the executable evaluator "
        "Sem/PegEval.v is SOUND for the relation (C01_evaluator_sound, induction on fuel: whatever it returns is derivable, "
        "hence by determinism the only outcome) -- for all grammars, inputs and action interpretations. That evaluator is run "
        "INSIDE Coq on every explored case and must equal the real parser's result (value, tokens consumed, failure, forced "
        "error), so each explored case is a machine-checked instance of 'real parser = reference semantics'; the generator "
        "and runtime models are tied to the code by K-gen (text equality) and K-run (trace equality). Explored: hand-written "
        "shapes (actions in groups, outer actions, && on names, cuts with actions, look-alike groups) and random well-formed "
        "grammars x all token sequences up to length 3-4.",
   design="6/C01", technique="Coq reference semantics (determinism, evaluator soundness) + compilation-correctness theorems (IR interpreter = reference semantics with repetitions and gathers; desugaring relation sound; end-to-end for action-free grammars with a decidable instance condition) + per-case evaluation of the reference inside Coq against the implementation + K-gen/K-run",
   note="Compilation correctness as THEOREMS (Props/C01.v): (1) C01_interpreter_implements_the_reference_semantics_with_repetitions_and_gathers "
        "(Proofs/FlatSem.v, Proofs/IrSem.v): for every IR module whose plain methods are sequences of calls of rule methods, token "
        "primitives, expect(), repetition helpers and gather helpers, under at most one wrapper (optional, lookahead, forced, cut), default "
        "action -- read back as a grammar with the repetitions inline -- whenever the interpreter (cache off, quiet) returns, the reference "
        "semantics derives exactly that value and end position, or failure; all token lists, states and fuel. (2) desugar_sound "
        "(Proofs/Desugar.v): the grammar read back and the SOURCE grammar, related as the generator relates them (groups as helper rules or "
        "inlined single items, repetitions over one-item groups, gathers as helper rules), have the same derivations. (3) "
        "C01_generated_parser_implements_the_source_grammar (Proofs/GenSem.v): for every grammar rs and module M with the DECIDABLE "
        "reads_back_as rs M = true, whenever a rule's method returns, that is what the reference semantics of rs prescribes; the same with "
        "the packrat cache on (via C04 cache transparency), and a SyntaxError raised by the parse is a forced-item error of rs "
        "(C01_syntax_errors_are_forced_errors_of_the_source_grammar, uncached and cached). (4) With EXPLICIT actions "
        "(C01_generated_parser_implements_the_source_grammar_with_explicit_actions): the source semantics' actions interpreted as "
        "Sem/PegEval.v documents (substituted text, documented item names), under two stated hypotheses on the action interpreter "
        "(independence of earlier alternatives' leftover locals; never a falsy value -- the C05 finding), for every module with the "
        "decidable reads_back_with_actions rs M = true (floor of 10 shapes; coverage count in the evidence). (5) Grammars with invalid_ "
        "rules, first pass (C01_first_pass_implements_the_grammar_without_its_invalid_alternatives): composed with C12's stripping "
        "theorem, from a state with error mode off the parser implements the grammar without the alternatives mentioning invalid_ rules "
        "(also with the cache on: C01_cached_first_pass_...); second pass (C01_second_pass_implements_the_full_grammar, via "
        "C12_flag_on_equals_parser_without_guards): with error mode on it implements the full grammar when the invalid_ alternatives "
        "carry their own action (bare ones are emitted with the UNREACHABLE filler). pegen's OWN grammar (src/pegen/metagrammar.gram, "
        "from which grammar_parser.py is generated) satisfies the instance condition of the widest theorem; evaluated on every run "
        "together with the other shipped grammar files (6 of 14 inside). The "
        "condition is evaluated in Coq on the generator model's output for a floor of 21 action-free shapes (must hold) and for every "
        "explored grammar (coverage count in the evidence; all explored action-free random grammars are inside). Partial: "
        "left recursion, the second pass over bare invalid_ alternatives, LOCATIONS, forced items over nullable or forced operands, and the completeness "
        "direction (the parser returns whenever the semantics derives) are not theorems; for those the equality is machine-checked case "
        "by case. Known finding: lookahead over a forced item consumes.")
CLAIMS["C19"] = dict(
   text="Coq theorems (Props/C19.v), both halves. Empty marker: for every grammar, token list, position and action "
        "interpretation, an item (rule) that the reference PEG semantics matches WITHOUT consuming is nullable under every "
        "assignment closed under the equations of the extracted table (induction on PEG derivations), hence -- with the "
        "least-fixed-point theorem of C03 -- flagged nullable, which is when FirstSetCalculator adds ''. First token "
        "(C19_first_token_sound): for every grammar whose lookahead operands are single tokens and every table CLOSED under "
        "the FIRST equations (Analysis/FirstPure.v: per-alternative scan with early stop, negative-lookahead subtraction, "
        "gather separator, evaluated with the analysis' nullable flags), the first token of every consuming match of a rule "
        "is described by a member of the rule's set (induction on PEG derivations, invariant for what negative lookaheads "
        "excluded at the position). Every run evaluates the decidable instance conditions (table conditions, closedness of "
        "the table the REAL calculator computes, class membership) on each explored grammar, ties Analysis/FirstSets.v to "
        "the calculator (K-first), and runs a brute-force first-token oracle on the implementation (all inputs up to length 3).",
   design="6/C19", technique="Coq proofs (empty marker and first-token soundness by induction on PEG derivations; closedness of the computed table by an invariant over the memoizing calculator) + per-grammar instance conditions + brute-force oracle",
   note="Since the end of the third session closedness is a THEOREM too (C19_computed_table_is_closed, Proofs/FirstClosed.v + "
        "FirstClosedInst.v): for every grammar in which no rule reaches itself at one position (a checked rank along the initial "
        "invocations of the analysis: the property's class 'without left recursion'), the table the model of FirstSetCalculator "
        "computes is closed -- entries are never overwritten, a value returned for an item equals the pure value under every table "
        "agreeing with the entries stored so far, the recursion guard is never hit; with C03_item_flags_are_exact for the flags. "
        "C19_computed_first_sets_are_sound composes it with the soundness theorem. The instance conditions (rank from the REAL "
        "first graph, no empty leaf, table conditions) are evaluated per explored grammar; the real table is tied to the model's by "
        "K-first and its closedness is still evaluated directly as well.")
CLAIMS["C07"] = dict(
   text="Partial (clauses ii-iv on the error-construction path this repository owns; clause i -- refuses exactly what the "
        "host interpreter refuses -- cannot be a theorem, see DESIGN.md section 11; it is searched: every explored text that "
        "the generated module accepts is also given to the host's ast.parse, incl. the doctest examples of the host's own "
        "test_syntax.py and the WHOLE single-token edit neighbourhood of one valid program per grammar construct, and a "
        "disagreement is reported with the text). Coq (Props/C07.v, instances of the C14 line "
        "theorems): for every raw stream obeying tokenize's contract, every history and every line range touched by pulled "
        "tokens, fetching the error text does not raise and yields the real lines, identically with and without a path. On "
        "the implementation: token-level deletion/insertion/replacement/duplication edits of the test sources (incl. blank "
        "lines and multi-line tokens inside the range) through the generated module's own parse_string and parse_file: never "
        "an internal exception, line/column inside the text, both entry points identical.",
   design="6/C07", technique="Coq line-table theorems (instances of C14) + token-edit sweep through both entry points + host-agreement search",
   note="Known findings: backslash-only continuation line (KeyError, string mode); bytes/str literal concatenation (TypeError).")
CLAIMS["C09"] = dict(
   text="Coq theorem C09_print_then_read (Props/C09.v), for ALL grammars of the readable shapes (every operator at any "
        "nesting depth, named/typed items, actions, typed/memo rules, both rule layouts): the reference reader "
        "(Meta/Reader.v, the PEG rules of metagrammar.gram transcribed with their cuts and ordered choice) applied to the "
        "token sequence of the full rendering (Meta/PrintToks.v, using Grammar/Printer.v's own space-based layout "
        "decisions) returns exactly rt_grammar g = g plus the parentheses/brackets the printer adds, and strip_rules "
        "(redundant parentheses removed) is unchanged; hypotheses are decidable (Meta/Shape.v) and an Example using every "
        "operator satisfies them; C09_reference_reader_total: the reference reader never runs out of fuel on ANY token sequence, so its Fail is a rejection by the rules. Ties, re-checked every run by evaluation inside Coq: reference reader = shipped "
        "GrammarParser on every explored text and on its rendering (structure incl. names, types, actions, memo, metas); "
        "token printer = real tokens of the real str(); inside the hypotheses the implementation's re-read grammar = "
        "rt_grammar; K-read: the runtime+generator+MiniPy models running metagrammar.gram's IR build the same grammar "
        "value; plus the print/re-read sweep on the implementation (random grammars, layouts, the repository's .gram files).",
   design="6/C09", technique="Coq proof of the printer/reader round trip by induction on the grammar AST + reference-reader and token-printer correspondences evaluated in Coq + round-trip sweep",
   note="The lexical step (text <-> tokens) is the host tokenizer, covered by correspondence, not by the theorem; action "
        "texts with f-strings are outside the theorem's hypotheses. Known findings: duplicate rule definitions silently "
        "dropped (python.gram's `fstring`); NAMEs spelled like layout token kinds confuse the reader in two contrived texts.")
NOT_YET = {}
NOT_APPLICABLE = {
 "C06": "equates the generated parser with CPython's own C parser/ast.parse, for which no executable model exists "
        "or can be written here; comparing two programs on a corpus would be differential testing standing in for a "
        "proof (DESIGN.md section 11)",
}

def main():
    props = [json.loads(l)["id"] for l in open(VERIF / "properties.jsonl")]
    checks = []
    for pid in props:
        if pid in CLAIMS:
            c = CLAIMS[pid]
            checks.append({
                "property_id": pid,
                "quick_cmd": f"./check {pid} --tier quick",
                "thorough_cmd": f"./check {pid} --tier thorough",
                "evidence_file": f"/verif/evidence/{pid}.json",
                "replay_cmd_template": f"./check {pid} --replay {{path}}",
                "engine": "coq-model",
                "level_claimed": {"category": "proof", "text": c["text"], "design_ref": c["design"]},
                "level_note": LEVEL_NOTE + " " + c.get("note", ""),
                "technique": c["technique"],
            })
    na = []
    for pid in props:
        if pid in CLAIMS:
            continue
        reason = NOT_APPLICABLE.get(pid) or NOT_YET.get(pid) or "check not built yet in this development (see DESIGN.md section 10 for the build order)"
        na.append({"property_id": pid, "reason": reason})
    m = {
        "version": 1,
        "setup_cmd": "cd /verif && coq/build.sh",
        "hooks": {"guard": "PEGEN_VERIF", "enable": "none needed: all observation is by wrapping from outside; "
                  "checks run /repo's working tree with PYTHONPATH=/repo/src",
                  "baseline_off_cmd": "cd /verif && /venv/bin/python harness/baseline.py",
                  "source_commits": [], "add_only": True},
        "engines": [{"name": "coq-model", "path": "/verif/coq", "serves_properties": sorted(CLAIMS),
                     "kind_free_text": "Coq 8.16 development (models + theorems) with Python harness for "
                                       "translation of grammars/tables and vm_compute correspondence"}],
        "checks": checks,
        "not_applicable": na,
        "notes": "One entry point: ./check <ID> --tier quick|thorough. fix: commits in /repo and recorded defects are "
                 "listed in /verif/known_findings.json.",
    }
    (VERIF / "MANIFEST.json").write_text(json.dumps(m, indent=1))

if __name__ == "__main__":
    main()
