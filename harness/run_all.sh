#!/bin/bash
# usage: harness/run_all.sh [quick|thorough]   -- every claimed check on /repo's working tree, one line each
tier="${1:-quick}"
cd "$(dirname "$0")/.." || exit 2
rc=0
for id in $(python3 -c "import json; print(' '.join(c['property_id'] for c in json.load(open('MANIFEST.json'))['checks']))"); do
  s=$(date +%s)
  out=$(./check "$id" --tier "$tier" 2>&1); e=$?
  echo "$id exit=$e $(( $(date +%s) - s ))s $(echo "$out" | grep -c '^VIOLATION') violation line(s); $(echo "$out" | tail -1 | cut -c1-140)"
  [ $e -ne 0 ] && rc=1
done
if [ "$tier" = thorough ]; then
  # independent re-check of every compiled file the Props theorems depend on (about 7 minutes); report in coqchk-report.txt
  harness/coqchk.sh > /dev/null 2>&1 && echo "coqchk ok (Axioms: <none>)" || { echo "coqchk FAILED (see coqchk-report.txt)"; rc=1; }
fi
exit $rc
