"""Child process for C10: generate parsers for a list of grammar texts through a given entry point
under the current PYTHONHASHSEED, optionally after generating warm-up grammars in the same
process; prints JSON {index: sha/ text}."""
import hashlib
import io
import json
import os
import sys
import tempfile
import tokenize


def read(text):
    from pegen.grammar_parser import GeneratedParser as GrammarParser
    from pegen.tokenizer import Tokenizer
    tk = Tokenizer(tokenize.generate_tokens(io.StringIO(text).readline))
    return GrammarParser(tk).start()


def via_memory(text):
    from pegen.python_generator import PythonParserGenerator
    g = read(text)
    out = io.StringIO()
    PythonParserGenerator(g, out).generate("<gen>")
    return out.getvalue()


def via_build(text, tmp):
    from pegen.build import build_python_parser_and_generator
    gp, op = os.path.join(tmp, "g.gram"), os.path.join(tmp, "out.py")
    open(gp, "w").write(text)
    build_python_parser_and_generator(gp, op)
    return open(op).read().replace(gp, "<gen>")


def via_cli(text, tmp):
    import pegen.__main__ as M
    gp, op = os.path.join(tmp, "g.gram"), os.path.join(tmp, "out.py")
    open(gp, "w").write(text)
    argv, so = sys.argv, sys.stdout
    sys.argv, sys.stdout = ["pegen", "-q", gp, "-o", op], io.StringIO()
    if os.path.exists(op):
        os.unlink(op)
    from pegen.validator import validate_grammar, ValidationError
    try:
        validate_grammar(read(text))
        valid = True
    except ValidationError:
        valid = False
    se = sys.stderr
    sys.stderr = io.StringIO()
    try:
        M.main()
    except SystemExit:
        # the command line refuses a grammar its validator rejects -- before writing anything
        if not valid and not os.path.exists(op):
            return "REFUSED-BY-VALIDATOR"
        raise
    finally:
        sys.argv, sys.stdout, sys.stderr = argv, so, se
    if not valid:
        return "WROTE-A-PARSER-FOR-A-GRAMMAR-ITS-VALIDATOR-REJECTS\n"
    return open(op).read().replace(gp, "<gen>")


def via_twice(text):
    """generate twice from the SAME Grammar object (and through generate_parser): later outputs must be identical"""
    from pegen.python_generator import PythonParserGenerator
    g = read(text)
    o1 = io.StringIO()
    PythonParserGenerator(g, o1).generate("<gen>")
    o2 = io.StringIO()
    PythonParserGenerator(g, o2).generate("<gen>")
    if o1.getvalue() != o2.getvalue():
        return "DIFFERENT-ON-SECOND-GENERATION\n" + o2.getvalue()
    return o2.getvalue()


def main():
    job = json.load(sys.stdin)
    entry = job["entry"]
    out = {}
    with tempfile.TemporaryDirectory(prefix="pegverif-c10-") as tmp:
        for w in job.get("warmup", []):
            try:
                via_memory(w)
            except Exception:
                pass
        for i, text in enumerate(job["grammars"]):
            try:
                t = {"memory": lambda: via_memory(text), "build": lambda: via_build(text, tmp),
                     "cli": lambda: via_cli(text, tmp), "twice": lambda: via_twice(text)}[entry]()
                out[i] = t
            except SystemExit:
                out[i] = "ERROR SystemExit"
            except BaseException as e:     # noqa
                out[i] = f"ERROR {type(e).__name__}"
    json.dump(out, sys.stdout)


if __name__ == "__main__":
    main()
