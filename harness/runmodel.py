"""K-run: the runtime model (Runtime/Exec.v over the generator model's IR) against the real
generated parser, configuration by configuration, including the per-invocation event trace."""
from __future__ import annotations

import ast
import json
import os
import re
import subprocess
import token as T
import tokenize
from concurrent.futures import ThreadPoolExecutor

import common
from common import cstr, cbool, clist, cnat, cN, copt
import genmodel as gm
import grammar2coq as g2c


def run_traced(jobs: list[dict], chunk: int = 10, timeout: int = 900) -> list[dict]:
    env = dict(os.environ)
    env["PYTHONPATH"] = f"{common.REPO / 'src'}:{common.VERIF / 'harness'}"

    def one(part):
        try:
            p = subprocess.run([common.PY, str(common.VERIF / "harness" / "trace_runner.py")], input=json.dumps(part),
                               capture_output=True, text=True, timeout=timeout * common.TMULT, env=env)
            if p.returncode != 0:
                return [{"runner_error": p.stderr[-500:]} for _ in part]
            return json.loads(p.stdout)
        except subprocess.TimeoutExpired:
            return [{"runner_error": "runner timeout"} for _ in part]
        except json.JSONDecodeError as e:
            return [{"runner_error": f"bad runner output: {e}"} for _ in part]

    parts = [jobs[i:i + chunk] for i in range(0, len(jobs), chunk)]
    out: list[dict] = []
    with ThreadPoolExecutor(max_workers=8) as ex:
        for part, r in zip(parts, ex.map(one, parts)):
            if len(part) > 1 and any("runner_error" in x for x in r):
                # the runner process died on one job: do not lose the others of the chunk
                r = [one([job])[0] for job in part]
            for job, x in zip(part, r):
                common.note_lost(job, x)
            out += r
    return out


# ---------------------------------------------------------------- terms
def kinds_term() -> str:
    names = ["NAME", "NUMBER", "STRING", "OP", "NEWLINE", "INDENT", "DEDENT", "ENDMARKER", "TYPE_COMMENT",
             "FSTRING_START", "FSTRING_MIDDLE", "FSTRING_END", "ASYNC", "AWAIT"]
    return "{| " + "; ".join(f"k{n} := {cN(getattr(T, n, 9999))}" for n in names) + " |}"


def dict_terms() -> tuple[str, str]:
    ex = clist(sorted(T.EXACT_TOKEN_TYPES.items()), lambda kv: f"({cstr(kv[0])}, {cN(kv[1])})")
    td = clist(sorted((k, v) for k, v in T.__dict__.items() if isinstance(v, int) and not isinstance(v, bool)),
               lambda kv: f"({cstr(kv[0])}, {cN(kv[1])})")
    return ex, td


def tok_term(t) -> str:
    ty, s, sl, sc, el, ec, line = t
    return ("{| " + f"ty := {cN(ty)}; tstr := {cstr(s)}; sline := {cnat(sl)}; scol := {cnat(sc)}; eline := {cnat(el)}; "
            f"ecol := {cnat(ec)}; tline := {cstr(line)}; tspace := false" + " |}")


def value_term(v) -> str:
    if v is None:
        return "VNone"
    if v is True:
        return "VTrue"
    if v is False:
        return "VFalse"
    if isinstance(v, int):
        return f"(VInt ({v})%Z)"
    if "s" in v:
        return f"(VStr {cstr(v['s'])})"
    if "t" in v:
        ty, s, l, c = v["t"]
        return ("(VTok {| " + f"ty := {cN(ty)}; tstr := {cstr(s)}; sline := {cnat(l)}; scol := {cnat(c)}; eline := 0%nat; "
                "ecol := 0%nat; tline := \"\"; tspace := false |})")
    if "l" in v:
        return f"(VList {clist(v['l'], value_term)})"
    if "u" in v:
        return f"(VTuple {clist(v['u'], value_term)})"
    if "o" in v:
        return f"(VObj {cstr(v['o'][0])} {clist(v['o'][1:], value_term)})"
    raise ValueError(f"value outside the model: {v}")


def aexp_term(e: ast.expr) -> str:
    if isinstance(e, ast.Name):
        return f"(AName {cstr(e.id)})"
    if isinstance(e, ast.Constant):
        if e.value is None:
            return "ANone"
        if e.value is True:
            return "ATrue"
        if e.value is False:
            return "AFalse"
        if isinstance(e.value, int):
            return f"(AInt ({e.value})%Z)"
        if isinstance(e.value, str):
            return f"(AStr {cstr(e.value)})"
    if isinstance(e, ast.List):
        return f"(AList {clist(e.elts, aexp_term)})"
    if isinstance(e, ast.Tuple):
        return f"(ATuple {clist(e.elts, aexp_term)})"
    if isinstance(e, ast.BinOp) and isinstance(e.op, ast.Add):
        return f"(AAdd {aexp_term(e.left)} {aexp_term(e.right)})"
    if isinstance(e, ast.BoolOp) and len(e.values) == 2:
        return f"({'AOr' if isinstance(e.op, ast.Or) else 'AAnd'} {aexp_term(e.values[0])} {aexp_term(e.values[1])})"
    if isinstance(e, ast.Call) and isinstance(e.func, ast.Name):
        args = list(e.args) + [k.value for k in e.keywords]
        return f"(ACall {cstr(e.func.id)} {clist(args, aexp_term)})"
    if isinstance(e, ast.Attribute):
        return f"(AAttr {aexp_term(e.value)} {cstr(e.attr)})"
    if isinstance(e, ast.Subscript) and isinstance(e.slice, ast.Constant) and isinstance(e.slice.value, int) and e.slice.value >= 0:
        return f"(AIndex {aexp_term(e.value)} {cnat(e.slice.value)})"
    if (isinstance(e, ast.Call) and isinstance(e.func, ast.Attribute) and e.func.attr == "join"
            and isinstance(e.func.value, ast.Constant) and isinstance(e.func.value.value, str) and len(e.args) == 1):
        return f"(AJoin {cstr(e.func.value.value)} {aexp_term(e.args[0])})"
    return "AUnknown"


def action_table(generated_text: str) -> str:
    """every expression the generated module returns / appends, parsed into the model's action language"""
    texts = set()
    for m in re.finditer(r"^\s+return (.*);$", generated_text, re.M):
        texts.add(m.group(1))
    for m in re.finditer(r"^\s+children\.append\((.*)\)$", generated_text, re.M):
        texts.add(m.group(1))
    entries = []
    for t in sorted(texts):
        try:
            tree = ast.parse(t, mode="eval")
            entries.append(f"({cstr(t)}, {aexp_term(tree.body)})")
        except SyntaxError:
            entries.append(f"({cstr(t)}, AUnknown)")
    return "[" + "; ".join(entries) + "]"


PRELUDE = """From Coq Require Import ZArith.
From Pegen Require Import Base.Values Runtime.Tokenizer Sem.Peg Runtime.Exec Runtime.MiniPy Proofs.ExecInv Proofs.LocRun.
Definition KINDS : kinds := %s.
Definition EXACT : list (string * N) := %s.
Definition TDICT : list (string * N) := %s.
Inductive eout := EOk (v : value) | ESyntaxError | EExc (name : string).
Record erun := { e_verbose : bool; e_cache : bool; e_out : eout; e_pos : nat; e_fetched : nat; e_invalid : bool;
                 e_events : list (string * nat * bool * nat * bool) }.
Definition ev_eqb (a : event) (b : string * nat * bool * nat * bool) : bool :=
  let '(n, b0, ok, af, la) := b in
  String.eqb (ev_name a) n && Nat.eqb (ev_before a) b0 && Bool.eqb (ev_ok a) ok && Nat.eqb (ev_after a) af
  && Bool.eqb (ev_lookahead a) la.
Fixpoint list_rel {A B} (f : A -> B -> bool) (l1 : list A) (l2 : list B) : bool :=
  match l1, l2 with [], [] => true | x :: l1', y :: l2' => f x y && list_rel f l1' l2' | _, _ => false end.
Definition out_eqb (o : outcome) (e : eout) : bool :=
  match o, e with
  | Ok v, EOk w => value_eqb v w
  | Raise (XSyntaxError _ _), ESyntaxError => true
  | Raise XStopIteration, EExc n => String.eqb n "StopIteration"
  | Raise (XNameError _), EExc n => String.eqb n "NameError" || String.eqb n "UnboundLocalError" || String.eqb n "TypeError" || String.eqb n "AttributeError"
  | Raise (XAttributeError _), EExc n => String.eqb n "AttributeError"
  | Raise XAssertion, EExc n => String.eqb n "AssertionError"
  | Raise (XUnbound _), EExc n => String.eqb n "UnboundLocalError"
  | _, _ => false
  end.
Definition run_ok (m : ir_module) (tbl : list (string * aexp)) (toks : list rtok) (call_invalid : bool) (e : erun) : bool :=
  let st0 := {| pos := 0; fetched := 0; cache := []; invalid := call_invalid; events := [] |} in
  let '(o, st) := run KINDS toks (e_verbose e) (e_cache e) m (aeval_table tbl) EXACT TDICT 400 "start" st0 in
  out_eqb o (e_out e) && Nat.eqb (pos st) (e_pos e) && Nat.eqb (fetched st) (e_fetched e) &&
  Bool.eqb (invalid st) (e_invalid e) && list_rel ev_eqb (rev (events st)) (e_events e).
(* a case: grammar, fresh id base, action table, call_invalid, [(tokens, runs)] *)
Definition rcase := (grammar * N * list (string * aexp) * bool * list (list rtok * list erun))%%type.
Definition rcase_ok (c : rcase) : bool :=
  let '(g, fresh, tbl, ci, inputs) := c in
  match run_gen g fresh with
  | inl m => forallb (fun tr => forallb (run_ok m tbl (fst tr) ci) (snd tr)) inputs
  | inr _ => false
  end.
(* the decidable hypothesis of the ExecInv/ExecFlag theorems on the module the generator model produces *)
Definition rcase_wf (c : rcase) : bool :=
  let '(g, fresh, tbl, ci, inputs) := c in
  match run_gen g fresh with inl m => ir_wf m | inr _ => true end.
(* the hypotheses of C15_action_receives_the_span_of_the_match on every method whose alternatives ask for LOCATIONS:
   it captures the start position at entry and is not a loop helper *)
Definition rcase_loc (c : rcase) : bool :=
  let '(g, fresh, tbl, ci, inputs) := c in
  match run_gen g fresh with inl m => forallb meth_loc_ok (i_meths m) | inr _ => true end.
Definition rcase_has_loc (c : rcase) : bool :=
  let '(g, fresh, tbl, ci, inputs) := c in
  match run_gen g fresh with inl m => existsb (fun m => existsb a_locations (m_alts m)) (i_meths m) | inr _ => false end.
Fixpoint idx_filter {A} (f : A -> bool) (i : nat) (l : list A) : list nat :=
  match l with [] => [] | x :: l' => if f x then idx_filter f (S i) l' else i :: idx_filter f (S i) l' end.
Definition rcase_diag (c : rcase) : list (nat * list nat) :=
  let '(g, fresh, tbl, ci, inputs) := c in
  match run_gen g fresh with
  | inl m => filter (fun p => negb (match snd p with [] => true | _ => false end))
               (combine (seq 0 (List.length inputs)) (map (fun tr => idx_filter (run_ok m tbl (fst tr) ci) 0 (snd tr)) inputs))
  | inr _ => [(999, [])]
  end.
"""


def diagnose(pid: str, case: str, tokens) -> str:
    """which (input index, run index) of a failing case disagree"""
    d = common.GEN / pid
    f = d / "krun_diag.v"
    f.write_text(prelude(tokens) + f"Definition C : rcase := {case}.\nEval vm_compute in (\"DIAG\", rcase_diag C).\n")
    rc, out = common.coqc(f, timeout=600)
    i = out.find('("DIAG"')
    return " ".join(out[i:].split())[:600] if i >= 0 else out[-600:]


def prelude(tokens: list[str]) -> str:
    ex, td = dict_terms()
    return gm.prelude(tokens) + PRELUDE % (kinds_term(), ex, td)


def erun_term(cfg: str, r: dict) -> str | None:
    if r["kind"] == "ok":
        out = f"(EOk {value_term(r['value'])})"
    elif r["kind"] == "SyntaxError":
        out = "ESyntaxError"
    elif r["kind"] == "exc":
        out = f"(EExc {cstr(r['type'])})"
    else:
        return None          # timeout / recursion / memory: no comparison
    ev = clist(r["events"], lambda e: f"({cstr(e[0])}, {cnat(e[1])}, {cbool(e[2])}, {cnat(e[3])}, {cbool(e[4])})")
    return ("{| " + f"e_verbose := {cbool(cfg[0] == 'v')}; e_cache := {cbool(cfg[1] == '1')}; e_out := {out}; "
            f"e_pos := {cnat(r['mark'])}; e_fetched := {cnat(r['fetched'])}; e_invalid := {cbool(r['invalid_flag'])}; "
            f"e_events := {ev}" + " |}")


def case_term(grammar_text: str, result: dict, call_invalid: bool) -> str | None:
    g = g2c.read_grammar(grammar_text)
    tr = g2c.Translator()
    term = tr.grammar(g)
    fresh = len(tr.ids) + 1000
    inputs = []
    for one in result["results"]:
        runs = [erun_term(cfg, r) for cfg, r in one["runs"].items()]
        runs = [x for x in runs if x is not None]
        if runs:
            inputs.append(f"({clist(one['tokens'], tok_term)}, {clist(runs)})")
    if not inputs:
        return None
    head = f"({term}, {cN(fresh)}, {action_table(result['text'])}, {cbool(call_invalid)}, "
    case = head + clist(inputs) + ")"
    _WF[case] = head + "[])"
    return case


_WF: dict[str, str] = {}      # case term -> the same case with an empty input list


def _strip_inputs(case: str) -> str:
    return _WF.get(case, case)


CASE_T = "rcase"
OK = "rcase_ok"


# ---------------------------------------------------------------- shared driver for the run-based checks
def krun(chk, pid: str, grammar_texts: list[str], inputs_for, configs=("q1",), call_invalid=False, shard=8,
         per_input_limit=0.5, want_cases=True, unreachable=None, extra_preds=()):
    """Runs the real parsers (traced) and, if want_cases, the Coq model on the same cases.
    Returns [(grammar text, runner result)] for the property-specific oracle of the caller."""
    import tables
    from checks.c13 import tokens_set
    d = common.GEN / pid
    d.mkdir(parents=True, exist_ok=True)
    try:
        (d / "Tables.v").write_text(tables.tables_v())
    except tables.ExtractError as e:
        chk.oblige("table extraction", False, str(e))
        return []
    rc, out = common.coqc(d / "Tables.v")
    chk.oblige(f"extracted tables compile (coq/gen/{pid}/Tables.v)", rc == 0, out[-2000:])
    jobs = [{"grammar": t, "inputs": inputs_for(t), "configs": list(configs), "call_invalid": call_invalid,
             "limit": per_input_limit, "unreachable": unreachable} for t in grammar_texts]
    results = run_traced(jobs)
    cases, descs, pairs = [], [], []
    for t, rj in zip(grammar_texts, results):
        if "results" not in rj:
            chk.bump("not runnable: " + (rj.get("build_error") or rj.get("runner_error") or "?").strip().splitlines()[-1][:60])
            continue
        pairs.append((t, rj))
        for one in rj["results"]:
            for cfg, x in one["runs"].items():
                chk.count()
                chk.bump("run:" + x["kind"])
        if want_cases:
            try:
                c = case_term(t, rj, call_invalid)
            except (g2c.Untranslatable, ValueError, SyntaxError):
                chk.bump("untranslatable")
                continue
            if c:
                cases.append(c)
                descs.append(t)
    if want_cases and rc == 0:
        failing = common.run_cases(chk, "krun", prelude(tokens_set()), CASE_T, cases, OK, shard=shard, timeout=1200)
        if failing is not None:
            detail = ""
            if failing:
                detail = json.dumps([{"grammar": descs[i], "disagreeing (input, run) indices": diagnose(pid, cases[i], tokens_set())}
                                     for i in failing[:2]])[:4000]
            chk.oblige(f"correspondence K-run: Runtime/Exec.v over the generator model's IR agrees with the real generated "
                       f"parsers on {len(cases)} grammars x inputs x configurations {list(configs)} (outcome, value, final "
                       "position, tokens fetched, error-mode flag and the whole per-invocation event trace)",
                       not failing, detail)
        # ir_wf looks at the grammar only: the same cases without their (large) input/trace lists
        wf_cases = [_strip_inputs(c) for c in cases]
        nwf = common.run_cases(chk, "kwf", prelude(tokens_set()), CASE_T, wf_cases, "rcase_wf", shard=max(shard, 40), timeout=900)
        if nwf is not None:
            chk.bump("explored grammars whose generated module satisfies ir_wf (hypothesis of the position/flag theorems)",
                     len(cases) - len(nwf))
            chk.bump("explored grammars outside ir_wf (a lookahead directly over a forced item: the recorded C01 finding)", len(nwf))
            krun.not_wf = [descs[i] for i in nwf]
        for nm, pred, text in extra_preds:
            bad = common.run_cases(chk, nm, prelude(tokens_set()), CASE_T, wf_cases, pred, shard=max(shard, 40), timeout=900)
            if bad is not None:
                text(len(wf_cases), [descs[i] for i in bad])
    return pairs


# ---------------------------------------------------------------- hypotheses of the generator theorems on the shipped grammars
def repo_grammar_terms() -> list[tuple[str, str]]:
    """(relative path, Coq term) of every .gram file of the repository the shipped reader accepts"""
    import glob
    out = []
    for p in sorted(glob.glob(str(common.REPO / "**/*.gram"), recursive=True)):
        try:
            g = g2c.read_grammar(open(p).read())
            out.append((os.path.relpath(p, common.REPO), g2c.Translator().grammar(g)))
        except Exception:       # noqa: unreadable files (tabs, other dialects) are not grammars of this tool
            continue
    return out


def shipped_hypothesis(chk, pred: str, theorem: str, meaning: str):
    """instance condition: the decidable hypothesis [pred] of a theorem about the generator holds of every shipped grammar"""
    terms = repo_grammar_terms()
    bad = common.run_cases(chk, "hyp_" + pred, g2c.HEADER + "From Pegen Require Import Proofs.GenRefs Proofs.GenWf Proofs.GenKw.\n",
                           "grammar", [t for _, t in terms], pred, shard=4)
    if bad is not None:
        chk.oblige(f"instance condition of {theorem}: {meaning} -- holds of the {len(terms)} grammar files shipped with the "
                   f"repository (data/python.gram and src/pegen/metagrammar.gram among them), evaluated in Coq ({pred})",
                   not bad, json.dumps([terms[i][0] for i in bad]))
