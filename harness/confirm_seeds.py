"""Confirm sub-agent mutations in scratch worktrees (outside /repo and /verif), then run the registered
checks against each one applied to /repo (undone straight afterwards) and file them under /verif/seeded/.

usage: confirm_seeds.py <src-dir with Cxx.out/> [ID ...]
env: SEED_OFFSET=n (numbering), SEED_SCRATCH=1 (development only: run the checks against a scratch worktree through
PEGEN_REPO instead of applying the patch to /repo, e.g. while a long run is using /repo), SEED_BASE=<commit> (default HEAD)"""
import json, os, shutil, subprocess, sys, pathlib, re

SRC = pathlib.Path(sys.argv[1])
OFFSET = int(os.environ.get("SEED_OFFSET", "0"))     # numbering offset for later rounds
ONLY = set(sys.argv[2:])
VERIF = pathlib.Path("/verif")
SCR = pathlib.Path("/tmp/seedchk")
SCR.mkdir(exist_ok=True)
SCRATCH = os.environ.get("SEED_SCRATCH") == "1"
BASE = os.environ.get("SEED_BASE", "HEAD")
EXTRA = {"C14": ["C14", "C07"], "C07": ["C07", "C14"], "C09": ["C09", "C18"], "C03": ["C03", "C19", "C01", "C10"], "C19": ["C19", "C03"],
         "C11": ["C11", "C10"], "C16": ["C16", "C02", "C10"], "C02": ["C02", "C16", "C03"], "C01": ["C01", "C10", "C04", "C03", "C11", "C15"],
         "C13": ["C13", "C10"], "C04": ["C04", "C03"], "C05": ["C05", "C04", "C02", "C10"], "C15": ["C15", "C10"], "C17": ["C17", "C13", "C10"],
         "C18": ["C18", "C09"], "C12": ["C12", "C10"], "C08": ["C08", "C10"], "C10": ["C10", "C11"]}


def sh(cmd, **kw):
    return subprocess.run(cmd, shell=True, capture_output=True, text=True, **kw)


def confirm(pid, i, patch, demo):
    wt = SCR / f"{pid}-{i}"
    sh(f"git -C /repo worktree remove --force {wt}")
    r = sh(f"git -C /repo worktree add --detach {wt} {BASE}")
    res = {"applies": False}
    try:
        a = sh(f"git -C {wt} apply {patch}")
        if a.returncode != 0:
            a = sh(f"git -C {wt} apply --3way {patch}")
            if a.returncode == 0:
                # keep the rebased form of the patch for later use
                sh(f"git -C {wt} diff HEAD > {patch}.rebased")
                res["rebased"] = True
        res["applies"] = a.returncode == 0
        if not res["applies"]:
            res["apply_error"] = a.stderr[-400:]
            return res
        env = dict(os.environ, PYTHONPATH=f"{wt}/src", PEGEN_REPO=str(wt))
        env.pop("PEGEN_VERIF", None)
        c = sh(f"/venv/bin/python -c 'import pegen, pegen.grammar_parser, pegen.python_generator, pegen.parser, pegen.tokenizer'", env=env, cwd=wt)
        res["imports"] = c.returncode == 0
        b = sh(f"/venv/bin/python {VERIF}/harness/baseline.py", env=env, cwd=wt)
        res["baseline"] = b.stdout.strip().splitlines()[0] if b.stdout.strip() else b.stderr[-300:]
        res["tests_pass"] = b.returncode == 0
        d1 = sh(f"timeout 600 /venv/bin/python {demo}", env=env, cwd=SCR)
        res["demo_with_patch"] = {"exit": d1.returncode, "tail": (d1.stdout + d1.stderr)[-600:]}
        if BASE == "HEAD":
            env0 = dict(env, PYTHONPATH="/repo/src")
        else:
            sh(f"git -C {wt} checkout -- . && git -C {wt} clean -fdq")
            env0 = env
        d0 = sh(f"timeout 600 /venv/bin/python {demo}", env=env0, cwd=SCR)
        res["demo_without_patch"] = {"exit": d0.returncode, "tail": (d0.stdout + d0.stderr)[-300:]}
    finally:
        sh(f"git -C /repo worktree remove --force {wt}")
        shutil.rmtree(wt, ignore_errors=True)
    return res


def detect_scratch(pid, patch):
    """development mode: the checks run against a scratch worktree (PEGEN_REPO), /repo is not touched"""
    out = {}
    wt = SCR / f"det-{pid}"
    sh(f"git -C /repo worktree remove --force {wt}")
    sh(f"git -C /repo worktree add --detach {wt} {BASE}")
    if pathlib.Path(str(patch) + ".rebased").exists():
        patch = pathlib.Path(str(patch) + ".rebased")
    a = sh(f"git -C {wt} apply {patch}")
    if a.returncode:
        a = sh(f"git -C {wt} apply --3way {patch}")
    if a.returncode:
        sh(f"git -C /repo worktree remove --force {wt}")
        return {"error": a.stderr}
    env = dict(os.environ, PEGEN_REPO=str(wt), PYTHONPATH=f"{wt}/src:{VERIF}/harness", PYTHONHASHSEED="0", PYTHONDONTWRITEBYTECODE="1",
               VERIF_EVIDENCE_DIR=f"/tmp/seedchk/ev-{pid}")
    try:
        for cid in EXTRA.get(pid, [pid]):
            r = sh(f"/venv/bin/python harness/run_check.py {cid} --tier quick", cwd=VERIF, env=env)
            lines = [l[:300] for l in r.stdout.splitlines() if re.match(r"VIOLATION|KNOWN-FINDING|\[C", l)]
            out[cid] = {"exit": r.returncode, "lines": lines[:6]}
    finally:
        sh(f"git -C /repo worktree remove --force {wt}")
        shutil.rmtree(wt, ignore_errors=True)
    return out


def detect(pid, patch):
    if SCRATCH:
        return detect_scratch(pid, patch)
    out = {}
    assert sh("git -C /repo status --short").stdout.strip() == "", "repo not clean"
    if pathlib.Path(str(patch) + ".rebased").exists():
        patch = pathlib.Path(str(patch) + ".rebased")
    a = sh(f"git -C /repo apply {patch}")
    if a.returncode:
        return {"error": a.stderr}
    save = pathlib.Path("/tmp/seedchk/evsave")
    save.mkdir(exist_ok=True)
    for f in (VERIF / "evidence").glob("*.json"):
        shutil.copy(f, save / f.name)
    try:
        for cid in EXTRA.get(pid, [pid]):
            r = sh(f"./check {cid} --tier quick", cwd=VERIF)
            lines = [l[:300] for l in r.stdout.splitlines() if re.match(r"VIOLATION|KNOWN-FINDING|\[C", l)]
            out[cid] = {"exit": r.returncode, "lines": lines[:6]}
    finally:
        sh("git -C /repo checkout -- .")
        for f in save.glob("*.json"):
            shutil.copy(f, VERIF / "evidence" / f.name)
    return out


for od in sorted(SRC.glob("C*.out")):
    pid = od.name[:3]
    if ONLY and pid not in ONLY:
        continue
    for i in (1, 2):
        patch, demo, meta = od / f"patch{i}.diff", od / f"demo{i}.py", od / f"meta{i}.json"
        if not patch.exists():
            continue
        res = confirm(pid, i, patch, demo)
        ok = res.get("applies") and res.get("imports") and res.get("tests_pass") and \
            res["demo_with_patch"]["exit"] != 0 and res["demo_without_patch"]["exit"] == 0
        print(pid, i, "CONFIRMED" if ok else "REJECTED", json.dumps(res)[:300], flush=True)
        det = detect(pid, patch) if ok else {}
        caught = [c for c, v in det.items() if v.get("exit") == 1 and any(l.startswith("VIOLATION") for l in v["lines"])]
        print("   detected by:", caught, flush=True)
        n = i + OFFSET
        dst = VERIF / "seeded" / f"{pid}-{n}"
        if not ok:
            (VERIF / "seeded" / f"rejected-{pid}-{n}.json").write_text(json.dumps(res, indent=1))
            continue
        dst.mkdir(parents=True, exist_ok=True)
        rb = pathlib.Path(str(patch) + ".rebased")
        shutil.copy(rb if rb.exists() else patch, dst / "patch.diff")
        shutil.copy(demo, dst / "demo.py")
        m = json.loads(meta.read_text()) if meta.exists() else {}
        m.update({"id": f"{pid}-{n}", "confirmed": res, "checks_run": det, "detected_by": caught,
                  "how_to_replay": f"git -C /repo apply /verif/seeded/{pid}-{n}/patch.diff && (cd /verif && ./check {pid}); git -C /repo checkout -- ."})
        (dst / "meta.json").write_text(json.dumps(m, indent=1))
