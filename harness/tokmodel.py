"""K-tok: drive the real pegen Tokenizer with operation sequences and print Coq cases for the model."""
from __future__ import annotations

import io
import os
import tempfile
import token as T
import tokenize

from common import cstr, cbool, clist, cnat, cN

from pegen.tokenizer import Tokenizer

CONSTS = {"cNL": tokenize.NL, "cCOMMENT": tokenize.COMMENT, "cERRORTOKEN": T.ERRORTOKEN,
          "cNEWLINE": T.NEWLINE, "cENDMARKER": T.ENDMARKER, "cDEDENT": T.DEDENT}


def consts_term() -> str:
    return "{| " + "; ".join(f"{k} := {cN(v)}" for k, v in CONSTS.items()) + " |}"


SNIPPETS = [
    "x = 1\n",
    "x = (1,\n\n 2) 3\n",
    "# leading comment\n\nif x:\n    y = 2  # trailing\n\n    z\nw\n",
    "a = '''m\nn\no''' + 1\nb\n",
    "a = 1 + \\\n  2\n\n\nb\n",
    "def f(a, b):\n\n    # c\n    return (a +\n\n            b)\n\nf(1, 2)\n",
    "if a:\n  if b:\n    c\n  d\ne\n",
    "x\n\n\n\ny\n",
    "[\n1,\n# c\n2\n]\n",
    "",
    "\n",
    "x = 'a' 'b'\n\n",
    "for i in y:\n\tpass\n",
    "x = 1 + \\\n\\\n 2 3\n",
    # characters at which str.splitlines() splits but which do not end a physical line
    "x = \"a\x0cb\"\ny = 1\n",
    "s = '''p\x1cq\nr\x85s\n''' + t\nu\n",
    "z = 1  # c\u2028d\nw\n",
]


def raw_tokens(src: str) -> list[tokenize.TokenInfo]:
    out = []
    try:
        for t in tokenize.generate_tokens(io.StringIO(src).readline):
            out.append(t)
    except (tokenize.TokenError, IndentationError, SyntaxError):
        pass
    return out


def synthetic_stream(r, n: int) -> tuple[list[tokenize.TokenInfo], str]:
    """Arbitrary token kinds (incl. whitespace ERRORTOKENs, runs of NEWLINE) over a fake text."""
    kinds = [T.NAME, T.NUMBER, T.OP, T.NEWLINE, T.NEWLINE, tokenize.NL, tokenize.COMMENT, T.ERRORTOKEN,
             T.INDENT, T.DEDENT, T.STRING]
    toks, line, col = [], 1, 0
    nlines = max(2, n // 2 + 2)
    text_lines = [f"line{ i + 1 } x y z\n" for i in range(nlines + 3)]
    for _ in range(n):
        k = r.choice(kinds)
        if k == T.ERRORTOKEN:
            # whitespace of every kind str.isspace() knows (dropped), and visible error tokens (kept)
            s = r.choice([" ", "\t", "\x0c", "  ", " \t", "\t\x0c ", "\x0b", "$", "?", " $", "\u00a0"])
        elif k in (T.NEWLINE, tokenize.NL):
            s = "\n"
        elif k == tokenize.COMMENT:
            s = "# c"
        elif k == T.STRING and r.random() < 0.4 and line + 2 < nlines:
            s = "'''a\nb\nc'''"
        else:
            s = r.choice(["x", "1", "+", "y", ""])
        span = s.count("\n") if k == T.STRING else 0
        start = (line, col)
        end = (line + span, col + len(s) if not span else 3)
        ltxt = "".join(text_lines[line - 1: line + span])
        toks.append(tokenize.TokenInfo(k, s, start, end, ltxt))
        col += max(len(s), 1)
        if span:
            line += span
        if k in (T.NEWLINE, tokenize.NL):
            # only a NEWLINE/NL token ends a physical line (tokenize's contract: every line is touched by a token)
            line += 1 if line + 1 < nlines else 0
            col = 0
    if col > 0:      # terminate the last physical line, as tokenize does
        toks.append(tokenize.TokenInfo(T.NEWLINE, "", (line, col), (line, col + 1), text_lines[line - 1]))
        line += 1
    toks.append(tokenize.TokenInfo(T.ENDMARKER, "", (line, 0), (line, 0), ""))
    return toks, "".join(text_lines[:line - 1])


class CountingIter:
    def __init__(self, toks):
        self.it = iter(toks)
        self.count = 0

    def __iter__(self):
        return self

    def __next__(self):
        t = next(self.it)
        self.count += 1
        return t


def tok_term(t: tokenize.TokenInfo) -> str:
    if "\r" in t.line:
        raise ValueError("carriage return: outside the model")
    return ("{| " + f"ty := {cN(t.type)}; tstr := {cstr(t.string)}; sline := {cnat(t.start[0])}; "
            f"scol := {cnat(t.start[1])}; eline := {cnat(t.end[0])}; ecol := {cnat(t.end[1])}; "
            f"tline := {cstr(t.line)}; tspace := {cbool(t.string.isspace())}" + " |}")


def op_term(o) -> str:
    k = o[0]
    if k == "reset":
        return f"(Reset {cnat(o[1])})"
    if k == "lines":
        return f"(GetLines {clist(o[1], cnat)})"
    return {"peek": "Peek", "getnext": "GetNext", "mark": "Mark", "diagnose": "Diagnose", "lastnonws": "LastNonWs"}[k]


def random_ops(r, n: int, maxline: int) -> list[tuple]:
    ops = []
    for _ in range(n):
        c = r.random()
        if c < 0.25:
            ops.append(("peek",))
        elif c < 0.55:
            ops.append(("getnext",))
        elif c < 0.62:
            ops.append(("mark",))
        elif c < 0.78:
            ops.append(("reset", r.randint(0, 8)))
        elif c < 0.86:
            ops.append(("diagnose",))
        elif c < 0.92:
            ops.append(("lastnonws",))
        else:
            a = r.randint(0, maxline)
            b = r.randint(a, min(maxline + 1, a + 3))
            ops.append(("lines", list(range(a, b + 1))))
    return ops


def nl_lines(text: str) -> list[str]:
    """physical lines: split after every "\\n" only (str.splitlines also splits at form feeds etc.)"""
    parts = text.split("\n")
    return [p + "\n" for p in parts[:-1]] + ([parts[-1]] if parts[-1] else [])


def run_real(raw, ops, path_text: str | None, verbose: bool = False):
    """Returns (outs, final) where outs are canonical descriptions."""
    if verbose:         # the trace goes to stdout: swallow it
        import contextlib, io as _io
        with contextlib.redirect_stdout(_io.StringIO()):
            return _run_real(raw, ops, path_text, True)
    return _run_real(raw, ops, path_text, False)


def _run_real(raw, ops, path_text, verbose):
    it = CountingIter(raw)
    tmp = None
    try:
        if path_text is not None:
            fd, tmp = tempfile.mkstemp(prefix="pegverif-tok-", suffix=".txt")
            with os.fdopen(fd, "w") as f:
                f.write(path_text)
            tk = Tokenizer(it, path=tmp, verbose=verbose)
        else:
            tk = Tokenizer(it, verbose=verbose)
        outs = []
        pulled_after = []
        pulled_at_start = it.count
        index_of = {id(t): i for i, t in enumerate(raw)}
        for o in ops:
            try:
                if o[0] == "peek":
                    res = ("tok", index_of[id(tk.peek())])
                elif o[0] == "getnext":
                    res = ("tok", index_of[id(tk.getnext())])
                elif o[0] == "mark":
                    res = ("nat", tk.mark())
                elif o[0] == "reset":
                    tk.reset(o[1])
                    res = ("none",)
                elif o[0] == "diagnose":
                    res = ("tok", index_of[id(tk.diagnose())])
                elif o[0] == "lastnonws":
                    res = ("tok", index_of[id(tk.get_last_non_whitespace_token())])
                else:
                    res = ("lines", tk.get_lines(list(o[1])))
            except StopIteration:
                res = ("stop",)
            except AssertionError:
                res = ("assert",)
            except KeyError:
                res = ("keyerror",)
            except UnboundLocalError:
                res = ("unbound",)
            except IndexError:
                res = ("indexerror",)
            except OSError:
                res = ("ioerror",)
            outs.append(res)
            pulled_after.append(it.count)
        final = (tk._index, len(tk._tokens), it.count, list(tk._lines.items()))
        run_real.pulled_after = pulled_after
        run_real.pulled_at_start = pulled_at_start
        return outs, final
    finally:
        if tmp:
            os.unlink(tmp)


def out_term(res) -> str:
    k = res[0]
    if k == "tok":
        return f"(ETok {cnat(res[1])})"
    if k == "nat":
        return f"(ENat {cnat(res[1])})"
    if k == "lines":
        return f"(ELines {clist(res[1], cstr)})"
    return {"none": "ENone", "stop": "EStop", "assert": "EAssert", "keyerror": "EKeyError", "unbound": "EUnbound",
            "indexerror": "EIndexError", "ioerror": "EIOError"}[k]


PRELUDE = """From Coq Require Import List String NArith Bool Arith.
From Pegen Require Import Base.StrUtil Runtime.Tokenizer.
Import ListNotations.
Open Scope string_scope.
Inductive eout := ETok (k : nat) | ENat (n : nat) | ENone | ELines (l : list string)
  | EStop | EAssert | EKeyError | EUnbound | EIndexError | EIOError.
Definition rtok_eqb (a b : rtok) : bool :=
  N.eqb (ty a) (ty b) && String.eqb (tstr a) (tstr b) && Nat.eqb (sline a) (sline b) && Nat.eqb (scol a) (scol b)
  && Nat.eqb (eline a) (eline b) && Nat.eqb (ecol a) (ecol b) && String.eqb (tline a) (tline b).
Definition out_ok (raw : list rtok) (o : out) (e : eout) : bool :=
  match o, e with
  | OTok t, ETok k => match nth_error raw k with Some t' => rtok_eqb t t' | None => false end
  | ONat n, ENat m => Nat.eqb n m
  | ONone, ENone => true
  | OLines l, ELines l' => strs_eqb l l'
  | OStop, EStop | OAssert, EAssert | OKeyError, EKeyError | OUnbound, EUnbound
  | OIndexError, EIndexError | OIOError, EIOError => true
  | _, _ => false
  end.
Fixpoint outs_ok raw (os : list out) (es : list eout) : bool :=
  match os, es with
  | [], [] => true
  | o :: os', e :: es' => out_ok raw o e && outs_ok raw os' es'
  | _, _ => false
  end.
Definition CONSTS : tokconsts := %s.
Definition tcase := (list rtok * bool * list string * list op * list eout * (nat * nat * nat * list (nat * string)))%%type.
"""
OK = ("fun c => let '(raw, hp, fl, ops, es, fin) := c in "
      "let '(st, os) := run CONSTS hp fl (init raw) ops in "
      "let '(fi, fn, fp, fls) := fin in "
      "outs_ok raw os es && Nat.eqb (idx st) fi && Nat.eqb (List.length (toks st)) fn && Nat.eqb (pulled st) fp "
      "&& list_eqb (pair_eqb Nat.eqb String.eqb) (lines st) fls")


def case_term(raw, ops, path_text, outs, final) -> str:
    fl = nl_lines(path_text) if path_text is not None else []
    fi, fn, fp, fls = final
    return (f"({clist(raw, tok_term)}, {cbool(path_text is not None)}, {clist(fl, cstr)}, "
            f"{clist(ops, op_term)}, {clist(outs, out_term)}, "
            f"({cnat(fi)}, {cnat(fn)}, {cnat(fp)}, {clist(fls, lambda kv: f'({cnat(kv[0])}, {cstr(kv[1])})')}))")
