#!/bin/sh
# Independent re-check of the compiled development (all Props modules and everything they depend on) with coqchk;
# prints the context summary (axioms, type-in-type, unsafe fixpoints, assumed positivity).  About 7 minutes.
# Usage: harness/coqchk.sh  -> writes coqchk-report.txt in /verif, exit 0 iff coqchk succeeds and reports "Axioms: <none>".
cd "$(dirname "$0")/../coq" || exit 2
./build.sh >/dev/null 2>&1 || { echo "build failed"; exit 2; }
mods=$(ls theories/Props/*.v | sed 's#theories/#Pegen.#; s#/#.#g; s#\.v$##' | tr '\n' ' ')
out=../coqchk-report.txt
{ echo "coqchk -silent -o -Q theories Pegen $mods"; coqc --version | head -1; } > "$out"
timeout 3000 coqchk -silent -o -Q theories Pegen $mods >> "$out" 2>&1
rc=$?
echo "exit=$rc" >> "$out"
tail -14 "$out"
[ $rc -eq 0 ] && grep -q "Axioms: <none>" "$out"
