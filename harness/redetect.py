"""Re-run the registered checks against seeded changes already filed under /verif/seeded (patch applied to /repo and
undone straight afterwards) and refresh detected_by / checks_run in their meta.json.

usage: redetect.py <seed-id> ...      e.g. redetect.py C01-7 C13-8
env REDETECT_SCRATCH=1: development only -- the checks run against a scratch worktree (PEGEN_REPO) while /repo is busy; nothing
is written to meta.json or the evidence directory (the authoritative pass is the one that applies the patch to /repo)"""
import json, pathlib, re, shutil, subprocess, sys

VERIF = pathlib.Path("/verif")
import os
FIRST_ONLY = os.environ.get("REDETECT_FIRST_ONLY") == "1"
EXTRA = {"C14": ["C14", "C07"], "C07": ["C07", "C14", "C10"], "C09": ["C09", "C18"], "C03": ["C03", "C19", "C01", "C10"], "C19": ["C19", "C03"],
         "C11": ["C11", "C10"], "C16": ["C16", "C02", "C10"], "C02": ["C02", "C16", "C03"], "C01": ["C01", "C10", "C11", "C15"],
         "C13": ["C13", "C10"], "C04": ["C04", "C03"], "C05": ["C05", "C11", "C14"], "C15": ["C15", "C10"], "C17": ["C17", "C13", "C10"],
         "C18": ["C18", "C09"], "C12": ["C12", "C10"], "C08": ["C08", "C10"], "C10": ["C10", "C11"]}


def sh(cmd, **kw):
    return subprocess.run(cmd, shell=True, capture_output=True, text=True, **kw)


SCRATCH = os.environ.get("REDETECT_SCRATCH") == "1"
if SCRATCH:
    WT = pathlib.Path(f"/tmp/seedchk/rd-{os.getpid()}")
    sh(f"git -C /repo worktree add --detach {WT} HEAD")
    ENV = dict(os.environ, PEGEN_REPO=str(WT), PYTHONPATH=f"{WT}/src:{VERIF}/harness", PYTHONHASHSEED="0", PYTHONDONTWRITEBYTECODE="1",
               VERIF_EVIDENCE_DIR=f"/tmp/seedchk/ev-rd-{os.getpid()}")
    for sid in sys.argv[1:]:
        d = VERIF / "seeded" / sid
        pid = sid[:3]
        sh(f"git -C {WT} reset -q --hard HEAD")
        a = sh(f"git -C {WT} apply {d / 'patch.diff'}")
        if a.returncode:
            print(sid, "PATCH DOES NOT APPLY", a.stderr[-200:], flush=True)
            continue
        caught = []
        out = {}
        for cid in EXTRA.get(pid, [pid]):
            r = sh(f"/venv/bin/python harness/run_check.py {cid} --tier quick", cwd=VERIF, env=ENV)
            lines = [l[:300] for l in r.stdout.splitlines() if re.match(r"VIOLATION|KNOWN-FINDING|\[C", l)]
            out[cid] = {"exit": r.returncode, "lines": lines[:6]}
            if r.returncode == 1 and "VIOLATION" in r.stdout:
                caught.append(cid)
                break
        if os.environ.get("REDETECT_SCRATCH_WRITE") == "1":
            m = json.loads((d / "meta.json").read_text())
            m["checks_run"] = out
            m["detected_by"] = caught
            m["applied_in"] = "scratch worktree of /repo HEAD (PEGEN_REPO), same checks"
            (d / "meta.json").write_text(json.dumps(m, indent=1))
        print(sid, "detected by (scratch):", caught, flush=True)
    sh(f"git -C /repo worktree remove --force {WT}")
    sys.exit(0)

for sid in sys.argv[1:]:
    d = VERIF / "seeded" / sid
    pid = sid[:3]
    assert sh("git -C /repo status --short").stdout.strip() == "", "repo not clean"
    a = sh(f"git -C /repo apply {d / 'patch.diff'}")
    if a.returncode:
        a = sh(f"git -C /repo apply --3way {d / 'patch.diff'}")
    if a.returncode:
        print(sid, "PATCH DOES NOT APPLY", a.stderr[-200:])
        sh("git -C /repo reset -q --hard HEAD")
        continue
    save = pathlib.Path("/tmp/seedchk/evsave")
    save.mkdir(parents=True, exist_ok=True)
    for f in (VERIF / "evidence").glob("*.json"):
        shutil.copy(f, save / f.name)
    out = {}
    try:
        for cid in EXTRA.get(pid, [pid]):
            r = sh(f"./check {cid} --tier quick", cwd=VERIF)
            lines = [l[:300] for l in r.stdout.splitlines() if re.match(r"VIOLATION|KNOWN-FINDING|\[C", l)]
            out[cid] = {"exit": r.returncode, "lines": lines[:6]}
            if FIRST_ONLY and r.returncode == 1 and any(l.startswith("VIOLATION") for l in lines):
                break           # a full pass over every seed: the first check that catches it is enough
    finally:
        sh("git -C /repo reset -q --hard HEAD")
        for f in save.glob("*.json"):
            shutil.copy(f, VERIF / "evidence" / f.name)
    caught = [c for c, v in out.items() if v.get("exit") == 1 and any(l.startswith("VIOLATION") for l in v["lines"])]
    m = json.loads((d / "meta.json").read_text())
    m["checks_run"] = out
    m["detected_by"] = caught
    (d / "meta.json").write_text(json.dumps(m, indent=1))
    print(sid, "detected by:", caught, flush=True)
