"""Shared helpers for the analysis checks (C03, C19, C10, C16): run the real analysis on a grammar
(text, rule order) and produce model cases; an independent reference of the property."""
from __future__ import annotations

import io
import itertools
import re

import grammar2coq as g2c
from common import cstr, clist, cN

from pegen import grammar as G
from pegen.python_generator import PythonParserGenerator


def permuted(text: str, order: list[int] | None):
    """Fresh Grammar objects for `text`, rules in the given order."""
    g = g2c.read_grammar(text)
    if order is not None:
        rules = list(g.rules.values())
        g = G.Grammar([rules[i] for i in order], list(g.metas.items()))
    return g


def all_named_items(g):
    out = []

    def item(it):
        t = type(it)
        if t is G.Group:
            rhs(it.rhs)
        elif t in (G.Opt, G.Repeat0, G.Repeat1, G.PositiveLookahead, G.NegativeLookahead, G.Forced):
            item(it.node)
        elif t is G.Gather:
            item(it.separator)
            item(it.node)
        elif t is G.Rhs:
            rhs(it)

    def rhs(r):
        for a in r.alts:
            for n in a.items:
                out.append(n)
                item(n.item)
    for r in g.rules.values():
        rhs(r.rhs)
    return out


def real_analysis(g):
    """-> dict(kind='ok', nullable=[..], item_nullable=[ids via translator], graph=..., left_rec, leaders) |
    dict(kind='ValueError') | dict(kind='GrammarError', msg)"""
    tr = g2c.Translator()
    term = tr.grammar(g)          # assigns ids before the analysis mutates flags (ids are by identity)
    try:
        gen = PythonParserGenerator(g, io.StringIO())
    except G.GrammarError as e:
        return term, {"kind": "GrammarError", "msg": str(e)}
    except ValueError as e:
        return term, {"kind": "ValueError"}
    rules = g.rules
    res = {"kind": "ok",
           "nullable": sorted(n for n, r in rules.items() if r.nullable),
           "item_nullable": sorted(tr.ids[id(n)] for n in all_named_items(g) if n.nullable and id(n) in tr.ids),
           "graph": {k: sorted(v) for k, v in gen.first_graph.items()},
           "sccs": [sorted(c) for c in gen.first_sccs],            # in the order sccutils yielded them
           "left_rec": sorted(n for n, r in rules.items() if r.left_recursive),
           "leaders": sorted(n for n, r in rules.items() if r.leader)}
    return term, res


def alphabet(text: str) -> list[str]:
    lits = sorted(set(m[1:-1] for m in re.findall(r"'[^'\n]*'|\"[^\"\n]*\"", text)))
    toks = [l for l in lits if l and " " not in l]
    if re.search(r"\bNAME\b", text):
        toks.append("x")
    if re.search(r"\bNUMBER\b", text):
        toks.append("1")
    extra = []
    if re.search(r"\bSTRING\b", text):
        extra.append("'s'")
    if re.search(r"\bOP\b", text):
        extra.append("@")
    if not toks:
        toks = ["x"]
    return toks[:6] + extra + ["zz"]           # plus one foreign token


def inputs_upto(alpha: list[str], n: int, cap: int = 400) -> list[str]:
    out = ["\n"]
    for k in range(1, n + 1):
        for combo in itertools.product(alpha, repeat=k):
            out.append(" ".join(combo) + "\n")
            if len(out) >= cap:
                return out
    return out


def ranks_from_graph(graph: dict) -> dict:
    """longest-path depth in the real first graph: a witness for the verified rank checkers (term_verdict of C03,
    acyclic_b of C19); 0 where a cycle would be met.  The witness is checked inside Coq, never trusted."""
    memo: dict = {}

    def rk(n, stack):
        if n in memo:
            return memo[n]
        if n in stack:
            return 0
        v = 1 + max([rk(m, stack | {n}) for m in graph.get(n, []) if m in graph] + [-1])
        memo[n] = v
        return v
    return {n: rk(n, frozenset()) for n in graph}
