#!/bin/bash
# usage: harness/try_seed.sh <patch.diff> <ID> [<ID>...]  -- apply to /repo, run the quick checks, undo
patch="$1"; shift
cd /repo || exit 2
git apply "$patch" || { echo "PATCH DOES NOT APPLY"; exit 2; }
cd /verif
mkdir -p /tmp/w/evsave && cp -f evidence/*.json /tmp/w/evsave/ 2>/dev/null
for id in "$@"; do
  ./check "$id" --tier quick 2>&1 | grep -v conda | grep -E "VIOLATION|KNOWN|^\[" | cut -c1-220 | head -6
done
git -C /repo checkout -- . ; git -C /repo status --short
cp -f /tmp/w/evsave/*.json evidence/ 2>/dev/null
