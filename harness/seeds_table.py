"""Regenerate the table of seeded changes in DESIGN.md (section 12.7) from /verif/seeded/*/meta.json."""
import json, pathlib, re

V = pathlib.Path("/verif")
rows = []
def key(p):
    m = re.match(r"C(\d+)-(\d+)$", p.name)
    return (int(m.group(1)), int(m.group(2)))
for d in sorted([x for x in (V / "seeded").iterdir() if x.is_dir() and re.match(r"C\d+-\d+$", x.name)], key=key):
    m = json.loads((d / "meta.json").read_text())
    det = []
    for c in m.get("detected_by", []):
        lines = m.get("checks_run", {}).get(c, {}).get("lines", [])
        viol = [l for l in lines if l.startswith("VIOLATION")]
        nf = viol and all(l.rstrip().endswith("no-failing-input-found") for l in viol)
        det.append(c + (" (no-failing-input-found)" if nf else ""))
    summ = " ".join(m.get("summary", "").split())[:200].replace("|", "/")
    rows.append(f"| `{d.name}` | {summ} | {', '.join(det) if det else 'NOT DETECTED'} |")
table = "| seeded change | what it does | caught by (quick tier) |\n|---|---|---|\n" + "\n".join(rows) + "\n"
p = V / "DESIGN.md"
s = p.read_text()
a = s.index("| seeded change | what it does | caught by (quick tier) |")
b = s.index("\n\n", s.index("| `C19-", a))
s = s[:a] + table.rstrip("\n") + s[b:]
p.write_text(s)
n = len(rows)
print(n, "seeded changes;", sum(1 for r in rows if "NOT DETECTED" not in r), "detected")
