"""Structured random grammar-text generator (one PRNG, seeded by VERIF_SEED via common.rng)."""
from __future__ import annotations

import random
from dataclasses import dataclass, field


@dataclass
class Knobs:
    rules: tuple[int, int] = (1, 4)
    alts: tuple[int, int] = (1, 3)
    items: tuple[int, int] = (1, 3)
    depth: int = 2
    terminals: tuple[str, ...] = ("NAME", "NUMBER", "'+'", "'-'", "','", "'('", "')'", "'if'", '"in"',
                                  "NEWLINE")
    names: bool = True          # named items
    actions: bool = True
    lookahead: bool = True
    cut: bool = True
    forced: bool = True
    gather: bool = True
    repeat: bool = True
    opt: bool = True
    group: bool = True
    invalid: bool = False       # invalid_* rule names
    left_rec: bool = False      # allow rule references in first position freely
    extra_rule_names: tuple[str, ...] = ()
    p_ref: float = 0.3
    typed: bool = False
    memo: bool = False
    action_pool: tuple[str, ...] = ()
    lookahead_terminals_only: bool = False
    nullable_loops: bool = True
    forward_refs_only: bool = False   # a rule refers to later rules only (no recursion at all)


RULE_NAMES = ["start", "a", "b", "c", "d", "e"]


class GrammarGen:
    def __init__(self, r: random.Random, k: Knobs):
        self.r = r
        self.k = k
        self.names: list[str] = []
        self.cur = 0

    def solid(self, depth: int, first: bool) -> str:
        """an atom for a repetition body: when nullable loops are excluded, a terminal or a group that starts with one"""
        if self.k.nullable_loops:
            return self.atom(depth, first)
        t = self.r.choice([t for t in self.k.terminals if t[-1] not in "?*+"])
        return t if self.r.random() < 0.5 or depth <= 0 else "(" + t + " " + self.alt(depth - 1, False, False) + ")"

    def atom(self, depth: int, first: bool) -> str:
        r, k = self.r, self.k
        choices = ["term"] * 4
        if depth > 0 and k.group:
            choices += ["group"] * 2
        if self.names and (k.left_rec or not first):
            choices += ["ref"] * 3
        c = r.choice(choices)
        if c == "term":
            t = r.choice(k.terminals)
            return f"({t})" if t[-1] in "?*+" else t
        if c == "ref":
            pool = self.names[self.cur + 1:] if k.forward_refs_only else self.names
            return r.choice(pool) if pool else r.choice([t for t in k.terminals if t[-1] not in "?*+"])
        return "(" + self.alts(depth - 1, first, top=False) + ")"

    def item(self, depth: int, first: bool) -> str:
        r, k = self.r, self.k
        ops = ["plain"] * 6
        if k.opt:
            ops += ["opt", "optb"]
        if k.repeat:
            ops += ["star", "plus"]
        if k.gather:
            ops += ["gather"]
        if k.lookahead:
            ops += ["pos", "neg"]
        if k.forced:
            ops += ["forced"]
        if k.cut and not first:
            ops += ["cut"]
        op = r.choice(ops)
        if op == "plain":
            core = self.atom(depth, first)
        elif op == "opt":
            core = self.atom(depth, first) + "?"
        elif op == "optb":
            core = "[" + self.alts(max(depth - 1, 0), first, top=False) + "]"
        elif op == "star":
            core = self.solid(depth, first) + "*"
        elif op == "plus":
            core = self.solid(depth, first) + "+"
        elif op == "gather":
            core = self.atom(0, False if not k.left_rec else first) + "." + self.solid(depth, first) + "+"
        elif op == "pos":
            return "&" + (r.choice([t for t in k.terminals if t[-1] not in "?*"]) if k.lookahead_terminals_only else self.atom(depth, first))
        elif op == "neg":
            return "!" + (r.choice([t for t in k.terminals if t[-1] not in "?*"]) if k.lookahead_terminals_only else self.atom(depth, first))
        elif op == "forced":
            return "&&" + self.atom(depth, first)
        else:
            return "~"
        if k.names and r.random() < 0.3:
            nm = r.choice(["x", "y", "z", "a", "elem"])
            ty = "[int]" if (k.typed and r.random() < 0.3) else ""
            return f"{nm}{ty}={core}"
        return core

    def alt(self, depth: int, first: bool, top: bool) -> str:
        r, k = self.r, self.k
        n = r.randint(*k.items)
        items = []
        for i in range(n):
            items.append(self.item(depth, first and i == 0))
        s = " ".join(items)
        if k.actions and r.random() < (0.35 if top else 0.15):
            pool = k.action_pool or ("x", "[x, y]", "(x, 1)", "'lit'", "None", "foo(x)", "x or y",
                                     "mk(LOCATIONS)", "UNREACHABLE")
            s += " { " + r.choice(pool) + " }"
        return s

    def alts(self, depth: int, first: bool, top: bool) -> str:
        n = self.r.randint(*self.k.alts)
        return " | ".join(self.alt(depth, first, top) for _ in range(n))

    def grammar(self) -> str:
        r, k = self.r, self.k
        n = r.randint(*k.rules)
        self.names = RULE_NAMES[:n] + list(k.extra_rule_names)
        if k.invalid:
            self.names = self.names + ["invalid_x"]
        lines = []
        for self.cur, nm in enumerate(self.names):
            ty = "[int]" if (k.typed and r.random() < 0.3) else ""
            memo = " (memo)" if (k.memo and r.random() < 0.2) else ""
            lines.append(f"{nm}{ty}{memo}: {self.alts(k.depth, True, top=True)}")
        return "\n".join(lines) + "\n"


def gen_grammars(r: random.Random, k: Knobs, n: int):
    for _ in range(n):
        yield GrammarGen(r, k).grammar()
