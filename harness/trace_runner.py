"""Child process: run generated parsers with every method wrapped from outside, under the four
configurations {quiet, verbose} x {cache on, cache off}; emit outcomes, canonical values and the
per-invocation event trace.  stdin: JSON list of jobs {"grammar", "inputs", "configs", "call_invalid"}."""
from __future__ import annotations

import io
import json
import resource
import signal
import sys
import tokenize


class Timeout(Exception):
    pass


def _alarm(signum, frame):
    raise Timeout()


def ctor(name):
    def f(*a, **k):
        return ("__obj__", name, tuple(a) + tuple(k.values()))
    return f


def canon(v, depth=0):
    if depth > 60:
        return {"s": "..."}
    if isinstance(v, tokenize.TokenInfo):
        return {"t": [v.type, v.string, v.start[0], v.start[1]]}
    if isinstance(v, tuple) and len(v) == 3 and v[0] == "__obj__":
        return {"o": [v[1]] + [canon(x, depth + 1) for x in v[2]]}
    if isinstance(v, list):
        return {"l": [canon(x, depth + 1) for x in v]}
    if isinstance(v, tuple):
        return {"u": [canon(x, depth + 1) for x in v]}
    if v is None or isinstance(v, bool) or isinstance(v, int):
        return v
    if isinstance(v, str):
        return {"s": v}
    return {"x": type(v).__name__}


PRIMS = ["name", "number", "string", "op", "type_comment", "soft_keyword", "fstring_start", "fstring_middle",
         "fstring_end", "expect"]


def build(grammar_text: str, unreachable=None, regenerate=False):
    from pegen.grammar_parser import GeneratedParser as GrammarParser
    from pegen.python_generator import PythonParserGenerator
    from pegen.tokenizer import Tokenizer
    tk = Tokenizer(tokenize.generate_tokens(io.StringIO(grammar_text).readline))
    g = GrammarParser(tk).start()
    if not g:
        raise SyntaxError("grammar text unreadable")
    out = io.StringIO()
    PythonParserGenerator(g, out, unreachable_formatting=unreachable).generate("<gen>")
    if regenerate:      # a second parser from the SAME grammar object
        out = io.StringIO()
        PythonParserGenerator(g, out, unreachable_formatting=unreachable).generate("<gen>")
    text = out.getvalue()
    ns = {k: ctor(k) for k in ("foo", "mk", "f", "g", "Node")}
    exec(compile(text, "<generated>", "exec"), ns)
    return g, ns["GeneratedParser"], text


def traced_class(P, cache_on: bool):
    def unwrap(f):
        if not cache_on and getattr(f, "__name__", "") == "memoize_wrapper" and hasattr(f, "__wrapped__"):
            return f.__wrapped__
        return f

    def wrap(f, name, la):
        wi = name.endswith("without_invalid")

        def w(self, *a):
            before = self._tokenizer.mark()
            flag_in = self.call_invalid_rules
            depth = getattr(self, "_wi_depth", 0)
            if wi:
                self._wi_depth = depth + 1
            try:
                res = f(self, *a)
            finally:
                if wi:
                    self._wi_depth = depth
            self._events.append([name, before, bool(res), self._tokenizer.mark(), la])
            self._flags.append([name, flag_in, self.call_invalid_rules, depth])
            return res
        return w

    ns = {}
    for name in dir(P):
        if name.startswith("__"):
            continue
        f = getattr(P, name)
        if not callable(f):
            continue
        if name in PRIMS or (hasattr(f, "__wrapped__") and name not in ("positive_lookahead", "negative_lookahead")):
            ns[name] = wrap(unwrap(f), name, False)
        elif name in ("positive_lookahead", "negative_lookahead"):
            ns[name] = wrap(f, name, True)
    return type("Traced", (P,), ns)


def source_tokens(source):
    """the raw token stream of an input; comments of the form `# type: ...` are delivered as TYPE_COMMENT tokens (what a
    tokenizer with type comments enabled does), so that the TYPE_COMMENT primitive can be exercised"""
    import token as _tk
    for t in tokenize.generate_tokens(io.StringIO(source).readline):
        if t.type == tokenize.COMMENT and t.string.startswith("# type:"):
            t = t._replace(type=_tk.TYPE_COMMENT)
        yield t


def run_one(T, source, verbose, call_invalid, limit):
    from pegen.tokenizer import Tokenizer
    try:
        toks = list(source_tokens(source))
    except (tokenize.TokenError, IndentationError, SyntaxError):
        return {"kind": "untokenizable"}        # e.g. an unclosed bracket: not a token sequence, skipped by the callers
    tk = Tokenizer(iter(toks))
    p = T(tk, verbose=verbose)
    p._events = []
    p._flags = []
    p.call_invalid_rules = call_invalid
    signal.setitimer(signal.ITIMER_REAL, limit)
    base = {}
    try:
        res = p.start()
        base = {"kind": "ok", "value": canon(res)}
    except Timeout:
        return {"kind": "timeout"}
    except RecursionError:
        return {"kind": "recursion"}
    except MemoryError:
        return {"kind": "memory"}
    except SyntaxError as e:
        base = {"kind": "SyntaxError", "msg": e.msg, "lineno": e.lineno, "offset": e.offset}
    except BaseException as e:       # noqa
        base = {"kind": "exc", "type": type(e).__name__, "msg": str(e)[:200]}
    finally:
        signal.setitimer(signal.ITIMER_REAL, 0)
    base.update({"mark": tk.mark(), "fetched": len(tk._tokens), "invalid_flag": p.call_invalid_rules,
                 "events": p._events, "flags": p._flags})
    return base


def filtered_tokens(source):
    from pegen.tokenizer import Tokenizer
    tk = Tokenizer(source_tokens(source))
    out = []
    try:
        while True:
            t = tk.getnext()
            out.append([t.type, t.string, t.start[0], t.start[1], t.end[0], t.end[1], t.line])
            if t.type == 0:
                break
    except (StopIteration, tokenize.TokenError, IndentationError):
        pass
    return out


def main():
    resource.setrlimit(resource.RLIMIT_AS, (3 << 30, 3 << 30))
    signal.signal(signal.SIGALRM, _alarm)
    sys.setrecursionlimit(2500)
    jobs = json.load(sys.stdin)
    out = []
    real_stdout = sys.stdout
    for job in jobs:
        sys.stdout = io.StringIO()
        try:
            signal.setitimer(signal.ITIMER_REAL, 5.0)
            g, P, text = build(job["grammar"], job.get("unreachable"), bool(job.get("regenerate")))
            signal.setitimer(signal.ITIMER_REAL, 0)
        except BaseException as e:   # noqa
            signal.setitimer(signal.ITIMER_REAL, 0)
            out.append({"build_error": f"{type(e).__name__}: {str(e)[:200]}"})
            continue
        classes = {True: traced_class(P, True), False: traced_class(P, False)}
        res = []
        dead = False
        for src in job["inputs"]:
            one = {"tokens": filtered_tokens(src), "runs": {}}
            for cfg in job.get("configs", ["q1"]):
                if dead:
                    one["runs"][cfg] = {"kind": "skipped"}
                    continue
                sys.stdout = io.StringIO()
                r = run_one(classes[cfg[1] == "1"], src, cfg[0] == "v", job.get("call_invalid", False), job.get("limit", 0.5))
                one["runs"][cfg] = r
                if r["kind"] in ("timeout", "memory"):
                    dead = True
            res.append(one)
        out.append({"results": res, "text": text, "keywords": list(getattr(P, "KEYWORDS", ())), "soft_keywords": list(getattr(P, "SOFT_KEYWORDS", ()))})
    sys.stdout = real_stdout
    json.dump(out, sys.stdout)


if __name__ == "__main__":
    main()
