"""Shared helpers for the /verif checks: paths, Coq term printing, coqc runner, evidence,
known findings, VIOLATION reporting."""
from __future__ import annotations

import hashlib
import json
import os
import random
import subprocess
import sys
import time
from pathlib import Path

VERIF = Path(__file__).resolve().parent.parent
REPO = Path(os.environ.get("PEGEN_REPO", "/repo"))
COQ = VERIF / "coq"
GEN_ROOT = COQ / "gen"
# generated Coq files of THIS process (two checks running at the same time must not write the same files);
# moved to coq/gen/<ID> when the check finishes, for inspection
GEN = GEN_ROOT / f"run-{os.getpid()}"
# development only (seed confirmation against a scratch worktree): evidence of such runs goes elsewhere
EVIDENCE = Path(os.environ.get("VERIF_EVIDENCE_DIR", str(VERIF / "evidence")))
EVIDENCE.mkdir(parents=True, exist_ok=True)
REPLAYS = VERIF / "replays"
PY = "/venv/bin/python"

sys.path.insert(0, str(REPO / "src"))
os.environ.setdefault("PYTHONHASHSEED", "0")

TRUSTED_BASE = [
    "Coq 8.16.1 kernel (coqc; vm_compute used for instance lemmas, correspondence cases and "
    "refutation witnesses; no native_compute)",
    "axioms: none (Print Assumptions under every Props theorem must say 'Closed under the global context')",
    "harness Python: table extractor, grammar translator (grammar2coq), case generators, comparison code",
    "the model is hand-written Gallina tied to /repo by re-extraction of tables/grammars and by "
    "correspondence (cases evaluated with vm_compute and compared with the implementation's output)",
]


def seed() -> int:
    try:
        return int(os.environ.get("VERIF_SEED", "0"))
    except ValueError:
        return 0


def rng(tag: str = "") -> random.Random:
    return random.Random(f"{seed()}:{tag}")


# ------------------------------------------------------------------ Coq term printing
def cstr(s: str) -> str:
    """Coq string literal; characters outside printable ASCII are spelled out byte by byte (UTF-8)."""
    def plain(c):
        return 32 <= ord(c) <= 126 or c in "\n\t"
    if all(plain(c) for c in s):
        return '"' + s.replace('"', '""') + '"'
    chunks, cur = [], ""
    for c in s:
        if plain(c):
            cur += c
        else:
            if cur:
                chunks.append(("t", cur))
                cur = ""
            for b in c.encode("utf-8"):
                chunks.append(("b", b))
    if cur:
        chunks.append(("t", cur))
    term = '""'
    for kind, v in reversed(chunks):
        if kind == "t":
            lit = '"' + v.replace('"', '""') + '"'
            term = f"(String.append {lit} {term})"
        else:
            term = f"(String (Ascii.ascii_of_nat {v}) {term})"
    return term


def cbool(b: bool) -> str:
    return "true" if b else "false"


def copt(x, f=lambda v: v) -> str:
    return "None" if x is None else f"(Some {f(x)})"


def clist(xs, f=lambda v: v) -> str:
    return "[" + "; ".join(f(x) for x in xs) + "]"


def cN(n: int) -> str:
    return f"{n}%N"


def cnat(n: int) -> str:
    return f"{n}%nat"


# ------------------------------------------------------------------ running Coq
def coq_args() -> list[str]:
    return ["-Q", str(COQ / "theories"), "Pegen", "-w", "-notation-overridden,-deprecated-hint-without-locality"]


def build_static(log=None) -> tuple[bool, str]:
    """make the static theories (full .vo build; cached when sources are unchanged)."""
    import fcntl

    lock = open(VERIF / ".build.lock", "w")
    fcntl.flock(lock, fcntl.LOCK_EX)
    try:
        p = subprocess.run([str(COQ / "build.sh")], capture_output=True, text=True, timeout=3400)
        out = p.stdout + p.stderr
        return p.returncode == 0, out
    finally:
        fcntl.flock(lock, fcntl.LOCK_UN)
        lock.close()


# the time limits below only guard against hangs; on a loaded machine (checks running side by side) they are multiplied
TMULT = float(os.environ.get("VERIF_TIMEOUT_MULT", "4"))


def coqc(vfile: Path, timeout: int = 600, extra_q: list[tuple[Path, str]] = ()) -> tuple[int, str]:
    """Compile one generated .v file; returns (exit code, combined output)."""
    timeout = int(timeout * TMULT)
    args = ["timeout", str(timeout), "coqc"] + coq_args() + ["-I", str(vfile.parent), "-Q", str(vfile.parent), ""]
    for d, name in extra_q:
        args += ["-Q", str(d), name]
    args.append(str(vfile))
    env = dict(os.environ)
    p = subprocess.run(
        ["bash", "-c", "ulimit -s unlimited 2>/dev/null; exec \"$@\"", "x"] + args,
        capture_output=True, text=True, cwd=str(vfile.parent), env=env,
    )
    return p.returncode, p.stdout + p.stderr


def gen_dir(pid: str) -> Path:
    d = GEN / pid
    d.mkdir(parents=True, exist_ok=True)
    for f in d.iterdir():
        if f.is_file():
            f.unlink()
    return d


def parse_eval_list(out: str, marker: str) -> str | None:
    """Return the text Coq printed for `Eval ... in (marker, X)`: the X part, whitespace-joined."""
    idx = out.find(f'("{marker}"')
    if idx < 0:
        return None
    return " ".join(out[idx:].split())


# ------------------------------------------------------------------ Print Assumptions gate
def props_status(pid: str) -> dict:
    """Compile-time facts about Props/<pid>.v: theorem names and whether each is closed.
    Reads the output that coqc printed when Props/<pid>.v was built (kept in Props/<pid>.out)."""
    vfile = COQ / "theories" / "Props" / f"{pid}.v"
    res = {"theorems": [], "open": [], "ok": False, "log": ""}
    if not vfile.exists():
        res["log"] = f"{vfile} missing"
        return res
    vo = vfile.with_suffix(".vo")
    if not vo.exists() or vo.stat().st_mtime < vfile.stat().st_mtime:
        res["log"] = f"{vo} missing or stale (static build failed?)"
        return res
    # Re-run coqc on the Props file only (fast: dependencies are compiled) to capture output.
    rc, out = coqc_keep(vfile)
    res["log"] = out[-4000:]
    if rc != 0:
        return res
    import re

    text = vfile.read_text()
    names = re.findall(r"^(?:Theorem|Corollary|Lemma|Example)\s+([A-Za-z0-9_']+)", text, re.M)
    res["theorems"] = names
    asked = re.findall(r"^Print Assumptions\s+([A-Za-z0-9_']+)\.", text, re.M)
    closed = out.count("Closed under the global context")
    missing = [n for n in names if n not in asked]
    if missing:
        res["open"] = ["no Print Assumptions for " + n for n in missing]
    if closed != len(asked):
        res["open"].append(f"{len(asked) - closed} theorem(s) depend on axioms: " + out[-1500:])
    res["ok"] = not res["open"]
    return res


def coqc_keep(vfile: Path) -> tuple[int, str]:
    """Compile a static theory file to a scratch .vo (does not disturb the make build)."""
    import tempfile

    with tempfile.TemporaryDirectory(prefix="pegverif-") as td:
        args = ["timeout", "900", "coqc"] + coq_args() + ["-o", os.path.join(td, vfile.stem + ".vo"), str(vfile)]
        p = subprocess.run(args, capture_output=True, text=True, cwd=str(vfile.parent))
        return p.returncode, p.stdout + p.stderr


FORBIDDEN = ["Admitted", "admit", "Axiom", "Parameter", "Conjecture", "Unset Guard", "bypass_check",
             "Admit Obligations", "type-in-type", "impredicative-set"]


def grep_gate() -> list[str]:
    import re

    bad = []
    pat = re.compile(r"\b(Admitted|admit|Axiom|Parameter|Conjecture|bypass_check)\b|Unset Guard|Admit Obligations")
    for v in (COQ / "theories").rglob("*.v"):
        txt = v.read_text()
        # strip comments (non-nested good enough: we never write these words in comments)
        for m in pat.finditer(txt):
            bad.append(f"{v.relative_to(COQ)}: {m.group(0)}")
    return bad


# ------------------------------------------------------------------ known findings
def known_findings(pid: str) -> list[dict]:
    f = VERIF / "known_findings.json"
    if not f.exists():
        return []
    data = json.loads(f.read_text())
    return [e for e in data.get("findings", []) if e.get("property") == pid and e.get("status") == "known"]


# ------------------------------------------------------------------ result protocol
class Check:
    """Collects obligations, correspondence counts, violations; writes evidence; prints lines."""

    def __init__(self, pid: str, tier: str):
        self.pid = pid
        self.tier = tier
        self.t0 = time.time()
        self.obligations: list[tuple[str, bool, str]] = []   # (name, ok, detail)
        self.samples: list = []
        self.evaluations = 0
        self.nontrivial: set = set()
        self.violations: list[dict] = []
        self.known_lines: list[str] = []
        self.extra: dict = {}
        self.assumptions: list[str] = []
        self.rule = ""
        self.dist: dict = {}

    # -- proof obligations
    def oblige(self, name: str, ok: bool, detail: str = "") -> bool:
        self.obligations.append((name, bool(ok), detail))
        return bool(ok)

    def count(self, n: int = 1):
        self.evaluations += n

    def note_case(self, key):
        self.nontrivial.add(key)

    def sample(self, s, limit=6):
        if len(self.samples) < limit:
            self.samples.append(s)

    def bump(self, key: str, n: int = 1):
        self.dist[key] = self.dist.get(key, 0) + n

    # -- violations
    def violation(self, what: str, replay: dict, found_input: bool):
        self.n_violations_seen = getattr(self, "n_violations_seen", 0) + 1
        if len(self.violations) < 4:      # report the first few; the count goes into the evidence
            self.violations.append({"what": what, "replay": replay, "found_input": found_input})

    def known(self, what: str):
        self.known_lines.append(what)

    def finish(self) -> int:
        EVIDENCE.mkdir(exist_ok=True)
        REPLAYS.mkdir(exist_ok=True)
        try:        # keep the generated files of the last run of each check under coq/gen/<ID>
            import shutil
            if GEN.is_dir():
                for d in GEN.iterdir():
                    shutil.rmtree(GEN_ROOT / d.name, ignore_errors=True)
                    shutil.move(str(d), str(GEN_ROOT / d.name))
                shutil.rmtree(GEN, ignore_errors=True)
        except OSError:
            pass
        if LOST_JOBS:
            # a process that runs the real code died or hung: nothing is known about those jobs, which is not "held"
            self.oblige(f"the runner processes ran every job ({len(LOST_JOBS)} lost)", False, json.dumps(LOST_JOBS[:3], default=str)[:3000])
        failed = [(n, d) for (n, ok, d) in self.obligations if not ok]
        # A broken obligation without a concrete failing input is still a violation.
        if failed and not self.violations:
            self.violation(
                "proof obligation / correspondence no longer checks: " + "; ".join(n for n, _ in failed),
                {"broken": [{"obligation": n, "detail": d[-3000:]} for n, d in failed]},
                False,
            )
        lines = []
        for kl in self.known_lines:
            lines.append(f"KNOWN-FINDING: property={self.pid} {kl}")
        for v in self.violations:
            blob = json.dumps(v["replay"], sort_keys=True, default=str)
            h = hashlib.sha1(blob.encode()).hexdigest()[:10]
            path = REPLAYS / f"{self.pid}-{h}.json"
            path.write_text(json.dumps(
                {"property": self.pid, "what": v["what"], "found_failing_input": v["found_input"],
                 "replay": v["replay"],
                 "broken_obligations": [{"obligation": n, "detail": d[-3000:]} for n, d in failed]},
                indent=1, default=str))
            tail = "" if v["found_input"] else " no-failing-input-found"
            lines.append(f"VIOLATION property={self.pid} replay={path}{tail}")
        n_obl = len(self.obligations)
        n_ok = sum(1 for (_, ok, _) in self.obligations if ok)
        cov = {
            "obligations": max(n_obl, 1),
            "discharged": n_ok if n_obl else 0,
            "checker_cmd": f"./check {self.pid} --tier {self.tier}  (coq/build.sh: coq_makefile + make, full .vo; "
                           f"then coqc on coq/gen/{self.pid}/*.v)",
            "trusted_base": TRUSTED_BASE,
            "obligation_names": [n for (n, _, _) in self.obligations],
            "failed_obligations": [n for n, _ in failed],
            "evaluations": self.evaluations,
            "distinct_nontrivial": len(self.nontrivial),
            "rule": self.rule,
            "samples": self.samples or ["(no correspondence cases in this run)"],
            "distribution": self.dist,
            "known_findings_reported": self.known_lines,
            "explanation": "obligations/discharged count Coq theorems, instance lemmas and correspondence "
                           "batches checked by coqc on this run; evaluations/distinct_nontrivial count "
                           "model-vs-implementation correspondence cases (model validation, not proof)",
        }
        cov.update(self.extra)
        ev = {
            "property_id": self.pid,
            "tier": self.tier,
            "seed": seed(),
            "level": "proof",
            "coverage": cov,
            "assumptions": self.assumptions,
            "wall_s": round(time.time() - self.t0, 2),
            "violations": len(self.violations),
        }
        (EVIDENCE / f"{self.pid}.json").write_text(json.dumps(ev, indent=1, default=str))
        for ln in lines:
            print(ln)
        status = "FAIL" if self.violations else "ok"
        print(f"[{self.pid}] {status}: {n_ok}/{n_obl} obligations, {self.evaluations} correspondence cases, "
              f"{len(self.known_lines)} known finding(s), {ev['wall_s']}s")
        sys.stdout.flush()
        return 1 if self.violations else 0


# ------------------------------------------------------------------ obligations common to all checks
def standard_obligations(chk: Check) -> bool:
    ok, out = build_static()
    chk.oblige("static Coq development builds (coq_makefile + make, full .vo)", ok, out[-3000:])
    bad = grep_gate()
    chk.oblige("no Admitted/admit/Axiom/Parameter/Conjecture/guard switches in the development", not bad,
               "; ".join(bad))
    if not ok:
        return False
    st = props_status(chk.pid)
    if not st["theorems"] and not st["ok"]:
        chk.oblige(f"Props/{chk.pid}.v compiles", False, st["log"])
        return False
    for n in st["theorems"]:
        chk.oblige(f"theorem {n} (Props/{chk.pid}.v) checked, closed under the global context", st["ok"],
                   "; ".join(st["open"]))
    chk.extra["theorems"] = st["theorems"]
    return st["ok"]


def run_cases(chk: Check, name: str, prelude: str, case_type: str, case_terms: list[str], ok_def: str,
              shard: int = 250, timeout: int = 900, jobs: int = 8) -> list[int] | None:
    """Evaluate `ok_def : case_type -> bool` on every case with vm_compute, sharded over several
    coqc processes.  Returns the indices of failing cases, or None if Coq itself failed (recorded
    as a broken obligation)."""
    from concurrent.futures import ThreadPoolExecutor

    d = GEN / chk.pid
    d.mkdir(parents=True, exist_ok=True)
    files = []
    for si in range(0, len(case_terms), shard):
        part = case_terms[si:si + shard]
        f = d / f"{name}_{si // shard}.v"
        body = [prelude, f"Definition ok_case : {case_type} -> bool := {ok_def}.",
                f"Definition cases : list ({case_type}) := ["]
        body.append(";\n".join(part))
        body.append("].")
        body.append("Fixpoint failing (i : nat) (l : list (" + case_type + ")) : list nat :=\n"
                    "  match l with [] => [] | c :: l' => if ok_case c then failing (S i) l' else i :: failing (S i) l' end.")
        body.append('Eval vm_compute in ("RESULT", failing 0 cases).')
        f.write_text("\n".join(body) + "\n")
        files.append((si, f))
    failing: list[int] = []
    broken = []

    def one(arg):
        si, f = arg
        rc, out = coqc(f, timeout=timeout)
        return si, f, rc, out

    with ThreadPoolExecutor(max_workers=jobs) as ex:
        for si, f, rc, out in ex.map(one, files):
            if rc != 0:
                broken.append(f"{f.name}: rc={rc}: {out[-1500:]}")
                continue
            txt = parse_eval_list(out, "RESULT")
            if txt is None:
                broken.append(f"{f.name}: no RESULT in output: {out[-500:]}")
                continue
            import re
            m = re.search(r'\("RESULT",\s*\[(.*?)\]\)', txt)
            if not m:
                broken.append(f"{f.name}: unparsable RESULT: {txt[:300]}")
                continue
            body = m.group(1).strip()
            if body:
                failing += [si + int(x.replace("%nat", "").strip()) for x in body.split(";")]
    if broken:
        chk.oblige(f"correspondence batch {name}: Coq evaluated the cases", False, "\n".join(broken))
        return None
    return sorted(failing)


LOST_JOBS: list[dict] = []      # jobs a runner process could not complete (reported by Check.finish)


def note_lost(job: dict, result: dict):
    if "runner_error" in result:
        LOST_JOBS.append({"grammar": str(job.get("grammar"))[:500], "error": str(result["runner_error"])[-400:]})


def run_parsers(jobs: list[dict], chunk: int = 40, timeout: int = 600) -> list[dict]:
    """Run harness/parser_runner.py in child processes (time/memory limited) over the jobs."""
    from concurrent.futures import ThreadPoolExecutor

    env = dict(os.environ)
    env["PYTHONPATH"] = f"{REPO / 'src'}:{VERIF / 'harness'}"

    def one(part):
        try:
            p = subprocess.run([PY, str(VERIF / "harness" / "parser_runner.py")], input=json.dumps(part),
                               capture_output=True, text=True, timeout=timeout * TMULT, env=env)
            if p.returncode != 0:
                return [{"runner_error": p.stderr[-500:]} for _ in part]
            return json.loads(p.stdout)
        except subprocess.TimeoutExpired:
            return [{"runner_error": "runner timeout"} for _ in part]
        except json.JSONDecodeError as e:
            return [{"runner_error": f"bad runner output: {e}"} for _ in part]

    parts = [jobs[i:i + chunk] for i in range(0, len(jobs), chunk)]
    out: list[dict] = []
    with ThreadPoolExecutor(max_workers=8) as ex:
        for part, r in zip(parts, ex.map(one, parts)):
            if len(part) > 1 and any("runner_error" in x for x in r):
                r = [one([job])[0] for job in part]      # the runner died on one job: do not lose the others
            for job, x in zip(part, r):
                note_lost(job, x)
            out += r
    return out
