"""Run the repository's pinned test suite (guard off) and compare with /root/.vp/BASELINE.json."""
import json, os, subprocess, sys, tempfile
import xml.etree.ElementTree as ET

repo = os.environ.get("PEGEN_REPO", "/repo")
env = {k: v for k, v in os.environ.items() if k != "PEGEN_VERIF"}
with tempfile.TemporaryDirectory() as td:
    xml = os.path.join(td, "r.xml")
    p = subprocess.run(["/venv/bin/python", "-m", "pytest", "-ra", "-q", "-p", "no:cacheprovider", "--timeout=900",
                        "--continue-on-collection-errors", f"--junitxml={xml}"], cwd=repo, env=env,
                       capture_output=True, text=True)
    passed = set()
    for tc in ET.parse(xml).getroot().iter("testcase"):
        if not any(c.tag in ("failure", "error", "skipped") for c in tc):
            passed.add(f"{tc.get('classname')}::{tc.get('name')}")
base = json.load(open("/root/.vp/BASELINE.json"))["stable_pass"]
missing = [t for t in base if t not in passed]
print(f"baseline: {len(base) - len(missing)}/{len(base)} stable tests pass")
for t in missing[:20]:
    print("  NOT PASSING:", t)
sys.exit(1 if missing else 0)
