"""C07 — the Python grammar's error path: proper SyntaxError, inside the text, same for string and file."""
from __future__ import annotations

import ast
import glob
import warnings
import io
import json
import re
import os
import tempfile
import tokenize

import common

SNIPPETS = ["x = b'a' 'b'\n", "x = (1,\n\n 2) 3\n", "a = '''m\nn\no''' = 1\n", "foo('''x\ny\nz''' 1)\n", "@dec\n", "try:\n  pass\n",
            "def f(:\n    pass\n", "x = 1 +\n", "f(a for b)\n", "for x in :\n    pass\n", "if x:\npass\n", "x = [1,\n# c\n\n2 3]\n",
            "class A:\n    def f(self):\n        return (1\n\n\n + ) \n", "print 'a'\n", "a = *b\n", "f(**a, *b)\n",
            "x = 1 + \\\n\\\n 2 3\n", "x = {\n 'a': 1,\n\n 'b' 2}\n", "lambda: (yield)\n\n\nx = = 2\n",
            # f-string conversions and format specs inside rejected programs
            "f\"{x!r}\" 1\n", "y = f\"{x!s:>4}\" +\n", "print(f\"{a!a} {b}\" f\"{c!r}\"\n", "z = f\"{x!r}\"\nq = (\n",
            # every line indented (unexpected indent): both entry points must refuse alike
            " x = 1\n", "  x = 1\n  y = 2\n", "\tdef f():\n\t\treturn 1\n", "    if a:\n        b = (1 2)\n",
            # an error with a one-line location right before a multi-line token (the text shown must stay within the range)
            "x = 1 if 2 \"\"\"a\nb\"\"\"\n", "y = (1 if 2 '''p\nq\nr''')\nz = 3\n", "import a.b as c.d '''s\nt'''\n",
            # a form feed inside a line (not a line boundary)
            "x = \"a\x0cb\" 1\ny = 2\n",
            # an error range that spans several lines and starts a few lines into the text (lines 3..5, 2..3, 2..4, 4..7): the
            # file reader must keep reading until every requested line is there
            "import os\nimport sys\nz = (p +\n     q +\n     r  s)\n", "import os\nx = (a\n     b, c\n     )\ny = 1\n",
            "import os\nf(a +\n  b +\n  c  d)\nz = 1\n", "a = 1\nb = 2\nc = 3\nf(a,\n  b +\n  c +\n  d  e)\nq = 0\n",
            "x = 1\ny = [a,\n     b\n     c]\n", "x = 1\ny = 2\nfoo(p for p in q,\n    r)\n"]


# one valid program per construct of the grammar (targets, calls, comprehensions, definitions, imports, compound
# statements, patterns, operators, literals): the whole 1-edit neighbourhood of each is explored, not a sample
CORE = [
 "*a, b = x\n", "a, *b = x\n", "(*a, b) = x\n", "[*a, b] = x\n", "(*a,) = x\n", "[x, *rest] = items\n", "for *a, b in c:\n    pass\n",
 "for (*a, b) in c:\n    pass\n", "with f() as (*a, b):\n    pass\n", "with f() as a, g() as b:\n    pass\n", "with (f() as a, g() as b):\n    pass\n",
 "a.b, c[0] = 1, 2\n", "(a) = 1\n", "(a.b) = 1\n", "a = b = c\n", "a += 1\n", "a: int = 1\n", "(a): int\n", "a.b: int\n",
 "del a, b[0], (c, d)\n", "x = [i for i in y if i]\n", "x = {k: v for k, v in y}\n", "x = (i for (a, *b) in y)\n", "x = {*a, b}\n", "x = {**a, 'b': 1}\n",
 "f(a, *b, c=1, **d)\n", "f(x for x in y)\n", "f(a)(b)[c].d\n", "x = a if b else c\n", "x = lambda a, *b, c=1, **d: a\n", "x = lambda: 0\n",
 "def f(a, /, b, *, c=1, **d) -> int:\n    return a\n", "def f(*a: int, b: int = 1):\n    pass\n", "async def f():\n    await x\n",
 "class A(B, metaclass=C):\n    pass\n", "@d(1)\nclass A:\n    x = 1\n", "import a.b as c, d\n", "from . import a\n", "from .a import (b as c, d)\n", "from a import *\n",
 "try:\n    pass\nexcept (A, B) as e:\n    pass\nelse:\n    pass\nfinally:\n    pass\n", "try:\n    pass\nexcept* A:\n    pass\n",
 "while a:\n    break\nelse:\n    continue\n", "if a:\n    pass\nelif b:\n    pass\nelse:\n    pass\n",
 "match x:\n    case [a, *b]:\n        pass\n    case {'k': v, **r}:\n        pass\n    case A(b, c=1) | None:\n        pass\n    case _ if y:\n        pass\n",
 "x[a:b, ::2, ...]\n", "x = a[*b]\n", "x = not a or b and c\n", "x = a < b <= c != d is not e not in f\n", "x = -a ** +b // ~c\n", "x = a | b ^ c & d << e >> f\n",
 "x = (y := 1)\n", "x = (yield a)\n", "def g():\n    x = yield from a\n", "global a, b\n", "nonlocal a\n", "assert a, b\n", "raise A from b\n", "return\n", "return *a, b\n",
 "x = 'a' 'b' f'{c!r:>{d}}'\n", "x = rb'a' Rb'b' b'c'\n", "x = f'{y!r}' f'{z!s}{w!a}'\n", "x = f'{a}{b=}'\n", "x = b'a' b'b'\n", "x = 1j + 0x1f + 1_0.5e3\n", "x = (1,)\n", "x = ()\n", "x = []\n", "x = {}\n",
 "print(*a, sep='')\n", "a = yield\n", "for a in b, c:\n    pass\n", "async with a as b:\n    pass\n", "async for a in b:\n    pass\n", "x = [*a, *b]\n",
 "f(**a, **b)\n", "f(k=1, **o)\n", "f(*a, k=1)\n", "f(a, b for b in c)\n".replace("a, b for b in c", "(b for b in c), a"),
 "match x:\n    case 1 + 2j:\n        pass\n    case -3 - 1j | 'a' | None:\n        pass\n    case {0 + 1j: y, 'k': [1, *_]}:\n        pass\n",
 "match x, y:\n    case (a, b) as c if c:\n        pass\n    case a.b | str(z):\n        pass\n",
 "x = a @ b\n", "pass; pass\n", "x: list[int] = []\n", "type X = int\n", "def f[T](a: T) -> T:\n    return a\n", "class A[T]:\n    pass\n",
]
REPL = ["=", ")", "(", "1", "x", "else", "**", "*", ",", ":", "in", "as", ".", "2.5", "'s'", "None", "not", "sr", "NEWLINE"]
# multi-token phrases inserted after every token (the comprehension tail, a conditional tail, an annotation, ...)
PHRASES = ["for q in r", "if q else r", ": int", "= 1", "as q", "not in q", "lambda: 0", "*a, **k", "for q in r if q", ":= 1"]
def sweep(src):
    """EVERY single-token deletion / duplication / replacement / insertion of a valid one-construct program"""
    toks = list(tokenize.generate_tokens(io.StringIO(src).readline))
    lines = src.splitlines(keepends=True)
    for t in toks:
        if t.type in (tokenize.NL, tokenize.NEWLINE, tokenize.COMMENT, tokenize.INDENT, tokenize.DEDENT, tokenize.ENDMARKER): continue
        (l1, c1), (l2, c2) = t.start, t.end
        if l1 != l2: continue
        def sp(new):
            out = list(lines); out[l1-1] = lines[l1-1][:c1] + new + lines[l1-1][c2:]; return "".join(out)
        yield sp(""), "delete"
        yield sp(t.string + " " + t.string), "duplicate"
        for rp in REPL:
            if rp != t.string:
                yield sp(rp), "replace"
                yield sp(t.string + " " + rp), "insert"
        for ph in PHRASES:
            yield sp(t.string + " " + ph), "phrase"

def host_rejected_corpus() -> list[str]:
    """the doctest examples of the host interpreter's own test_syntax.py (invalid programs with the expected error);
    used only for the clause-(i) search, and only if the file is installed"""
    import doctest
    import sysconfig
    path = os.path.join(sysconfig.get_paths()["stdlib"], "test", "test_syntax.py")
    try:
        doc = ast.get_docstring(ast.parse(open(path).read()))
        return [ex.source for ex in doctest.DocTestParser().get_examples(doc or "")]
    except (OSError, SyntaxError, ValueError):
        return []


def build_parser():
    """the module generated from data/python.gram: its own entry points parse_string / parse_file are what is exercised"""
    from pegen.build import build_parser as bp
    from pegen.python_generator import PythonParserGenerator
    g, _, _ = bp(str(common.REPO / "data/python.gram"))
    out = io.StringIO()
    PythonParserGenerator(g, out).generate("python.gram")
    ns: dict = {"__name__": "pegverif_python_parser"}
    exec(compile(out.getvalue(), "<python.gram>", "exec"), ns)
    return ns


def outcome(P, src: str, mode: str, tmpdir: str):
    try:
        if mode == "string":
            P["parse_string"](src, "exec")
        else:
            path = os.path.join(tmpdir, "m.py")
            with open(path, "w") as f:
                f.write(src)
            P["parse_file"](path)
        return ("tree",)
    except SyntaxError as e:      # includes IndentationError
        return ("SyntaxError", type(e).__name__, e.lineno, e.offset, e.text, e.msg, getattr(e, "end_lineno", None))
    except tokenize.TokenError as e:
        return ("TokenError", str(e.args[0]))
    except RecursionError:
        return ("recursion",)
    except BaseException as e:    # noqa
        return ("internal", type(e).__name__, str(e)[:120])


_P = None
_TMP = None


def _eval(src: str):
    """(parse_string outcome, parse_file outcome, what the host's parser says when a tree came back)"""
    a = outcome(_P, src, "string", _TMP)
    b = outcome(_P, src, "file", _TMP)
    host = None
    if a[0] == "tree":
        try:
            with warnings.catch_warnings():
                warnings.simplefilter("ignore")
                ast.parse(src)
            host = ("ok",)
        except SyntaxError as he:
            host = ("rej", he.msg, he.lineno)
        except (ValueError, RecursionError, MemoryError):
            host = ("other",)
    single = None
    if a[0] == "SyntaxError":
        # the one-pass entry of the same driver (error-reporting rules on from the start): Parser.parse(rule, call_invalid_rules=True)
        try:
            from pegen.tokenizer import Tokenizer
            tok = Tokenizer(tokenize.generate_tokens(io.StringIO(src).readline))
            res = _P["PythonParser"](tok).parse("file", call_invalid_rules=True)
            single = ("none",) if res is None else ("tree",)
        except SyntaxError:
            single = ("SyntaxError",)
        except tokenize.TokenError:
            single = ("TokenError",)
        except RecursionError:
            single = ("recursion",)
        except BaseException as e:    # noqa
            single = ("internal", type(e).__name__, str(e)[:120])
    return a, b, host, single


def _init(tmp_root: str):
    global _TMP
    _TMP = tempfile.mkdtemp(prefix="w-", dir=tmp_root)


def edits(r, src: str, n: int):
    """token-level deletion / insertion / replacement / duplication"""
    try:
        toks = list(tokenize.generate_tokens(io.StringIO(src).readline))
    except (tokenize.TokenError, IndentationError, SyntaxError):
        return
    real = [i for i, t in enumerate(toks) if t.type not in (tokenize.NL, tokenize.NEWLINE, tokenize.COMMENT, tokenize.INDENT,
                                                           tokenize.DEDENT, tokenize.ENDMARKER)]
    if not real:
        return
    lines = src.splitlines(keepends=True)

    def splice(t, new_text):
        (l1, c1), (l2, c2) = t.start, t.end
        if l1 != l2:
            return None
        line = lines[l1 - 1]
        out = list(lines)
        out[l1 - 1] = line[:c1] + new_text + line[c2:]
        return "".join(out)
    for _ in range(n):
        i = r.choice(real)
        t = toks[i]
        kind = r.choice(["delete", "insert", "replace", "duplicate", "blankline", "newline"])
        if kind == "delete":
            s = splice(t, "")
        elif kind == "insert":
            s = splice(t, t.string + " " + r.choice([")", "(", "=", "1", "x", ":", ",", "''", "else", "*"]))
        elif kind == "replace":
            s = splice(t, r.choice(["=", ")", "1", "x", "else", "**", "'''a\nb\nc'''"]))
        elif kind == "duplicate":
            s = splice(t, t.string + " " + t.string)
        elif kind == "blankline":
            s = splice(t, t.string + "\n\n")
        else:
            s = splice(t, "\n" + t.string)
        if s is not None and s != src:
            yield s, kind


def run(chk: common.Check, tier: str):
    chk.rule = ("invalid programs obtained from the test-suite sources by token-level deletion / insertion / replacement / "
                "duplication, incl. edits that leave blank lines or multi-line tokens inside the reported range, plus "
                "hand-written snippets, plus EVERY single-token deletion / duplication / replacement / insertion (17 replacement "
                "tokens, 10 inserted phrases) of one valid program per grammar construct, each through parse_string and parse_file; non-trivial = the edit makes the program "
                "unparsable; distinct by source text")
    r = common.rng("c07")
    P = build_parser()
    files = sorted(glob.glob(str(common.REPO / "tests/python_parser/data/*.py")))
    per_file = 12 if tier == "quick" else 150
    sources = [(s, "snippet") for s in SNIPPETS]
    for f in files:
        src = open(f).read()
        if len(src) > 6000 and tier == "quick":
            src = src[:src.rfind("\n", 0, 3000) + 1]
        for s, kind in edits(r, src, per_file):
            sources.append((s, kind))
    corpus = host_rejected_corpus()
    if tier == "quick":
        corpus = corpus[::2]
    sources += [(s, "host-test_syntax") for s in corpus]
    chk.bump("examples from the host's test_syntax.py", len(corpus))
    # the whole 1-edit neighbourhood of one valid program per construct
    seen_src = {s for s, _ in sources}
    for core in CORE:
        try:
            ast.parse(core)
        except SyntaxError:
            chk.bump("core program not valid on this host (skipped)")
            continue
        sources.append((core, "core-valid"))
        for s, kind in sweep(core):
            if s not in seen_src:
                seen_src.add(s)
                sources.append((s, "core-" + kind))
    kfs = common.known_findings("C07")
    seen_known = set()
    global _P
    _P = P
    import multiprocessing as mp
    with tempfile.TemporaryDirectory(prefix="pegverif-c07-") as tmp:
        with mp.get_context("fork").Pool(min(16, os.cpu_count() or 1), initializer=_init, initargs=(tmp,)) as pool:
            results = pool.map(_eval, [s for s, _ in sources], chunksize=64)
        for (src, kind), (a, b, host, single) in zip(sources, results):
            chk.count()
            if single is not None:
                chk.bump(f"one-pass entry:{single[0]}")
                if single[0] == "none":
                    chk.violation("Parser.parse(rule, call_invalid_rules=True) returns None (no tree, no SyntaxError) for a program that "
                                  "parse_string refuses", {"source": src, "entry": "PythonParser(tokenizer).parse('file', call_invalid_rules=True)"}, True)
            chk.bump(f"{kind}:{a[0]}")
            if a[0] != "tree":
                chk.note_case(src)
            chk.sample({"edit": kind, "source": src[-200:], "parse_string": a[:4], "parse_file": b[:4]}, 4)
            if kind == "core-valid" and a[0] != "tree":
                chk.bump("core program valid on the host but refused by the generated parser (not part of this property)")
            nlines = src.count("\n") + 1
            for mode, x in (("parse_string", a), ("parse_file", b)):
                if x[0] == "internal":
                    hit = next((kf for kf in kfs if kf.get("exception") == x[1] and
                                (kf["witness"].get("source") == src or
                                 ("message_contains" in kf and kf["message_contains"] in x[2]))), None)
                    if hit:
                        seen_known.add(hit["id"])
                        continue
                    chk.violation(f"{mode} dies with an internal exception {x[1]}: {x[2]}",
                                  {"source": src, "entry": mode, "exception": x[1], "message": x[2]}, True)
                elif x[0] == "recursion":
                    chk.violation(f"{mode} dies with RecursionError on a {len(src)}-character program",
                                  {"source": src, "entry": mode}, True)
                elif x[0] == "SyntaxError":
                    if x[2] is None or not (1 <= x[2] <= nlines + 1) or (x[3] is not None and x[3] < 0):
                        chk.violation(f"{mode} raises SyntaxError with a position outside the text: line {x[2]}, column {x[3]}",
                                      {"source": src, "entry": mode, "lineno": x[2], "offset": x[3], "lines": nlines}, True)
                    elif x[4] and isinstance(x[4], str):
                        # the text shown with the error consists of the source lines of the reported range, nothing else
                        sl = src.split("\n")
                        last = x[6] if isinstance(x[6], int) and x[6] >= x[2] else x[2]
                        allowed = {l.rstrip("\r") for l in sl[x[2] - 1:last]}
                        shown = [l.rstrip("\r") for l in x[4].split("\n") if l.strip()]
                        # (the host tokenizer's own errors carry a fragment of the line: a substring is accepted)
                        if any(not any(l in a for a in allowed) for l in shown):
                            chk.violation(f"{mode}: the text attached to the SyntaxError is not the text of lines {x[2]}..{last}",
                                          {"source": src, "entry": mode, "lineno": x[2], "end_lineno": x[6], "text": x[4]}, True)
            # clause (i), as a SEARCH only (no theorem is possible, DESIGN.md section 11): a text the host's own parser
            # rejects must not come back as a tree.  ast.parse stops after parsing, so compiler-stage errors do not count.
            if a[0] == "tree" and host is not None:
                if host[0] == "ok":
                    chk.bump("host: accepts as well")
                elif host[0] == "rej" and re.search(r"(NEWLINE|INDENT|DEDENT|ENDMARKER)", src) and \
                        any(kf.get("id") == "C07-name-spelled-like-layout-token" for kf in kfs):
                    seen_known.add("C07-name-spelled-like-layout-token")
                elif host[0] == "rej":
                    chk.violation(f"the generated Python parser accepts a program that the host interpreter's parser rejects "
                                  f"({host[1]}, line {host[2]})",
                                  {"source": src, "host_error": host[1], "host_lineno": host[2], "edit": kind,
                                   "how": "parse_string on the source vs ast.parse of the running interpreter"}, True)
                else:
                    chk.bump("host: other error (inconclusive)")
            if a[0] != "internal" and b[0] != "internal" and a != b:
                # the file name differs in nothing we compare; positions, text and message must agree
                chk.violation("parse_string and parse_file report differently for the same text",
                              {"source": src, "parse_string": a, "parse_file": b}, True)
    for kf in kfs:
        if kf.get("id") in seen_known:
            chk.known(kf["what"])
    chk.assumptions += ["clause (i) of the property (refuses exactly what the host interpreter refuses) is not PROVED: the "
                        "other side of that equation is CPython's own parser (DESIGN.md section 11); it is searched: every "
                        "explored text that the generated parser accepts is also given to the host's ast.parse"]


def replay(path: str) -> int:
    print(open(path).read())
    return 1
