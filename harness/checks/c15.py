"""C15 — position information spans exactly the matched tokens."""
from __future__ import annotations

import json
import re
import token as T

import common
import analysis as A
import gramgen
import runmodel as rm

SEEDS = [
    "start: a=NAME b=NUMBER* { mk(LOCATIONS) }\n",
    "start: x=NAME y=(NUMBER+ { mk(LOCATIONS) }) NEWLINE { foo(mk(LOCATIONS), y) }\n",
    "start: &(NAME NUMBER NUMBER) NAME { mk(LOCATIONS) } | NAME NUMBER NUMBER NUMBER { mk(LOCATIONS) }\n",
    "start: ( k=NAME '=' v=NUMBER { mk(LOCATIONS) } )+ NEWLINE\n",
    "start: header NAME\nheader: NAME ':' NEWLINE { mk(LOCATIONS) }\n",
    "start: header NAME NEWLINE DEDENT\nheader: NAME ':' NEWLINE INDENT { mk(LOCATIONS) }\n",
    "start: NAME ':' NEWLINE INDENT { mk(LOCATIONS) } | NAME NEWLINE { mk(LOCATIONS) }\n",
    "start: a a NEWLINE { mk(LOCATIONS) } | a NEWLINE { mk(LOCATIONS) }\na: NAME !'=' { mk(LOCATIONS) } | NAME '=' NUMBER { mk(LOCATIONS) }\n",
    "start: expr NEWLINE { mk(LOCATIONS) }\nexpr: expr '+' NUMBER { mk(LOCATIONS) } | NUMBER { mk(LOCATIONS) }\n",
    # a lookahead whose operand consumes and then evaluates to a falsy value: the span must not include what it looked at
    "start: w+ NEWLINE\nw: n=NAME !r { mk(LOCATIONS) }\nr: m=NUMBER { None }\n",
    # an optional item whose rule fails after a cut: the span must end at the last token really matched
    "start: n=NAME a=[annot] ';' { mk(LOCATIONS) } | NAME ':' NAME { mk(LOCATIONS) }\nannot: ':' ~ NAME '!'\n",
    # an optional rule that matched tokens but whose value is falsy, asked for a second time at the same position (served
    # from the cache): the span of the second alternative must still cover its tokens
    "start: NAME [args] '=' NUMBER NEWLINE { mk(LOCATIONS) } | NAME [args] NEWLINE { mk(LOCATIONS) }\nargs: '(' [NAME] ')' { [] }\n",
    "start: NAME [args] '=' NUMBER { mk(LOCATIONS) } | NAME [args] { mk(LOCATIONS) }\nargs: '(' [NAME] ')' { 0 }\n",
    # an item the grammar calls `tok` (the generated code keeps the first token in a local of that name)
    "start: q NEWLINE\nq: n=NUMBER tok=NAME { foo(tok, mk(LOCATIONS)) } | tok=NAME { foo(tok, mk(LOCATIONS)) }\n",
    "start: '-' n=NUMBER tok=NAME NEWLINE { foo(n, tok, mk(LOCATIONS)) }\n",
    # the alternative itself consumes the end marker: it is layout, the span ends at the last real token
    "start: s=NAME NEWLINE $ { mk(LOCATIONS) }\n",
    # a TYPE_COMMENT token as the last matched token, and in the middle
    "start: n=NAME '=' v=NUMBER tc=TYPE_COMMENT { mk(LOCATIONS) } | n=NAME '=' v=NUMBER { mk(LOCATIONS) }\n",
    "start: NAME [TYPE_COMMENT] '=' NUMBER NEWLINE { mk(LOCATIONS) }\n",
    "start: stmt+ ENDMARKER { mk(LOCATIONS) }\nstmt: NAME NEWLINE { mk(LOCATIONS) } | NUMBER NEWLINE { mk(LOCATIONS) }\n",
]
LAYOUT = {T.NEWLINE, T.INDENT, T.DEDENT, T.ENDMARKER}
EXTRA = ["x 1 y\n", "x : y\n", "x : y ! ;\n", "x ;\n", "x 1 2 3\n", "x 1 2\n", "x = 1 y = 2 z = 3\n", "x :\n y\n", "x x\n", "x = 1 x\n", "1 + 2 + 3\n", "x\n", "x 1\n", "f ( )\n", "f ( a )\n",
         "f ( a ) = 1\n", "f\n", "f = 1\n", "10 px\n", "px\n", "- 2 em\n", "ab\ncd\n", "ab\n1\ncd\n",
         "longer_name = 22      # type: List[int]\n", "x = 1\n", "x = 1 # not a type comment\n"]


def expected_span(tokens, s, e):
    """start of the first matched token, end of the last matched non-layout token; None if only layout"""
    span = tokens[s:e]
    real = [t for t in span if t[0] not in LAYOUT]
    if not span or not real:
        return None
    return [span[0][2], span[0][3], real[-1][4], real[-1][5]]


def _collect_mk(v, out):
    if isinstance(v, dict):
        if "o" in v and v["o"] and v["o"][0] == "mk" and len(v["o"]) == 5 and all(isinstance(n, int) for n in v["o"][1:]):
            out.append(v["o"][1:])
        for w in v.values():
            _collect_mk(w, out)
    elif isinstance(v, list):
        for w in v:
            _collect_mk(w, out)


def run(chk: common.Check, tier: str):
    chk.rule = ("grammars whose actions use LOCATIONS at rule level, inside groups, in loops, after lookaheads that fetch "
                "further tokens, in left-recursive rules, plus random grammars with mk(LOCATIONS) actions x token sequences "
                "up to length 3 and hand-picked longer inputs, under {quiet, verbose} x {cache on, off}; non-trivial = the "
                "parse consumed a token and produced a location-carrying value; distinct by (grammar, input, configuration)")
    rm.shipped_hypothesis(chk, "grammar_shape_ok", "C15_generated_parsers_give_actions_the_span_of_the_match",
                           "forced items stand directly among the items of alternatives, no repetition of a cut, no underscore "
                           "rule names (data/python.gram, whose actions use LOCATIONS throughout, is among them)")
    r = common.rng("c15")
    kn = gramgen.Knobs(terminals=("NAME", "NUMBER", "'+'", "'='", "NEWLINE"), left_rec=False,
                       action_pool=("mk(LOCATIONS)", "foo(mk(LOCATIONS), x)", "[mk(LOCATIONS)]"))
    texts = SEEDS + list(gramgen.gen_grammars(r, kn, 30 if tier == "quick" else 400))
    import dataclasses
    texts += list(gramgen.gen_grammars(r, dataclasses.replace(kn, terminals=("NAME", "SOFT_KEYWORD", "STRING", "OP", "NUMBER", '"soft"', "'kw'", "'+'", "NEWLINE")), 12 if tier == "quick" else 150))
    nin = 25 if tier == "quick" else 150

    def inst(n, bad):
        chk.oblige("instance condition of C15_action_receives_the_span_of_the_match: in the module the generator model emits "
                   f"(tied to the real generator by K-gen / K-run) for each of the {n} explored grammars, every method with an "
                   "alternative that asks for LOCATIONS captures the start position at entry (m_locations) and is not a loop "
                   "helper (evaluated in Coq: rcase_loc)", not bad, json.dumps(bad[:3]))

    def has_loc(n, without):
        chk.bump("explored grammars whose generated module has at least one alternative with LOCATIONS (the theorem's "
                 "instance condition is not vacuous there)", n - len(without))
        chk.oblige("the LOCATIONS seed grammars all produce alternatives with a_locations in the generator model",
                   not [t for t in without if t in SEEDS], json.dumps([t for t in without if t in SEEDS][:3]))
    pairs = rm.krun(chk, "C15", texts, lambda t: A.inputs_upto(A.alphabet(t), 3, nin) + (EXTRA if t in SEEDS else []),
                    configs=("q1", "q0", "v1", "v0"), extra_preds=(("kloc", "rcase_loc", inst), ("khasloc", "rcase_has_loc", has_loc)))
    # every location an action received -- at rule level, in groups, in repeated groups, at any depth of the result -- must be
    # the span of the tokens of SOME successful invocation of that parse (the method whose alternative ran the action)
    for t, rj in pairs:
        for one in rj.get("results", []):
            for cfg, x in one["runs"].items():
                if x["kind"] != "ok" or "events" not in x:
                    continue
                mks = []
                _collect_mk(x.get("value"), mks)
                if not mks:
                    continue
                toks = one["tokens"]
                spans = []
                for (_n, b, ok, a, la) in x["events"]:
                    if not ok or b >= len(toks):
                        continue
                    sp = expected_span(toks, b, a) if a > b else None
                    if sp is not None:
                        spans.append(sp)
                        continue
                    # an alternative that matched NO token, or layout tokens only (both outside the property's quantifier),
                    # receives the start of the token at its entry and the end of the last real token before its end:
                    # not judged, but recognised
                    real = [tk for tk in toks[:a] if tk[0] not in LAYOUT]
                    if real:
                        spans.append([toks[b][2], toks[b][3], real[-1][4], real[-1][5]])
                chk.note_case((t, json.dumps(one["tokens"]), cfg, "nested"))
                for got in mks:
                    if got not in spans:
                        chk.violation(f"a location received by an action is {got}, which is not the span of the tokens matched by "
                                      "any invocation of this parse", {"grammar": t, "tokens": one["tokens"], "configuration": cfg,
                                      "received": got, "spans of the successful invocations": spans[:40]}, True)
                        break
    for t, rj in pairs:
        if not t.startswith("start:") or "mk(LOCATIONS)" not in t.split("\n")[0]:
            continue
        # direct oracle for the start rule when ALL its alternatives return mk(LOCATIONS), bare or as a direct argument
        # of foo(...): that location is the span of the start rule's own match
        first = t.split("\n")[0]
        alts = first[len("start:"):].split(" | ")
        acts = [a[a.rfind("{"):].strip() for a in alts]
        if not all(a.rstrip().endswith("}") and "{" in a and re.fullmatch(r"\{ (mk\(LOCATIONS\)|foo\(([\w]+, )*mk\(LOCATIONS\)(, [\w]+)*\)) \}", c)
                   for a, c in zip(alts, acts)):
            continue
        if "(" in re.sub(r"\{[^{}]*\}", "", first):
            continue
        for one in rj["results"]:
            for cfg, x in one["runs"].items():
                if x["kind"] != "ok" or not isinstance(x.get("value"), dict) or "o" not in x["value"]:
                    continue
                v = x["value"]["o"]
                if v and v[0] == "foo":
                    inner = [a for a in v[1:] if isinstance(a, dict) and "o" in a and a["o"] and a["o"][0] == "mk"]
                    if len(inner) != 1:
                        continue
                    v = inner[0]["o"]
                if not v or v[0] != "mk":
                    continue
                got = v[1:]
                exp = expected_span(one["tokens"], 0, x["mark"])
                if exp is None:
                    continue
                chk.note_case((t, json.dumps(one["tokens"]), cfg))
                if got != exp:
                    chk.violation(f"location received by the action is {got}, the matched tokens span {exp}",
                                  {"grammar": t, "tokens": one["tokens"], "configuration": cfg, "received": got,
                                   "expected": exp}, True)
        chk.sample({"grammar": t}, 3)


def replay(path: str) -> int:
    print(open(path).read())
    return 1
