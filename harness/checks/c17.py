"""C17 — a failed generation never damages an existing parser file."""
from __future__ import annotations

import builtins
import contextlib
import io
import json
import os
import shutil
import sys
import tempfile

import common
from common import cstr, clist, copt, cnat

GRAMMARS = {
    "ok_small": "start: NAME NEWLINE\n",
    "ok_actions": "start: a=NAME b=expr NEWLINE { (a, b) }\nexpr: expr '+' NUMBER | NUMBER\n",
    "ok_big": "start: " + " | ".join(f"'k{i}' NAME+ ','.NUMBER+ [x{i}]" for i in range(8)) + "\n"
              + "".join(f"x{i}: 'y{i}' | NUMBER\n" for i in range(8)),
    "missing_file": None,
    "syntax_error": "start: NAME NEWLINE |\n",
    "undefined_reference": "start: foo NEWLINE\n",
    "underscore_rule": "start: NAME\n_bad: NAME\n",
    "no_start": "begin: NAME\n",
    "bad_action": "start: a=NAME { a + } \n",
    "bad_action_in_group": "start: NUMBER (a=NAME { a + }) NEWLINE | NAME\n",
    "bad_action_after_unreachable": "start: a=NAME { foo(a, UNREACHABLE) } | NUMBER\n",
    "undefined_gather_separator": "start: sep.NAME+ NEWLINE\n",
    "undefined_nested": "start: [(NAME | (NUMBER &undefined_rule))*] NEWLINE\n",
    "underscore_item": "start: _x=NAME NEWLINE\n",
    "no_leader": "start: a NEWLINE\na: b 'x' | c 'x' | 'q'\nb: a 'y' | c 'y'\nc: a 'z' | b 'z'\n",
    # generation itself would succeed, but the command line's validator rejects the grammar (unreachable alternative)
    "validator_rejects": "start: NAME | NAME NAME\n",
}


def cli_validates(gram_path: str) -> bool:
    """does the grammar pass the validation the command line performs?"""
    from pegen.build import build_parser
    from pegen.validator import validate_grammar, ValidationError
    try:
        grammar, _, _ = build_parser(gram_path)
    except BaseException:
        return True          # not a validation matter
    try:
        validate_grammar(grammar)
        return True
    except ValidationError:
        return False

_real_open = builtins.open
_real_replace, _real_rename, _real_unlink, _real_remove = os.replace, os.rename, os.unlink, os.remove


class KillSim(BaseException):
    pass


class Injector:
    def __init__(self, faults: dict[int, tuple[str, int]], sandbox: str):
        self.faults = faults
        self.sandbox = sandbox
        self.k = 0
        self.trace: list[str] = []
        self.dead = False

    def point(self, name: str):
        if self.dead:
            raise KillSim()
        idx = self.k
        self.k += 1
        self.trace.append(name)
        return self.faults.get(idx)

    def kill(self):
        self.dead = True
        raise KillSim()


def fail(inj, kind: str, err: OSError):
    """the injected failure: a simulated process kill, an interrupt (Ctrl-C arriving during the operation) or an I/O error"""
    if kind == "kill":
        inj.kill()
    if kind == "int":
        raise KeyboardInterrupt()
    raise err


class BufFile:
    """Write-mode file with explicit buffering: data reaches the descriptor at close (flush) time."""

    def __init__(self, path, inj: Injector):
        self.inj = inj
        self.fd = os.open(path, os.O_WRONLY | os.O_CREAT | os.O_TRUNC, 0o644)
        self.buf = ""
        self.closed = False
        self.name = path

    def write(self, s):
        f = self.inj.point("write")
        if f:
            kind, part = f
            self.buf += s
            os.write(self.fd, self.buf[:part].encode())
            self.buf = ""
            fail(self.inj, kind, OSError(28, "injected: no space left on device"))
        self.buf += s
        return len(s)

    def flush(self):
        pass

    def close(self):
        if self.closed:
            return
        f = self.inj.point("close")
        self.closed = True
        if f:
            kind, part = f
            os.write(self.fd, self.buf[:part].encode())
            os.close(self.fd)
            fail(self.inj, kind, OSError(5, "injected: I/O error on flush"))
        os.write(self.fd, self.buf.encode())
        os.close(self.fd)

    def __enter__(self):
        return self

    def __exit__(self, *a):
        self.close()
        return False


@contextlib.contextmanager
def instrumented(inj: Injector):
    def in_sandbox(p):
        try:
            return os.path.abspath(os.fspath(p)).startswith(inj.sandbox)
        except TypeError:
            return False

    def fake_open(file, mode="r", *a, **kw):
        if isinstance(file, int) or not in_sandbox(file) or not any(c in mode for c in "wax+"):
            return _real_open(file, mode, *a, **kw)
        f = inj.point("open")
        if f:
            fail(inj, f[0], OSError(13, "injected: permission denied"))
        if "a" in mode:
            # append mode: create if missing, keep content (not buffered specially)
            return _real_open(file, mode, *a, **kw)
        return BufFile(file, inj)

    def fake_replace(src, dst, **kw):
        if not in_sandbox(dst):
            return _real_replace(src, dst, **kw)
        f = inj.point("replace")
        if f:
            kind, part = f
            if kind == "kill":
                if part:
                    _real_replace(src, dst, **kw)
                inj.kill()
            fail(inj, kind, OSError(18, "injected: replace failed"))
        return _real_replace(src, dst, **kw)

    def fake_unlink(p, **kw):
        if not in_sandbox(p):
            return _real_unlink(p, **kw)
        f = inj.point("unlink")
        if f:
            fail(inj, f[0], OSError(1, "injected: unlink failed"))
        return _real_unlink(p, **kw)

    import pegen.build as B
    saved_attr = B.__dict__.get("open", None)
    builtins.open = fake_open
    io_open = io.open
    io.open = fake_open
    os.replace = os.rename = fake_replace
    os.unlink = os.remove = fake_unlink
    try:
        yield
    finally:
        builtins.open = _real_open
        io.open = io_open
        os.replace, os.rename, os.unlink, os.remove = _real_replace, _real_rename, _real_unlink, _real_remove


def reference_text(gram_path: str) -> str | None:
    """What a successful generation writes (computed without touching the output path)."""
    from pegen.build import build_parser
    from pegen.python_generator import PythonParserGenerator
    try:
        grammar, _, _ = build_parser(gram_path)
        out = io.StringIO()
        PythonParserGenerator(grammar, out).generate(gram_path)
        return out.getvalue()
    except BaseException:
        return None


def run_entry(entry: str, gram_path: str, out_path: str, inj: Injector):
    """-> 'done' | 'raised' | 'killed'"""
    with instrumented(inj):
        try:
            if entry == "api":
                from pegen.build import build_python_parser_and_generator
                build_python_parser_and_generator(gram_path, out_path)
            else:
                import pegen.__main__ as M
                argv, so, se = sys.argv, sys.stdout, sys.stderr
                sys.argv = ["pegen", "-q", gram_path, "-o", out_path]
                sys.stdout = sys.stderr = io.StringIO()
                try:
                    M.main()
                finally:
                    sys.argv, sys.stdout, sys.stderr = argv, so, se
            return "done"
        except KillSim:
            return "killed"
        except SystemExit as e:
            return "done" if not e.code else "raised"
        except BaseException:
            return "raised"


def read_or_none(p):
    try:
        with _real_open(p) as f:
            return f.read()
    except FileNotFoundError:
        return None


PRELUDE = """From Coq Require Import List String NArith Bool Arith.
From Pegen Require Import Base.StrUtil Build.FsModel.
Import ListNotations.
Open Scope string_scope.
Definition fsop_eqb (a b : fsop) : bool :=
  match a, b with OOpen, OOpen | OWrite, OWrite | OClose, OClose | OReplace, OReplace | OUnlink, OUnlink => true | _, _ => false end.
Definition outcome_eqb (a b : outcome) : bool :=
  match a, b with Done, Done | Raised, Raised | Killed, Killed => true | _, _ => false end.
Definition bcase := (option string * option string * genres * list (nat * fkind * nat) *
                     (option string * option string * outcome * list fsop))%type.
"""
OK = ("fun c => let '(t0, tmp0, gr, fl, (t1, tmp1, o, tr)) := c in "
      "let '(s, o', tr') := build {| target := t0; tmp := tmp0 |} gr (faults_of fl) in "
      "option_eqb String.eqb (target s) t1 && option_eqb String.eqb (tmp s) tmp1 && outcome_eqb o o' && "
      "list_eqb fsop_eqb tr tr'")
OPNAME = {"open": "OOpen", "write": "OWrite", "close": "OClose", "replace": "OReplace", "unlink": "OUnlink"}


def run(chk: common.Check, tier: str):
    chk.rule = ("entry points {build_python_parser_and_generator, CLI main} x grammar-level causes "
                f"{sorted(GRAMMARS)} x previous state of the output path {{absent, present}} x fault sets: none, every single "
                "intercepted file operation (open/write/close/replace/unlink) failing with an exception or a simulated "
                "process kill (partial writes of 0/half/all), and double faults (failure + failing cleanup); "
                "non-trivial = a fault was injected or the grammar fails; distinct by the whole tuple; plus "
                "utils.generate_parser(grammar, path) for each grammar-level cause (no fault injection)")
    sandbox = tempfile.mkdtemp(prefix="pegverif-c17-")
    cases, descs = [], []
    try:
        for gname, gtext in GRAMMARS.items():
            gpath = os.path.join(sandbox, f"{gname}.gram")
            if gtext is not None:
                with _real_open(gpath, "w") as f:
                    f.write(gtext)
            ref_api = reference_text(gpath) if gtext is not None else None
            # which causes are failures is part of the property, not something to learn from the implementation
            expected_ok = gname.startswith("ok_") or gname == "validator_rejects"
            chk.count()
            if gtext is not None and (ref_api is not None) != expected_ok:
                chk.violation(f"generation from the grammar {gname!r} {'succeeds' if ref_api is not None else 'fails'}; "
                              f"it is {'a valid grammar' if expected_ok else 'a failure cause of the property (ill-formed grammar / bad action)'}",
                              {"grammar": gname, "grammar_text": gtext, "generation": "text produced" if ref_api is not None else "raised",
                               "how": "build_parser + PythonParserGenerator(grammar, StringIO()).generate()"}, True)
            valid = cli_validates(gpath) if gtext is not None else True
            ref = ref_api
            n = len(ref) if ref else 0
            fault_sets = [{}]
            if ref is not None:
                for k in range(5):
                    for kind in ("exn", "kill"):
                        for part in sorted({0, n // 2, n} if k in (1, 2) else ({0, 1} if (k == 3 and kind == "kill") else {0})):
                            fault_sets.append({k: (kind, part)})
                # an interrupt (Ctrl-C) arriving during each operation
                for k in range(4):
                    fault_sets.append({k: ("int", n // 2 if k in (1, 2) else 0)})
                # failure followed by a failing cleanup
                for k, ku in ((0, 1), (1, 3), (2, 3), (3, 4)):
                    for kind2 in ("exn", "kill"):
                        fault_sets.append({k: ("exn", n // 3), ku: (kind2, 0)})
            else:
                fault_sets += [{0: ("exn", 0)}, {0: ("kill", 0)}]
            if tier == "quick" and gname in ("ok_big", "ok_actions"):
                fault_sets = fault_sets[:1] + fault_sets[1::3]
            for entry in ("api", "cli"):
                # the command line refuses what its validator rejects: for it such a grammar is a failing generation
                ref = None if (entry == "cli" and not valid) else ref_api
                for old, linked in ((None, False), ("# OLD PARSER CONTENT\n" * 3, False), ("# OLD PARSER BEHIND A LINK\n" * 3, True)):
                    for faults in (fault_sets if not linked else fault_sets[:1] + fault_sets[1::2]):
                        out_path = os.path.join(sandbox, "out.py")
                        real_path = os.path.join(sandbox, "real_out.py")
                        for p in (out_path, out_path + ".tmp", real_path):
                            with contextlib.suppress(FileNotFoundError):
                                _real_unlink(p)
                        if old is not None:
                            with _real_open(real_path if linked else out_path, "w") as f:
                                f.write(old)
                            if linked:      # the output path is a symbolic link to an existing parser
                                os.symlink(real_path, out_path)
                        inj = Injector(dict(faults), sandbox)
                        res = run_entry(entry, gpath, out_path, inj)
                        after, tmp_after = read_or_none(out_path), read_or_none(out_path + ".tmp")
                        leftovers = sorted(x for x in os.listdir(sandbox) if not x.endswith(".gram") and x not in ("out.py", "real_out.py"))
                        chk.count()
                        chk.bump(f"{entry}/{res}")
                        desc = {"entry": entry, "grammar": gname, "old": ("symlink to a parser" if linked else "present") if old else "absent",
                                "faults": {str(k): v for k, v in faults.items()}, "outcome": res, "ops": inj.trace,
                                "target_after": ("old" if after == old else "complete" if after == ref and ref is not None
                                                 else "absent" if after is None else f"DAMAGED({len(after)} chars)")}
                        if faults or ref is None:
                            chk.note_case(json.dumps(desc, sort_keys=True))
                        chk.sample(desc, 5)
                        # ---- the property itself on the implementation
                        ok = (after == old) or (ref is not None and after == ref)
                        if not ok or (res == "raised" and after != old) or (res == "done" and ref is not None and after != ref):
                            chk.violation(
                                f"output path damaged or inconsistent: entry={entry} grammar={gname} faults={faults} "
                                f"outcome={res} target_after={desc['target_after']}",
                                dict(desc, grammar_text=gtext, old_content=old,
                                     how="harness/checks/c17.py run_entry with the listed fault set (fault index = n-th "
                                         "intercepted open/write/close/replace/unlink call; kind exn|kill; partial chars)"),
                                True)
                        # ---- model case
                        gr = f"(GenOK {cstr(ref)})" if ref is not None else "GenFail"
                        fl = clist(sorted(faults.items()),
                                   lambda kv: f"({cnat(kv[0])}, {'Kill' if kv[1][0] == 'kill' else 'Exn'}, {cnat(kv[1][1])})")
                        oc = {"done": "Done", "raised": "Raised", "killed": "Killed"}[res]
                        tr = clist([OPNAME.get(o, "OOpen") for o in inj.trace])
                        # unknown op names cannot be represented: mark the case as failing
                        if any(o not in OPNAME for o in inj.trace) or len([x for x in leftovers if x != "out.py.tmp"]) > 0:
                            tr = "[OUnlink; OUnlink; OUnlink; OUnlink; OUnlink; OUnlink; OUnlink]"
                        cases.append(f"({copt(old, cstr)}, None, {gr}, {fl}, ({copt(after, cstr)}, {copt(tmp_after, cstr)}, {oc}, {tr}))")
                        descs.append(desc)
        # ---- a neighbouring entry point: pegen.utils.generate_parser(grammar, parser_path) with a grammar-level cause
        # (the statement speaks of the output path of any failing generation; faults are not injected here)
        from pegen.build import build_parser
        from pegen.utils import generate_parser
        for gname, gtext in GRAMMARS.items():
            if gtext is None:
                continue
            gpath = os.path.join(sandbox, f"{gname}.gram")
            if reference_text(gpath) is not None:
                continue
            try:
                grammar = build_parser(gpath)[0]
            except BaseException:
                continue            # the text is not readable: nothing to hand to generate_parser
            for old in (None, "# OLD PARSER CONTENT\n" * 3):
                out_path = os.path.join(sandbox, "out_utils.py")
                with contextlib.suppress(FileNotFoundError):
                    _real_unlink(out_path)
                if old is not None:
                    with _real_open(out_path, "w") as f:
                        f.write(old)
                try:
                    generate_parser(grammar, out_path)
                    res = "done"
                except BaseException:
                    res = "raised"
                after = read_or_none(out_path)
                chk.count()
                chk.bump(f"utils/{res}")
                chk.note_case(json.dumps(["utils", gname, old is not None]))
                if res == "raised" and after != old:
                    chk.violation(f"output path damaged by a failing generation: entry=utils.generate_parser grammar={gname} "
                                  f"target_after={'absent' if after is None else f'DAMAGED({len(after)} chars)'}",
                                  {"entry": "pegen.utils.generate_parser(grammar, parser_path)", "grammar": gname, "grammar_text": gtext,
                                   "old_content": old, "after": after}, True)
    finally:
        shutil.rmtree(sandbox, ignore_errors=True)
    failing = common.run_cases(chk, "kbuild", PRELUDE, "bcase", cases, OK, shard=60)
    if failing is not None:
        chk.oblige(f"correspondence K-build: Build/FsModel.v predicts the operation trace, outcome and final content of "
                   f"output and temporary path of {len(cases)} instrumented runs", not failing,
                   json.dumps([descs[i] for i in failing[:4]]))
    chk.assumptions += ["os.replace is atomic (POSIX rename)", "process kill is simulated in-process: after the kill point no "
                        "further file operation takes effect", "buffered writes reach the file at flush/close; a failing "
                        "write/close leaves an arbitrary prefix (0, half, all sampled)"]


def replay(path: str) -> int:
    print(open(path).read())
    return 1
