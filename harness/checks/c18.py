"""C18 — the unreachable-alternative check is exact on item sequences."""
from __future__ import annotations

import itertools
import json

import common
from common import cstr, clist, copt
import grammar2coq as g2c
import gramgen

from pegen import grammar as G
from pegen import validator as V

PRELUDE = g2c.HEADER + "From Pegen Require Import Grammar.Printer Analysis.Validator.\n"
CASE_T = "grammar * list string * list string * option (string * string)"
OK = ("fun c => let '(g, s1, s0, v) := c in "
      "strs_eqb (map (rule_str true) (rules g)) s1 && strs_eqb (map (rule_str false) (rules g)) s0 && "
      "option_eqb (pair_eqb String.eqb String.eqb) (validate_grammar true g) v")

VOCAB = ["foo", "foo_bar", "'a'", "'ab'", "NAME", "NAME_X", "(foo bar)", "foo?", "[foo bar]", "foo*", "&foo",
         "x=foo", "','.foo+", "'foo'", '"foo"', "'NAME'", '"a"']
# items that render alike once quotes, names or punctuation are dropped, but are different items
LOOKALIKE = ["foo", "'foo'", '"foo"', "NAME", "'NAME'", "'a'", '"a"', "a"]


def real_validate(g) -> tuple[str, str] | None:
    try:
        V.validate_grammar(g)
    except V.ValidationError as e:
        msg = str(e)
        head, _, alt = msg.partition(" there is an alternative that will never be visited:\n")
        return head[len("In "):], alt
    return None


def spec_validate(g) -> bool:
    """The property, literally: some rule has an earlier alternative whose item sequence is a
    prefix of (or equal to) a later alternative's item sequence."""
    for rule in g.rules.values():
        alts = rule.rhs.alts
        for i, a in enumerate(alts):
            ai = [str(x) for x in a.items]
            for b in alts[i + 1:]:
                bi = [str(x) for x in b.items]
                if bi[:len(ai)] == ai:
                    return True
    return False


def strs(g, simple: bool) -> list[str]:
    old = G.SIMPLE_STR
    G.SIMPLE_STR = simple
    try:
        return [str(r) for r in g.rules.values()]
    finally:
        G.SIMPLE_STR = old


def grammar_texts(tier: str):
    r = common.rng("c18")
    # exhaustive: all pairs of alternatives with 1-2 items over a prefix-prone vocabulary
    small = VOCAB[:6]
    shapes = [[a] for a in small] + [[a, b] for a in small for b in small]
    pairs = list(itertools.product(shapes, shapes))
    if tier == "quick":
        pairs = r.sample(pairs, 500)
    for a, b in pairs:
        yield "start: " + " ".join(a) + " | " + " ".join(b) + "\n"
    look = [[a] for a in LOOKALIKE] + [[a, b] for a in LOOKALIKE[:5] for b in LOOKALIKE[:5]]
    lpairs = list(itertools.product(look, look))
    if tier == "quick":
        lpairs = r.sample(lpairs, 250)
    for a, b in lpairs:
        yield "start: " + " ".join(a) + " | " + " ".join(b) + "\na: NAME\n"
    n = 300 if tier == "quick" else 3000
    for _ in range(n):
        k = r.randint(2, 4)
        alts = [" ".join(r.choice(VOCAB) for _ in range(r.randint(1, 3))) for _ in range(k)]
        if r.random() < 0.3:  # plant a true item-wise prefix
            i = r.randrange(k - 1)
            alts[r.randrange(i + 1, k)] = alts[i] + (" " + r.choice(VOCAB) if r.random() < 0.7 else "")
        yield "start: other\nsum:\n" + "".join(f"    | {a}\n" for a in alts)
    kn = gramgen.Knobs(terminals=("NAME", "NAME_X", "'a'", "'ab'", "foo", "foo_bar", "NUMBER"), actions=True)
    for t in gramgen.gen_grammars(r, kn, 150 if tier == "quick" else 1500):
        yield t


def run(chk: common.Check, tier: str):
    chk.rule = ("grammars: all/sampled pairs of 1-2 item alternatives over the vocabulary "
                f"{VOCAB[:6]} (names that are character prefixes of one another), random 2-4 alternative rules "
                "with planted item-wise prefixes, random structured grammars; a case is non-trivial when the "
                "grammar has >= 2 alternatives in some rule; distinct by grammar text")
    # one validator object used for every rule of a grammar, going on after each report: the verdict on a rule must not
    # depend on what the object has seen before
    r2 = common.rng("c18-shared")
    small = VOCAB[:6] + LOOKALIKE[:3]
    for _ in range(60 if tier == "quick" else 600):
        rules = []
        for k in range(r2.randint(3, 6)):
            alts = [" ".join(r2.choice(small) for _ in range(r2.randint(1, 2))) for _ in range(r2.randint(2, 3))]
            if r2.random() < 0.5:
                alts[-1] = alts[0] + (" " + r2.choice(small) if r2.random() < 0.6 else "")
            rules.append(f"r{k}: " + " | ".join(alts) + "\n")
        text = "".join(rules)
        try:
            g = g2c.read_grammar(text)
        except SyntaxError:
            continue
        def verdicts(shared: bool, passes: int = 1):
            out = []
            v = V.SubRuleValidator(g)
            for _ in range(passes):
                out = []
                for name, rule in g.rules.items():
                    vv = v if shared else V.SubRuleValidator(g)
                    try:
                        vv.validate_rule(name, rule)
                        out.append((name, False))
                    except V.ValidationError:
                        out.append((name, True))
            return out
        fresh, shared, again = verdicts(False), verdicts(True), verdicts(True, 2)
        chk.count()
        if not (fresh == shared == again):
            chk.violation("a validator object that has already reported an alternative judges later rules differently from a "
                          f"fresh one: fresh {fresh}, shared {shared}, shared second pass {again}",
                          {"grammar": text, "how": "SubRuleValidator(g).validate_rule(name, rule) for every rule, catching ValidationError"}, True)
    cli_entry(chk, tier)
    cases, texts, reals = [], [], []
    for text in grammar_texts(tier):
        try:
            g = g2c.read_grammar(text)
            term = g2c.grammar_term(g)
        except (SyntaxError, g2c.Untranslatable):
            chk.bump("unreadable/untranslatable")
            continue
        rv = real_validate(g)
        sv = spec_validate(g)
        chk.count()
        chk.bump("reported" if rv else "silent")
        if any(len(r.rhs.alts) >= 2 for r in g.rules.values()):
            chk.note_case(text)
        # the property itself, checked on the implementation (oracle = the property text)
        if (rv is not None) != sv:
            chk.violation(
                f"validate_grammar {'reports' if rv else 'misses'} an alternative although an item-wise prefix "
                f"{'does not exist' if rv else 'exists'}",
                {"grammar": text, "implementation_reports": rv, "item_wise_prefix_exists": sv,
                 "how": "pegen.validator.validate_grammar(parse_string(grammar, GrammarParser))"}, True)
        s1, s0 = strs(g, True), strs(g, False)
        cases.append(f"({term}, {clist(s1, cstr)}, {clist(s0, cstr)}, "
                     f"{copt(rv, lambda p: f'({cstr(p[0])}, {cstr(p[1])})')})")
        texts.append(text)
        reals.append(rv)
        chk.sample({"grammar": text, "implementation": rv})
    failing = common.run_cases(chk, "kvalidate", PRELUDE, CASE_T, cases, OK)
    if failing is not None:
        chk.oblige("correspondence K-print/K-validate: model printer and validator agree with "
                   f"str()/validate_grammar on {len(cases)} grammars", not failing,
                   json.dumps([{"grammar": texts[i], "implementation": reals[i]} for i in failing[:5]]))
    chk.assumptions += ["items are compared by their rendered text (str(item)), which is what both the "
                        "implementation and the property's notion of 'sequence of items' use",
                        "only rule-level alternatives are compared (nested groups are not validated by pegen)"]


CLI_GRAMMARS = [
    "start: a=foo { a } | b=foo c=foo_bar { [b, c] }\nfoo: NAME\nfoo_bar: NUMBER\n",
    "start: foo | foo foo_bar\nfoo: NAME\nfoo_bar: NUMBER\n",
    "start: x=NAME y=NUMBER { x } | NAME\n",                         # the shorter one comes second: fine
    "start: x[int]=NAME { x } | y=NAME z=NUMBER { y }\n",
    "start: foo_bar | foo baz\nfoo: NAME\nfoo_bar: NUMBER\nbaz: 'z'\n",   # a character prefix only
    "start: a='x' { a } | 'x' b=NAME { b }\n",
]


def cli_entry(chk, tier):
    """the command line at every verbosity: the verdict must be the one of the item sequences (names, types and actions of
    the items play no role), whatever rendering options the entry point switches on"""
    import os
    import subprocess
    import tempfile
    env = dict(os.environ, PYTHONPATH=str(common.REPO / "src"), PYTHONHASHSEED="0")
    env.pop("PEGEN_VERIF", None)
    with tempfile.TemporaryDirectory(prefix="c18cli") as td:
        for k, text in enumerate(CLI_GRAMMARS):
            want = spec_validate(g2c.read_grammar(text))
            gf = os.path.join(td, f"g{k}.gram")
            open(gf, "w").write(text)
            for flags in ([["-q"], ["-q", "-v"], ["-q", "-vv"]] if tier == "quick" else [["-q"], ["-q", "-v"], ["-q", "-vv"], ["-q", "-vvv"], ["-v"], []]):
                out = os.path.join(td, f"p{k}.py")
                if os.path.exists(out):
                    os.remove(out)
                r = subprocess.run([common.PY, "-m", "pegen", *flags, gf, "-o", out], env=env, capture_output=True, text=True,
                                   timeout=120, cwd=td)
                refused = r.returncode != 0 or not os.path.exists(out)
                chk.count()
                chk.bump("cli " + " ".join(flags))
                if refused != want:
                    chk.violation(f"python -m pegen {' '.join(flags)} {'refuses' if refused else 'accepts'} a grammar whose item-wise "
                                  f"prefix test says {'refuse' if want else 'accept'}",
                                  {"grammar": text, "flags": flags, "exit": r.returncode, "stderr": r.stderr[-400:]}, True)


def replay(path: str) -> int:
    data = json.load(open(path))
    rp = data["replay"]
    if "grammar" not in rp:
        print(json.dumps(data, indent=1))
        return 1
    g = g2c.read_grammar(rp["grammar"])
    rv, sv = real_validate(g), spec_validate(g)
    print("implementation reports:", rv, "| item-wise prefix exists:", sv)
    return 0 if (rv is not None) == sv else 1
