"""C01 — generated parsers implement the PEG semantics of their grammar."""
from __future__ import annotations

import json

import common
from common import cstr, cbool, clist, cnat, cN
import analysis as A
import gramgen
import grammar2coq as g2c
import runmodel as rm
import tables
from checks.c13 import tokens_set

from pegen import grammar as G

SEEDS = [
    "start: (a=NAME { foo(a) }) NEWLINE\n",
    "start: (a=NAME b=NAME) { foo(a, b) } | NUMBER\n".replace("foo(a, b)", "'outer'"),
    "start: &&NAME NEWLINE\n",
    "start: &&foo NEWLINE\nfoo: NUMBER\n",
    "start: ','.(a | b)+ NEWLINE\na: NAME\nb: NUMBER\n",
    "start: x=NAME y=[NUMBER] ~ z='+' | NAME NUMBER\n",
    "start: NAME NAME { (name, name_1) } | NUMBER\n",
    "start: !'if' NAME &NUMBER NUMBER+ ('+' NUMBER)* NEWLINE\n",
    "start: a b? NEWLINE\na: 'x' ~ 'y' | 'x' 'z'\nb: (NUMBER | NAME)+\n",
    "start: r NEWLINE\nr: 'a' ~ 'b' { 'first' } | 'a' 'c' { 'second' }\n",
    "start: r NEWLINE\nr: x='a' ~ y='b' { foo(x, y) } | 'a' z='c' { foo(z) }\n",
    "start: p ';' q NEWLINE\np: '<' (a=NAME ',' b=NAME { foo(a) }) '>'\nq: '<' (a=NAME ',' b=NAME { foo(b) }) '>'\n",
    "start: (NUMBER) (n=NUMBER { foo(n) }) NEWLINE\n",
    "start: (NAME | NUMBER) (x=NAME { foo(x) } | y=NUMBER { foo(y, y) }) NEWLINE\n",
    # look-alike gathers / loops whose elements differ only in their action
    "start: 'v' a=','.(x=NAME '=' y=NUMBER { foo(x) })+ NEWLINE | 'w' b=','.(x=NAME '=' y=NUMBER { foo(y) })+ NEWLINE\n",
    "start: p ';' q NEWLINE\np: (x=NAME y=NUMBER { foo(x) })+\nq: (x=NAME y=NUMBER { foo(y) })+\n",
    # a negative lookahead over a repetition (a failing x+ is not reported as None)
    "start: !(NUMBER+) n=NAME NEWLINE | k=NUMBER+ NEWLINE\n",
    "start: !((NAME NUMBER)+) NUMBER NEWLINE | &(NAME+) NAME+ NEWLINE\n",
    # a forced item over a group that can match nothing (the inner call carries a trailing comma)
    "start: NAME &&(NUMBER*) NEWLINE\n",
    "start: &&(NAME?) NUMBER NEWLINE\n",
    "start: &&([NAME]) NEWLINE\n",
    # a one-or-more repetition that matches nothing, directly under a forced item / an optional: it fails like any rule
    "start: &&('+'+) NEWLINE | NAME NEWLINE\n",
    "start: &&(&&('+'+))\na: &&NAME\n",
    "start: a=['+'+] b=NAME NEWLINE { foo(a, b) }\n",
    "start: ',' a=([','+] NAME+ !NUMBER) NAME* NEWLINE\n",
    "start: a=(NUMBER+)? NAME NEWLINE\n",
    # three and more items with the same default name: name, name_1, name_2 ...
    "start: NAME NAME NAME NEWLINE\n",
    "start: NAME NAME NAME NAME NEWLINE | NUMBER NUMBER NUMBER { foo(number, number_1, number_2) }\n",
    "start: '(' '[' ']' ')' NEWLINE\n",
    "start: a a a NEWLINE\na: NAME | NUMBER\n",
]
EXTRA_INPUTS = ["v x = 1 , y = 2\n", "w x = 1 , y = 2\n", "x 1 y 2 ; z 3\n", "x\n", "1 2\n", "x y\n", "a c\n", "a b\n", "a\n", "< p , q > ; < r , s >\n", "1 2\n", "x 1\n", "x y\n", "1 x\n", "+ +\n", "+ + x\n", "\n", ", x\n", ", , x y\n", "a b c\n", "a b c d\n", "1 2 3\n", "( [ ] )\n", "a 1 b\n"]
# action-free shapes the end-to-end theorem (C01_generated_parser_implements_the_source_grammar) must keep covering:
# reads_back_as (rules g) (generate g) is evaluated on each; they also run through the differential checks above
RB_SEEDS = [
    "start: ','.item+ NEWLINE\nitem: NAME ('=' NUMBER)? | NUMBER+ | '(' [item] ')' STRING*\n",
    "start: a b? NEWLINE\na: 'x' ~ 'y' | 'x' 'z'\nb: (NUMBER | NAME)+\n",
    "start: !'if' NAME &NUMBER NUMBER+ ('+' NUMBER)* NEWLINE\n",
    "start: ','.(a | b)+ NEWLINE\na: NAME\nb: NUMBER\n",
    "start: x=NAME y=[NUMBER] ~ z='+' | NAME NUMBER\n",
    "start: NAME NAME NAME NEWLINE\n",
    "start: &&NAME NEWLINE\n",
    "start: &&foo NEWLINE\nfoo: NUMBER\n",
    "start: a a a NEWLINE\na: NAME | NUMBER\n",
    "start: stmt* NEWLINE\nstmt: 'if' ~ NAME &&':' | &NAME expr [';']\nexpr: NAME !'=' NUMBER | NAME\n",
    "start: (NAME) [(NUMBER)] ((NAME NUMBER))* NEWLINE\n",
    "start: '+'.('(' ','.NAME+ ')')+ NEWLINE\n",
    "start: SOFT_KEYWORD \"soft\" STRING OP NEWLINE\n",
    "start: !(NUMBER+) n=NAME NEWLINE | k=NUMBER+ NEWLINE\n",
    "start: !((NAME NUMBER)+) NUMBER NEWLINE | &(NAME+) NAME+ NEWLINE\n",
    "start: a=(NUMBER+)? NAME NEWLINE\n",
    "start: ',' a=([','+] NAME+ !NUMBER) NAME* NEWLINE\n",
    "start: &&('+'+) NEWLINE | NAME NEWLINE\n",
    "start: (NAME*)? [[NUMBER]] NEWLINE\n",
    "start: ('if' | NUMBER)\n",
    "start: x NEWLINE\nx: (a=NAME b=NUMBER | (NUMBER))\n",
]
RB_PRELUDE = """From Pegen Require Import Proofs.GenSem Proofs.CacheStable.
Definition rb_ok (c : grammar * N) : bool :=
  match run_gen (fst c) (snd c) with inl m => reads_back_as (rules (fst c)) m && no_left_rec m && no_wi m | inr _ => false end.
Definition rba_ok (c : grammar * N) : bool :=
  match run_gen (fst c) (snd c) with inl m => reads_back_with_actions (rules (fst c)) m | inr _ => false end.
From Pegen Require Import Proofs.ExecStrip.
Definition fp_ok (c : grammar * N) : bool :=
  match run_gen (fst c) (snd c) with
  | inl m => reads_back_with_actions (strip_rules (has_invalid_alt invalid_tbl iter_fields_tbl) (rules (fst c))) (first_pass_module m) && no_left_rec m
  | inr _ => false
  end.
From Pegen Require Import Proofs.ExecUnguard.
Definition sp_ok (c : grammar * N) : bool :=
  match run_gen (fst c) (snd c) with
  | inl m => reads_back_with_actions (rules (fst c)) (unguard_module m) && no_wi_methods m
  | inr _ => false
  end.
"""
RBS_SEEDS = [
    "start: a NEWLINE\na: x=invalid_a { foo(x) } | NAME\ninvalid_a: NUMBER { foo() }\n",
    "start: stmt* NEWLINE\nstmt: e=invalid_stmt { [e] } | NAME '=' NUMBER | NAME\ninvalid_stmt: a=NAME '=' b=NAME { foo(a, b) }\n",
]
# grammars with invalid_ rules whose FIRST pass (and, read with the guards removed, SECOND pass) the theorems must keep covering
RBF_SEEDS = [
    "start: a NEWLINE\na: invalid_a | NAME\ninvalid_a: NUMBER { foo() }\n",
    "start: stmt* NEWLINE\nstmt: invalid_stmt | NAME '=' NUMBER | NAME\ninvalid_stmt: a=NAME '=' b=NAME { foo(a, b) }\n",
    "start: a=NAME b=[invalid_b | NUMBER] NEWLINE { foo(a, b) }\ninvalid_b: '+' { foo() }\n",
    "start: a_without_invalid NEWLINE | b NEWLINE\na_without_invalid: x 'q'\nb: x 'w'\nx: invalid_x | NAME\ninvalid_x: n=NUMBER { foo(n) }\n",
]
# shapes with explicit actions the action-aware end-to-end theorem must keep covering
RBA_SEEDS = [
    "start: a=NAME b=NUMBER NEWLINE { foo(a, b) } | (x=NUMBER { [x] }) NEWLINE\n",
    "start: (a=NAME { foo(a) }) NEWLINE\n",
    "start: NAME NAME { (name, name_1) } | NUMBER\n",
    "start: p ';' q NEWLINE\np: '<' (a=NAME ',' b=NAME { foo(a) }) '>'\nq: '<' (a=NAME ',' b=NAME { foo(b) }) '>'\n",
    "start: (NAME | NUMBER) (x=NAME { foo(x) } | y=NUMBER { foo(y, y) }) NEWLINE\n",
    "start: 'v' a=','.(x=NAME '=' y=NUMBER { foo(x) })+ NEWLINE | 'w' b=','.(x=NAME '=' y=NUMBER { foo(y) })+ NEWLINE\n",
    "start: p ';' q NEWLINE\np: (x=NAME y=NUMBER { foo(x) })+\nq: (x=NAME y=NUMBER { foo(y) })+\n",
    "start: NAME NAME NAME NAME NEWLINE | NUMBER NUMBER NUMBER { foo(number, number_1, number_2) }\n",
    "start: r NEWLINE\nr: 'a' ~ 'b' { 'first' } | 'a' 'c' { 'second' }\n",
    "start: r NEWLINE\nr: x='a' ~ y='b' { foo(x, y) } | 'a' z='c' { foo(z) }\n",
]


def rb_term(text: str) -> str | None:
    try:
        g = g2c.read_grammar(text)
        tr = g2c.Translator()
        term = tr.grammar(g)
    except (SyntaxError, g2c.Untranslatable):
        return None
    return f"({term}, {cN(len(tr.ids) + 1000)})"


KF_LOOKAHEAD_FORCED = {"grammar": "start: &(&&'a') 'a' 'b'\n", "input": "a b\n"}


def nullable_items(g):
    """independent reference: which rules can match without consuming (least fixed point)"""
    nul = set()

    def item(it):
        t = type(it)
        if t is G.NameLeaf:
            return it.value in nul
        if t is G.StringLeaf:
            return False
        if t in (G.Opt, G.Repeat0, G.PositiveLookahead, G.NegativeLookahead, G.Cut):
            return True
        if t is G.Group:
            return rhs(it.rhs)
        if t is G.Rhs:
            return rhs(it)
        if t in (G.Repeat1, G.Forced):
            return item(it.node)
        if t is G.Gather:
            return item(it.node)
        return False

    def rhs(r):
        return any(all(item(n.item) for n in a.items) for a in r.alts)
    changed = True
    while changed:
        changed = False
        for r in g.rules.values():
            if r.name not in nul and rhs(r.rhs):
                nul.add(r.name)
                changed = True
    return nul, item


def well_formed(text: str) -> bool:
    """the class of the property's quantifier, decided on the grammar objects"""
    try:
        g = A.permuted(text, None)
        _, res = A.real_analysis(A.permuted(text, None))
    except Exception:
        return False
    if res["kind"] != "ok" or res["left_rec"] or "start" not in g.rules:
        return False
    nul, item_nullable = nullable_items(g)

    def falsy_capable(it) -> bool:
        t = type(it)
        if t in (G.Opt, G.Repeat0):
            return True
        if t is G.Group:
            return any(alt_falsy(a) for a in it.rhs.alts)
        if t is G.Rhs:
            return any(alt_falsy(a) for a in it.alts)
        if t is G.Forced:
            return falsy_capable(it.node)
        return False           # leaves, rule references (checked rule by rule), +, gather

    def alt_falsy(a) -> bool:
        if a.action:
            return False       # explicit actions of the pool are truthy
        vals = [n.item for n in a.items if type(n.item) not in (G.PositiveLookahead, G.NegativeLookahead, G.Cut)]
        if len(vals) == 0:
            return True
        if len(vals) == 1:
            return falsy_capable(vals[0])
        return False

    def ok_item(it) -> bool:
        t = type(it)
        if t in (G.Repeat0, G.Repeat1):
            return not item_nullable(it.node) and ok_item(it.node)
        if t is G.Gather:
            return not item_nullable(it.node) and ok_item(it.node) and ok_item(it.separator)
        if t is G.Group:
            return all(ok_alt(a) for a in it.rhs.alts)
        if t is G.Rhs:
            return all(ok_alt(a) for a in it.alts)
        if t in (G.PositiveLookahead, G.NegativeLookahead):
            return type(it.node) in (G.NameLeaf, G.StringLeaf) and not (type(it.node) is G.NameLeaf and it.node.value in g.rules)
        if t in (G.Opt, G.Forced):
            return ok_item(it.node)
        if t is G.NameLeaf:
            return not it.value.startswith("invalid") and it.value != "ENDMARKER"
        return True

    def default_name(it):
        t = type(it)
        if t is G.NameLeaf:
            v = it.value
            if v == "SOFT_KEYWORD":
                return "soft_keyword"
            if v in ("NAME", "NUMBER", "STRING", "OP", "TYPE_COMMENT", "FSTRING_START", "FSTRING_MIDDLE", "FSTRING_END"):
                return v.lower()
            if v in ("NEWLINE", "DEDENT", "INDENT", "ENDMARKER", "ASYNC", "AWAIT"):
                return "_" + v.lower()
            return v
        if t is G.StringLeaf:
            return "literal"
        if t is G.Opt:
            return "opt"
        if t is G.Forced:
            return "forced"
        if t in (G.Group, G.Rhs):
            r = it.rhs if t is G.Group else it
            if len(r.alts) == 1 and len(r.alts[0].items) == 1 and not r.alts[0].action:
                n = r.alts[0].items[0]
                return n.name or default_name(n.item)
        return None

    def action_names_bound(a) -> bool:
        """an action may only use the names of the items of its own alternative (repeated names with their _1, _2 suffixes)"""
        import ast as _ast
        if not a.action:
            return True
        try:
            used = {n.id for n in _ast.walk(_ast.parse(a.action.replace("LOCATIONS", "x=1"))) if isinstance(n, _ast.Name)}
        except SyntaxError:
            return False
        used -= {"foo", "mk", "f", "g", "Node"}
        names = [n.name or default_name(n.item) for n in a.items
                 if type(n.item) not in (G.PositiveLookahead, G.NegativeLookahead, G.Cut)]
        names = [x for x in names if x]
        # repeated names get the suffixes _1, _2, ... in order of appearance (the documented scheme)
        seen: list[str] = []
        for x in names:
            y, k = x, 0
            while y in seen:
                k += 1
                y = f"{x}_{k}"
            seen.append(y)
        return used <= set(seen)

    def ok_alt(a) -> bool:
        return not alt_falsy(a) and action_names_bound(a) and all(ok_item(n.item) for n in a.items)
    return all(all(ok_alt(a) for a in r.rhs.alts) for r in g.rules.values())


PRELUDE = """From Pegen Require Import Sem.PegEval.
Inductive epeg := PVal (v : value) (p : nat) | PFails | PSyntaxError | PActionRaises.
Definition peg_ok (g : grammar) (tbl : list (string * aexp)) (kw soft : list string) (toks : list rtok) (e : epeg) : bool :=
  match peg_eval KINDS (rules g) toks kw soft (aeval_table tbl) 400 "start", e with
  | Some (PSucc v p), PVal w q => value_eqb v w && Nat.eqb p q
  | Some PFail, PFails => true
  | Some (PErr m _), PSyntaxError => negb (String.eqb m "action raises")
  | Some (PErr m _), PActionRaises => String.eqb m "action raises"
  | _, _ => false
  end.
Definition pcase := (grammar * list (string * aexp) * list string * list string * list (list rtok * epeg))%type.
Definition pcase_ok (c : pcase) : bool :=
  let '(g, tbl, kw, soft, inputs) := c in forallb (fun te => peg_ok g tbl kw soft (fst te) (snd te)) inputs.
Definition pcase_diag (c : pcase) : list nat :=
  let '(g, tbl, kw, soft, inputs) := c in idx_filter (fun te => peg_ok g tbl kw soft (fst te) (snd te)) 0 inputs.
"""


def epeg_term(x) -> str | None:
    if x["kind"] == "ok":
        if x.get("value") is None:
            return "PFails"
        return f"(PVal {rm.value_term(x['value'])} {cnat(x['mark'])})"
    if x["kind"] == "SyntaxError":
        return "PSyntaxError"
    if x["kind"] == "exc" and x["type"] in ("NameError", "UnboundLocalError", "TypeError", "AttributeError"):
        return "PActionRaises"
    return None


def run(chk: common.Check, tier: str):
    chk.rule = ("well-formed grammars (decided on the grammar objects: no repetition of a nullable item, no rule reference in "
                "a lookahead operand, no left recursion, alternative values non-empty, no invalid_ names) built from all "
                "documented operators with names and truthy actions, plus hand-written shapes x all token sequences up to "
                "length 3 (4 in thorough) over the grammar's alphabet and a foreign token; the real parser's result is "
                "compared with the reference semantics (Sem/PegEval.v) evaluated in Coq; non-trivial = the input is "
                "accepted or a forced item fails; distinct by (grammar, input)")
    r = common.rng("c01")
    kn = gramgen.Knobs(terminals=("NAME", "NUMBER", "'+'", "','", "'if'", '"in"', "NEWLINE"), left_rec=False,
                       lookahead_terminals_only=True, p_ref=0.35,
                       action_pool=("[x, y]", "(x, 1)", "'lit'", "foo(x)", "foo()", "(name, 2)", "[literal]"))
    texts = [t for t in SEEDS + RB_SEEDS + [x for x in RBA_SEEDS if x not in SEEDS]]
    want = 60 if tier == "quick" else 800
    tries = 0
    for t in gramgen.gen_grammars(r, kn, want * 12):
        tries += 1
        if well_formed(t):
            texts.append(t)
            if len(texts) >= want + len(SEEDS) + len(RB_SEEDS) + len(RBA_SEEDS):
                break
    # a second family over the less common token kinds (SOFT_KEYWORD, STRING, OP) and both keyword styles
    import dataclasses
    kn2 = dataclasses.replace(kn, terminals=("NAME", "SOFT_KEYWORD", "STRING", "OP", "NUMBER", '"soft"', "'kw'", "'+'", "NEWLINE"))
    want2 = len(texts) + (15 if tier == "quick" else 200)
    for t in gramgen.gen_grammars(r, kn2, (15 if tier == "quick" else 200) * 12):
        tries += 1
        if well_formed(t):
            texts.append(t)
            if len(texts) >= want2:
                break
    chk.bump("random grammars tried", tries)
    nin, ln = (40, 3) if tier == "quick" else (250, 4)
    inputs_for = lambda t: A.inputs_upto(A.alphabet(t), ln, nin) + (EXTRA_INPUTS if t in SEEDS else [])
    pairs = rm.krun(chk, "C01", texts, inputs_for, configs=("q1",))
    # ---- reference semantics vs the implementation, evaluated in Coq
    cases, descs = [], []
    for t, rj in pairs:
        try:
            g = g2c.read_grammar(t)
            term = g2c.grammar_term(g)
        except (SyntaxError, g2c.Untranslatable):
            continue
        ins = []
        for src, one in zip(inputs_for(t), rj["results"]):
            x = one["runs"]["q1"]
            e = epeg_term(x)
            if e is None:
                if x["kind"] == "exc":
                    chk.violation(f"internal error escapes the parser: {x['type']}: {x.get('msg')}",
                                  {"grammar": t, "input": src, "exception": x["type"]}, True)
                continue
            ins.append(f"({clist(one['tokens'], rm.tok_term)}, {e})")
            if x["kind"] != "ok" or x.get("value") is not None:
                chk.note_case((t, src))
        if ins:
            cases.append(f"({term}, {rm.action_table(rj['text'])}, {clist(rj['keywords'], cstr)}, "
                         f"{clist(rj['soft_keywords'], cstr)}, {clist(ins)})")
            descs.append((t, rj))
        chk.sample({"grammar": t[:200]}, 3)
    prelude = rm.prelude(tokens_set()) + PRELUDE
    failing = common.run_cases(chk, "kpeg", prelude, "pcase", cases, "pcase_ok", shard=8, timeout=1200)
    if failing:
        for i in failing[:4]:
            t, rj = descs[i]
            f = common.GEN / "C01" / f"kpeg_diag_{i}.v"
            f.write_text(prelude + f"Definition C : pcase := {cases[i]}.\nEval vm_compute in (\"DIAG\", pcase_diag C).\n")
            rc, out = common.coqc(f, timeout=600)
            import re
            m = re.search(r'\("DIAG",\s*\[(.*?)\]\)', " ".join(out.split()))
            idxs = [int(x.replace("%nat", "")) for x in m.group(1).split(";")] if m and m.group(1).strip() else []
            srcs = [s for s, one in zip(inputs_for(t), rj["results"]) if epeg_term(one["runs"]["q1"]) is not None]
            for k in idxs[:2]:
                src = srcs[k] if k < len(srcs) else "?"
                one = rj["results"][inputs_for(t).index(src)] if src != "?" else {}
                chk.violation("the generated parser's result differs from the PEG reference semantics",
                              {"grammar": t, "input": src, "implementation": one.get("runs", {}).get("q1"),
                               "how": "Sem/PegEval.v (peg_eval) evaluated in Coq on the same tokens"}, True)
    elif failing is not None:
        chk.oblige(f"reference check: peg_eval (Sem/PegEval.v) agrees with the real generated parsers on {len(cases)} "
                   "well-formed grammars x enumerated inputs (value and tokens consumed; failure; forced-item error)", True)
    # ---- instance conditions of the end-to-end theorem
    floor = [rb_term(t) for t in RB_SEEDS]
    bad = common.run_cases(chk, "rb_floor", prelude + RB_PRELUDE, "(grammar * N)", [x for x in floor if x], "rb_ok", shard=4, timeout=600)
    if bad is not None:
        chk.oblige("instance condition of C01_generated_parser_implements_the_source_grammar (and of its cached version): reads_back_as (rules g) (generate g) "
                   f"= true, no leader, no *_without_invalid method, for the {len(RB_SEEDS)} action-free shapes of RB_SEEDS (gathers, repetitions, groups, optionals, "
                   "lookaheads, cut, forced items, named items, keywords, wrappers over repetitions, flattened rules), evaluated in Coq on the generator model's output "
                   "(the same output the K-gen comparison checks against the real generator's text)",
                   not bad and all(floor), json.dumps([RB_SEEDS[i] for i in bad]))
    # the tie of that module to the code: the generator model's rendered output for these grammars is, character by
    # character, what the real generator writes (the same comparison C10 makes on its own grammars)
    import genmodel as gm
    kcases = []
    for t in RB_SEEDS + RBA_SEEDS + RBF_SEEDS + RBS_SEEDS + [x for x in texts if x not in RB_SEEDS and "{" not in x][:40]:
        try:
            c, _res = gm.case(g2c.read_grammar(t))
        except (SyntaxError, g2c.Untranslatable):
            c = None
        if c:
            kcases.append(c)
    badk = common.run_cases(chk, "rb_kgen", gm.prelude(tokens_set()), gm.CASE_T, kcases, gm.OK, shard=16, timeout=900)
    if badk is not None:
        chk.oblige(f"correspondence K-gen on the grammars of the end-to-end theorem: Gen/Render.v over the generator model's IR equals "
                   f"the real generator's output text on {len(kcases)} grammars (the RB_SEEDS, RBA_SEEDS, RBF_SEEDS and RBS_SEEDS floors and explored action-free ones)",
                   not badk, json.dumps(badk[:5]))
    floor2 = [rb_term(t) for t in RBA_SEEDS]
    bad2 = common.run_cases(chk, "rba_floor", prelude + RB_PRELUDE, "(grammar * N)", [x for x in floor2 if x], "rba_ok", shard=4, timeout=600)
    if bad2 is not None:
        chk.oblige("instance condition of C01_generated_parser_implements_the_source_grammar_with_explicit_actions: "
                   f"reads_back_with_actions (rules g) (generate g) = true for the {len(RBA_SEEDS)} shapes of RBA_SEEDS (actions over named "
                   "items, in groups, in repetition and gather bodies, over default and repeated names, after a cut)",
                   not bad2 and all(floor2), json.dumps([RBA_SEEDS[i] for i in bad2]))
    floor3 = [rb_term(t) for t in RBF_SEEDS]
    bad4 = common.run_cases(chk, "rbf_floor", prelude + RB_PRELUDE, "(grammar * N)", [x for x in floor3 if x], "fp_ok", shard=4, timeout=600)
    if bad4 is not None:
        chk.oblige("instance condition of C01_first_pass_implements_the_grammar_without_its_invalid_alternatives (and of the cached version: no leader): the stripped module "
                   "reads back as the source grammar without the alternatives mentioning an invalid_ rule (strip_rules with the extracted "
                   f"InvalidNodeVisitor table), for the {len(RBF_SEEDS)} shapes of RBF_SEEDS",
                   not bad4 and all(floor3), json.dumps([RBF_SEEDS[i] for i in bad4]))
    floor4 = [rb_term(t) for t in RBS_SEEDS]
    bad5 = common.run_cases(chk, "rbs_floor", prelude + RB_PRELUDE, "(grammar * N)", [x for x in floor4 if x], "sp_ok", shard=4, timeout=600)
    if bad5 is not None:
        chk.oblige("instance condition of C01_second_pass_implements_the_full_grammar: the module with its guards removed reads back as the "
                   f"FULL source grammar (invalid_ alternatives included) and has no *_without_invalid method, for the {len(RBS_SEEDS)} shapes of RBS_SEEDS "
                   "(invalid_ alternatives that carry their own action; a bare `invalid_x` alternative is emitted with the UNREACHABLE filler "
                   "as its action, which is not the value the grammar's default rule gives it -- by design it never returns)",
                   not bad5 and all(floor4), json.dumps([RBS_SEEDS[i] for i in bad5]))
    # ---- the shipped grammars: which generated parsers the end-to-end theorems speak about (pegen's own grammar parser is one)
    import glob, os
    shipped = []
    for pth in sorted(glob.glob(str(common.REPO / "**/*.gram"), recursive=True)):
        try:
            x = rb_term(open(pth).read())
        except Exception:       # noqa: other dialects, tabs
            x = None
        if x:
            shipped.append((os.path.relpath(pth, common.REPO), x))
    bad6 = common.run_cases(chk, "rb_shipped", prelude + RB_PRELUDE, "(grammar * N)", [x for _, x in shipped], "fp_ok", shard=3, timeout=1200)
    if bad6 is not None:
        inside = [p for i, (p, _) in enumerate(shipped) if i not in bad6]
        chk.bump("shipped grammar files inside the class of C01_cached_first_pass_implements_the_grammar_without_its_invalid_alternatives", len(inside))
        chk.bump("shipped grammar files read", len(shipped))
        chk.oblige("instance condition of the end-to-end theorems on pegen's OWN grammar: for src/pegen/metagrammar.gram (the grammar "
                   "grammar_parser.py is generated from) reads_back_with_actions (strip_rules rs) (first_pass_module (generate rs)) = true and "
                   "there is no leader -- so what pegen's grammar parser returns or raises is what the metagrammar prescribes, under the "
                   f"theorem's hypotheses; inside as well: {', '.join(p for p in inside if 'metagrammar' not in p)}",
                   any("metagrammar.gram" in p for p in inside), json.dumps(inside))
    rnd = [(t, rb_term(t)) for t in texts if t not in RB_SEEDS]
    rnd = [(t, x) for t, x in rnd if x]
    bad = common.run_cases(chk, "rb_rnd", prelude + RB_PRELUDE, "(grammar * N)", [x for _, x in rnd], "rb_ok", shard=40, timeout=900)
    if bad is not None:
        chk.bump("explored grammars", len(rnd))
        chk.bump("explored grammars inside the class of the end-to-end theorem (reads_back_as = true)", len(rnd) - len(bad))
        bad3 = common.run_cases(chk, "rba_rnd", prelude + RB_PRELUDE, "(grammar * N)", [x for _, x in rnd], "rba_ok", shard=40, timeout=900)
        if bad3 is not None:
            chk.bump("explored grammars inside the class of the end-to-end theorem with explicit actions (reads_back_with_actions = true)",
                     len(rnd) - len(bad3))
            (common.GEN / "C01" / "rba_outside.json").write_text(json.dumps([rnd[i][0] for i in bad3], indent=1))
        plain = [rnd[i][0] for i in bad if "{" not in rnd[i][0]]
        chk.bump("action-free explored grammars outside that class", len(plain))
        (common.GEN / "C01" / "rb_outside.json").write_text(json.dumps(plain, indent=1))
    res = rm.run_traced([{"grammar": KF_LOOKAHEAD_FORCED["grammar"], "inputs": [KF_LOOKAHEAD_FORCED["input"]], "configs": ["q1"]}])[0]
    if "results" in res and res["results"][0]["runs"]["q1"].get("value") is None:
        for kf in common.known_findings("C01"):
            chk.known(kf["what"])
    chk.assumptions += ["explicit actions are drawn from a pool of truthy expressions; action semantics via the MiniPy "
                        "evaluator shared by model and reference"]


def replay(path: str) -> int:
    print(open(path).read())
    return 1
