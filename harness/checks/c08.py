"""C08 — the shipped meta-parser is the generator's own output (bootstrap fixpoint)."""
from __future__ import annotations

import ast
import glob
import io
import json
import os
import tokenize

import common
import genmodel as gm
import grammar2coq as g2c
import tables
from checks.c13 import tokens_set

from pegen.python_generator import PythonParserGenerator
from pegen.tokenizer import Tokenizer

META = common.REPO / "src/pegen/metagrammar.gram"
SHIPPED = common.REPO / "src/pegen/grammar_parser.py"


def read_with(parser_class, text: str):
    tk = Tokenizer(tokenize.generate_tokens(io.StringIO(text).readline))
    p = parser_class(tk)
    g = p.start()
    return g


def generate(g, name="<gen>") -> str:
    out = io.StringIO()
    PythonParserGenerator(g, out).generate(name)
    return out.getvalue()


def load(text: str):
    ns = {}
    exec(compile(text, "<stage>", "exec"), ns)
    return ns["GeneratedParser"]


def run(chk: common.Check, tier: str):
    chk.rule = ("the shipped meta-grammar and parser; regeneration stages 1..3 starting from the shipped parser; every .gram "
                "file of the repository read by the shipped and by the regenerated parser; non-trivial = every comparison "
                "(the domain is the closed instance the property names)")
    from pegen.grammar_parser import GeneratedParser as Shipped
    meta_text = META.read_text()
    # stage 1: what the package generates from its meta-grammar, using the shipped parser as reader
    g0 = read_with(Shipped, meta_text)
    stage = [generate(g0)]
    chk.count()
    try:
        same = ast.dump(ast.parse(stage[0])) == ast.dump(ast.parse(SHIPPED.read_text()))
    except SyntaxError as e:
        same = False
    if not same:
        chk.violation("the shipped grammar_parser.py is not what the package generates from metagrammar.gram (as Python ASTs)",
                      {"first_difference": gm.first_diff(stage[0], SHIPPED.read_text()),
                       "how": "ast.dump(generate(read(metagrammar.gram))) vs ast.dump(src/pegen/grammar_parser.py)"}, True)
    # the way the package itself regenerates the file (Makefile target regen-metaparser): the command line, in a
    # fresh interpreter, writing to a scratch path
    import subprocess, tempfile
    with tempfile.TemporaryDirectory(prefix="pegverif-c08-") as td:
        outp = os.path.join(td, "grammar_parser.py")
        env = dict(os.environ, PYTHONPATH=str(common.REPO / "src"))
        r = subprocess.run([common.PY, "-m", "pegen", "-q", str(META), "-o", outp], capture_output=True, text=True, env=env,
                           cwd=td, timeout=300 * common.TMULT)
        chk.count()
        chk.note_case("regeneration through the command line")
        if r.returncode != 0 or not os.path.exists(outp):
            chk.violation("the package cannot regenerate its meta-parser: `python -m pegen -q metagrammar.gram -o ...` "
                          f"exits with status {r.returncode}: {(r.stdout + r.stderr).strip()[-300:]}",
                          {"command": "python -m pegen -q src/pegen/metagrammar.gram -o <scratch>", "status": r.returncode,
                           "output": (r.stdout + r.stderr)[-1000:]}, True)
        else:
            cli_text = open(outp).read()
            try:
                same_cli = ast.dump(ast.parse(cli_text)) == ast.dump(ast.parse(SHIPPED.read_text()))
            except SyntaxError:
                same_cli = False
            if not same_cli:
                chk.violation("what `python -m pegen -q metagrammar.gram` writes is not the shipped grammar_parser.py (as Python ASTs)",
                              {"first_difference": gm.first_diff(cli_text, SHIPPED.read_text())}, True)
    # stages 2, 3: regenerate with the regenerated parser
    parsers = []
    for k in (1, 2):
        try:
            P = load(stage[-1])
            parsers.append(P)
            g = read_with(P, meta_text)
            if not g:
                raise SyntaxError("regenerated parser cannot read the meta-grammar")
            stage.append(generate(g))
        except BaseException as e:      # noqa
            chk.violation(f"stage {k + 1} cannot be produced: {type(e).__name__}: {e}", {"stage": k + 1}, True)
            break
        chk.count()
        chk.note_case(("stage", k + 1))
        if stage[-1] != stage[0]:
            chk.violation(f"regeneration stage {k + 1} differs from stage 1",
                          {"first_difference": gm.first_diff(stage[0], stage[-1])}, True)
    # every grammar file: same grammar under both readers
    if parsers:
        P1 = parsers[0]
        for p in sorted(glob.glob(str(common.REPO / "**/*.gram"), recursive=True)):
            text = open(p).read()
            res = []
            for P in (Shipped, P1):
                try:
                    g = read_with(P, text)
                    res.append(json.dumps(g2c.dump(g), sort_keys=True) if g else "unreadable")
                except BaseException as e:   # noqa
                    res.append(f"{type(e).__name__}")
            chk.count()
            chk.note_case(os.path.relpath(p, common.REPO))
            if res[0] != res[1]:
                chk.violation(f"{os.path.relpath(p, common.REPO)} is read differently by the shipped and the regenerated parser",
                              {"file": os.path.relpath(p, common.REPO)}, True)
            chk.sample({"file": os.path.relpath(p, common.REPO), "same_grammar": res[0] == res[1]}, 4)
    # instance of K-gen: the generator MODEL's text for the meta-grammar is stage 1
    d = common.gen_dir("C08")
    try:
        (d / "Tables.v").write_text(tables.tables_v())
    except tables.ExtractError as e:
        chk.oblige("table extraction", False, str(e))
        return
    rc, out = common.coqc(d / "Tables.v")
    chk.oblige("extracted tables compile (coq/gen/C08/Tables.v)", rc == 0, out[-2000:])
    c, res = gm.case(g2c.read_grammar(meta_text))
    failing = common.run_cases(chk, "kgen_meta", gm.prelude(tokens_set()), gm.CASE_T, [c], gm.OK)
    if failing is not None:
        chk.oblige("instance lemma: render (generate G_meta) of the generator model equals the text the generator writes for "
                   "metagrammar.gram (vm_compute)", not failing, "model text differs from stage 1")


def replay(path: str) -> int:
    print(open(path).read())
    return 1
