"""C05 — failure consumes nothing; success never moves backwards."""
from __future__ import annotations

import glob
import io
import json
import os
import tokenize

import common
import analysis as A
import gramgen
import runmodel as rm

SEEDS = [
    # a left-recursive leader whose seed is truthy but whose later growth round gets further and yields a FALSY value: the
    # growing wrapper must put the cursor back to where the last good seed ended
    "start: e NEWLINE | e '-' NUMBER NEWLINE\ne: e '-' NUMBER { 0 } | NUMBER { 1 }\n",
    "start: [neg] NAME '+' NEWLINE\nneg: '-' ~ NUMBER '+'\n",
    "start: item+ NEWLINE\nitem: NAME !'=' | NAME '=' NUMBER\n",
    "start: expr NEWLINE\nexpr: expr '+' term | term\nterm: term '*' NUMBER | NUMBER\n",
    "start: ','.(a | b)+ [c] NEWLINE\na: 'a'\nb: 'b' &'c'\nc: 'c'+\n",
    "start: &&'x' (NAME | NUMBER)* ~ 'y' | 'x' NUMBER\n",
    # every token primitive tried where it does not match (a failing primitive consumes nothing), also as an optional item
    "start: [SOFT_KEYWORD] NAME NEWLINE | [NUMBER] [STRING] [OP] \"please\" NEWLINE\n",
    "start: SOFT_KEYWORD \"run\" | NAME SOFT_KEYWORD? NUMBER | [NAME] 'if' | STRING? OP? NEWLINE\n",
    "start: [t] NAME NEWLINE | [t] NUMBER NEWLINE\nt: SOFT_KEYWORD \"now\" | NAME 'if' | NUMBER STRING | OP OP\n",
    # matching the end marker moves the parser past it like any other token
    "start: NAME NEWLINE ENDMARKER | NAME NAME NEWLINE $\n",
    "start: NAME '=' NUMBER TYPE_COMMENT NEWLINE | NAME '=' NUMBER [TYPE_COMMENT] NAME | NAME '=' NUMBER\n",
    "start: doc doc | doc\ndoc: NAME NEWLINE $ | NUMBER NEWLINE ENDMARKER\n",
]
# a generated rule with an explicit action that evaluates to a falsy value after consuming
KF_GRAMMAR = "start: a NAME NEWLINE | NAME NAME NEWLINE\na: NAME { None }\n"


def violations_in(events):
    out = []
    for name, before, ok, after, la in events:
        if la and after != before:
            out.append(f"lookahead helper {name} moved the parser from {before} to {after}")
        elif not ok and after != before:
            out.append(f"{name}() failed at position {before} but left the parser at {after}")
        elif ok and after < before:
            out.append(f"{name}() succeeded at {before} but left the parser before it, at {after}")
    return out


def monitor_shipped(chk, tier):
    """the shipped meta-grammar parser on every .gram file; the Python parser on test sources"""
    import runpy
    from pegen.grammar_parser import GeneratedParser as GrammarParser
    from pegen.tokenizer import Tokenizer
    import trace_runner as tr
    T = tr.traced_class(GrammarParser, True)
    for p in sorted(glob.glob(str(common.REPO / "**/*.gram"), recursive=True)):
        tk = Tokenizer(tokenize.generate_tokens(open(p).readline))
        parser = T(tk)
        parser._events = []
        try:
            parser.start()
        except Exception:
            pass
        chk.count(len(parser._events))
        for v in violations_in(parser._events)[:1]:
            chk.violation("shipped meta-grammar parser: " + v, {"file": os.path.relpath(p, common.REPO), "problem": v}, True)
    # Python parser
    from pegen.build import build_parser
    from pegen.utils import generate_parser
    g, _, _ = build_parser(str(common.REPO / "data/python.gram"))
    P = generate_parser(g, parser_name="PythonParser")
    TP = tr.traced_class(P, True)
    files = sorted(glob.glob(str(common.REPO / "tests/python_parser/data/*.py")))
    if tier == "quick":
        files = files[:4]
    kfs = common.known_findings("C05")
    known_sites = {kf["site"] for kf in kfs if "site" in kf}
    seen_known = set()
    sources = [open(f).read() for f in files] + ["x = (1,\n 2) 3\n", "for x in :\n    pass\n", "f(a for b)\n", "a = *b\n",
                                                 "def f(:\n pass\n", "x = 1 +\n", "print 'a'\n", "f(**a, *b)\n", "\n"]
    for src in sources:
        for invalid_pass in (False, True):
            tk = Tokenizer(tokenize.generate_tokens(io.StringIO(src).readline))
            parser = TP(tk)
            parser._events = []
            parser.call_invalid_rules = invalid_pass
            try:
                parser.file()
            except BaseException:
                pass
            chk.count(len(parser._events))
            for name, before, ok, after, la in parser._events:
                if (la and after != before) or (not ok and after != before) or (ok and after < before):
                    if name in known_sites and invalid_pass:
                        seen_known.add(name)
                        continue
                    chk.violation(f"Python parser: {name}() ok={ok} moved {before} -> {after}",
                                  {"source": src[:400], "rule": name, "before": before, "after": after, "ok": ok,
                                   "error_mode": invalid_pass}, True)
    for kf in kfs:
        if kf.get("site") in seen_known:
            chk.known(kf["what"])


def run(chk: common.Check, tier: str):
    chk.rule = ("every invocation of every rule method, token primitive and lookahead helper (wrapped from outside) during "
                "parses of: random structured grammars and hand-written shapes (cuts, lookaheads, left recursion, gathers, "
                "loops) x all token sequences up to length 3 over the grammar's alphabet under {quiet,verbose} x {cache on, "
                "cache off}; the shipped meta-grammar parser on every .gram file; the generated Python parser on test "
                "sources and invalid snippets in both passes; non-trivial = the run contains a failed invocation or a cache "
                "hit; distinct by (grammar, input, configuration)")
    rm.shipped_hypothesis(chk, "grammar_shape_ok", "C05_generated_parsers_keep_the_position_invariant",
                           "forced items stand directly among the items of alternatives, no repetition of a cut, no underscore rule names")
    r = common.rng("c05")
    kn = gramgen.Knobs(terminals=("NAME", "NUMBER", "'+'", "','", "'if'", '"in"', "NEWLINE"), left_rec=True,
                       # explicit actions that are truthy whatever their variables hold (the falsy-explicit-action case is the recorded finding)
                       action_pool=("[x, y]", "(x, 1)", "'lit'", "foo(x)", "mk(LOCATIONS)", "foo()"))
    texts = SEEDS + list(gramgen.gen_grammars(r, kn, 40 if tier == "quick" else 500))
    import dataclasses
    texts += list(gramgen.gen_grammars(r, dataclasses.replace(kn, terminals=("NAME", "SOFT_KEYWORD", "STRING", "OP", "NUMBER", '"soft"', "'kw'", "'+'", "NEWLINE")), 12 if tier == "quick" else 150))
    nin = 25 if tier == "quick" else 120
    extra = ["1 - 1\n", "1 - 1 - 1\n", "1\n", "x = 1 # type: int\n", "x = 1 # type: int\ny\n", "x = 1\n", "x = 1 y\n", "x\ny\n", "x y\n"]
    pairs = rm.krun(chk, "C05", texts, lambda t: A.inputs_upto(A.alphabet(t), 3, nin) + (extra if t in SEEDS else []),
                    configs=("q1", "q0", "v1", "v0"))
    for t, rj in pairs:
        for one in rj["results"]:
            for cfg, x in one["runs"].items():
                ev = x.get("events") or []
                if any(not e[2] for e in ev):
                    chk.note_case((t, json.dumps(one["tokens"]), cfg))
                for v in violations_in(ev)[:1]:
                    chk.violation(v, {"grammar": t, "tokens": one["tokens"], "configuration": cfg, "problem": v,
                                      "how": "every method of the generated parser wrapped from outside (harness/trace_runner.py)"}, True)
        chk.sample({"grammar": t[:200], "inputs": len(rj["results"])}, 3)
    # the second pass (error mode on): repeated invalid_ rules that RETURN a value -- their loop helpers get the UNREACHABLE
    # filler as action -- must keep what they consumed and restore the cursor on failure like every other method
    # (the alternatives that mention them carry an explicit truthy action: a BARE one gets the falsy UNREACHABLE filler,
    # the territory of the recorded falsy-action finding)
    etexts = ["start: a=invalid_x* b=NUMBER NEWLINE { foo(a, b) } | NAME* '!'* NUMBER NEWLINE\ninvalid_x: n=NAME '!' { foo(n) }\n",
              "start: a NEWLINE\na: x=invalid_x+ NUMBER { foo(x) } | NAME+ NUMBER\ninvalid_x: n=NAME { foo(n) }\n",
              "start: x=(invalid_x)* NUMBER NEWLINE { foo(x) } | NAME* NUMBER NEWLINE\ninvalid_x: n=NAME { foo(n) }\n",
              "start: x=','.invalid_x+ NUMBER NEWLINE { foo(x) } | ','.NAME+ NUMBER NEWLINE\ninvalid_x: n=NAME { foo(n) }\n"]
    eins = ["x ! y ! 1\n", "x y 1\n", "1\n", "x 1\n", "x ! 1\n", "x , y 1\n", "x y\n", "x !\n"]
    epairs = rm.krun(chk, "C05", etexts, lambda t: eins, configs=("q1", "q0"), call_invalid=True, want_cases=False)
    for t, rj in epairs:
        for one in rj["results"]:
            for cfg, x in one["runs"].items():
                ev = x.get("events") or []
                chk.note_case((t, json.dumps(one["tokens"]), cfg, "error mode"))
                for v in violations_in(ev)[:1]:
                    chk.violation(v + " (error mode on)", {"grammar": t, "tokens": one["tokens"], "configuration": cfg, "problem": v,
                                  "error_mode": True}, True)
    # known finding: explicit falsy action after consuming
    res = rm.run_traced([{"grammar": KF_GRAMMAR, "inputs": ["x y\n"], "configs": ["q1"]}])[0]
    if "results" in res:
        ev = res["results"][0]["runs"]["q1"].get("events") or []
        for kf in common.known_findings("C05"):
            if kf.get("id") == "C05-falsy-explicit-action" and violations_in(ev):
                chk.known(kf["what"])
    # around the recorded finding: a rule whose explicit action is falsy "fails" with the cursor moved (the finding), but
    # everything AROUND it must still behave: lookahead helpers restore the cursor whatever their operand returned, and
    # no other method may fail with the cursor moved
    fam = [("start: !a NAME NAME NEWLINE | NUMBER\na: NAME { None }\n", ["x y\n", "1\n"], {"a"}),
           ("start: &a NAME NEWLINE | NUMBER\na: NAME { 0 }\n", ["x\n", "1\n"], {"a"}),
           ("start: w=NAME !r NAME NEWLINE { [w] }\nr: n=NAME { False }\n", ["foo bar\n", "foo\n"], {"r"}),
           ("start: !(a) NAME NEWLINE\na: NAME NAME { None }\n", ["x y\n", "x\n"], {"a", "_tmp_1"}),
           ("start: [a] NAME NAME NEWLINE\na: NAME { [] }\n", ["x y\n"], {"a"}),
           # a left-recursive leader whose seed is falsy: the growing wrapper itself puts the cursor back
           ("start: [s] NUMBER NEWLINE\ns: s '+' NUMBER { 0 } | NUMBER { 0 }\n", ["1\n", "1 + 1\n", "1 1\n"], set()),
           ("start: [s] NAME NEWLINE\ns: t '-' { [] } | NAME { None }\nt: s\n", ["x\n", "x -\n"], set())]
    fres = rm.run_traced([{"grammar": g, "inputs": ins, "configs": ["q1", "q0", "v1"]} for g, ins, _ in fam])
    for (g, ins, sites), rj in zip(fam, fres):
        for one in rj.get("results", []):
            for cfg, x in one["runs"].items():
                chk.count()
                for name, before, ok, after, la in (x.get("events") or []):
                    if la and after != before:
                        chk.violation(f"lookahead helper {name} moved the parser from {before} to {after} (operand with a falsy action)",
                                      {"grammar": g, "tokens": one["tokens"], "configuration": cfg}, True)
                    elif not la and not ok and after != before and name not in sites:
                        chk.violation(f"{name}() failed at position {before} but left the parser at {after}",
                                      {"grammar": g, "tokens": one["tokens"], "configuration": cfg}, True)
    monitor_shipped(chk, tier)
    chk.assumptions += ["explicit actions of the grammars under test evaluate to truthy values (pegen signals failure by a "
                        "falsy return value; an explicit action that is falsy after consuming is the recorded finding)"]


def replay(path: str) -> int:
    print(open(path).read())
    return 1
