"""C04 — memoization and tracing are unobservable."""
from __future__ import annotations

import json

import common
import analysis as A
import gramgen
import runmodel as rm

SEEDS = [
    "start: NAME r NEWLINE\nr: invalid_z\ninvalid_z: 'zz'\n",
    "start: [sign] NAME | sign NUMBER\nsign: '+' { 0 } | '-' { 1 }\n",
    "start: [sign] NUMBER NEWLINE | [sign] NAME NEWLINE | sign? sign? NAME NAME\nsign: '+' { 0 } | '-' { None }\n",
    "start: expr NEWLINE\nexpr: (term '+') NUMBER | term\nterm: (expr '*') NUMBER | NUMBER\n",
    "start: expr NEWLINE\nexpr: expr '+' term | term\nterm: term '*' NUMBER | NUMBER\n",
    "start: a a NEWLINE | a NEWLINE\na: NAME &NAME | NAME\n",
    "start: foo NEWLINE\nfoo: bar 'A' | 'B'\nbar: (foo 'C' | foo 'K') ';' | 'D'\n",
    # a helper of a left-recursive cycle whose FIRST alternative is nullable by analysis (a lookahead and a star) and whose
    # later alternative re-enters the leader behind an optional item: its result changes while the seed grows
    "start: e=expr NEWLINE { e }\nexpr: l=expr '+' t=atom { foo(l, t) } | q=query { q } | a=atom { a }\n"
    "query: &'!' b='!'* { foo(b) } | s=['-'] e=expr '?' { foo(s, e) }\natom: NAME | NUMBER\n",
    "start: e NEWLINE\ne: e '+' NAME | q | NAME\nq: &NUMBER NUMBER* | ['-'] e '?'\n",
]
EXTRA_INPUTS = ["1 * 2 + 3\n", "1 + 2 * 3 + 4\n", "1 * 2 * 3\n", "B C ; A C ; A\n", "B C ; A\n", "D A K ; A\n", "+ x\n", "+ x y\n",
                "- 1\n", "+ 1 2\n", "x x x x\n", "1 + 2 + 3 + 4\n",
                "a ?\n", "a + b ?\n", "a + b ? + c\n", "a ? ?\n", "- a ?\n", "a + ?\n", "! !\n", "1 1\n", "a + b ? ?\n"]
KF_VERBOSE = {"grammar": "start: NAME r NEWLINE\nr: invalid_z\ninvalid_z: 'zz'\n", "input": "a b\n"}
# error mode: a result cached while a *_without_invalid rule had switched error mode off is reused after it is back on
KF_ERRMODE = {"grammar": "start: a_without_invalid 'z' NEWLINE | b NEWLINE\na_without_invalid: x 'q'\nb: x 'w'\n"
                         "x: invalid_x | NAME\ninvalid_x: n=NAME { foo(n) }\n", "input": "k w\n"}
# a gather whose element and separator head can match nothing, the separator re-entering the left-recursive rule: the
# helper _gather_N is memoized although its result changes while the seed grows
KF_GATHER = {"grammar": "start: lst NEWLINE\nlst: (sign lst ',').elem+ ';' | '@'\nsign: s='-'? { 's' }\nelem: n=NAME? { 'e' }\n",
             "input": "@ , x ;\n"}
ERRMODE_SEEDS = [
    "start: a 'z' NEWLINE | b NEWLINE\na: x 'q'\nb: x 'w'\nx: invalid_x | NAME\ninvalid_x: n=NAME { foo(n) }\n",
    "start: x NUMBER NEWLINE | x NAME NEWLINE\nx: invalid_x | NAME\ninvalid_x: NAME NAME NAME { 'three' }\n",
    "start: (invalid_s | NAME)+ NEWLINE | NAME* NUMBER NEWLINE\ninvalid_s: NAME '+' { 'plus' }\n",
]


def observable(x):
    """what C04 speaks about: outcome, value, tokens consumed, error position (= furthest token fetched)"""
    return (x["kind"], json.dumps(x.get("value"), sort_keys=True), x.get("mark"), x.get("fetched"))


def run(chk: common.Check, tier: str):
    chk.rule = ("random structured grammars (incl. left recursion, helper rules, lookaheads, cuts) and hand-written shapes x "
                "all token sequences up to length 3 (4 in thorough) over the grammar's alphabet, each parsed under {quiet, "
                "verbose} x {cache on, cache off for non-left-recursive rules}; non-trivial = the quiet/cached run has a "
                "cache hit (an invocation repeated at the same position); distinct by (grammar, input)")
    r = common.rng("c04")
    kn = gramgen.Knobs(terminals=("NAME", "NUMBER", "'+'", "','", "'if'", '"in"', "NEWLINE"), left_rec=True,
                       action_pool=("[x, y]", "(x, 1)", "'lit'", "foo(x)", "foo()", "0", "None"))
    texts = SEEDS + list(gramgen.gen_grammars(r, kn, 40 if tier == "quick" else 500))
    import dataclasses
    texts += list(gramgen.gen_grammars(r, dataclasses.replace(kn, terminals=("NAME", "SOFT_KEYWORD", "STRING", "OP", "NUMBER", '"soft"', "'kw'", "'+'", "NEWLINE")), 12 if tier == "quick" else 150))
    nin, ln = (25, 3) if tier == "quick" else (200, 4)
    pairs = rm.krun(chk, "C04", texts,
                    lambda t: A.inputs_upto(A.alphabet(t), ln, nin) + (EXTRA_INPUTS if t in SEEDS else []),
                    configs=("q1", "q0", "v1", "v0"))
    kfs = common.known_findings("C04")
    for t, rj in pairs:
        for one in rj["results"]:
            runs = one["runs"]
            if any(x["kind"] in ("timeout", "skipped", "memory", "recursion") for x in runs.values()):
                continue
            base = runs["q1"]
            ev = base.get("events") or []
            if len({(e[0], e[1]) for e in ev}) < len(ev):
                chk.note_case((t, json.dumps(one["tokens"])))
            for cfg in ("q0", "v1", "v0"):
                a, b = observable(base), observable(runs[cfg])
                if a == b:
                    continue
                only_fetched = a[:3] == b[:3]
                what = ("position reported for a syntax error (furthest token fetched)" if only_fetched
                        else "outcome / value / tokens consumed")
                if only_fetched and cfg[0] == "v" and observable(runs["q" + cfg[1]])[:3] == b[:3] and kfs:
                    # verbose tracing peeks (showpeek) on a cache miss: the recorded finding, reported once below
                    chk.bump("verbose changes the furthest fetched token (known finding class)")
                    continue
                chk.violation(f"{what} differs between quiet+cache and {'verbose' if cfg[0] == 'v' else 'quiet'}+"
                              f"{'cache' if cfg[1] == '1' else 'no cache'}",
                              {"grammar": t, "tokens": one["tokens"], "quiet_cached": a, "other": b, "configuration": cfg}, True)
        chk.sample({"grammar": t[:200]}, 3)
    res = rm.run_traced([{"grammar": KF_VERBOSE["grammar"], "inputs": [KF_VERBOSE["input"]], "configs": ["q1", "v1"]}])[0]
    if "results" in res:
        runs = res["results"][0]["runs"]
        if runs["q1"].get("fetched") != runs["v1"].get("fetched"):
            for kf in kfs:
                if kf.get("id") == "C04-verbose-showpeek":
                    chk.known(kf["what"])
    res = rm.run_traced([{"grammar": KF_GATHER["grammar"], "inputs": [KF_GATHER["input"], "@\n", "@ , ;\n", "@ , x ; , y ;\n"],
                          "configs": ["q1", "q0"]}])[0]
    if "results" in res:
        for one in res["results"]:
            runs = one["runs"]
            chk.count()
            if observable(runs["q1"])[:3] != observable(runs["q0"])[:3]:
                hit = [kf for kf in kfs if kf.get("id") == "C04-gather-helper-memoized-in-seed-growing"]
                if hit and one is res["results"][0]:
                    chk.known(hit[0]["what"])
                elif not hit:
                    chk.violation("the memoized helper of a gather is replayed while the seed of the enclosing left-recursive rule "
                                  "grows: cache on and cache off differ", {"grammar": KF_GATHER["grammar"], "tokens": one["tokens"],
                                  "cached": observable(runs["q1"]), "uncached": observable(runs["q0"])}, True)
    # ---- error mode on: cache on/off must agree as well (grammars without *_without_invalid rules) ...
    kn2 = gramgen.Knobs(terminals=("NAME", "NUMBER", "'+'", "','", "NEWLINE"), invalid=True, rules=(2, 4),
                        action_pool=("[x, y]", "'lit'", "foo(x)", "foo()"))
    etexts = ERRMODE_SEEDS + [t for t in gramgen.gen_grammars(r, kn2, 25 if tier == "quick" else 300) if "without_invalid" not in t]
    epairs = rm.krun(chk, "C04", etexts, lambda t: A.inputs_upto(A.alphabet(t), ln, nin), configs=("q1", "q0"), call_invalid=True)
    for t, rj in epairs:
        for one in rj["results"]:
            runs = one["runs"]
            if any(x["kind"] in ("timeout", "skipped", "memory", "recursion") for x in runs.values()):
                continue
            chk.count()
            a, b = observable(runs["q1"]), observable(runs["q0"])
            if a[:3] != b[:3]:
                chk.violation("in error mode the outcome / value / tokens consumed differs between cache on and cache off",
                              {"grammar": t, "tokens": one["tokens"], "cached": a, "uncached": b, "error_mode": True}, True)
    # ... and the recorded finding: a *_without_invalid rule in between
    res = rm.run_traced([{"grammar": KF_ERRMODE["grammar"], "inputs": [KF_ERRMODE["input"]], "configs": ["q1", "q0"],
                          "call_invalid": True}])[0]
    if "results" in res:
        runs = res["results"][0]["runs"]
        if observable(runs["q1"])[:3] != observable(runs["q0"])[:3]:
            hit = [kf for kf in kfs if kf.get("id") == "C04-cache-spans-without-invalid"]
            if hit:
                chk.known(hit[0]["what"])
            else:
                chk.violation("in error mode a result cached inside a *_without_invalid rule is replayed outside it: cache on "
                              "and cache off differ", {"grammar": KF_ERRMODE["grammar"], "input": KF_ERRMODE["input"]}, True)
    chk.assumptions += ["'cache off' = memoize replaced by the identity for ordinary rules and primitives; the seed-growing "
                        "wrapper of left-recursive leaders is kept (it is not a cache of ordinary rules)"]


def replay(path: str) -> int:
    print(open(path).read())
    return 1
