"""C11 — hard keywords are reserved, soft keywords are contextual."""
from __future__ import annotations

import json

import common
from common import clist, cstr
import grammar2coq as g2c
import runmodel as rm

# where a keyword literal can sit; {k} is the quoted literal
CONTEXTS = ["{k}", "({k} NUMBER | NUMBER)", "{k}?", "[{k} NUMBER]", "{k}*", "{k}+", "','.{k}+", "{k}.NUMBER+", "&{k} NUMBER",
            "!{k} NUMBER", "&&{k}", "&&({k} | NUMBER)", "(({k}) | (NUMBER))*", "x={k}", "&&({k})?"]
WORDS = ["alpha", "beta", "gamma", "NEWLINE", "NUMBER", "x"]


def grammars():
    for ctx in CONTEXTS:
        # hard keyword alpha hidden at ctx in a rule that need not match; soft keyword beta likewise
        yield (f"start: NAME NEWLINE | SOFT_KEYWORD NUMBER NEWLINE | NUMBER hard soft NEWLINE\n"
               f"hard: {ctx.format(k=chr(39) + 'alpha' + chr(39))} | NUMBER\n"
               f"soft: {ctx.format(k=chr(34) + 'beta' + chr(34))} | NUMBER\n", ctx)
    for ctx in CONTEXTS:
        # the same word with both quote styles: hard wins for NAME, and it is a soft keyword as well
        yield (f"start: NAME NEWLINE | SOFT_KEYWORD NUMBER NEWLINE | \"alpha\" \"beta\" NUMBER | NUMBER hard NEWLINE\n"
               f"hard: {ctx.format(k=chr(39) + 'alpha' + chr(39))} | NUMBER\n", "both:" + ctx)
    yield "start: 'lit' NEWLINE | NUMBER 'NUMBER' NEWLINE | NAME NAME NEWLINE\n", "literal"
    yield "start: NAME NEWLINE NAME NEWLINE\n", "kind"


INPUTS = [w + "\n" for w in WORDS] + [w + " 1\n" for w in WORDS] + ["lit\n", "1 2\n", "1 NUMBER\n", "x NEWLINE y NEWLINE\n",
                                                                 "x\ny\n", "lit lit\n"]


def run(chk: common.Check, tier: str):
    chk.rule = ("grammars with a hard keyword ('alpha') and a soft keyword (\"beta\") hidden at each of "
                f"{len(CONTEXTS)} syntactic positions (groups, optionals, loops, gather element/separator, lookaheads, forced "
                "items, nested helpers), plus literal/kind grammars x inputs made of keyword-spelled, kind-spelled and plain "
                "identifiers; non-trivial = the keyword sits below the top level of its rule; distinct by (grammar, input)")
    rm.shipped_hypothesis(chk, "ids_distinct_b", "C11_generated_keyword_tables_are_exactly_the_quoted_words",
                           "repetition / gather / group nodes carry pairwise distinct identities")
    gs = list(grammars())
    pairs = rm.krun(chk, "C11", [g for g, _ in gs], lambda t: INPUTS, configs=("q1",))
    ctx_of = dict(gs)
    # "in EVERY generated parser": a second parser generated from the same grammar object has the same tables and behaviour
    first = {t: rj for t, rj in pairs}
    sub = [g for g, c in gs if c not in ("literal", "kind")][::3]
    again = rm.run_traced([{"grammar": t, "inputs": INPUTS, "configs": ["q1"], "regenerate": True} for t in sub])
    for t, rj2 in zip(sub, again):
        rj1 = first.get(t)
        chk.count()
        if rj1 is None or "results" not in rj2:
            continue
        k1 = (rj1["keywords"], rj1["soft_keywords"], [o["runs"]["q1"]["kind"] for o in rj1["results"]])
        k2 = (rj2["keywords"], rj2["soft_keywords"], [o["runs"]["q1"]["kind"] for o in rj2["results"]])
        if k1 != k2:
            chk.violation(f"a parser generated a second time from the same grammar object differs: keyword tables "
                          f"{k1[0]}/{k1[1]} -> {k2[0]}/{k2[1]}, outcomes {k1[2]} -> {k2[2]}",
                          {"grammar": t, "inputs": INPUTS, "how": "PythonParserGenerator(g, out).generate() twice on one Grammar object"}, True)
    # instance of C11_keyword_tables_are_exactly_the_quoted_words: the tables the REAL generator emitted are the traversal's
    kcases, kdescs = [], []
    for t, rj in pairs:
        try:
            kcases.append(f"({g2c.Translator().grammar(g2c.read_grammar(t))}, {clist(rj['keywords'], cstr)}, {clist(rj['soft_keywords'], cstr)})")
            kdescs.append(t)
        except (SyntaxError, g2c.Untranslatable, ValueError):
            continue
    bad = common.run_cases(chk, "kwtab", g2c.HEADER + "From Pegen Require Import Analysis.Literals.\n",
                           "grammar * list string * list string", kcases,
                           "fun c => let '(g, kw, soft) := c in strs_eqb (hard_keywords g) kw && strs_eqb (soft_keywords g) soft",
                           shard=100)
    if bad is not None:
        chk.oblige(f"instance condition of C11_keyword_tables_are_exactly_the_quoted_words on {len(kcases)} grammars: KEYWORDS / "
                   "SOFT_KEYWORDS of the real generated parser = the quoted identifier-like literals found by the plain traversal",
                   not bad, json.dumps([kdescs[i] for i in bad[:3]]))
    # keywords with letters outside ASCII (the classification regex uses \\w), and keywords spelled like names of the
    # token module that are not token kinds the tokenizer emits
    probes = [("start: NAME NEWLINE | SOFT_KEYWORD NUMBER NEWLINE | NUMBER hard soft NEWLINE\nhard: 'caf\u00e9' | NUMBER\n"
               "soft: \"na\u00efve\" | NUMBER\n", ["caf\u00e9"], ["na\u00efve"],
               {"caf\u00e9\n": False, "na\u00efve\n": True, "x\n": True, "na\u00efve 1\n": True, "caf\u00e9 1\n": False, "x 1\n": False}),
              ("start: NAME NEWLINE | SOFT_KEYWORD NUMBER NEWLINE | NUMBER hard soft NEWLINE\nhard: 'AT' | NUMBER\n"
               "soft: \"COMMENT\" | NUMBER\n", ["AT"], ["COMMENT"],
               {"AT\n": False, "COMMENT\n": True, "COMMENT 1\n": True, "AT 1\n": False, "1 AT COMMENT\n": True, "1 AT 2\n": True,
                "1 x COMMENT\n": False})]
    # the primitives OP / STRING / NUMBER match by KIND: text that merely looks like an operator (the literal part of an
    # f-string) is not an OP
    probes.append(("start: FSTRING_START OP FSTRING_END NEWLINE | NAME OP NAME NEWLINE | STRING NUMBER NEWLINE\n", [], [],
                   {"f'='\n": False, "f'+'\n": False, "f'->'\n": False, "a + b\n": True, "a -> b\n": True, "a b c\n": False,
                    "'s' 1\n": True, "s 1\n": False, "'s' x\n": False}))
    # literals written with a string prefix: the CLOSING quote decides (r'while' is a hard keyword, u"until" a soft one)
    probes.append(("start: NAME NEWLINE | SOFT_KEYWORD NUMBER NEWLINE | NUMBER hard soft NEWLINE\nhard: r'while' | NUMBER\n"
                   "soft: u\"until\" | NUMBER\n", ["while"], ["until"],
                   {"while\n": False, "until\n": True, "x\n": True, "until 1\n": True, "while 1\n": False, "x 1\n": False,
                    "1 while until\n": True}))
    pres = rm.run_traced([{"grammar": g, "inputs": list(exp), "configs": ["q1"]} for g, _, _, exp in probes])
    for (g, kws, softs, exp), rj in zip(probes, pres):
        chk.count()
        if "results" not in rj:
            chk.violation("a grammar with unusual keywords cannot be turned into a parser: " + str(rj.get("build_error"))[:200],
                          {"grammar": g}, True)
            continue
        if rj["keywords"] != kws or rj["soft_keywords"] != softs:
            chk.violation(f"keyword tables {rj['keywords']} / {rj['soft_keywords']}, expected {kws} / {softs}",
                          {"grammar": g, "KEYWORDS": rj["keywords"], "SOFT_KEYWORDS": rj["soft_keywords"]}, True)
        for (src, should), one in zip(exp.items(), rj["results"]):
            x = one["runs"]["q1"]
            accepted = x["kind"] == "ok" and x.get("value") is not None
            if x["kind"] in ("ok", "SyntaxError") and accepted != should:
                chk.violation(f"input {src!r} is {'accepted' if accepted else 'rejected'}; hard keywords {kws}, soft keywords {softs}",
                              {"grammar": g, "input": src, "accepted": accepted}, True)
    kfs = common.known_findings("C11")
    known_hit = set()
    for t, rj in pairs:
        ctx = ctx_of[t]
        both = ctx.startswith("both:")
        if both:
            chk.note_case(t)
            if rj["keywords"] != ["alpha"] or rj["soft_keywords"] != ["alpha", "beta"]:
                chk.violation(f"keyword tables {rj['keywords']} / {rj['soft_keywords']}: 'alpha' is written single-quoted at "
                              f"{ctx[5:]} and double-quoted elsewhere, \"beta\" double-quoted only",
                              {"grammar": t, "KEYWORDS": rj["keywords"], "SOFT_KEYWORDS": rj["soft_keywords"]}, True)
        elif ctx not in ("literal", "kind"):
            chk.note_case(t)
            if rj["keywords"] != ["alpha"] or rj["soft_keywords"] != ["beta"]:
                chk.violation(f"keyword tables {rj['keywords']} / {rj['soft_keywords']} for a grammar whose only hard keyword "
                              f"'alpha' and soft keyword \"beta\" sit at position {ctx}",
                              {"grammar": t, "KEYWORDS": rj["keywords"], "SOFT_KEYWORDS": rj["soft_keywords"]}, True)
        for src, one in zip(INPUTS, rj["results"]):
            x = one["runs"]["q1"]
            if x["kind"] not in ("ok", "SyntaxError"):
                continue
            accepted = x["kind"] == "ok" and x.get("value") is not None
            words = src.split()
            if ctx not in ("literal", "kind"):
                if len(words) == 1:     # "<word> NEWLINE": only the alternative NAME NEWLINE can match
                    should = words[0] != "alpha"
                    if accepted != should:
                        chk.violation(f"NAME {'matches' if accepted else 'rejects'} the word {words[0]!r} (hard keyword 'alpha' at {ctx})",
                                      {"grammar": t, "input": src, "accepted": accepted}, True)
                elif len(words) == 2 and words[1] == "1":   # SOFT_KEYWORD NUMBER NEWLINE
                    should = words[0] == "beta" or (both and words[0] == "alpha")
                    if accepted != should and not (words[0] == "NUMBER"):
                        chk.violation(f"SOFT_KEYWORD {'matches' if accepted else 'rejects'} the word {words[0]!r}",
                                      {"grammar": t, "input": src, "accepted": accepted}, True)
            elif ctx == "literal":
                expect = {"lit\n": True, "x\n": False, "1 NUMBER\n": True, "1 2\n": False, "lit lit\n": False}
                if src in expect and accepted != expect[src]:
                    if src == "1 2\n":
                        known_hit.add("C11-literal-NUMBER")
                        continue
                    chk.violation(f"literal matching: input {src!r} {'accepted' if accepted else 'rejected'}",
                                  {"grammar": t, "input": src, "accepted": accepted}, True)
            elif ctx == "kind":
                expect = {"x\ny\n": True, "x NEWLINE y NEWLINE\n": False}
                if src in expect and accepted != expect[src]:
                    if src == "x NEWLINE y NEWLINE\n":
                        known_hit.add("C11-identifier-NEWLINE")
                        continue
                    chk.violation(f"token-kind matching: input {src!r} {'accepted' if accepted else 'rejected'}",
                                  {"grammar": t, "input": src, "accepted": accepted}, True)
        chk.sample({"grammar": t, "keywords": rj["keywords"], "soft": rj["soft_keywords"]}, 3)
    for kf in kfs:
        if kf.get("id") in known_hit:
            chk.known(kf["what"])


def replay(path: str) -> int:
    print(open(path).read())
    return 1
