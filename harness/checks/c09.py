"""C09 — grammar text and grammar objects round-trip."""
from __future__ import annotations

import io
import json
import pathlib
import re
import tokenize

import common
from common import cstr, cbool, clist, cnat, cN
import genmodel as gm
import grammar2coq as g2c
import gramgen
import runmodel as rm
import tables
from checks.c13 import tokens_set

from pegen import grammar as G
from pegen.grammar_parser import GeneratedParser as GrammarParser
from pegen.tokenizer import Tokenizer

META = common.REPO / "src/pegen/metagrammar.gram"

LAYOUTS = [
    "start: a b\n",
    "start:\n    | a b\n    | c\n",
    "start: a b\n    | c\n    | d e\n",
    "start[int] (memo): x[str]=a y=b? { f(x, y) }\n",
    "@class P\n@header 'h'\nstart: a\n",
    "start: [a b] (c | d)* e+ ','.f+ &g !h &&i ~ 'lit' \"soft\" $\n",
    "start: a { {1: [2, 3]} }\n  | b { f\"x{y}\" }\n",
    "a (memo):\n    | b\n",
    "a[T] (memo): b\n    | c\n",
    "a: (b c)+ [d]? ((e))\n",
    # empty brackets inside actions and annotations
    "start: a { {} }\n  | b { f(x, {}, []) }\n",
    "start[Dict[str, List[int]]]: x[T]=a { dict(cache={}) }\n",
    # groups that begin and end with a group
    "start: x ((a | b) c (d | e)) y\n",
    "start: ((a b) | (c d)) e !((a) (b)) c\n",
    "start: ','.((a b) (c d))+ ((a))* [((b) (c))]\n",
    # `memo` is an ordinary identifier everywhere but inside the (memo) flag
    "memo: a memo=b { f(memo) }\nstart (memo): memo\n",
    "start[memo] (memo): memo=memo memo\n    | memo { memo }\n",
    # f-strings inside actions: conversions, the = form, format specs, nested braces, several fields
    "start: a { f\"{x!r}\" }\n  | b { f\"{x=}\" }\n  | c { f'{x!s:>4}' }\n",
    "start: a { f\"{x:{w}.{p}} and {y!a}\" }\n",
    "start: b { g(f'{a if b else c}', f\"{{literal}} {d[1]}\") }\n  | c { f'{x  +  y}' + h(p if q else r) }\n",
    "start: a { f\"pre {x.y!r} mid {z} post\" + f'{n:03d}' }\n",
]


def read_real(text: str):
    tk = Tokenizer(tokenize.generate_tokens(io.StringIO(text).readline))
    p = GrammarParser(tk)
    return p.start()


def vstr(s):
    return f"(VStr {cstr(s)})" if s is not None else "VNone"


def value_of(x) -> str:
    """the value the meta-grammar's actions build, in the model's encoding (constructor name + arguments)"""
    t = type(x)
    if t is G.Grammar:
        rules = clist(list(x.rules.values()), value_of)
        metas = clist(list(x.metas.items()), lambda kv: f"(VTuple [{vstr(kv[0])}; {vstr(kv[1])}])")
        return f"(VObj \"Grammar\" [VList {rules}; VList {metas}])"
    if t is G.Rule:
        return f"(VObj \"Rule\" [{vstr(x.name)}; {vstr(x.type)}; {value_of(x.rhs)}; {'VStr \"memo\"' if x.memo else 'VNone'}])"
    if t is G.Rhs:
        return f"(VObj \"Rhs\" [VList {clist(x.alts, value_of)}])"
    if t is G.Alt:
        return f"(VObj \"Alt\" [VList {clist(x.items, value_of)}; {vstr(x.action)}])"
    if t is G.NamedItem:
        args = [vstr(x.name), value_of(x.item)] + ([vstr(x.type)] if x.type is not None else [])
        return f"(VObj \"NamedItem\" [{'; '.join(args)}])"
    if t in (G.NameLeaf, G.StringLeaf):
        return f"(VObj \"{t.__name__}\" [{vstr(x.value)}])"
    if t is G.Group:
        return f"(VObj \"Group\" [{value_of(x.rhs)}])"
    if t in (G.Opt, G.Repeat0, G.Repeat1, G.PositiveLookahead, G.NegativeLookahead, G.Forced):
        return f"(VObj \"{t.__name__}\" [{value_of(x.node)}])"
    if t is G.Gather:
        return f"(VObj \"Gather\" [{value_of(x.separator)}; {value_of(x.node)}])"
    if t is G.Cut:
        return "(VObj \"Cut\" [])"
    raise ValueError(t)


def strip_parens(d):
    """structure modulo redundant parentheses: a group holding one alternative with one unnamed, untyped item and no
    action is that item"""
    def item(x):
        if x[0] == "Group" or x[0] == "Rhs":
            alts = [[[ [n, ty, item(it)] for n, ty, it in a[0]], a[1]] for a in x[1]]
            if len(alts) == 1 and len(alts[0][0]) == 1 and alts[0][1] is None and alts[0][0][0][0] is None and alts[0][0][0][1] is None:
                inner = alts[0][0][0][2]
                if inner[0] in ("NameLeaf", "StringLeaf", "Group"):
                    return inner
            return [x[0], alts]
        if x[0] == "Gather":
            return ["Gather", item(x[1]), item(x[2])]
        if x[0] in ("Opt", "Repeat0", "Repeat1", "PositiveLookahead", "NegativeLookahead", "Forced"):
            return [x[0], item(x[1])]
        return x
    return {"rules": [[n, t, m, [[[[nm, ty, item(it)] for nm, ty, it in a[0]], a[1]] for a in rhs]]
                      for n, t, m, rhs in d["rules"]], "metas": d["metas"]}


def printed(g) -> str:
    old = G.SIMPLE_STR
    G.SIMPLE_STR = False
    try:
        metas = "".join(f"@{k} {v!r}\n" if v is not None else f"@{k}\n" for k, v in g.metas.items())
        return metas + str(g) + "\n"
    finally:
        G.SIMPLE_STR = old


def filtered_tokens(text: str):
    tk = Tokenizer(tokenize.generate_tokens(io.StringIO(text).readline))
    out = []
    try:
        while True:
            t = tk.getnext()
            out.append([t.type, t.string, t.start[0], t.start[1], t.end[0], t.end[1], t.line])
            if t.type == 0:
                break
    except (StopIteration, tokenize.TokenError, IndentationError):
        pass
    return out


import token as _token

KIND = {_token.NAME: "TName", _token.STRING: "TStr", _token.NUMBER: "TNum", _token.OP: "TOp",
        _token.FSTRING_START: "TFStart", _token.FSTRING_MIDDLE: "TFMid", _token.FSTRING_END: "TFEnd"}
BARE = {_token.NEWLINE: "TNl", _token.INDENT: "TIndent", _token.DEDENT: "TDedent", _token.ENDMARKER: "TEnd"}


def gtoks(text: str) -> list[str]:
    """the token stream pegen's Tokenizer hands to the meta-parser, as Meta/Reader.v terms"""
    tk = Tokenizer(tokenize.generate_tokens(io.StringIO(text).readline))
    out = []
    while True:
        t = tk.getnext()
        out.append(BARE[t.type] if t.type in BARE else f"{KIND.get(t.type, 'TOther')} {cstr(t.string)}")
        if t.type == _token.ENDMARKER:
            return out


def tl(l: list[str]) -> str:
    return "[" + "; ".join(l) + "]"


def texts_of(g) -> list[str]:
    out = set()

    def walk(x):
        if isinstance(x, G.Rhs):
            for a in x.alts:
                if a.action:
                    out.add(a.action)
                for ni in a.items:
                    if ni.type:
                        out.add(ni.type)
                    walk(ni.item)
        elif isinstance(x, G.Group):
            walk(x.rhs)
        elif isinstance(x, G.Gather):
            walk(x.separator)
            walk(x.node)
        elif hasattr(x, "node"):
            walk(x.node)
    for r in g.rules.values():
        if r.type:
            out.add(r.type)
        walk(r.rhs)
    return sorted(out)


def lex_table(g) -> str | None:
    rows = []
    for s in texts_of(g):
        try:
            ts = gtoks(s)
        except Exception:
            return None
        rows.append(f"({cstr(s)}, {tl(ts[:-2] if ts[-2:] == ['TNl', 'TEnd'] else ts[:-1])})")
    return "[" + "; ".join(rows) + "]"


def metas_modelled(text: str) -> bool:
    """are all meta values plain string literals whose escapes Meta/Reader.v's py_unquote models?"""
    tk = Tokenizer(tokenize.generate_tokens(io.StringIO(text).readline))
    prev2 = prev = None
    while True:
        t = tk.getnext()
        if t.type == _token.ENDMARKER:
            return True
        if t.type == _token.STRING and prev is not None and prev.type == _token.NAME and prev2 is not None and prev2.string == "@":
            raw = t.string
            if raw[0] not in "'\"" or re.search(r"\\(?![nt\\'\"])", raw):
                return False
        prev2, prev = prev, t


def printed_rules(g) -> str:
    old = G.SIMPLE_STR
    G.SIMPLE_STR = False
    try:
        return str(g) + "\n"
    finally:
        G.SIMPLE_STR = old


REF_PRELUDE = """From Coq Require Import List String NArith Bool Arith.
From Pegen Require Import Base.StrUtil Grammar.Ast Meta.Reader Meta.PrintToks Meta.Canon Meta.RoundTripDefs Meta.Strip Meta.Shape.
Import ListNotations. Open Scope string_scope.
Definition lex_of (tbl : list (string * list gtok)) (s : string) : list gtok :=
  match find (fun kv => String.eqb (fst kv) s) tbl with Some kv => snd kv | None => [] end.
(* Python dict semantics of Grammar.__init__: key order = first definition, value = last definition *)
Fixpoint last_def (n : string) (rs : list rule) (cur : rule) : rule :=
  match rs with [] => cur | r :: rs' => last_def n rs' (if String.eqb (rname r) n then r else cur) end.
Fixpoint dict_rules (seen : list string) (rs : list rule) : list rule :=
  match rs with
  | [] => []
  | r :: rs' => if mem_str (rname r) seen then dict_rules seen rs'
                else last_def (rname r) rs' r :: dict_rules (rname r :: seen) rs'
  end.
Definition same (with_metas : bool) (g' : grammar) (g : grammar) : bool :=
  grammar_eqb {| rules := dict_rules [] (rules g'); metas := if with_metas then metas g' else [] |}
              (canon_grammar {| rules := rules g; metas := if with_metas then metas g else [] |}).
Definition reads (with_metas : bool) (ts : list gtok) (g : grammar) : bool :=
  match read_grammar (read_fuel ts) ts with Ok g' _ => same with_metas g' g | _ => false end.
Definition CASE := (bool * list gtok * grammar * list gtok * grammar * option (list (string * list gtok)))%type.
(* (a) the reference reader reads the original text as the implementation does; (b) likewise the printed text;
   (c) the token-level printer model gives the tokens of the real rendering; (d) inside the theorem's hypotheses the
   implementation's re-read grammar is the theorem's [rt_grammar]; (e) modulo redundant parentheses nothing changed *)
Definition case_ok (c : CASE) : bool :=
  let '(wm, ts, g, pts, g2, tbl) := c in
  reads wm ts g && reads false pts g2
  && match tbl with
     | Some tbl => list_eqb gtok_eqb (grammar_toks (lex_of tbl) g) pts
                   && (negb (grammar_ok_b (lex_of tbl) g)
                       || list_eqb rule_eqb (rules (canon_grammar g2)) (rules (rt_grammar g)))
     | None => true
     end
  && list_eqb rule_eqb (strip_rules g2) (strip_rules g).
Definition in_hyp (c : CASE) : bool :=
  let '(wm, ts, g, pts, g2, tbl) := c in
  match tbl with Some tbl => grammar_ok_b (lex_of tbl) g | None => false end.
Definition diag (c : CASE) :=
  let '(wm, ts, g, pts, g2, tbl) := c in
  (reads wm ts g, reads false pts g2,
   match tbl with Some tbl => (list_eqb gtok_eqb (grammar_toks (lex_of tbl) g) pts, grammar_ok_b (lex_of tbl) g,
                               list_eqb rule_eqb (rules (canon_grammar g2)) (rules (rt_grammar g))) | None => (true, false, true) end,
   list_eqb rule_eqb (strip_rules g2) (strip_rules g)).
"""

PROBES = {
    "C09-duplicate-rule-dropped": ("a: b\na: c\n", lambda g: g is not None and len(g.rules) == 1),
    "C09-rule-named-DEDENT-rejected": ("a: NEWLINE INDENT | x\nDEDENT: y\n", lambda g: g is None),
    "C09-text-after-ENDMARKER-name-ignored": ("a: b\nENDMARKER junk junk\n", lambda g: g is not None),
    "C09-fstring-nested-spec-unreadable": ("start: a { f'{y:>{w}}' }\n", lambda g: g is None),
}

PRELUDE_EXTRA = """
Definition G_META : grammar := %s.
Definition TBL : list (string * aexp) := %s.
Definition M_META := Eval vm_compute in run_gen G_META %s.
Definition read_ok (te : list rtok * value) : bool :=
  match M_META with
  | inl m => let '(o, st) := run KINDS (fst te) false true m (aeval_table TBL) EXACT TDICT 3000 "start" init_state in
             match o with Ok v => value_eqb v (snd te) | _ => false end
  | inr _ => false
  end.
"""


def gram_files(tier: str) -> list[pathlib.Path]:
    fs = sorted(set(common.REPO.glob("data/*.gram")) | set(common.REPO.glob("src/pegen/*.gram"))
                | set(common.REPO.glob("stories/*/*.gram")))
    if tier == "quick":
        fs = [f for f in fs if f.name != "python.gram" and f.name != "fullpy.gram"]
    return fs


_SKIP = None


def _ptoks(src: str, fold_fstrings: bool = False):
    """the Python tokens of a piece of text as (kind, string) pairs, layout tokens dropped; with fold_fstrings every
    f-string is replaced by one placeholder token"""
    global _SKIP
    if _SKIP is None:
        _SKIP = {tokenize.NL, tokenize.NEWLINE, tokenize.INDENT, tokenize.DEDENT, tokenize.COMMENT, tokenize.ENDMARKER}
    out, depth = [], 0
    fs, fe = getattr(tokenize, "FSTRING_START", -1), getattr(tokenize, "FSTRING_END", -2)
    try:
        for t in tokenize.generate_tokens(io.StringIO(src).readline):
            if t.type in _SKIP:
                continue
            if fold_fstrings:
                if t.type == fs:
                    depth += 1
                    if depth == 1:
                        out.append(("FSTRING", ""))
                    continue
                if t.type == fe:
                    depth -= 1
                    continue
                if depth:
                    continue
            out.append((t.type, t.string))
    except (tokenize.TokenError, IndentationError, SyntaxError):
        return None
    return out


def _texts_of(g):
    """every free-text piece the reader builds: rule types, item types, actions"""
    for r in g.rules.values():
        if r.type:
            yield "type of rule " + r.name, r.type
        stack = list(r.rhs.alts)
        while stack:
            a = stack.pop()
            if a.action:
                yield "action in rule " + r.name, a.action
            for n in a.items:
                if getattr(n, "type", None):
                    yield "type of an item in rule " + r.name, n.type
                todo = [n.item]
                while todo:
                    it = todo.pop()
                    if isinstance(it, G.Rhs):
                        stack += it.alts
                    elif isinstance(it, G.Group):
                        stack += it.rhs.alts
                    elif isinstance(it, G.Gather):
                        todo += [it.separator, it.node]
                    elif hasattr(it, "node"):
                        todo.append(it.node)


def _find_sub(hay, needle, start=0):
    n = len(needle)
    for i in range(start, len(hay) - n + 1):
        if hay[i:i + n] == needle:
            return i
    return -1


def as_written(text: str, g):
    """"actions and types are those written": the Python tokens of every text the reader built occur, contiguously, among
    the tokens of the grammar text.  Returns [(what, read text, only_inside_fstrings)]."""
    hay = _ptoks(text)
    hay_f = _ptoks(text, True)
    bad = []
    if hay is None:
        return bad
    for what, s in _texts_of(g):
        nd = _ptoks(s)
        if nd is not None and nd and _find_sub(hay, nd) >= 0:
            continue
        nf = _ptoks(s, True)
        inside = nf is not None and hay_f is not None and (not nf or _find_sub(hay_f, nf) >= 0)
        bad.append((what, s, inside))
    return bad


def run(chk: common.Check, tier: str):
    chk.rule = ("grammar texts over the documented syntax (both alternative layouts, nested groups/optionals, all prefix and "
                "postfix operators, named and typed items, actions with nested brackets, strings, f-strings, `$`, memo flag, "
                "metas; random structured grammars; the .gram files of the repository): (a) what is read is what is "
                "written: the proved-correct reference reader (Meta/Reader.v) and the shipped reader agree on the structure, "
                "(b) str() with SIMPLE_STR off is readable and denotes the same rules modulo redundant parentheses, (c) inside "
                "the theorem's hypotheses the re-read grammar is the theorem's rt_grammar; non-trivial = the grammar nests an "
                "operator inside another; distinct by grammar text")
    r = common.rng("c09")
    kn = gramgen.Knobs(typed=True, memo=True, terminals=("NAME", "NUMBER", "'+'", "','", "'if'", '"in"', "NEWLINE", "ENDMARKER"),
                       action_pool=("x", "[x, y]", "f(x, {1: 2})", "'lit'", "{a: [b]}", "x.y [1]"))
    texts = LAYOUTS + [t for t, _ in PROBES.values()] + list(gramgen.gen_grammars(r, kn, 60 if tier == "quick" else 600))
    files = gram_files(tier)
    texts += [f.read_text() for f in files]
    origin = {f.read_text(): str(f.relative_to(common.REPO)) for f in files}
    kfs = {kf["id"]: kf for kf in common.known_findings("C09")}
    # ---- known findings: probes
    for fid, (text, pred) in PROBES.items():
        try:
            g = read_real(text)
        except Exception:           # noqa
            g = None
        if pred(g):
            if fid in kfs:
                chk.known(kfs[fid]["what"])
            else:
                chk.violation(f"reader quirk {fid}", {"grammar": text}, True)
    # ---- round trip on the implementation
    fstring_known = False
    good = []
    rejected = []
    for t in texts:
        try:
            g = read_real(t)
        except Exception:
            g = None
        chk.count()
        if not g:
            chk.bump("not readable (generator produced invalid text, or a probe)")
            rejected.append(t)
            continue
        for what, got, inside in as_written(t, g):
            if inside and "C09-fstring-joined-from-token-strings" in kfs:
                fstring_known = True
                continue
            chk.violation(f"the {what} is not the text written in the grammar: read {got!r}",
                          {"grammar": origin.get(t, t)[:3000], "read": got, "what": what,
                           "how": "Python tokens of the text the reader built vs the tokens of the grammar text"}, True)
        d1 = g2c.dump(g)
        p = printed(g)
        try:
            g2 = read_real(p)
        except Exception as e:      # noqa
            g2 = None
        if "(" in t or "[" in t:
            chk.note_case(origin.get(t, t))
        if not g2:
            chk.violation("the printed form of a grammar is not readable grammar text",
                          {"grammar": origin.get(t, t), "printed": p[:3000]}, True)
            continue
        d2 = g2c.dump(g2)
        if json.dumps(strip_parens(d1), sort_keys=True) != json.dumps(strip_parens(d2), sort_keys=True):
            chk.violation("printing and re-reading a grammar changes its rules (beyond redundant parentheses)",
                          {"grammar": origin.get(t, t), "printed": p[:3000]}, True)
        good.append((t, g))
        chk.sample({"grammar": origin.get(t, t)[:160], "printed": p[:160]}, 3)
    if fstring_known:
        chk.known(kfs["C09-fstring-joined-from-token-strings"]["what"])
    # ---- reference reader / token-level printer / theorem instances, evaluated in Coq
    cases, descs = [], []
    for t, g in good:
        pr = printed_rules(g)
        try:
            g2 = read_real(pr)
            if not g2:
                continue
            lt = lex_table(g)
            cases.append(f"({cbool(metas_modelled(t))}, {tl(gtoks(t))}, {g2c.Translator().grammar(g)}, {tl(gtoks(pr))}, {g2c.Translator().grammar(g2)}, "
                         f"{'Some ' + lt if lt is not None else 'None'})")
            descs.append(origin.get(t, t))
        except Exception as e:        # noqa
            chk.bump(f"not evaluated in Coq ({type(e).__name__})")
    failing = common.run_cases(chk, "ref", REF_PRELUDE, "CASE", cases, "case_ok", shard=8, timeout=2400, jobs=12)
    if failing is not None:
        chk.oblige(f"correspondence K-ref: on {len(cases)} texts the reference reader (Meta/Reader.v) builds the grammar the "
                   "shipped GrammarParser builds, for the text and for its full rendering; the token-level printer "
                   "(Meta/PrintToks.v) gives the tokens of the real rendering; inside the hypotheses of "
                   "C09_print_then_read the implementation's re-read grammar is rt_grammar; strip_rules is unchanged",
                   not failing, json.dumps([descs[i][:300] for i in failing[:4]]))
        for i in failing[:3]:
            rc, out = diagnose(chk, cases[i])
            chk.violation("the shipped reader or printer disagrees with the reference reader / token printer of the round-trip "
                          "theorem on this text (components: reads text, reads rendering, (tokens of rendering, in hypotheses, "
                          "re-read = rt_grammar), same rules modulo parentheses): " + out[-300:],
                          {"grammar": descs[i][:3000]}, True)
        inh = common.run_cases(chk, "hyp", REF_PRELUDE, "CASE", cases, "in_hyp", shard=8, timeout=2400, jobs=12)
        if inh is not None:
            chk.bump("explored grammars inside the hypotheses of C09_print_then_read", len(cases) - len(inh))
            chk.bump("explored grammars outside them (f-strings in actions, standalone-untokenizable texts, ...)", len(inh))
    # ---- texts the shipped reader rejects: the reference reader must reject them too (a valid text must not be refused)
    rcases, rtexts = [], []
    for t in rejected:
        try:
            rcases.append(tl(gtoks(t)))
            rtexts.append(t)
        except Exception:       # noqa  (the host tokenizer itself refuses the text)
            chk.bump("rejected text: not tokenizable")
    if rcases:
        bad = common.run_cases(chk, "rej", REF_PRELUDE, "list gtok", rcases,
                               "fun ts => match read_grammar (read_fuel ts) ts with Ok _ _ => false | _ => true end",
                               shard=50, timeout=900)
        if bad is not None:
            for i in bad[:3]:
                chk.violation("the shipped reader rejects grammar text that the reference reader of the round-trip theorem reads",
                              {"grammar": rtexts[i]}, True)
            chk.oblige(f"the {len(rcases)} explored texts that the shipped GrammarParser rejects are rejected by the reference "
                       "reader as well", not bad, json.dumps([rtexts[i][:300] for i in bad[:3]]))
    # ---- K-read: the model of the generated meta-parser reads the same structure as the shipped parser
    d = common.gen_dir("C09")
    try:
        (d / "Tables.v").write_text(tables.tables_v())
    except tables.ExtractError as e:
        chk.oblige("table extraction", False, str(e))
        return
    rc, out = common.coqc(d / "Tables.v")
    chk.oblige("extracted tables compile (coq/gen/C09/Tables.v)", rc == 0, out[-2000:])
    meta = g2c.read_grammar(META.read_text())
    tr = g2c.Translator()
    gterm = tr.grammar(meta)
    res = gm.real_generate(g2c.read_grammar(META.read_text()))
    kcases, kdescs = [], []
    probes = {t for t, _ in PROBES.values()}
    small = [(t, g) for t, g in good if t not in origin and t not in probes]
    kread = small if tier != "quick" else small[:len(LAYOUTS) + 8]
    for t, g in kread:
        for text in (t, printed(g)):
            try:
                gg = read_real(text)
                kcases.append(f"({clist(filtered_tokens(text), rm.tok_term)}, {value_of(gg)})")
                kdescs.append(text)
            except Exception:
                continue
    prelude = rm.prelude(tokens_set()) + PRELUDE_EXTRA % (gterm, rm.action_table(res[1]), cN(len(tr.ids) + 1000))
    failing = common.run_cases(chk, "kread", prelude, "list rtok * value", kcases, "read_ok", shard=4, timeout=1500, jobs=14)
    if failing is not None:
        chk.oblige(f"correspondence K-read: the runtime model running the generator model's IR of metagrammar.gram (actions "
                   f"evaluated by MiniPy) builds the same grammar value as the shipped GrammarParser on {len(kcases)} texts "
                   "(original layouts and their printed forms)", not failing, json.dumps([kdescs[i] for i in failing[:3]])[:2500])
    chk.assumptions += ["the lexer of action/annotation texts is a parameter of the theorem; in the correspondence it is the "
                        "host tokenizer applied to each text on its own",
                        "Grammar.__init__ keeps the last of several rules with one name (dict): the comparison applies the "
                        "same rule to the reference reader's list (known finding C09-duplicate-rule-dropped)"]


def diagnose(chk, case: str):
    d = common.gen_dir("C09")
    f = d / "diag.v"
    f.write_text(REF_PRELUDE + f"Definition c : CASE := {case}.\nEval vm_compute in diag c.\n")
    return common.coqc(f, timeout=900)


def replay(path: str) -> int:
    print(open(path).read())
    return 1
