"""C09 — grammar text and grammar objects round-trip."""
from __future__ import annotations

import io
import json
import tokenize

import common
from common import cstr, cbool, clist, cnat, cN
import genmodel as gm
import grammar2coq as g2c
import gramgen
import runmodel as rm
import tables
from checks.c13 import tokens_set

from pegen import grammar as G
from pegen.grammar_parser import GeneratedParser as GrammarParser
from pegen.tokenizer import Tokenizer

META = common.REPO / "src/pegen/metagrammar.gram"

LAYOUTS = [
    "start: a b\n",
    "start:\n    | a b\n    | c\n",
    "start: a b\n    | c\n    | d e\n",
    "start[int] (memo): x[str]=a y=b? { f(x, y) }\n",
    "@class P\n@header 'h'\nstart: a\n",
    "start: [a b] (c | d)* e+ ','.f+ &g !h &&i ~ 'lit' \"soft\" $\n",
    "start: a { {1: [2, 3]} }\n  | b { f\"x{y}\" }\n",
    "a (memo):\n    | b\n",
    "a[T] (memo): b\n    | c\n",
    "a: (b c)+ [d]? ((e))\n",
]


def read_real(text: str):
    tk = Tokenizer(tokenize.generate_tokens(io.StringIO(text).readline))
    p = GrammarParser(tk)
    return p.start()


def vstr(s):
    return f"(VStr {cstr(s)})" if s is not None else "VNone"


def value_of(x) -> str:
    """the value the meta-grammar's actions build, in the model's encoding (constructor name + arguments)"""
    t = type(x)
    if t is G.Grammar:
        rules = clist(list(x.rules.values()), value_of)
        metas = clist(list(x.metas.items()), lambda kv: f"(VTuple [{vstr(kv[0])}; {vstr(kv[1])}])")
        return f"(VObj \"Grammar\" [VList {rules}; VList {metas}])"
    if t is G.Rule:
        return f"(VObj \"Rule\" [{vstr(x.name)}; {vstr(x.type)}; {value_of(x.rhs)}; {'VStr \"memo\"' if x.memo else 'VNone'}])"
    if t is G.Rhs:
        return f"(VObj \"Rhs\" [VList {clist(x.alts, value_of)}])"
    if t is G.Alt:
        return f"(VObj \"Alt\" [VList {clist(x.items, value_of)}; {vstr(x.action)}])"
    if t is G.NamedItem:
        args = [vstr(x.name), value_of(x.item)] + ([vstr(x.type)] if x.type is not None else [])
        return f"(VObj \"NamedItem\" [{'; '.join(args)}])"
    if t in (G.NameLeaf, G.StringLeaf):
        return f"(VObj \"{t.__name__}\" [{vstr(x.value)}])"
    if t is G.Group:
        return f"(VObj \"Group\" [{value_of(x.rhs)}])"
    if t in (G.Opt, G.Repeat0, G.Repeat1, G.PositiveLookahead, G.NegativeLookahead, G.Forced):
        return f"(VObj \"{t.__name__}\" [{value_of(x.node)}])"
    if t is G.Gather:
        return f"(VObj \"Gather\" [{value_of(x.separator)}; {value_of(x.node)}])"
    if t is G.Cut:
        return "(VObj \"Cut\" [])"
    raise ValueError(t)


def strip_parens(d):
    """structure modulo redundant parentheses: a group holding one alternative with one unnamed, untyped item and no
    action is that item"""
    def item(x):
        if x[0] == "Group" or x[0] == "Rhs":
            alts = [[[ [n, ty, item(it)] for n, ty, it in a[0]], a[1]] for a in x[1]]
            if len(alts) == 1 and len(alts[0][0]) == 1 and alts[0][1] is None and alts[0][0][0][0] is None and alts[0][0][0][1] is None:
                inner = alts[0][0][0][2]
                if inner[0] in ("NameLeaf", "StringLeaf", "Group"):
                    return inner
            return [x[0], alts]
        if x[0] == "Gather":
            return ["Gather", item(x[1]), item(x[2])]
        if x[0] in ("Opt", "Repeat0", "Repeat1", "PositiveLookahead", "NegativeLookahead", "Forced"):
            return [x[0], item(x[1])]
        return x
    return {"rules": [[n, t, m, [[[[nm, ty, item(it)] for nm, ty, it in a[0]], a[1]] for a in rhs]]
                      for n, t, m, rhs in d["rules"]], "metas": d["metas"]}


def printed(g) -> str:
    old = G.SIMPLE_STR
    G.SIMPLE_STR = False
    try:
        metas = "".join(f"@{k} {v!r}\n" if v is not None else f"@{k}\n" for k, v in g.metas.items())
        return metas + str(g) + "\n"
    finally:
        G.SIMPLE_STR = old


def filtered_tokens(text: str):
    tk = Tokenizer(tokenize.generate_tokens(io.StringIO(text).readline))
    out = []
    try:
        while True:
            t = tk.getnext()
            out.append([t.type, t.string, t.start[0], t.start[1], t.end[0], t.end[1], t.line])
            if t.type == 0:
                break
    except (StopIteration, tokenize.TokenError, IndentationError):
        pass
    return out


PRELUDE_EXTRA = """
Definition G_META : grammar := %s.
Definition TBL : list (string * aexp) := %s.
Definition M_META := Eval vm_compute in run_gen G_META %s.
Definition read_ok (te : list rtok * value) : bool :=
  match M_META with
  | inl m => let '(o, st) := run KINDS (fst te) false true m (aeval_table TBL) EXACT TDICT 3000 "start" init_state in
             match o with Ok v => value_eqb v (snd te) | _ => false end
  | inr _ => false
  end.
"""


def run(chk: common.Check, tier: str):
    chk.rule = ("grammar texts over the documented syntax (both alternative layouts, nested groups/optionals, all prefix and "
                "postfix operators, named and typed items, actions with nested brackets, strings, f-strings, `$`, memo flag, "
                "metas; random structured grammars; every .gram file of the repository): (a) what is read is what is "
                "written (model reader vs real reader, structure), (b) str() with SIMPLE_STR off is readable and denotes the "
                "same rules modulo redundant parentheses; non-trivial = the grammar nests an operator inside another; "
                "distinct by grammar text")
    r = common.rng("c09")
    kn = gramgen.Knobs(typed=True, memo=True, terminals=("NAME", "NUMBER", "'+'", "','", "'if'", '"in"', "NEWLINE", "ENDMARKER"),
                       action_pool=("x", "[x, y]", "f(x, {1: 2})", "'lit'", "{a: [b]}", "x.y [1]"))
    texts = LAYOUTS + list(gramgen.gen_grammars(r, kn, 60 if tier == "quick" else 600))
    # ---- round trip on the implementation
    good = []
    for t in texts:
        try:
            g = read_real(t)
        except Exception:
            g = None
        chk.count()
        if not g:
            chk.bump("not readable (generator produced invalid text)")
            continue
        d1 = g2c.dump(g)
        p = printed(g)
        try:
            g2 = read_real(p)
        except Exception as e:      # noqa
            g2 = None
        if "(" in t or "[" in t:
            chk.note_case(t)
        if not g2:
            chk.violation("the printed form of a grammar is not readable grammar text", {"grammar": t, "printed": p}, True)
            continue
        d2 = g2c.dump(g2)
        if json.dumps(strip_parens(d1), sort_keys=True) != json.dumps(strip_parens(d2), sort_keys=True):
            chk.violation("printing and re-reading a grammar changes its rules (beyond redundant parentheses)",
                          {"grammar": t, "printed": p, "before": strip_parens(d1), "after": strip_parens(d2)}, True)
        good.append((t, g))
        chk.sample({"grammar": t[:160], "printed": p[:160]}, 3)
    # ---- K-read: the model of the generated meta-parser reads the same structure as the shipped parser
    d = common.gen_dir("C09")
    try:
        (d / "Tables.v").write_text(tables.tables_v())
    except tables.ExtractError as e:
        chk.oblige("table extraction", False, str(e))
        return
    rc, out = common.coqc(d / "Tables.v")
    chk.oblige("extracted tables compile (coq/gen/C09/Tables.v)", rc == 0, out[-2000:])
    meta = g2c.read_grammar(META.read_text())
    tr = g2c.Translator()
    gterm = tr.grammar(meta)
    res = gm.real_generate(g2c.read_grammar(META.read_text()))
    cases, descs = [], []
    kread = good if tier != "quick" else good[:len(LAYOUTS) + 14]
    for t, g in kread:
        for text in (t, printed(g)):
            try:
                gg = read_real(text)
                cases.append(f"({clist(filtered_tokens(text), rm.tok_term)}, {value_of(gg)})")
                descs.append(text)
            except Exception:
                continue
    prelude = rm.prelude(tokens_set()) + PRELUDE_EXTRA % (gterm, rm.action_table(res[1]), cN(len(tr.ids) + 1000))
    failing = common.run_cases(chk, "kread", prelude, "list rtok * value", cases, "read_ok", shard=4, timeout=1500, jobs=14)
    if failing is not None:
        chk.oblige(f"correspondence K-read: the runtime model running the generator model's IR of metagrammar.gram (actions "
                   f"evaluated by MiniPy) builds the same grammar value as the shipped GrammarParser on {len(cases)} texts "
                   "(original layouts and their printed forms)", not failing, json.dumps([descs[i] for i in failing[:3]])[:2500])


def replay(path: str) -> int:
    print(open(path).read())
    return 1
