"""C16 — cycle analysis: components, cycles and the chosen leader are right."""
from __future__ import annotations

import itertools
import json

import common
from common import cstr, clist, copt

from pegen import sccutils
from pegen import parser_generator as PG
from pegen.grammar import Alt, NamedItem, NameLeaf, Rhs, Rule, StringLeaf

NAMES = ["a", "b", "c", "d", "e", "f", "g"]

PRELUDE = """From Coq Require Import List String NArith Bool Arith.
From Pegen Require Import Base.StrUtil Analysis.Scc Proofs.SccCheck.
Import ListNotations.
Open Scope string_scope.
Definition sgraph := graph string.
Definition sorted_eq (a b : list string) := strs_eqb (sort_set a) (sort_set b).
Inductive elr := EFlags (lr ld : list string) | EValueError.
Definition lr_ok (r : lr_result) (e : elr) : bool :=
  match r, e with
  | LRFlags lr ld, EFlags lr' ld' => sorted_eq lr lr' && sorted_eq ld ld'
  | LRValueError, EValueError => true
  | _, _ => false
  end.
Definition ccase := (list string * sgraph * list (list string) * elr * list (list string * string * list (list string)))%type.
"""
# (vertex order, graph with adjacency orders, yielded sccs in order (each sorted), compute_left_recursives result,
#  [(scc, start, cycles sorted)])
OK = ("fun c => let '(vs, g, comps, e, cyc) := c in "
      "list_eqb strs_eqb (map sort_set (sccs string String.eqb vs g)) comps && "
      "lr_ok (compute_left_recursives g) e && "
      "forallb (fun t => let '(scc, start, cs) := t in "
      "  list_eqb strs_eqb (map (fun l => l) (cs)) "
      "    (let found := find_cycles string String.eqb g scc start in "
      "     map (fun k => k) (fold_right (fun x acc => x :: acc) [] (sort_lists found)))) cyc")

CHECKED = ("fun c => let '(vs, g, comps, e, cyc) := c in scc_check string String.eqb g vs comps && "
           "match e with EFlags lr _ => lr_check string String.eqb g comps lr | EValueError => true end")

SORT_LISTS = """
Fixpoint strs_ltb (a b : list string) : bool :=
  match a, b with
  | [], [] => false | [], _ => true | _, [] => false
  | x :: a', y :: b' => if str_ltb x y then true else if str_ltb y x then false else strs_ltb a' b'
  end.
Fixpoint ins_list (x : list string) (l : list (list string)) : list (list string) :=
  match l with [] => [x] | y :: l' => if strs_ltb y x then y :: ins_list x l' else x :: l end.
Definition sort_lists (l : list (list string)) := fold_right ins_list [] l.
"""


def graph_from_mask(n: int, m: int) -> dict[str, list[str]]:
    return {NAMES[i]: [NAMES[j] for j in range(n) if (m >> (i * n + j)) & 1] for i in range(n)}


def rules_for(g: dict[str, list[str]]) -> dict[str, Rule]:
    """Synthetic rule set whose first graph is g: v: w1 'x' | w2 'x' | ... | 'y'"""
    rules = {}
    for v, ws in g.items():
        alts = [Alt([NamedItem(None, NameLeaf(w)), NamedItem(None, StringLeaf("'x'"))]) for w in ws]
        alts.append(Alt([NamedItem(None, StringLeaf("'y'"))]))
        rules[v] = Rule(v, None, Rhs(alts))
    return rules


# ---- the property itself, as a brute-force oracle --------------------------------------------
def reach(g, a):
    seen, todo = set(), [a]
    while todo:
        x = todo.pop()
        for y in g[x]:
            if y not in seen:
                seen.add(y)
                todo.append(y)
    return seen            # vertices reachable in >= 1 step


def true_sccs(g):
    r = {v: reach(g, v) for v in g}
    comps = []
    for v in g:
        c = frozenset([v] + [w for w in g if w in r[v] and v in r[w]])
        if c not in comps:
            comps.append(c)
    return comps, r


def simple_cycles(g, comp):
    cycles = []

    def go(path):
        for w in g[path[-1]]:
            if w not in comp:
                continue
            if w == path[0]:
                cycles.append(list(path))
            elif w not in path and w > path[0]:      # canonical: smallest vertex first
                go(path + [w])
    for s in sorted(comp):
        go([s])
    return cycles


def spec(g):
    """-> (components, {'error': True} | {'lr': set, 'leaders': set}) from the property text"""
    comps, r = true_sccs(g)
    lr, ok_leaders, refuse = set(), {}, False
    for c in comps:
        cyclic = len(c) > 1 or next(iter(c)) in g[next(iter(c))]
        if not cyclic:
            continue
        lr |= c
        cyc = simple_cycles(g, c)
        on_all = {v for v in c if all(v in cy for cy in cyc)}
        if not on_all:
            refuse = True
        ok_leaders[c] = on_all
    return comps, lr, ok_leaders, refuse


def real(g, vertex_order):
    gg = {v: list(g[v]) for v in vertex_order}
    comps = [sorted(c) for c in sccutils.strongly_connected_components(vertex_order, gg)]
    rules = rules_for({v: g[v] for v in vertex_order})
    try:
        graph, sccs = PG.compute_left_recursives(rules)
        res = ("flags", sorted(n for n, r in rules.items() if r.left_recursive),
               sorted(n for n, r in rules.items() if r.leader), [sorted(s) for s in sccs])
    except ValueError:
        res = ("valueerror",)
    # the same rule objects analysed once more (a caller that retries after a refusal, or generates twice)
    try:
        graph, sccs = PG.compute_left_recursives(rules)
        again = ("flags", sorted(n for n, r in rules.items() if r.left_recursive),
                 sorted(n for n, r in rules.items() if r.leader), [sorted(s) for s in sccs])
    except ValueError:
        again = ("valueerror",)
    if again != res:
        res = ("unstable", res, again)
    cyc = []
    for c in comps:
        if len(c) > 1:
            gs = {k: set(v) for k, v in gg.items()}
            for start in c:
                cs = sorted(sccutils.find_cycles_in_scc(gs, set(c), start))
                cyc.append((c, start, cs))
    return comps, res, cyc


def graphs(tier):
    r = common.rng("c16")
    for n in (1, 2, 3):
        for m in range(1 << (n * n)):
            yield n, m, True
    all4 = range(1 << 16)
    pick4 = all4 if tier == "thorough" else r.sample(all4, 2500)
    for m in pick4:
        yield 4, m, False
    for _ in range(150 if tier == "quick" else 3000):
        n = r.randint(5, 7)
        m = 0
        for i in range(n):
            for j in range(n):
                if r.random() < r.choice([0.15, 0.3]):
                    m |= 1 << (i * n + j)
        yield n, m, False


def run(chk: common.Check, tier: str):
    chk.rule = ("digraphs as bit masks: all graphs on 1-3 vertices under every vertex order and every adjacency "
                "order; 4 vertices: " + ("all 65536" if tier == "thorough" else "2500 sampled") + " with a random vertex/"
                "adjacency order each; random graphs on 5-7 vertices; non-trivial = the graph has a component with "
                ">= 2 members or a self-loop; distinct by (n, mask, orders)")
    r = common.rng("c16-orders")
    cases, descs = [], []
    for n, m, all_orders in graphs(tier):
        g0 = graph_from_mask(n, m)
        vs0 = NAMES[:n]
        if all_orders:
            vorders = list(itertools.permutations(vs0))
            aorders = list(itertools.product(*[list(itertools.permutations(g0[v])) for v in vs0]))
            combos = [(vo, ao) for vo in vorders for ao in aorders]
            if len(combos) > 40 and tier == "quick":
                combos = r.sample(combos, 40)
        else:
            vo = vs0[:]
            r.shuffle(vo)
            ao = [r.sample(g0[v], len(g0[v])) for v in vs0]
            combos = [(vo, ao)]
        comps_spec, lr_spec, leaders_spec, refuse_spec = spec(g0)
        for vo, ao in combos:
            g = {v: list(a) for v, a in zip(vs0, ao)}
            comps, res, cyc = real(g, list(vo))
            unstable = None
            if res[0] == "unstable":
                unstable, res = res, res[1]
            chk.count()
            desc = {"n": n, "mask": m, "vertex_order": list(vo), "adjacency": g, "implementation": res}
            nontriv = any(len(c) > 1 for c in comps_spec) or any(v in g0[v] for v in g0)
            if nontriv:
                chk.note_case((n, m, tuple(vo), tuple(map(tuple, ao))))
            chk.bump(f"n={n}")
            chk.bump("refused" if res[0] == "valueerror" else "accepted")
            # --- the property on the implementation
            probs = []
            if unstable:
                probs.append(f"analysing the same rule objects a second time gives {unstable[2]}, the first analysis gave {unstable[1]}")
            if sorted(map(sorted, comps_spec)) != sorted(comps):
                probs.append(f"strongly_connected_components yields {comps}, the SCCs are {sorted(map(sorted, comps_spec))}")
            if refuse_spec != (res[0] == "valueerror"):
                probs.append(f"ValueError raised: {res[0] == 'valueerror'}; some cyclic group has no vertex on every cycle: {refuse_spec}")
            if res[0] == "flags":
                if set(res[1]) != lr_spec:
                    probs.append(f"left_recursive flags {res[1]} differ from members of cyclic groups {sorted(lr_spec)}")
                for c, okl in leaders_spec.items():
                    mine = [v for v in res[2] if v in c]
                    if len(mine) != 1:
                        probs.append(f"group {sorted(c)} has {len(mine)} leaders")
                    elif mine[0] not in okl:
                        probs.append(f"leader {mine[0]} of group {sorted(c)} is not on every cycle")
                if any(v not in lr_spec for v in res[2]):
                    probs.append("a leader outside every cyclic group")
            for p in probs:
                chk.violation("cycle analysis is wrong: " + p, dict(desc, problem=p,
                              how="sccutils.strongly_connected_components / parser_generator.compute_left_recursives "
                                  "on the synthetic rule set 'v: w1 'x' | ... | 'y''"), True)
            chk.sample(desc, 5)
            e = ("EValueError" if res[0] == "valueerror"
                 else f"(EFlags {clist(res[1], cstr)} {clist(res[2], cstr)})")
            gterm = clist([(v, g[v]) for v in vo], lambda kv: f"({cstr(kv[0])}, {clist(kv[1], cstr)})")
            cyc_t = clist(cyc, lambda t: f"({clist(t[0], cstr)}, {cstr(t[1])}, {clist(t[2], lambda l: clist(l, cstr))})")
            cases.append(f"({clist(list(vo), cstr)}, {gterm}, {clist(comps, lambda c: clist(c, cstr))}, {e}, {cyc_t})")
            descs.append(desc)
    failing = common.run_cases(chk, "kscc", PRELUDE + SORT_LISTS, "ccase", cases, OK, shard=400)
    if failing is not None:
        chk.oblige(f"correspondence K-scc: Analysis/Scc.v agrees with sccutils / compute_left_recursives on "
                   f"{len(cases)} (graph, order) cases (components in yield order, cycles, flags, leader, ValueError)",
                   not failing, json.dumps([descs[i] for i in failing[:3]]))
    failing = common.run_cases(chk, "checked", PRELUDE + SORT_LISTS, "ccase", cases, CHECKED, shard=400)
    if failing is not None:
        chk.oblige(f"instance conditions of C16_checked_components_are_exact / C16_checked_flags_are_exact on {len(cases)} "
                   "(graph, order) cases: the verified checker accepts the components (in yield order) and the "
                   "left_recursive flags that the REAL sccutils / compute_left_recursives produced",
                   not failing, json.dumps([descs[i] for i in failing[:3]]))
    chk.assumptions += ["correctness of the SCC ALGORITHM for all graphs is proved by exhaustive kernel evaluation up to 4 "
                        "vertices only (bounds in the theorem statements); beyond that, its OUTPUT is validated per explored "
                        "graph by a checker whose soundness is proved for all graphs; the leader theorems are unbounded",
                        "iteration orders of Python sets inside compute_left_recursives are not controlled by the "
                        "harness (PYTHONHASHSEED fixed); the compared observables are order-independent"]


def replay(path: str) -> int:
    d = json.load(open(path))["replay"]
    if "adjacency" not in d:
        print(json.dumps(d, indent=1))
        return 1
    comps, res, _ = real(d["adjacency"], d["vertex_order"])
    print("implementation:", comps, res)
    print("spec:", spec(d["adjacency"]))
    return 1
