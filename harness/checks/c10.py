"""C10 — generation is deterministic and always yields a loadable parser."""
from __future__ import annotations

import glob
import json
import os
import re
import subprocess

import common
from common import cstr, clist
import genmodel as gm
import grammar2coq as g2c
import gramgen
import tables
from checks.c13 import tokens_set

EXTRA = [
    "start: a NEWLINE\na: b 'x' | 'p'\nb: c 'y' | 'q'\nc: a 'z' | 'r'\n",
    "start: sum NEWLINE\nsum: term (('+' | '-') term)*\nterm: NUMBER\n",
    "start: 'print' NAME NEWLINE\n",
    "start: \"match\" NAME | 'x' NEWLINE\n",
    "start: invalid_x* NAME\ninvalid_x: 'q'\n",
    "start: ','.(a | b)+ NEWLINE\na: 'a'\nb: 'b'\n",
    # one word written with both quote styles, in either order
    "start: 'match' NAME NEWLINE | \"match\" NUMBER NEWLINE | \"case\" 'case'\n",
    "start: \"match\" NUMBER NEWLINE | 'match' NAME NEWLINE | 'case' \"case\"\n",
    "start: NAME &&(NUMBER*) NEWLINE\n",
    "start: &&(NAME?) NUMBER NEWLINE\n",
    "start: &&([NAME]) [(NUMBER*)] NEWLINE\n",
    # three and more items with the same default name (name, name_1, name_2 ...), also against a user-chosen name_1
    "start: NAME NAME NAME NAME NEWLINE\n",
    "start: '(' '[' ']' ')' NEWLINE | NUMBER NUMBER NUMBER { foo(number, number_1, number_2) }\n",
    "start: name_1=NUMBER NAME NAME NAME NEWLINE | x=NAME x_1=NUMBER x=NAME x=NAME NEWLINE\n",
    "start: a a a NEWLINE\na: NAME? [NUMBER] NAME? [NUMBER] NAME?\n",
    # SOFT_KEYWORD in a grammar that declares no soft keyword; a soft keyword only
    "start: SOFT_KEYWORD NAME NEWLINE | 'if' NUMBER NEWLINE\n",
    "start: !SOFT_KEYWORD NAME NEWLINE | [SOFT_KEYWORD] NUMBER NEWLINE\n",
    # the (memo) flag on left-recursive rules (a leader, a non-leader) and on ordinary rules
    "start: e NEWLINE\ne (memo): e '+' t | t\nt (memo): NUMBER\n",
    "start: a NEWLINE\na (memo): b 'x' | 'p'\nb (memo): a 'y' | 'q'\n",
    # metas: class name, header (with the {filename} placeholder), subheader, trailer (with {class_name}); a bare meta
    "@class MyParser\nstart: NAME NEWLINE\n",
    "@header '''# generated from {filename}\nimport sys\n'''\nstart: NAME NEWLINE\n",
    "@subheader '''import ast\n'''\n@class P2\nstart: a=NAME NEWLINE { ast.Name(id=a.string) }\n",
    "@trailer '''\nPARSER = {class_name}\n'''\nstart: NAME (',' NAME)* NEWLINE\n",
    "@class Q\n@header '''import os\n'''\n@subheader '''X = 1\n'''\n@trailer '''Y = Q\n'''\n@whatever foo\nstart: 'a'+ NEWLINE\n",
    # a rule whose body is a group around a group: generating twice from one Grammar object must not peel a second level
    "start: pair NEWLINE\npair: (('(' NAME ',' NAME ')' | NAME))\n",
    "start: ((NAME NUMBER | NUMBER)) NEWLINE\n",
    # several left-recursive components and chains that enter a component at a member other than the one the traversal
    # found first: the order in which the analysis walks its name sets must not show in the decorators
    "start: x NEWLINE | e NEWLINE\nx: y 'a' | 'p'\ny: x 'b' | 'q'\ne: f 'c'\nf: g 'd'\ng: y 'e'\n",
    "start: e NEWLINE | x NEWLINE\ne: f 'c' | g 'c'\nf: g 'd' | y 'd'\ng: y 'e' | x 'e'\n"
    "x: y 'a' | z 'a' | 'p'\ny: z 'b' | 'q'\nz: x 'c' | 'r'\n",
    "start: m NEWLINE | k NEWLINE\nk: l 'k'\nl: m 'l' | q 'l'\nm: n 'm' | 'u'\nn: m 'n' | p 'n' | 'v'\np: q 'p' | 'w'\nq: p 'q' | 't'\n",
    # metas WITHOUT a value or with an empty value: a bare `@trailer` / `@header` means "emit none" (not "emit the default")
    "@trailer\nbegin: NAME NEWLINE\n",
    "@trailer ''\nbegin: NAME NEWLINE\n",
    "@trailer\n@header\nstart: NAME NEWLINE\n",
    "@header ''\n@subheader ''\nstart: NAME NEWLINE\n",
    "@subheader\nstart: NAME NEWLINE\n",
    # an explicit action with text after UNREACHABLE, LOCATIONS inside a call
    "start: a=NAME { foo(a, UNREACHABLE) } | NUMBER { UNREACHABLE }\n",
    "start: a=NAME { mk(a, LOCATIONS) } | (NUMBER NUMBER) b=NAME { mk(LOCATIONS) }\n",
]


def repo_grammars() -> list[tuple[str, str]]:
    out = []
    for p in sorted(glob.glob(str(common.REPO / "**/*.gram"), recursive=True)):
        try:
            text = open(p).read()
            g2c.read_grammar(text)
            out.append((os.path.relpath(p, common.REPO), text))
        except Exception:
            continue
    return out


def hard_soft(text: str):
    """independent count of the grammar's keywords: identifier-like quoted literals, by quote style"""
    g = g2c.read_grammar(text)
    hard, soft = set(), set()

    def item(it):
        from pegen import grammar as G
        t = type(it)
        if t is G.StringLeaf:
            v = it.value
            if re.fullmatch(r"[a-zA-Z_]\w*", v[1:-1]):
                (hard if v[0] == "'" else soft).add(v[1:-1])
        elif t is G.Group:
            rhs(it.rhs)
        elif t is G.Rhs:
            rhs(it)
        elif t is G.Gather:
            item(it.separator)
            item(it.node)
        elif hasattr(it, "node"):
            item(it.node)

    def rhs(r):
        for a in r.alts:
            for n in a.items:
                item(n.item)
    for r in g.rules.values():
        rhs(r.rhs)
    return sorted(hard), sorted(soft), list(g.rules)


FAILING_WARMUPS = (
    "start: a_without_invalid NEWLINE\na_without_invalid: x=NAME { x + }\n",
    "start: (x=NAME { x + })* NEWLINE\n",
    "start: ','.(x=NAME { ) })+ [y=NUMBER { y y }] NEWLINE\n",
    "start: a NEWLINE\na: b 'x' | c 'x' | 'q'\nb: a 'y' | c 'y'\nc: a 'z' | b 'z'\n",
    "start: b_without_invalid\nb_without_invalid: &&(x=NAME { x + }) ~ NAME\n",
)


def run_sub(entry, grammars, seed, warmup=()):
    env = dict(os.environ)
    env["PYTHONPATH"] = f"{common.REPO / 'src'}:{common.VERIF / 'harness'}"
    if seed == "random":
        env.pop("PYTHONHASHSEED", None)
        env["PYTHONHASHSEED"] = "random"
    else:
        env["PYTHONHASHSEED"] = str(seed)
    p = subprocess.run([common.PY, str(common.VERIF / "harness" / "gen_subproc.py")],
                       input=json.dumps({"entry": entry, "grammars": grammars, "warmup": list(warmup)}),
                       capture_output=True, text=True, env=env, timeout=900 * common.TMULT)
    if p.returncode != 0:
        return None, p.stderr[-800:]
    return {int(k): v for k, v in json.loads(p.stdout).items()}, None


def run(chk: common.Check, tier: str):
    chk.rule = ("grammars: every .gram file of the repository the shipped reader accepts, hand-written shapes (cycles with "
                "several leader candidates, nested groups, single keywords, invalid_ loops) and random structured grammars; "
                "each generated in fresh interpreters under PYTHONHASHSEED in {0,1,2,7,random} through {in-memory, build "
                "API, CLI, twice-from-the-same-Grammar-object, after warm-up generations}; non-trivial = the grammar has "
                "helper rules, keywords or left recursion; distinct by (grammar, seed, entry point)")
    d = common.gen_dir("C10")
    try:
        (d / "Tables.v").write_text(tables.tables_v())
    except tables.ExtractError as e:
        chk.oblige("table extraction", False, str(e))
        return
    rc, out = common.coqc(d / "Tables.v")
    chk.oblige("extracted tables compile (coq/gen/C10/Tables.v)", rc == 0, out[-2000:])
    r = common.rng("c10")
    named = repo_grammars()
    if tier == "quick":
        named = [x for x in named if "python.gram" not in x[0]]
    texts = [t for _, t in named] + EXTRA
    texts += list(gramgen.gen_grammars(r, gramgen.Knobs(), 60 if tier == "quick" else 600))
    texts += list(gramgen.gen_grammars(r, gramgen.Knobs(left_rec=True, memo=True, typed=True, rules=(2, 4)), 20 if tier == "quick" else 300))
    texts += list(gramgen.gen_grammars(r, gramgen.Knobs(left_rec=True, invalid=True, rules=(2, 4)), 40 if tier == "quick" else 400))
    # ---- K-gen: the model's text equals the generator's text
    cases, descs, good = [], [], []
    for t in texts:
        try:
            g = g2c.read_grammar(t)
            c, res = gm.case(g)
        except (SyntaxError, g2c.Untranslatable):
            chk.bump("unreadable/untranslatable")
            continue
        chk.count()
        chk.bump("generator:" + res[0])
        if c is None:
            chk.violation(f"generator crashed with {res[0]}: {res[1][:200]}", {"grammar": t, "error": list(res)}, True)
            continue
        cases.append(c)
        descs.append({"grammar": t, "implementation": res[0]})
        if res[0] == "text":
            good.append((t, res[1]))
            if "_tmp_" in res[1] or "_loop" in res[1] or "memoize_left_rec" in res[1]:
                chk.note_case(t)
        chk.sample({"grammar": t[:300], "outcome": res[0]}, 4)
    failing = common.run_cases(chk, "kgen", gm.prelude(tokens_set()), gm.CASE_T, cases, gm.OK, shard=25, timeout=1200)
    if failing is not None:
        chk.oblige(f"correspondence K-gen: render (generate ...) of the model equals the text written by "
                   f"PythonParserGenerator.generate(), or the same error class, on {len(cases)} grammars",
                   not failing, json.dumps([descs[i] for i in failing[:3]])[:3000])
    # ---- valid Python, one method per rule, keyword tables
    kfs = common.known_findings("C10")
    for t, text in good:
        try:
            compile(text, "<generated>", "exec")
        except SyntaxError as e:
            if any(kf["witness"]["grammar"] == t for kf in kfs):
                continue
            if "invalid_" in t and any(kf.get("class") == "invalid-loop" for kf in kfs) and "children.append(None  # pragma" in text:
                continue
            chk.violation(f"generated module is not valid Python: {e}", {"grammar": t, "error": str(e)}, True)
            continue
        hard, soft, rules = hard_soft(t)
        m1 = re.search(r"^    KEYWORDS = (.*)$", text, re.M)
        m2 = re.search(r"^    SOFT_KEYWORDS = (.*)$", text, re.M)
        kw, sk = eval(m1.group(1)), eval(m2.group(1))
        if not isinstance(kw, tuple) or not isinstance(sk, tuple) or list(kw) != hard or list(sk) != soft:
            chk.violation(f"keyword tables {kw!r} / {sk!r} are not the sorted tuples of the grammar's keywords {hard} / {soft}",
                          {"grammar": t, "KEYWORDS": repr(kw), "SOFT_KEYWORDS": repr(sk)}, True)
        defs = re.findall(r"^    def (\w+)\(self\)", text, re.M)
        if defs[:len(rules)] != rules or len(set(defs)) != len(defs):
            chk.violation("the parser class does not have exactly one method per rule, rules first in grammar order",
                          {"grammar": t, "methods": defs[:40], "rules": rules}, True)
    for kf in kfs:
        if "witness" in kf:
            res = gm.real_generate(g2c.read_grammar(kf["witness"]["grammar"]))
            if res[0] == "text":
                try:
                    compile(res[1], "<generated>", "exec")
                except SyntaxError:
                    chk.known(kf["what"])
    # ---- determinism across hash seeds / entry points / histories
    sample = [t for t, _ in good]
    if tier == "quick":
        rest = [t for t in sample if t not in EXTRA]
        sample = [t for t in sample if t in EXTRA] + rest[:8] + r.sample(rest[8:], min(20, max(0, len(rest) - 8)))
    base, err = run_sub("memory", sample, 0)
    if base is None:
        chk.oblige("determinism runs: child process", False, err)
        return
    configs = [("memory", s, ()) for s in (1, 2, 3, 5, 7, 11, "random")] + [("build", 0, ()), ("cli", 3, ()), ("twice", 5, ()),
               ("memory", 4, tuple(r.sample(sample, min(5, len(sample))))),
               # earlier generations in the same process that FAILED half-way (in a *_without_invalid rule, inside a
               # helper rule, in the leader analysis): whatever they left behind must not leak into later outputs
               ("memory", 6, FAILING_WARMUPS), ("twice", 2, FAILING_WARMUPS)]
    for entry, seed, warm in configs:
        got, err = run_sub(entry, sample, seed, warm)
        if got is None:
            chk.oblige(f"determinism runs: child process ({entry}, seed {seed})", False, err)
            continue
        for i, t in enumerate(sample):
            chk.count()
            if got.get(i) == "REFUSED-BY-VALIDATOR":
                chk.bump("command line refuses the grammar (validator), nothing written")
                continue
            if got.get(i) != base.get(i):
                chk.violation(f"output differs between (in-memory, PYTHONHASHSEED=0) and ({entry}, PYTHONHASHSEED={seed}"
                              f"{', after warm-up generations' if warm else ''})",
                              {"grammar": t, "entry": entry, "seed": seed, "warmup": list(warm),
                               "first_difference": gm.first_diff(base.get(i) or "", got.get(i) or "")}, True)
    chk.assumptions += ["'is valid Python' is a text-level fact: decided by compile() of every real output, not by a theorem"]


def replay(path: str) -> int:
    print(open(path).read())
    return 1
