"""C02 — left-recursive rules parse by seed growing, to left-associated trees."""
from __future__ import annotations

import itertools
import json
import re

import common
import runmodel as rm

# (grammar, regex over the space-joined token texts that the rule `a` must accept exactly, right-iterative rewrite)
FAMILY = [
    ("start: a NEWLINE\na: a 'x' | 'b'\n", r"b( x)*", "start: a NEWLINE\na: 'b' 'x'*\n"),
    ("start: a NEWLINE\na: (a 'x') | 'b'\n", r"b( x)*", None),
    ("start: a NEWLINE\na: r=a 'x' | 'b'\n", r"b( x)*", None),
    ("start: a NEWLINE\na: (a) 'x' | 'b'\n", r"b( x)*", None),
    ("start: a NEWLINE\na: &'b' a 'x' | 'b'\n", r"b( x)*", None),
    # a nullable rule in front (it must return a truthy value on the empty match: two optionals give a list)
    ("start: a NEWLINE\na: e a 'x' | 'b'\ne: 'q'? 'r'?\n", None, None),
    ("start: a NEWLINE\na: 'q'? a 'x' | 'b'\n", None, None),          # the grammar of C02_hidden_left_recursion_after_a_nullable_item
    ("start: a NEWLINE\na: (a 'x' | a 'y') | 'b' | 'c'\n", r"[bc]( [xy])*", "start: a NEWLINE\na: ('b' | 'c') ('x' | 'y')*\n"),
    ("start: a NEWLINE\na: a 'x' | a 'y' | 'b' | 'c'\n", r"[bc]( [xy])*", "start: a NEWLINE\na: ('b' | 'c') ('x' | 'y')*\n"),
    ("start: a NEWLINE\na: c 'x' | 'b'\nc: a\n", r"b( x)*", None),
    ("start: c NEWLINE\na: c 'x' | 'b'\nc: a\n", r"b( x)*", None),
    ("start: a NEWLINE\na: c 'x' | 'b'\nc: d\nd: a\n", r"b( x)*", None),
    ("start: d NEWLINE\na: c 'x' | 'b'\nc: d\nd: a\n", r"b( x)*", None),
    # a cycle of two rules one of which is ALSO directly left-recursive (it must be the leader, whatever the names)
    ("start: t NEWLINE\ni: t 'x' | 'a'\nt: t 'y' | i 'z' | 'b'\n", r"(b|a z)( y| x z)*", None),
    ("start: i NEWLINE\ni: t 'x' | 'a'\nt: t 'y' | i 'z' | 'b'\n", r"a|(b|a z)( y| x z)* x", None),
    ("start: a NEWLINE\nz: a 'x' | 'q'\na: a 'y' | z 'w' | 'b'\n", r"(b|q w)( y| x w)*", None),
    ("start: a NEWLINE\na: [a 'x'] 'b'\n", r"b( x b)*", None),
    ("start: a NEWLINE\na: (a 'x')* 'b'\n", None, None),           # only termination and correspondence
    ("start: expr NEWLINE\nexpr: (expr '+') NUMBER | NUMBER\n", r"1( \+ 1)*", "start: expr NEWLINE\nexpr: NUMBER ('+' NUMBER)*\n"),
    ("start: expr NEWLINE\nexpr: (term '+') NUMBER | term\nterm: (expr '*') NUMBER | NUMBER\n", None,
     "start: expr NEWLINE\nexpr: term '+' NUMBER | term\nterm: expr '*' NUMBER | NUMBER\n"),
    ("start: foo NEWLINE\nfoo: bar 'A' | 'B'\nbar: (foo 'C' | foo 'K') ';' | 'D'\n", None,
     "start: foo NEWLINE\nfoo: bar 'A' | 'B'\nbar: foo 'C' ';' | foo 'K' ';' | 'D'\n"),
    ("start: expr NEWLINE\nexpr: more expr '+' NUMBER | NUMBER\nquals: 'q' more | ['c'] ['v']\nmore: quals ['f']\n", None, None),
    ("quals: 'q' more | ['c'] ['v']\nmore: quals ['f']\nexpr: more expr '+' NUMBER | NUMBER\nstart: expr NEWLINE\n", r"1( \+ 1)*", None),
    # the (memo) flag on a left-recursive rule, on both rules of a cycle, on a typed leader: it must not displace seed growing
    ("start: a NEWLINE\na (memo): a 'x' | 'b'\n", r"b( x)*", "start: a NEWLINE\na: 'b' 'x'*\n"),
    ("start: a NEWLINE\na (memo): c 'x' | 'b'\nc (memo): a\n", r"b( x)*", None),
    ("start: c NEWLINE\na[int] (memo): c 'x' | 'b'\nc: a\n", r"b( x)*", None),
    # a nullable first alternative (a pure predicate) in front of the alternative that hides the left recursion
    ("start: a NEWLINE\na: &'q' 'q'* | ['y'] a 'x' | 'b'\n", None, None),
    ("start: a NEWLINE\na: (&'q' 'q'* | ['y'] a 'x') | 'b'\n", None, None),
    # a positive lookahead in front of the recursive reference, inside a group
    ("start: a NEWLINE\na: (&'b' a) 'x' | 'b'\n", r"b( x)*", None),
    # a left-recursive rule that can match the empty string: the first result consumes nothing and must still be the seed
    ("start: a 'z' NEWLINE\na: a 'x' | 'y'? 'w'?\n", None, "start: a 'z' NEWLINE\na: ('y'? 'w'?) 'x'*\n"),
    ("start: a 'z' NEWLINE\na: c 'x' | 'y'? 'w'?\nc: a\n", None, None),
]
EXTRA = {"foo: bar": ["B C ; A C ; A\n", "B C ; A\n", "B K ; A C ; A K ; A\n", "D A\n", "D A C ; A\n"],
         "term: (expr": ["1 * 1 + 1\n", "1 + 1 * 1 + 1\n", "1 * 1 * 1\n", "1 + 1 * 1 * 1 + 1\n"],
         "quals:": ["1 + 1 + 1 + 1\n"]}


def alphabet_of(g: str) -> list[str]:
    lits = sorted(set(m[1:-1] for m in re.findall(r"'[^'\n]*'", g)))
    if "NUMBER" in g:
        lits.append("1")
    return lits


def inputs(g: str, n: int, cap: int) -> list[str]:
    a = alphabet_of(g)
    out = [x for k, v in EXTRA.items() if k in g for x in v]
    for k in range(1, n + 1):
        for combo in itertools.product(a, repeat=k):
            out.append(" ".join(combo) + "\n")
            if len(out) >= cap:
                return out
    return out


def depth(v) -> int:
    """left-nesting depth of the value: [[[b, x], x], x] -> 3"""
    d = 0
    while isinstance(v, dict) and "l" in v and v["l"] and isinstance(v["l"][0], dict) and ("l" in v["l"][0]):
        v = v["l"][0]
        d += 1
    return d + (1 if isinstance(v, dict) and "l" in v else 0)


def run(chk: common.Check, tier: str):
    chk.rule = ("left-recursive grammar families (direct; recursive reference bare, named, in a group, behind a lookahead, "
                "behind a nullable rule, in an optional, in a loop; cycles of 2 and 3 rules entered at the leader and "
                "elsewhere; helper rules inside cycles) x all token sequences up to length 5 (6 in thorough) over the "
                "grammar's literals; compared with the regular language the family denotes, with the right-iterative "
                "rewrite, and for left-nesting of the tree; non-trivial = the input needs at least two growth steps; "
                "distinct by (grammar, input)")
    n, cap = (5, 400) if tier == "quick" else (6, 4000)
    gs = [g for g, _, _ in FAMILY]
    pairs = rm.krun(chk, "C02", gs, lambda g: inputs(g, n, cap), configs=("q1", "v0"), shard=3, per_input_limit=1.0)
    rewrites = [(g, rw) for g, _, rw in FAMILY if rw]
    rres = rm.run_traced([{"grammar": rw, "inputs": inputs(g, n, cap), "configs": ["q1"], "limit": 1.0} for g, rw in rewrites])
    rmap = {g: r for (g, rw), r in zip(rewrites, rres)}
    spec = {g: rx for g, rx, _ in FAMILY}
    for g, rj in pairs:
        rx = spec[g]
        for src, one in zip(inputs(g, n, cap), rj["results"]):
            x = one["runs"]["q1"]
            if x["kind"] in ("timeout", "recursion", "memory", "skipped"):
                chk.violation(f"parsing a left-recursive grammar does not terminate normally: {x['kind']}",
                              {"grammar": g, "input": src}, True)
                break
            accepted = x["kind"] == "ok" and x.get("value") is not None
            words = src.strip()
            if rx is not None:
                should = re.fullmatch(rx, words) is not None
                if should and len(words.split()) >= 3:
                    chk.note_case((g, src))
                if accepted != should:
                    chk.violation(f"input {words!r} is {'accepted' if accepted else 'rejected'}; the rule denotes /{rx}/",
                                  {"grammar": g, "input": src, "accepted": accepted, "language": rx}, True)
                elif accepted and g == FAMILY[0][0]:
                    steps = len(words.split()) - 1
                    val = x["value"]["l"][0] if isinstance(x["value"], dict) and "l" in x["value"] else None
                    if steps >= 1 and depth(val) != steps:
                        chk.violation(f"tree for {words!r} is not left-nested ({steps} growth steps expected)",
                                      {"grammar": g, "input": src, "value": x["value"]}, True)
            if g in rmap and "results" in rmap[g]:
                y = rmap[g]["results"][inputs(g, n, cap).index(src)]["runs"]["q1"]
                acc2 = y["kind"] == "ok" and y.get("value") is not None
                if acc2 != accepted:
                    chk.violation("left-recursive grammar and its right-iterative rewrite disagree on acceptance",
                                  {"grammar": g, "rewrite": dict(rewrites)[g], "input": src, "left_recursive": accepted,
                                   "rewrite_accepts": acc2}, True)
        chk.sample({"grammar": g}, 3)
    # ---- the tie of C02_A_Ax_b_returns_the_left_nested_tree_of_b_xstar to the code: the method of the theorem is the method a
    # the generator model emits for FAMILY[0] (with the model's own analysis), and that module is the real generator's output
    import genmodel as gm
    import grammar2coq as g2c
    from checks.c13 import tokens_set
    ties = [(FAMILY[0][0], [("a", "axb_meth")]), ("start: c NEWLINE\na: c 'x' | 'b'\nc: a\n", [("a", "ind_a"), ("c", "ind_c")]),
            ("start: a NEWLINE\na: 'q'? a 'x' | 'b'\n", [("a", "hid_meth")])]
    pre = gm.prelude(tokens_set()) + """From Pegen Require Import Runtime.Exec Proofs.GrowAxb Proofs.GrowIndirect Proofs.GrowHidden.
Definition only (m : ir_module) (x : meth) : ir_module :=
  {| i_header := i_header m; i_subheader := i_subheader m; i_class := i_class m; i_keywords := i_keywords m;
     i_soft_keywords := i_soft_keywords m; i_trailer := i_trailer m; i_meths := [x] |}.
Definition tie_ok (c : grammar * N * egen * list (string * meth)) : bool :=
  let '(g, fresh, e, ms) := c in
  gen_ok g fresh e &&
  match run_gen g fresh with
  | inl m => forallb (fun nm => match find_meth m (fst nm) with
                                | Some ma => String.eqb (render (only m ma)) (render (only m (snd nm)))
                                | None => false
                                end) ms
  | inr _ => false
  end.
"""
    cases = []
    for text, ms in ties:
        c, _res = gm.case(g2c.read_grammar(text))
        if c:
            cases.append(c[:-1] + ", [" + "; ".join(f'("{n}", {t})' for n, t in ms) + "])")
    bad = common.run_cases(chk, "axb", pre, "(grammar * N * egen * list (string * meth))", cases, "tie_ok", shard=2, timeout=600)
    if bad is not None:
        chk.oblige("instances of C02_A_Ax_b_returns_the_left_nested_tree_of_b_xstar, C02_indirect_cycle_entered_at_* and "
                   "C02_hidden_left_recursion_after_a_nullable_item: the methods of the theorems (axb_meth; ind_a, ind_c; hid_meth) render to the "
                   "same text as the methods of the generator model's output for  a: a 'x' | 'b' ,  a: c 'x' | 'b' ; c: a  and  "
                   "a: 'q'? a 'x' | 'b'  (model analysis included), and those outputs equal the "
                   "real generator's character by character (K-gen)", len(cases) == len(ties) and not bad, json.dumps(bad))


def replay(path: str) -> int:
    print(open(path).read())
    return 1
