"""C12 — error-reporting rules are inert unless error mode is on."""
from __future__ import annotations

import json

import common
import analysis as A
import gramgen
import grammar2coq as g2c
import runmodel as rm

from pegen import grammar as G

PLACEMENTS = ["invalid_x", "e=invalid_x", "(invalid_x NAME | NUMBER NUMBER)", "[invalid_x]", "invalid_x?", "invalid_x*",
              "invalid_x+", "','.invalid_x+", "invalid_x.NAME+", "&invalid_x NAME", "!invalid_x NAME", "&&invalid_x",
              "((invalid_x) NAME)?", "(NAME | (NUMBER | [invalid_x NAME]))"]
SEEDS_WI = [
    "start: stmt_without_invalid NEWLINE | invalid_start NEWLINE\nstmt_without_invalid: 'del' ~ NAME | NUMBER | invalid_x NAME\n"
    "invalid_start: 'del' NUMBER { foo() }\ninvalid_x: NAME NAME { foo() }\n",
    "start: a NEWLINE\na: b_without_invalid NAME | invalid_x | NUMBER\nb_without_invalid: (invalid_x | NUMBER)* ','\n"
    "invalid_x: NUMBER NUMBER { foo() }\n",
    # NESTED *_without_invalid rules (a recursive one that calls another one): the mode must be saved per invocation
    "start: a NEWLINE | invalid_start NEWLINE\na: op_without_invalid tail\n"
    "op_without_invalid: '(' ~ op_without_invalid ')' | item_without_invalid\nitem_without_invalid: NAME | invalid_x\n"
    "tail: e=invalid_tail { e } | ';'\ninvalid_tail: '!' { foo() }\ninvalid_x: NUMBER { foo() }\ninvalid_start: NAME NAME { foo() }\n",
    "start: b_without_invalid c NEWLINE\nb_without_invalid: NAME b_without_invalid | NUMBER | invalid_x\n"
    "c: invalid_x | ','\ninvalid_x: ';' { foo() }\n",
]
# a rule that is left-recursive ONLY through an error-reporting alternative and can match the empty string: with error
# mode off it must behave like the rule without that alternative (the seed-growing loop must keep a first empty match)
SEEDS_LR = [
    "start: a 'z' NEWLINE\na: 'q'? 'w'? | a invalid_x\ninvalid_x: 'w' { foo() }\n",
    "start: a NUMBER NEWLINE\na: NAME? ','? | !a invalid_x NAME\ninvalid_x: NUMBER { foo() }\n",
]


def mentions_invalid(it) -> bool:
    """independent reading of 'mentions an error-reporting rule at any nesting depth'"""
    t = type(it)
    if t is G.NameLeaf:
        return it.value.startswith("invalid")
    if t is G.StringLeaf or t is G.Cut:
        return False
    if t is G.Group:
        return any(alt_mentions(a) for a in it.rhs.alts)
    if t is G.Rhs:
        return any(alt_mentions(a) for a in it.alts)
    if t is G.Gather:
        return mentions_invalid(it.separator) or mentions_invalid(it.node)
    return mentions_invalid(it.node)


def alt_mentions(a) -> bool:
    return any(mentions_invalid(n.item) for n in a.items)


def strip_invalid(text: str) -> str | None:
    """the grammar with every alternative that mentions an invalid_ rule deleted (rule-level alternatives and
    alternatives of nested groups); None if a rule would become empty"""
    g = g2c.read_grammar(text)

    def strip_rhs(r):
        alts = [a for a in r.alts if not alt_mentions(a)]
        if not alts:
            return None
        for a in alts:
            for n in a.items:
                if not strip_item(n.item):
                    return None
        r.alts = alts
        return r

    def strip_item(it):
        t = type(it)
        if t is G.Group:
            return strip_rhs(it.rhs) is not None
        if t is G.Rhs:
            return strip_rhs(it) is not None
        if t is G.Gather:
            return strip_item(it.separator) and strip_item(it.node)
        if hasattr(it, "node"):
            return strip_item(it.node)
        return True
    rules = []
    for r in g.rules.values():
        if r.name.startswith("invalid"):
            rules.append(r)      # unreferenced now; kept so that names resolve
            continue
        if strip_rhs(r.rhs) is None:
            return None
        rules.append(r)
    old = G.SIMPLE_STR
    G.SIMPLE_STR = False
    try:
        return "\n".join(str(r) for r in rules) + "\n"
    finally:
        G.SIMPLE_STR = old


def grammars(tier):
    for p in PLACEMENTS:
        for act in ("", " { foo() }"):
            yield (f"start: a NEWLINE\na: NUMBER {p} NAME{act} | NUMBER NAME* | NAME\ninvalid_x: NAME NAME {{ foo() }} | NUMBER {{ foo() }}\n")
    # an error-reporting rule is any rule whose name BEGINS with `invalid` (no underscore needed)
    for nm in ("invalidnum", "invalid"):
        for p in PLACEMENTS[::3] + PLACEMENTS[1::5]:
            yield (f"start: a NEWLINE\na: NUMBER {p} NAME | NUMBER NAME* | NAME\ninvalid_x: NAME NAME {{ foo() }} | NUMBER {{ foo() }}\n"
                   .replace("invalid_x", nm))
    for t in SEEDS_WI:
        yield t
    for t in SEEDS_LR:
        yield t
    r = common.rng("c12")
    kn = gramgen.Knobs(terminals=("NAME", "NUMBER", "','", "NEWLINE"), invalid=True, left_rec=False, p_ref=0.5,
                       action_pool=("foo(x)", "(x, 1)", "foo()"), extra_rule_names=("b_without_invalid",))
    for t in gramgen.gen_grammars(r, kn, 30 if tier == "quick" else 400):
        yield t


def run(chk: common.Check, tier: str):
    chk.rule = ("grammars referring to invalid_ rules at each of " + str(len(PLACEMENTS)) + " placements (bare, named, groups, "
                "optionals, repetitions, gathers, lookaheads, forced, nested) with and without an own action, "
                "*_without_invalid rules, and random grammars with invalid_x references x all token sequences up to length 3 x "
                "error mode {off, on}; non-trivial = the grammar has a guarded alternative below the rule level; "
                "distinct by (grammar, input, mode)")
    texts = list(dict.fromkeys(grammars(tier)))
    nin = 30 if tier == "quick" else 150
    deep = ["( x ) !\n", "( ( x ) ) !\n", "( ( x ) ) ;\n", "x !\n", "( 1 ) !\n", "( x !\n", "x x 1 ;\n", "x x 1 ,\n", "x ; ;\n", "1 ;\n"]
    inputs_for = lambda t: A.inputs_upto(A.alphabet(t) + ["del"], 3, nin) + (deep if t in SEEDS_WI[2:] else [])
    off = rm.krun(chk, "C12", texts, inputs_for, configs=("q1",), call_invalid=False)
    d = common.GEN / "C12"
    (d / "Instances.v").write_text(
        "From Coq Require Import List String Bool.\nFrom Pegen Require Import Analysis.Visitor Proofs.VisitorSim Proofs.InvalidProofs.\n"
        "Require Import Tables.\n"
        "Lemma invalid_table_wf : wf_tbl invalid_tbl iter_fields_tbl = true.\nProof. vm_compute. reflexivity. Qed.\n"
        "Lemma invalid_table_monotone : forallb (fun kv => no_not (snd kv)) invalid_tbl = true.\nProof. vm_compute. reflexivity. Qed.\n"
        "Lemma invalid_detector_ok : detector_ok invalid_tbl = true.\nProof. vm_compute. reflexivity. Qed.\n")
    rc, out = common.coqc(d / "Instances.v")
    chk.oblige("instance lemmas: the InvalidNodeVisitor table extracted from python_generator.py is well-formed (every "
               "visit_* method is dispatched), monotone and passes detector_ok (hypotheses of C12_guard_iff_mentions_invalid)",
               rc == 0, out[-2000:])
    on = rm.krun(chk, "C12", [t for t in texts if "without_invalid" in t], inputs_for, configs=("q1",), call_invalid=True,
                 want_cases=False)
    kfs = common.known_findings("C12")
    # grammars whose default output does not compile (the C10 finding: UNREACHABLE inside a loop) are run with
    # unreachable_formatting="None" so that their behaviour can still be observed (no model cases for those)
    built = {t for t, _ in off}
    off += rm.krun(chk, "C12", [t for t in texts if t not in built], inputs_for, configs=("q1",), call_invalid=False,
                   want_cases=False, unreachable="None")
    # (1) flag off: behaves like the grammar with those alternatives deleted
    stripped, keep = [], []
    for t, rj in off:
        try:
            s = strip_invalid(t)
        except Exception:
            s = None
        if s is None:
            chk.bump("stripping leaves an empty rule (skipped)")
            continue
        stripped.append(s)
        keep.append((t, rj))
    res2 = rm.run_traced([{"grammar": s, "inputs": inputs_for(t), "configs": ["q1"], "unreachable": "None"}
                          for s, (t, _) in zip(stripped, keep)])
    for s, (t, rj), r2 in zip(stripped, keep, res2):
        if "results" not in r2:
            chk.bump("stripped grammar not runnable: " + (r2.get("build_error") or "?")[:40])
            continue
        chk.note_case(t)
        for src, a, b in zip(inputs_for(t), rj["results"], r2["results"]):
            x, y = a["runs"]["q1"], b["runs"]["q1"]
            if {x["kind"], y["kind"]} & {"timeout", "skipped", "memory", "recursion"}:
                continue
            chk.count()
            kx = (x["kind"], json.dumps(x.get("value"), sort_keys=True), x.get("mark"))
            ky = (y["kind"], json.dumps(y.get("value"), sort_keys=True), y.get("mark"))
            called = [e[0] for e in x.get("events", []) if e[0].startswith("invalid")]
            if called:
                chk.violation(f"error-reporting rule {called[0]} was invoked although error mode is off",
                              {"grammar": t, "input": src, "invoked": called[:5]}, True)
            elif kx != ky:
                chk.violation("with error mode off the parser differs from the parser of the grammar without the "
                              "alternatives that mention invalid_ rules",
                              {"grammar": t, "stripped_grammar": s, "input": src, "with_invalid_alternatives": kx,
                               "without": ky}, True)
    # (2) *_without_invalid: mode off inside, restored on every return
    for mode, pairs in ((False, off), (True, on)):
        for t, rj in pairs:
            if "without_invalid" not in t:
                continue
            for src, one in zip(inputs_for(t), rj["results"]):
                x = one["runs"]["q1"]
                for name, fin, fout, depth in x.get("flags", []):
                    chk.count()
                    if depth > 0 and fin:
                        chk.violation(f"{name} was entered with error mode ON inside a *_without_invalid rule",
                                      {"grammar": t, "input": src, "error_mode": mode}, True)
                    if fout != fin:
                        chk.violation(f"{name} returned with error mode {fout}, it was {fin} when it was called",
                                      {"grammar": t, "input": src, "error_mode": mode}, True)
                if x["kind"] in ("ok", "SyntaxError") and x.get("invalid_flag") != mode and x["kind"] == "ok":
                    chk.violation(f"after the parse error mode is {x.get('invalid_flag')}, it was {mode} before",
                                  {"grammar": t, "input": src}, True)
    chk.sample({"grammar": texts[0]}, 2)
    python_driver(chk)


def python_driver(chk):
    """(3) the driver of the shipped Python grammar (Parser.parse in data/python.gram): the FIRST pass of every parse() call
    runs with error mode off -- also a second call on the same parser object after a first one failed"""
    import ast
    import io
    import tokenize
    from checks import c07
    from pegen.tokenizer import Tokenizer
    ns = c07.build_parser()
    base = ns["PythonParser"]
    calls: list[str] = []

    def spy(name, fn):
        def wrapper(self, *a, **kw):
            if getattr(self, "spying", False) and self.call_invalid_rules is False:
                pass
            if getattr(self, "spying", False):
                calls.append(name)
            return fn(self, *a, **kw)
        return wrapper
    body = {"spying": False}
    for name in dir(base):
        if name.startswith("invalid_"):
            body[name] = spy(name, getattr(base, name))
    cls = type("SpyParser", (base,), body)
    # valid programs on which some invalid_* rule would misfire or at least run if error mode were on
    for src in ("y = 1\nmatch(y)\n", "x = [1, 2]\nprint(x)\n", "def f(a, b=1):\n    return a\n"):
        def fresh():
            return cls(Tokenizer(tokenize.generate_tokens(io.StringIO(src).readline)))
        chk.count()
        try:
            want = ast.dump(fresh().parse("file"))
        except SyntaxError as e:
            chk.violation(f"the Python parser rejects a valid program: {e}", {"source": src}, True)
            continue
        p = fresh()
        try:
            p.parse("eval")
            continue            # also a valid expression: not the scenario
        except SyntaxError:
            pass
        p.spying = True
        calls.clear()
        try:
            got = ast.dump(p.parse("file"))
            err = None
        except SyntaxError as e:
            got, err = None, str(e)
        if err is not None or got != want or calls:
            chk.violation("a second parse() on the same Python parser object, after a failed first one, does not start with "
                          f"error mode off: error={err}, invalid_ rules run in a successful parse: {sorted(set(calls))[:6]}",
                          {"source": src, "scenario": "p.parse('eval') raises SyntaxError, then p.parse('file') on the same object"}, True)


def replay(path: str) -> int:
    print(open(path).read())
    return 1
