"""C14 — the tokenizer wrapper is a faithful, lazy, rewindable cursor."""
from __future__ import annotations

import json

import common
import tokmodel as tm


def cases_for(chk, tier):
    r = common.rng("c14")
    n_real = 40 if tier == "quick" else 400
    n_syn = 40 if tier == "quick" else 400
    streams = []
    for src in tm.SNIPPETS:
        streams.append((tm.raw_tokens(src), src, "snippet"))
    for _ in range(n_syn):
        raw, text = tm.synthetic_stream(r, r.randint(0, 14))
        streams.append((raw, text, "synthetic"))
    for raw, text, kind in streams:
        reps = n_real // len(tm.SNIPPETS) + 1 if kind == "snippet" else 1
        for _ in range(reps):
            maxline = (raw[-1].end[0] if raw else 1)
            ops = tm.random_ops(r, r.randint(1, 14), maxline)
            for with_path in (False, True):
                yield raw, ops, (text if with_path else None), kind, text


def spec_check(raw, ops, outs, final, path_text, text, pulled_after=None):
    """The property itself, checked on the implementation's outputs with an abstract cursor over
    the filtered list (oracle written from the property text, independent of the Coq model)."""
    import token as T, tokenize
    kept = []
    for t in raw:
        if t.type in (tokenize.NL, tokenize.COMMENT):
            continue
        if t.type == T.ERRORTOKEN and t.string.isspace():
            continue
        if t.type == T.NEWLINE and kept and kept[-1].type == T.NEWLINE:
            continue
        kept.append(t)
    kidx = {id(t): i for i, t in enumerate(kept)}
    cur, fetched = 0, 0
    problems = []
    for k, (o, res) in enumerate(zip(ops, outs)):
        if o[0] in ("peek", "getnext"):
            if cur < len(kept):
                if res != ("tok", raw.index(kept[cur])) and not (res[0] == "tok" and raw[res[1]] is kept[cur]):
                    problems.append(f"{o[0]} at cursor {cur} returned {res}, expected filtered token {cur}")
                fetched = max(fetched, cur + 1)
                if o[0] == "getnext":
                    cur += 1
            elif res != ("stop",):
                problems.append(f"{o[0]} beyond the end returned {res}")
            else:
                fetched = len(kept)
        elif o[0] == "mark":
            if res != ("nat", cur):
                problems.append(f"mark returned {res}, cursor is {cur}")
        elif o[0] == "reset":
            if o[1] <= fetched or o[1] == cur:
                if res != ("none",):
                    problems.append(f"reset({o[1]}) to an earlier mark failed: {res}")
                else:
                    cur = o[1]
            # resetting beyond what was fetched is outside the property (assertion)
        elif o[0] == "diagnose":
            if fetched == 0:
                if kept:
                    fetched = 1
                    if not (res[0] == "tok" and raw[res[1]] is kept[0]):
                        problems.append(f"diagnose on empty buffer returned {res}")
                elif res != ("stop",):
                    problems.append(f"diagnose on empty stream returned {res}")
            elif not (res[0] == "tok" and raw[res[1]] is kept[fetched - 1]):
                problems.append(f"diagnose returned {res}, furthest fetched is filtered token {fetched - 1}")
        elif o[0] == "lines" and res == ("keyerror",) and path_text is None and pulled_after is not None:
            # without a path: every requested line up to the last line a pulled token reaches must be known
            seen_to = max([t.end[0] for t in raw[:pulled_after[k]]] or [0])
            if o[1] and all(1 <= n <= seen_to for n in o[1]):
                problems.append(f"get_lines({o[1]}) raised KeyError although the tokenizer has read up to line {seen_to}")
        elif o[0] == "lines":
            # every requested line that some pulled token touches must be the real line of the text
            if res[0] == "lines":
                tl = tm.nl_lines(text)
                for n, l in zip(o[1], res[1]):
                    real = tl[n - 1] if 1 <= n <= len(tl) else None
                    if real is not None and l != real and not (l == "" and n == len(tl) + 1):
                        problems.append(f"get_lines: line {n} reported as {l!r}, text has {real!r}")
    fi, fn, fp, _ = final
    if fi != cur:
        problems.append(f"final cursor {fi}, abstract cursor {cur}")
    # laziness: the generator was asked for no more than needed to produce filtered token fetched-1
    if fetched and fetched <= len(kept) and fn == fetched:
        need = raw.index(kept[fetched - 1]) + 1
        if not any(res == ("stop",) for res in outs) and fp > need:
            problems.append(f"pulled {fp} raw tokens, {need} suffice for the furthest position examined")
    return problems


def run(chk: common.Check, tier: str):
    chk.rule = ("operation sequences (peek/getnext/mark/reset/diagnose/last-non-ws/get_lines, length 1-14) over "
                "token streams from real source snippets (comments, blank lines, continuation lines, multi-line "
                "strings, indentation) and synthetic streams (whitespace ERRORTOKENs, NEWLINE runs), each with and "
                "without a file path; non-trivial = the sequence contains a reset or diagnose or get_lines after a "
                "fetch; distinct by (stream, ops, path)")
    cases, descs = [], []
    kfs = common.known_findings("C14")
    for kf in kfs:
        w = kf["witness"]
        raw = tm.raw_tokens(w["source"])
        outs, _ = tm.run_real(raw, [("getnext",)] * len(raw) + [("lines", w["lines"])], None)
        if outs[-1] == ("keyerror",):
            chk.known(kf["what"])
    for raw, ops, path_text, kind, text in cases_for(chk, tier):
        try:
            outs, final = tm.run_real(raw, ops, path_text)
            term = tm.case_term(raw, ops, path_text, outs, final)
        except ValueError:
            chk.bump("skipped (outside model)")
            continue
        chk.count()
        chk.bump(kind + ("/path" if path_text is not None else "/string"))
        for res in outs:
            chk.bump("out:" + res[0])
        desc = {"tokens": [(t.type, t.string, t.start) for t in raw][:12], "ops": ops, "path": path_text is not None,
                "outs": outs}
        if any(o[0] in ("reset", "diagnose", "lines") for o in ops[1:]):
            chk.note_case(json.dumps(desc, default=str))
        chk.sample(desc, 4)
        cases.append(term)
        descs.append(desc)
        probs = spec_check(raw, ops, outs, final, path_text, text, tm.run_real.pulled_after)
        if tm.run_real.pulled_at_start:
            probs.append(f"constructing the wrapper pulled {tm.run_real.pulled_at_start} raw tokens before any operation")
        # the same sequence with tracing on: tracing only prints, so outputs, cursor, buffer and pull counts are the same
        pa = tm.run_real.pulled_after
        try:
            vouts, vfinal = tm.run_real(raw, ops, path_text, verbose=True)
        except Exception as e:      # noqa
            vouts, vfinal = [("crash", type(e).__name__)], None
        if tm.run_real.pulled_at_start:
            probs.append(f"verbose=True: constructing the wrapper pulled {tm.run_real.pulled_at_start} raw tokens before any operation")
        if vouts != outs or (vfinal is not None and vfinal[:3] != final[:3]) or tm.run_real.pulled_after != pa:
            probs.append(f"verbose=True changes what the wrapper does: outputs {vouts} vs {outs}, (cursor, buffered, pulled) "
                         f"{vfinal[:3] if vfinal else None} vs {final[:3]}, pulled after each op {tm.run_real.pulled_after} vs {pa}")
        tm.run_real.pulled_after = pa
        for p in probs:
            if "raised KeyError" in p and any(text == kf["witness"]["source"] for kf in kfs):
                continue        # exactly the recorded witness; reported as KNOWN-FINDING below
            chk.violation("tokenizer wrapper deviates from the abstract cursor: " + p,
                          {"tokens": [list(t) for t in raw], "ops": ops, "with_path": path_text is not None,
                           "implementation_outputs": outs, "problem": p}, True)
    failing = common.run_cases(chk, "ktok", tm.PRELUDE % tm.consts_term(), "tcase", cases, tm.OK)
    if failing is not None:
        chk.oblige(f"correspondence K-tok: Runtime/Tokenizer.v agrees with pegen.tokenizer.Tokenizer on "
                   f"{len(cases)} (stream, op sequence) cases (outputs, cursor, fetched, pulled, line table)",
                   not failing, json.dumps([descs[i] for i in failing[:3]], default=str))
    chk.assumptions += ["TokenInfo.line is the text of the physical line(s) the token spans (tokenize's contract)",
                        "a carriage return inside a line is outside the model (harness skips such streams)"]


def _text_of(raw, kind):
    # reconstruct the text by lines from the tokens' line attributes (first occurrence per line number)
    by = {}
    for t in raw:
        ls = tm.nl_lines(t.line) or [t.line]
        for i, l in enumerate(ls):
            by.setdefault(t.start[0] + i, l)
    if not by:
        return []
    return [by.get(n, "\x00missing\n") for n in range(1, max(by) + 1)]


def replay(path: str) -> int:
    print(open(path).read())
    return 1
