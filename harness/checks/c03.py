"""C03 — grammar analysis is complete and independent of rule order."""
from __future__ import annotations

import itertools
import json

import common
from common import cstr, clist, cN
import analysis as A
import grammar2coq as g2c
import gramgen
import tables

NIN = 50
SEEDS = [
    "start: a NEWLINE\nopt: 'x'? 'w'?\na: opt a 'y' | 'z'\n",
    "start: a NEWLINE\na: &'x' a 'y' | 'x'\n",
    "start: a NEWLINE\na: ~ a 'y' | 'x'\n",
    "start: a NEWLINE\na: 'q'? | b? a 'y' | 'x'\nb: 'b'\n",
    "start: a NEWLINE\na: (b? a 'x')? 'y'\nb: 'b'\n",
    "start: n NEWLINE\nm: ['a' n] 'b'?\nn: m n 'y' | 'z'?\n",
    "start: a NEWLINE\na: c 'x' | 'p'\nb: a 'y' | 'q'\nc: b 'z' | 'r'\n",
    "start: a NEWLINE\na: b* a 'x' | 'y'\nb: 'b'?\n",
    "start: a NEWLINE\na: !'q' (&'x' a) 'y' | 'x'\n",
    "start: items 'y' | block 'z'\nitems: 'a' block | 'b'?\nblock: items\n",
    "start: a NEWLINE\na: ','.b+ a 'x' | 'y'\nb: 'k'?\n",
    "start: a NEWLINE\na: &&(b? a) 'x' | 'y'\nb: 'b'\n",
    # left recursion through the SEPARATOR of a gather whose element can match nothing
    "start: a NEWLINE\na: a.('w'*)+ 'x' | 'y'\n",
    "start: c.('w'?)+ 'z'\nc: start 'q' | 'x'\n",
    # a rule that reaches itself at the same position INSIDE a lookahead operand
    "start: a NEWLINE\na: &a 'x' | 'y'\n",
    "start: a NEWLINE\na: !a 'x' | 'y'\n",
    "start: a NEWLINE\na: (&a 'x')* 'y'\n",
    "start: a NEWLINE\na: &b 'x' | 'y'\nb: a 'z' | 'y'\n",
    "start: a NEWLINE\na: 'q'? !(b 'k') 'x' | 'y'\nb: 'w'* a\n",
    "start: a NEWLINE\na: &&(&a) 'y' | 'y'\n",
]

PRELUDE = g2c.HEADER + """From Pegen Require Import Analysis.Visitor Analysis.Scc Analysis.Nullable.
Require Import Tables.
Inductive eres := EOk (nul : list string) (items : list N) (g : list (string * list string)) (lr ld : list string)
                | EValueError.
Definition Ns_eqb (a b : list N) := list_eqb N.eqb a b.
Fixpoint insN (x : N) (l : list N) := match l with [] => [x] | y :: l' => if N.ltb x y then x :: l else if N.eqb x y then l else y :: insN x l' end.
Definition sortN (l : list N) := fold_right insN [] l.
Definition graph_sorted (g : list (string * list string)) : list (string * list string) :=
  map (fun k => (k, match assoc_s k g with Some l => sort_set l | None => [] end)) (sort_set (map fst g)).
Definition ok_res (r : aresult) (e : eres) : bool :=
  match r, e with
  | AOk a, EOk nul items g lr ld =>
      strs_eqb (sort_set (a_nullable a)) nul && Ns_eqb (sortN (a_item_nullable a)) items &&
      list_eqb (pair_eqb String.eqb strs_eqb) (graph_sorted (a_graph a)) g &&
      strs_eqb (sort_set (a_left_rec a)) lr && strs_eqb (sort_set (a_leaders a)) ld
  | AValueError, EValueError => true
  | _, _ => false
  end.
"""
OK = "fun c => ok_res (analyse nullable_tbl iter_fields_tbl (rules (fst c))) (snd c)"


def expected_term(res) -> str:
    if res["kind"] == "ValueError":
        return "EValueError"
    g = sorted(res["graph"].items())
    return (f"(EOk {clist(res['nullable'], cstr)} {clist(res['item_nullable'], cN)} "
            f"{clist(g, lambda kv: f'({cstr(kv[0])}, {clist(kv[1], cstr)})')} "
            f"{clist(res['left_rec'], cstr)} {clist(res['leaders'], cstr)})")


def grammar_texts(tier):
    r = common.rng("c03")
    for t in SEEDS:
        yield t
    kn = gramgen.Knobs(rules=(2, 4), alts=(1, 3), items=(1, 3), depth=2, left_rec=True, actions=False, names=False,
                       terminals=("'x'", "'y'", "NAME", "'k'?", "'w'*"), forced=True, cut=True, p_ref=0.5,
                       lookahead_terminals_only=True)
    for t in gramgen.gen_grammars(r, kn, 40 if tier == "quick" else 1500):
        yield t
    # lookahead operands that are rule references, groups, optionals ... (recursion through an operand)
    import dataclasses
    kn2 = dataclasses.replace(kn, lookahead_terminals_only=False)
    for t in gramgen.gen_grammars(r, kn2, 25 if tier == "quick" else 800):
        yield t
    # grammars that are (mostly) free of left recursion: the instances of the termination theorem
    kn3 = dataclasses.replace(kn2, forward_refs_only=True, nullable_loops=False, terminals=("'x'", "'y'", "NAME", "'k'?", "NUMBER"))
    for t in gramgen.gen_grammars(r, kn3, 40 if tier == "quick" else 1000):
        yield t


def flags_of(res):
    if res["kind"] != "ok":
        return res["kind"]
    return (tuple(res["nullable"]), tuple(res["left_rec"]), tuple(res["leaders"]),
            tuple(sorted((k, tuple(v)) for k, v in res["graph"].items())))


def run(chk: common.Check, tier: str):
    global NIN
    NIN = 40 if tier == "quick" else 300
    chk.rule = ("grammars (hand-written left-recursion/nullable shapes + random structured grammars with rule references "
                "in first position, optionals, loops, lookaheads, cuts, forced items, gathers) x permutations of the rule "
                "list (all for <= 3 rules, sampled otherwise) x token sequences up to length 3 over the grammar's alphabet; "
                "non-trivial = the grammar has a nullable or left-recursive rule; distinct by (grammar, permutation)")
    d = common.gen_dir("C03")
    try:
        (d / "Tables.v").write_text(tables.tables_v())
        shapes = tables.nullable_special_shapes()
    except tables.ExtractError as e:
        chk.oblige("table extraction (visitor bodies, __iter__ fields)", False, str(e))
        return
    rc, out = common.coqc(d / "Tables.v")
    chk.oblige("extracted tables compile (coq/gen/C03/Tables.v)", rc == 0, out[-2000:])
    for k, v in shapes.items():
        chk.oblige(f"source shape of NullableVisitor.{k} / compute_nullables matches the hand-modelled hook", v,
                   "the flag-setting methods are modelled by hand (Analysis/Nullable.v); their source text changed")
    (d / "Instances.v").write_text(
        "From Coq Require Import List String Bool.\nFrom Pegen Require Import Analysis.Visitor Proofs.NullableProofs.\n"
        "Require Import Tables.\n"
        "Lemma nullable_table_monotone : monotone_tbl nullable_tbl = true.\nProof. vm_compute. reflexivity. Qed.\n"
        "Lemma nullable_table_total : total_tbl nullable_tbl = true.\nProof. vm_compute. reflexivity. Qed.\n"
        "Lemma nullable_table_wf : wf_tbl nullable_tbl iter_fields_tbl = true.\nProof. vm_compute. reflexivity. Qed.\n"
        "From Pegen Require Import Proofs.VisitAll.\n"
        "Lemma nullable_table_visits_all : visit_all_ok nullable_tbl iter_fields_tbl = true.\nProof. vm_compute. reflexivity. Qed.\n")
    rc, out = common.coqc(d / "Instances.v")
    chk.oblige("instance lemmas: the extracted NullableVisitor table is monotone (no negation of visits) and total "
               "(every method visits all its children, no short-circuit) and well-formed (every attribute and method it "
               "mentions exists: no visit_* method for a class that is never dispatched) and visits everything (visit_all_ok: "
               "every class has a method, visit_NamedItem is the flag-setting hook; hypothesis of C03_item_flags_are_exact / "
               "C03_first_graph_order_independent)", rc == 0, out[-2000:])
    r = common.rng("c03-perm")
    cases, descs, jobs, jobmeta = [], [], [], []
    vcases, vdescs = [], []
    tcases, tdescs = [], []
    for text in grammar_texts(tier):
        try:
            g0 = A.permuted(text, None)
        except SyntaxError:
            continue
        n = len(g0.rules)
        perms = list(itertools.permutations(range(n)))
        if len(perms) > 6 or (tier == "quick" and len(perms) > 4):
            perms = [perms[0]] + r.sample(perms[1:], 3 if tier == "quick" else 5)
        flagsets = {}
        for perm in perms:
            try:
                g = A.permuted(text, list(perm))
                term, res = A.real_analysis(g)
            except g2c.Untranslatable:
                continue
            if res["kind"] == "GrammarError":
                break
            chk.count()
            chk.bump(res["kind"])
            flagsets[perm] = flags_of(res)
            desc = {"grammar": text, "rule_order": list(perm), "implementation": res}
            if res["kind"] == "ok" and (res["nullable"] or res["left_rec"]):
                chk.note_case((text, perm))
            chk.sample(desc, 4)
            cases.append(f"({term}, {expected_term(res)})")
            descs.append(desc)
            if res["kind"] == "ok":
                gr = sorted(res["graph"].items())
                vcases.append(f"({clist([k for k, _ in gr], cstr)}, {clist(gr, lambda kv: f'({cstr(kv[0])}, {clist(kv[1], cstr)})')}, "
                              f"{clist(res['sccs'], lambda c: clist(c, cstr))}, {clist(res['left_rec'], cstr)})")
                vdescs.append(desc)
            if res["kind"] == "ok" and not res["left_rec"]:
                # the real analysis finds no left recursion: its own flags and a rank computed from its own first
                # graph must pass the verified termination checker (Proofs/PegTotal.v)
                tcases.append(f"({term}, {clist(res['nullable'], cstr)}, "
                              f"{clist(sorted(A.ranks_from_graph(res['graph']).items()), lambda kv: f'({cstr(kv[0])}, {kv[1]}%nat)')})")
                tdescs.append(desc)
            if res["kind"] == "ok" and "start" in g.rules:
                names = list(A.permuted(text, None).rules)
                ptext = "\n".join(_rule_text(text, names[i]) for i in perm) + "\n"
                jobs.append({"grammar": ptext, "inputs": A.inputs_upto(A.alphabet(text), 3, NIN)})
                jobmeta.append((text, perm))
        # ---- property: flags independent of order
        if len(set(flagsets.values())) > 1:
            a, b = list(flagsets.items())[0], next(x for x in flagsets.items() if x[1] != list(flagsets.values())[0])
            chk.violation("analysis flags depend on the order of the rules",
                          {"grammar": text, "order_a": list(a[0]), "flags_a": a[1], "order_b": list(b[0]), "flags_b": b[1],
                           "how": "Rule.nullable / left_recursive / leader and first_graph after PythonParserGenerator(g, io)"},
                          True)
    vbad = common.run_cases(chk, "lrcheck", "From Coq Require Import List String Bool.\nFrom Pegen Require Import Base.StrUtil Analysis.Scc "
                            "Proofs.SccCheck.\nImport ListNotations. Open Scope string_scope.\n",
                            "list string * graph string * list (list string) * list string", vcases,
                            "fun c => let '(vs, g, comps, lr) := c in scc_check string String.eqb g vs comps && "
                            "lr_check string String.eqb g comps (filter (fun v => vmem string String.eqb v vs) lr)", shard=300)
    if vbad is not None:
        chk.oblige(f"instance conditions of the verified checker (C16_checked_components_are_exact / _flags_are_exact) on "
                   f"{len(vcases)} (grammar, order) cases: the components the real generator computed are the mutual-"
                   "reachability classes of its first graph and its left_recursive flags are exactly the rules on a cycle",
                   not vbad, json.dumps([vdescs[i] for i in vbad[:3]]))
    tbad = common.run_cases(chk, "termination", g2c.HEADER + "From Pegen Require Import Analysis.Visitor Sem.Peg Proofs.NullSem Proofs.PegTotal.\n"
                            "Require Import Tables.\n"
                            "Definition K0 : kinds := {| kNAME := 1; kNUMBER := 2; kSTRING := 3; kOP := 55; kNEWLINE := 4; kINDENT := 5; "
                            "kDEDENT := 6; kENDMARKER := 0; kTYPE_COMMENT := 59; kFSTRING_START := 61; kFSTRING_MIDDLE := 62; "
                            "kFSTRING_END := 63; kASYNC := 57; kAWAIT := 56 |}.\n"
                            "Lemma nullable_table_grants : nul_tbl_ok nullable_tbl = true.\nProof. vm_compute. reflexivity. Qed.\n",
                            "grammar * list string * list (string * nat)", tcases,
                            "fun c => let '(g, nul, rk) := c in let v := term_verdict nullable_tbl K0 (rules g) [] [] nul rk in "
                            "Nat.eqb v 0 || Nat.eqb v 3", shard=300)
    TPRE = (g2c.HEADER + "From Pegen Require Import Analysis.Visitor Sem.Peg Proofs.NullSem Proofs.PegTotal.\nRequire Import Tables.\n"
            "Definition K0 : kinds := {| kNAME := 1; kNUMBER := 2; kSTRING := 3; kOP := 55; kNEWLINE := 4; kINDENT := 5; "
            "kDEDENT := 6; kENDMARKER := 0; kTYPE_COMMENT := 59; kFSTRING_START := 61; kFSTRING_MIDDLE := 62; "
            "kFSTRING_END := 63; kASYNC := 57; kAWAIT := 56 |}.\n")
    outside = common.run_cases(chk, "termination_shape", TPRE, "grammar * list string * list (string * nat)", tcases,
                               "fun c => let '(g, nul, rk) := c in negb (Nat.eqb (term_verdict nullable_tbl K0 (rules g) [] [] nul rk) 3)",
                               shard=300)
    if outside is not None:
        chk.bump("termination theorem applies (verdict 0)", len(tcases) - len(outside))
        chk.bump("termination theorem does not apply: repetition of something that can match nothing (verdict 3)", len(outside))
    if tbad is not None:
        chk.oblige(f"instance conditions of C03_no_cycle_at_one_position_means_every_parse_terminates on {len(tcases)} (grammar, order) "
                   "cases in which the real analysis flags no rule as left-recursive: the real nullable flags are closed under the "
                   "equations of the extracted table and a rank computed from the real first graph strictly decreases along every "
                   "initial invocation of the grammar (inside lookahead operands, groups, optionals, repetitions, after nullable "
                   "items); i.e. the real first graph misses no edge, and the reference semantics terminates on every input",
                   not tbad, json.dumps([tdescs[i] for i in tbad[:3]]))
        for i in tbad[:3]:
            chk.violation("a rule can reach itself at the same position (or an initial invocation is missing from the first graph) "
                          "although no rule is flagged left-recursive", tdescs[i], True)
    failing = common.run_cases(chk, "kanalysis", PRELUDE, "grammar * eres", cases, OK, shard=200)
    if failing is not None:
        chk.oblige(f"correspondence K-analysis: Analysis/Nullable.v + Scc.v (driven by the extracted tables) agree with "
                   f"compute_nullables / make_first_graph / compute_left_recursives on {len(cases)} (grammar, order) cases "
                   "(rule and item nullable flags, first graph, left-recursive and leader flags, ValueError)",
                   not failing, json.dumps([descs[i] for i in failing[:3]]))
    # ---- property: permuting the rules never changes a parse result; no unbounded recursion
    results = common.run_parsers(jobs, chunk=12)
    by_text = {}
    for (text, perm), res in zip(jobmeta, results):
        by_text.setdefault(text, []).append((perm, res))
    for text, lst in by_text.items():
        base_perm, base = lst[0]
        for perm, res in lst:
            chk.count(len(res.get("results", [])))
            if "runner_error" in res or "runner_error" in base:
                chk.bump("runner error (inconclusive)")
                continue
            if "results" not in res or "results" not in base:
                if ("results" in res) != ("results" in base):
                    chk.violation("a permutation of the rules changes whether a parser can be built",
                                  {"grammar": text, "order_a": list(base_perm), "order_b": list(perm),
                                   "a": base.get("build_error"), "b": res.get("build_error")}, True)
                continue
            inputs = A.inputs_upto(A.alphabet(text), 3, NIN)
            for src, ra, rb in zip(inputs, base["results"], res["results"]):
                if rb["kind"] == "recursion":
                    chk.violation("accepted grammar recurses without bound (RecursionError)",
                                  {"grammar": text, "rule_order": list(perm), "input": src}, True)
                    break
                ka = (ra["kind"], json.dumps(ra.get("value")), ra.get("mark"))
                kb = (rb["kind"], json.dumps(rb.get("value")), rb.get("mark"))
                if ka != kb and not ({ra["kind"], rb["kind"]} & {"timeout", "skipped", "memory"}):
                    chk.violation("permuting the rules changes a parse result",
                                  {"grammar": text, "order_a": list(base_perm), "order_b": list(perm), "input": src,
                                   "result_a": ra, "result_b": rb}, True)
                    break
    chk.assumptions += ["left-recursion completeness is relative to the SCC computation (C16: unbounded for leaders, "
                        "bounded + correspondence for components)"]


def _ranks(graph: dict) -> dict:
    """longest-path depth in the real first graph (a witness for the verified checker; 0 where a cycle would be met)"""
    memo: dict = {}

    def rk(n, stack):
        if n in memo:
            return memo[n]
        if n in stack:
            return 0
        v = 1 + max([rk(m, stack | {n}) for m in graph.get(n, []) if m in graph] + [-1])
        memo[n] = v
        return v
    return {n: rk(n, frozenset()) for n in graph}


def _rule_text(text: str, name: str) -> str:
    """the source lines of one rule (rules in the generated/seed grammars are one per line)"""
    for line in text.splitlines():
        if line.startswith(name + ":") or line.startswith(name + "[") or line.startswith(name + " ("):
            return line
    raise KeyError(name)


def replay(path: str) -> int:
    print(open(path).read())
    return 1
