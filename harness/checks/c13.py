"""C13 — ill-formed grammars are refused up front; accepted ones never crash the parser."""
from __future__ import annotations

import io
import itertools
import json
import token as T
import tokenize

import common
from common import cstr, clist, copt
import grammar2coq as g2c
import gramgen
import tables

from pegen.grammar import GrammarError
from pegen.python_generator import PythonParserGenerator
from pegen.tokenizer import Tokenizer

CONTEXTS = ["{a}", "x={a}", "({a} NAME)", "{a}?", "[{a} NAME]", "{a}*", "{a}+", "','.{a}+", "{a}.NAME+", "&{a}", "!{a}",
            "&&{a}", "&&({a} NAME)", "(NAME | {a})", "((({a})))", "x=({a})", "[{a}]*"]
ATOMS_BAD = ["undefined_rule", "NAMEE", "_undefined", "_tmp_7", "__", "LPAR", "ERRORTOKEN", "COMMENT"]   # incl. token kinds no parser method matches


def tokens_set() -> list[str]:
    """the token kinds the real generator hands to its reference checker (read off a generator instance, not re-derived)"""
    g = g2c.read_grammar("start: NAME\n")
    return sorted(PythonParserGenerator(g, io.StringIO()).tokens)


def classify(g):
    """Construct the generator; -> ('ok',) | ('Dangling', n) | ('UnderscoreVar', n) | ('UnderscoreRule', n) |
    ('NoStart',) | ('other', text)"""
    import re
    try:
        PythonParserGenerator(g, io.StringIO())
    except GrammarError as e:
        m = str(e)
        if (r := re.match(r"Dangling reference to rule '(.*)'$", m)):
            return ("Dangling", r.group(1))
        if (r := re.match(r"Variable names cannot start with underscore: '(.*)'$", m)):
            return ("UnderscoreVar", r.group(1))
        if (r := re.match(r"Rule names cannot start with underscore: '(.*)'$", m)):
            return ("UnderscoreRule", r.group(1))
        if m.startswith("Grammar without a trailer"):
            return ("NoStart",)
        return ("other", m)
    except ValueError as e:
        return ("ok-check-then", "ValueError")       # leader selection: after the checks of this property
    except Exception as e:      # noqa
        return ("other", f"{type(e).__name__}: {e}")
    return ("ok",)


def planted():
    """(grammar text, what was planted) for every context / pair of nested contexts."""
    base_rules = "foo: NUMBER\n"
    ctxs = [(c, c) for c in CONTEXTS] + [(f"{c1}∘{c2}", c1.replace("{a}", "(" + c2 + ")") if not c2.startswith("x=") else None)
                                         for c1 in CONTEXTS for c2 in CONTEXTS]
    for label, ctx in ctxs:
        if ctx is None:
            continue
        for bad in ATOMS_BAD:
            yield f"start: {ctx.format(a=bad)} NEWLINE\n{base_rules}", ("dangling", bad, label)
        yield f"start: NAME | {ctx.format(a='foo')} {ctx.format(a='undefined_rule')} NEWLINE\n{base_rules}", ("dangling", "undefined_rule", "2nd-alt " + label)
        yield f"start: {ctx.format(a='(_x=NAME NAME)')} NEWLINE\n{base_rules}", ("underscore_var", "_x", label)
        yield f"start: {ctx.format(a='foo')} NEWLINE\n{base_rules}", ("well-formed", None, label)
    # the defect on the ONLY item of a rule (Rule.flatten() looks through a whole-body group), and an underscore name
    # on the outer item itself (plain, typed, on a group, on a whole-body group)
    for c in CONTEXTS:
        if c.startswith("x="):
            continue
        yield f"start: {c.format(a='undefined_rule')}\n{base_rules}", ("dangling", "undefined_rule", "whole-body " + c)
        yield f"start: {c.format(a='(_x=NAME NAME)')}\n{base_rules}", ("underscore_var", "_x", "whole-body " + c)
        yield f"start: {c.format(a='foo')}\n{base_rules}", ("well-formed", None, "whole-body " + c)
        if c[0] not in "&!":
            for pre in ("_y=", "_y[int]="):
                yield f"start: {pre}{c.format(a='foo')}\n{base_rules}", ("underscore_var", "_y", "whole-body named " + c)
                yield f"start: {pre}{c.format(a='foo')} NEWLINE\n{base_rules}", ("underscore_var", "_y", "named " + c)
                yield f"start: NAME | (NAME {pre}{c.format(a='foo')})\n{base_rules}", ("underscore_var", "_y", "nested named " + c)
    # every token kind the call maker knows by name must be usable (accepted AND resolvable at parse time)
    for tok in ("NAME", "NUMBER", "STRING", "OP", "TYPE_COMMENT", "SOFT_KEYWORD", "FSTRING_START", "FSTRING_MIDDLE",
                "FSTRING_END", "NEWLINE", "INDENT", "DEDENT", "ENDMARKER", "ASYNC", "AWAIT"):
        yield f"start: [{tok}] NAME NEWLINE | NUMBER ({tok} | NUMBER)\n", ("well-formed", None, "token " + tok)
    yield "start: NAME\n_r: NAME\n", ("underscore_rule", "_r", "rule")
    yield "start: NAME\n_: NAME\n", ("underscore_rule", "_", "rule named _")
    yield "start: _ NAME\n_: NUMBER\n", ("underscore_rule", "_", "referenced rule named _")
    yield "start: NAME\n__: NAME\n", ("underscore_rule", "__", "rule named __")
    # names the generated code needs only in some alternatives (start_lineno ... for LOCATIONS) must exist in all of them
    yield ("start: a NEWLINE\na: ('+' | '-') x=a { x } | '(' x=a ')' { x } | n=NAME { dict(LOCATIONS) }\n",
           ("well-formed", None, "LOCATIONS after a group alternative"))
    yield ("start: a NEWLINE\na: [NUMBER] (NAME NAME) { 'g' } | (NUMBER | '+') n=NAME { dict(LOCATIONS) } | n=NAME { dict(LOCATIONS) }\n",
           ("well-formed", None, "LOCATIONS after an optional and a group"))
    yield "begin: NAME\n", ("no_start", None, "grammar")
    yield "@trailer 'pass'\nbegin: NAME\n", ("well-formed", None, "trailer")
    # a trailer meta without a value / with an empty value still means "the grammar brings its own entry point": accepted
    # without a start rule, and then NO default trailer (whose main() calls start()) may be emitted
    yield "@trailer\nbegin: NAME\n", ("well-formed", None, "bare trailer")
    yield "@trailer ''\nbegin: NAME\n", ("well-formed", None, "empty trailer")


def crash_of(result: dict) -> str | None:
    """name/attribute errors escaping a parse (the second half of the property)"""
    if "results" not in result:
        be = result.get("build_error", "")
        return be if be.startswith(("NameError", "AttributeError")) else None
    for r in result["results"]:
        if r["kind"] == "exc" and r["type"] in ("NameError", "AttributeError", "UnboundLocalError"):
            return f"{r['type']}: {r['msg']}"
    return None


PRELUDE = g2c.HEADER + """From Pegen Require Import Analysis.Visitor Analysis.RuleCheck Proofs.RuleCheckProofs.
Require Import Tables.
Definition gerr_eqb (a b : gerr) : bool :=
  match a, b with
  | Dangling x, Dangling y | UnderscoreVar x, UnderscoreVar y | UnderscoreRule x, UnderscoreRule y => String.eqb x y
  | NoStart, NoStart => true
  | _, _ => false
  end.
Definition TOKENS : list string := %s.
"""
OK = "fun c => option_eqb gerr_eqb (check_grammar iter_fields_tbl TOKENS (fst c)) (snd c)"
INPUTS = ["x\n", "1\n", "x y\n", "x , y\n", "1 , 2\n", "\n", "x 1 + ( y )\n", "- x\n", "+ ( - y )\n", "1 x\n", "( x )\n"]


def run(chk: common.Check, tier: str):
    chk.rule = ("grammars with one defect planted at each syntactic position (" + str(len(CONTEXTS)) + " contexts and all "
                "nested pairs; undefined rule, misspelt token, underscore item name; underscore rule; missing start) plus "
                "the well-formed twin of each, plus random structured grammars; non-trivial = a defect is planted below "
                "the top level; distinct by grammar text")
    import runmodel as rm
    rm.shipped_hypothesis(chk, "grammar_names_ok", "C13_generated_modules_resolve_every_reference",
                           "every leaf name is a rule of the grammar or a token kind the call maker knows, literals are quoted")
    d = common.gen_dir("C13")
    # ---- re-extraction: tables of the current source, side conditions as instance lemmas
    try:
        (d / "Tables.v").write_text(tables.tables_v())
        vm = tables.visitor_methods()
    except tables.ExtractError as e:
        chk.oblige("table extraction from grammar.py / parser_generator.py", False, str(e))
        vm = None
    if vm is not None:
        rc, out = common.coqc(d / "Tables.v")
        chk.oblige("extracted tables compile (coq/gen/C13/Tables.v)", rc == 0, out[-2000:])
        (d / "Instances.v").write_text(
            "From Coq Require Import List String Bool.\nFrom Pegen Require Import Analysis.Visitor Proofs.RuleCheckProofs.\n"
            "Require Import Tables.\n"
            "Lemma iter_table_complete : fields_ok_b iter_fields_tbl = true.\nProof. vm_compute. reflexivity. Qed.\n")
        rc, out = common.coqc(d / "Instances.v", extra_q=[])
        chk.oblige("instance lemma fields_ok_b iter_fields_tbl = true (every node class's __iter__ yields all its "
                   "children, as extracted from grammar.py now)", rc == 0, out[-2000:])
        chk.oblige("RuleCheckingVisitor defines exactly visit_NameLeaf and visit_NamedItem (dispatch table extracted "
                   "from parser_generator.py now)",
                   vm.get("RuleCheckingVisitor") == ["visit_NameLeaf", "visit_NamedItem"], str(vm.get("RuleCheckingVisitor")))
    # ---- correspondence + the property on the implementation
    r = common.rng("c13")
    texts = list(planted())
    # actions are out of scope here: an action is arbitrary user Python and may name anything
    kn = gramgen.Knobs(terminals=("NAME", "NUMBER", "'+'", "','", "NAMEE", "undefined_rule", "NEWLINE"), p_ref=0.4,
                       actions=False)
    for t in gramgen.gen_grammars(r, kn, 150 if tier == "quick" else 1500):
        texts.append((t, ("random", None, "random")))
    if tier == "quick":
        keep = [x for x in texts if "∘" not in x[1][2]]
        nested = [x for x in texts if "∘" in x[1][2]]
        texts = keep + r.sample(nested, 400)
    cases, descs, to_run = [], [], []
    for text, (kind, what, where) in texts:
        try:
            g = g2c.read_grammar(text)
            term = g2c.grammar_term(g)
        except (SyntaxError, g2c.Untranslatable):
            chk.bump("unreadable grammar text")
            continue
        res = classify(g)
        res2 = classify(g)          # the check is a function of the grammar: a second construction must agree
        chk.count()
        if res2 != res:
            chk.violation(f"constructing the generator twice from the same grammar object gives {res} then {res2}",
                          {"grammar": text, "first": list(res), "second": list(res2),
                           "how": "PythonParserGenerator(g, io.StringIO()) called twice on the same Grammar object"}, True)
        chk.bump(f"{kind}->{res[0]}")
        desc = {"grammar": text, "planted": [kind, what, where], "implementation": list(res)}
        if kind != "random" and where not in ("{a}",):
            chk.note_case(text)
        chk.sample(desc, 5)
        # the property itself
        if kind in ("dangling", "underscore_var", "underscore_rule", "no_start") and res[0] in ("ok", "ok-check-then"):
            chk.violation(f"ill-formed grammar accepted: {kind} {what!r} planted at {where}",
                          dict(desc, how="PythonParserGenerator(parse_string(grammar, GrammarParser), io.StringIO())"), True)
        if kind == "well-formed" and res[0] not in ("ok", "ok-check-then"):
            chk.violation(f"well-formed grammar refused: {res}", desc, True)
        if res[0] == "other":
            chk.violation(f"construction failed with something else than a grammar error: {res[1]}", desc, True)
        if res[0] == "ok" and "start" not in g.rules:
            # accepted without a start rule because it brings a trailer meta (even an empty one): the module generated
            # for it must not fall back to the default main program, whose simple_parser_main() calls start()
            out = io.StringIO()
            try:
                PythonParserGenerator(g2c.read_grammar(text), out).generate("<grammar>")
                chk.count()
                if "simple_parser_main" in out.getvalue():
                    chk.violation("a grammar accepted without a start rule (it has a trailer meta) is given the default main "
                                  "program, which calls start(): AttributeError when the generated module is run",
                                  dict(desc, how="PythonParserGenerator(g, out).generate('<grammar>'); the emitted text ends in "
                                       "simple_parser_main(GeneratedParser) although no method start exists"), True)
            except Exception as e:      # noqa
                chk.violation(f"generation fails for an accepted grammar: {type(e).__name__}: {e}", desc, True)
        if res[0] == "ok" and "start" in g.rules and (kind == "well-formed" or (kind == "random" and r.random() < 0.5)):
            to_run.append((text, desc))
        if res[0] in ("other",):
            continue
        exp = {"ok": "None", "ok-check-then": "None", "NoStart": "(Some NoStart)"}.get(res[0]) or f"(Some ({res[0]} {cstr(res[1])}))"
        cases.append(f"({term}, {exp})")
        descs.append(desc)
    kfs = common.known_findings("C13")
    results = common.run_parsers([{"grammar": t, "inputs": INPUTS} for t, _ in to_run]
                                 + [{"grammar": kf["witness"]["grammar"], "inputs": kf["witness"]["inputs"]} for kf in kfs])
    for (text, desc), res in zip(to_run, results):
        chk.count()
        crash = crash_of(res)
        if crash and not any(kf["witness"]["grammar"] == text for kf in kfs):
            chk.violation("accepted grammar crashes its parser: " + crash, dict(desc, crash=crash, inputs=INPUTS), True)
    for kf, res in zip(kfs, results[len(to_run):]):
        if crash_of(res):
            chk.known(kf["what"])
    # instance condition of C13_every_reference_resolves: the module the generator model produces for each accepted grammar
    import genmodel as gm
    import runmodel as rm
    rcases, rdescs = [], []
    for text, desc in to_run:
        try:
            g = g2c.read_grammar(text)
            tr = g2c.Translator()
            rcases.append(f"({tr.grammar(g)}, {common.cN(len(tr.ids) + 1000)})")
            rdescs.append(text)
        except (SyntaxError, g2c.Untranslatable, ValueError):
            continue
    known_texts = {kf["witness"]["grammar"] for kf in kfs}
    bad = common.run_cases(chk, "refs", rm.prelude(tokens_set()) + "From Pegen Require Import Proofs.ExecRefs.\n", "grammar * N", rcases,
                           "fun c => match run_gen (fst c) (snd c) with inl m => refs_ok KINDS m | inr _ => true end", shard=150)
    if bad is not None:
        bad = [i for i in bad if rdescs[i] not in known_texts]
        chk.oblige(f"instance condition of C13_every_reference_resolves on {len(rcases)} accepted grammars: in the generated "
                   "module every called method exists or is a runtime primitive and every expect() argument is a literal",
                   not bad, json.dumps([rdescs[i] for i in bad[:3]]))
    # hypotheses of the end-to-end theorem C13_accepted_grammars_resolve (accepted by the up-front check => every reference of
    # the generated module resolves): every token kind the real generator accepts is one the call maker knows; literals are quoted
    (common.GEN / "C13" / "TokInst.v").write_text(
        rm.prelude(tokens_set()) + "From Pegen Require Import Proofs.GenRefs Proofs.GenAccepted.\n"
        "Lemma tokens_known : forallb is_tok TOKENS = true.\nProof. vm_compute. reflexivity. Qed.\n")
    rc, out = common.coqc(common.GEN / "C13" / "TokInst.v")
    chk.oblige("instance lemma: every token kind in the real generator's token set (read off a generator instance: "
               f"{len(tokens_set())} kinds) is one the call maker turns into a primitive or an expect() -- with it, "
               "C13_accepted_grammars_resolve needs no hypothesis on the grammar beyond acceptance", rc == 0, out[-1500:])
    sbad = common.run_cases(chk, "strs", rm.prelude(tokens_set()) + "From Pegen Require Import Proofs.GenRefs Proofs.GenAccepted.\n",
                            "grammar * N", rcases, "fun c => strs_rules (fst c)", shard=150)
    if sbad is not None:
        chk.oblige(f"instance condition: the string leaves of {len(rcases)} accepted grammars carry their quotes (what the reader builds)",
                   not sbad, json.dumps([rdescs[i] for i in sbad[:3]]))
    # a parser generated a SECOND time from the same grammar object must resolve every reference as well
    again = [(t, d) for t, d in to_run if any(c in t for c in "(*+?[.")][:60 if tier == "quick" else 600]
    results2 = common.run_parsers([{"grammar": t, "inputs": INPUTS, "regenerate": True} for t, _ in again])
    for (text, desc), res in zip(again, results2):
        chk.count()
        crash = crash_of(res)
        if crash and not any(kf["witness"]["grammar"] == text for kf in kfs):
            chk.violation("parser generated a second time from the same accepted grammar crashes: " + crash,
                          dict(desc, crash=crash, inputs=INPUTS, how="PythonParserGenerator(g, out).generate() twice on one Grammar object"), True)
    if vm is not None:
        failing = common.run_cases(chk, "kcheck", PRELUDE % clist(tokens_set(), cstr), "grammar * option gerr", cases, OK,
                                   shard=300)
        if failing is not None:
            chk.oblige(f"correspondence K-check: Analysis/RuleCheck.v (driven by the extracted __iter__ table) agrees with "
                       f"PythonParserGenerator's up-front checks on {len(cases)} grammars (which error, which name)",
                       not failing, json.dumps([descs[i] for i in failing[:4]]))
    chk.assumptions += ["the set of known token names is read off a real generator instance (gen.tokens)"]


def run_cases_q():
    pass


def replay(path: str) -> int:
    d = json.load(open(path))["replay"]
    if "grammar" in d:
        print(classify(g2c.read_grammar(d["grammar"])))
    return 1
