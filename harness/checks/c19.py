"""C19 — FIRST sets over-approximate what a rule can start with."""
from __future__ import annotations

import json
import token as T

import common
from common import cstr, clist, copt
import analysis as A
import grammar2coq as g2c
import gramgen
import tables

from pegen.first_sets import FirstSetCalculator

SEEDS = [
    "start: ('a'?) 'b'\n",
    "start: &&'a' 'b'\n",
    "a: 'x'?\nb: a\nstart: b 'y'\n",
    "start: 'a'? !'a' 'b'\n",
    "start: ','.x+ 'z'\nx: 'a'?\n",
    "start: items 'y' | block 'z'\nitems: 'a' block | 'b'?\nblock: items\n",
    "guard: &'a' | !'b' 'c' | 'b' 'a'\nstmt: guard NAME | 'b' 'b'\nstart: stmt 'z'\n",
    "start: a NEWLINE\na: ('x' | 'y'?) NAME* 'k'\n",
    "start: !'a' x 'q'\nx: 'a' | 'b'?\n",
    # mutually recursive nullable rules reached through a group (item flags must be recomputed in later passes)
    "start: b 'e'\nb: 'k' a | 'm'?\na: (b) 'w' | 'v'?\nc: a 'z'\n",
    "start: c 'e'\nb: 'k' a | 'm'?\na: (b)+ 'w' | 'v'?\nc: a 'z'\n",
    # an alternative made only of lookaheads and optional items, followed by another alternative
    "start: term 'e'\nterm: sign 'n'\nsign: !'+' '-'? | '+' '+'\n",
    # rules named invalid...: for FIRST they are rules like any other (the semantics has an error mode in which they match)
    "start: stmt 'z'\nstmt: invalid_pair | NAME\ninvalid_pair: 'a' 'b'\n",
    "start: x 'q'\nx: invalidthing? 'c' | 'b'\ninvalidthing: 'a'\n",
    "start: stmt 'z'\nstmt: a=invalid_pair { a } | NUMBER\ninvalid_pair: 'a' 'b' { 'x' }\n",
]

PRELUDE = g2c.HEADER + """From Pegen Require Import Analysis.Visitor Analysis.Nullable Analysis.FirstSets Analysis.FirstPure Proofs.VisitorSim Proofs.NullableProofs.
Require Import Tables.
Definition fs_sorted (l : list (string * sset)) : list (string * list string) :=
  map (fun k => (k, match assoc_s k l with Some s => sort_set s | None => [] end)) (sort_set (map fst l)).
"""
CLOSED = ("fun c => let rs := rules (fst c) in match compute_nullables nullable_tbl iter_fields_tbl rs with "
          "| Some st => let F := fun n => mem_str n (n_rules st) in "
          "let T := fun n => match assoc_s n (snd c) with Some s => s | None => [] end in "
          "closed_b rs T (pv_item nullable_tbl (pleaf rs F)) && lk_rules rs | None => false end")
OK = ("fun c => match first_sets nullable_tbl iter_fields_tbl (rules (fst c)) with "
      "| Some l => list_eqb (pair_eqb String.eqb strs_eqb) (fs_sorted l) (snd c) | None => false end")


def real_first(g):
    try:
        fs = FirstSetCalculator(g.rules).calculate()
    except Exception as e:   # noqa
        return None, f"{type(e).__name__}: {e}"
    return {k: sorted(v) for k, v in fs.items()}, None


def describes(member: str, tok_string: str, tok_kind: str) -> bool:
    if member[:1] in "'\"":
        return member[1:-1] == tok_string
    return member == tok_kind


def kind_of(s: str) -> str:
    if s == "\n":
        return "NEWLINE"
    if s[0].isdigit():
        return "NUMBER"
    if s[0].isalpha() or s[0] == "_":
        return "NAME"
    return "OP"


def grammar_texts(tier):
    r = common.rng("c19")
    for t in SEEDS:
        yield t
    kn = gramgen.Knobs(rules=(1, 4), alts=(1, 3), items=(1, 3), depth=2, left_rec=False, actions=False, names=False,
                       terminals=("'a'", "'b'", "'c'", "NAME", "NUMBER", "'a'?", "'b'*"), forced=True, cut=False,
                       p_ref=0.5, lookahead_terminals_only=True)
    for t in gramgen.gen_grammars(r, kn, 60 if tier == "quick" else 1500):
        yield t
    import dataclasses
    for t in gramgen.gen_grammars(r, dataclasses.replace(kn, invalid=True), 15 if tier == "quick" else 300):
        yield t


def run(chk: common.Check, tier: str):
    chk.rule = ("grammars without left recursion and without cuts, lookahead operands single tokens (hand-written shapes "
                "+ random structured grammars) x all token sequences up to length 3 over the grammar's alphabet: first "
                "token of every successful match of every rule (obtained by running the generated parser from that "
                "rule) must be described by FIRST; non-trivial = some rule has a nullable item or a lookahead in first "
                "position; distinct by grammar text")
    d = common.gen_dir("C19")
    try:
        (d / "Tables.v").write_text(tables.tables_v())
        vm = tables.visitor_methods()
    except tables.ExtractError as e:
        chk.oblige("table extraction", False, str(e))
        return
    rc, out = common.coqc(d / "Tables.v")
    chk.oblige("extracted tables compile (coq/gen/C19/Tables.v)", rc == 0, out[-2000:])
    expected_methods = ["visit_Alt", "visit_Cut", "visit_Forced", "visit_Gather", "visit_Group", "visit_NameLeaf",
                        "visit_NamedItem", "visit_NegativeLookahead", "visit_Opt", "visit_PositiveLookahead",
                        "visit_Repeat0", "visit_Repeat1", "visit_Rhs", "visit_Rule", "visit_StringLeaf"]
    chk.oblige("FirstSetCalculator defines a handler for every node class (dispatch table extracted from first_sets.py)",
               vm.get("FirstSetCalculator") == expected_methods, str(vm.get("FirstSetCalculator")))
    (d / "Instances.v").write_text(
        "From Coq Require Import List String Bool.\nFrom Pegen Require Import Analysis.Visitor Proofs.NullableProofs Proofs.NullSem.\n"
        "Require Import Tables.\n"
        "Lemma nullable_table_sem_ok : nul_tbl_ok nullable_tbl = true.\nProof. vm_compute. reflexivity. Qed.\n"
        "Lemma nullable_table_monotone : monotone_tbl nullable_tbl = true.\nProof. vm_compute. reflexivity. Qed.\n")
    rc, out = common.coqc(d / "Instances.v")
    chk.oblige("instance lemmas: the extracted NullableVisitor table grants every construct its empty match (nul_tbl_ok) and "
               "is monotone (hypotheses of the C19 theorems)", rc == 0, out[-2000:])
    cases, descs, jobs, meta = [], [], [], []
    hcases = []
    for text in grammar_texts(tier):
        try:
            g = A.permuted(text, None)
            term, res = A.real_analysis(g)
        except (SyntaxError, g2c.Untranslatable):
            continue
        if res["kind"] != "ok" or res["left_rec"] or "start" not in g.rules:
            chk.bump("outside the class (left recursion / refused)")
            continue
        g2 = A.permuted(text, None)
        fs, err = real_first(g2)
        chk.count()
        if fs is None:
            chk.violation("FirstSetCalculator crashes on a grammar of the class: " + err, {"grammar": text, "error": err}, True)
            continue
        desc = {"grammar": text, "first_sets": fs}
        if res["nullable"] or "&" in text or "!" in text:
            chk.note_case(text)
        chk.sample(desc, 4)
        cases.append(f"({term}, {clist(sorted(fs.items()), lambda kv: f'({cstr(kv[0])}, {clist(kv[1], cstr)})')})")
        descs.append(desc)
        hcases.append(f"({term}, {clist(sorted(A.ranks_from_graph(res['graph']).items()), lambda kv: f'({cstr(kv[0])}, {kv[1]}%nat)')})")
        jobs.append({"grammar": text, "inputs": A.inputs_upto(A.alphabet(text), 3, 150), "rules": list(g.rules)})
        meta.append((text, fs))
        if "invalid" in text:      # the error mode of the semantics: alternatives that mention invalid... rules are tried too
            jobs.append(dict(jobs[-1], call_invalid=True))
            meta.append((text, fs))
    failing = common.run_cases(chk, "kfirst", PRELUDE, "grammar * list (string * list string)", cases, OK, shard=200)
    if failing is not None:
        chk.oblige(f"correspondence K-first: Analysis/FirstSets.v agrees with FirstSetCalculator.calculate() on "
                   f"{len(cases)} grammars", not failing, json.dumps([descs[i] for i in failing[:3]]))
    failing = common.run_cases(chk, "closed", PRELUDE, "grammar * list (string * list string)", cases, CLOSED, shard=200)
    if failing is not None:
        chk.oblige(f"instance conditions of C19_first_token_sound on {len(cases)} grammars of the class: the table computed by "
                   "the real FirstSetCalculator is closed under the FIRST equations (Analysis/FirstPure.v, evaluated with the "
                   "nullable flags of the analysis) and the grammar is in the class (lookahead operands single tokens)",
                   not failing, json.dumps([descs[i] for i in failing[:3]]))
    HYP = ("fun c => let rs := rules (fst c) in match compute_nullables nullable_tbl iter_fields_tbl rs with "
           "| Some st => acyclic_b rs (fun k => memN k (n_items st)) (snd c) && ne_rules rs | None => false end")
    failing = common.run_cases(chk, "closedhyp", PRELUDE + "From Pegen Require Import Proofs.VisitAll Proofs.FirstClosedInst.\n"
                               "Lemma nullable_table_visits_all : visit_all_ok nullable_tbl iter_fields_tbl = true.\n"
                               "Proof. vm_compute. reflexivity. Qed.\n",
                               "grammar * list (string * nat)", hcases, HYP, shard=200)
    if failing is not None:
        chk.oblige(f"instance conditions of C19_computed_table_is_closed / C19_computed_first_sets_are_sound on {len(hcases)} grammars "
                   "of the class: the extracted table visits everything (visit_all_ok), no leaf is the empty string, and a rank "
                   "computed from the REAL first graph strictly decreases along the initial invocations of the model's analysis "
                   "(no rule reaches itself at one position) -- so the theorem applies: the table the calculator model computes "
                   "(compared with the real one by K-first) is closed and FIRST is sound for every input",
                   not failing, json.dumps([descs[i] for i in failing[:3]]))
    # ---- the property on the implementation (brute force over enumerated inputs)
    results = common.run_parsers(jobs, chunk=10)
    for (text, fs), job, res in zip(meta, jobs, results):
        if "results" not in res:
            chk.bump("runner/build error (inconclusive)")
            continue
        for src, one in zip(job["inputs"], res["results"]):
            if one["kind"] != "multi":
                continue
            toks = src.split()
            for rn, (kind, truthy, mark) in one["by_rule"].items():
                chk.count()
                if kind != "ok" or not truthy:
                    continue
                if mark == 0:
                    if "" not in fs.get(rn, []):
                        chk.violation(f"rule {rn} succeeds without consuming but '' is not in its FIRST set",
                                      {"grammar": text, "rule": rn, "input": src, "first": fs.get(rn)}, True)
                else:
                    first = toks[0] if toks else "\n"
                    if not any(describes(m, first, kind_of(first)) for m in fs.get(rn, []) if m):
                        chk.violation(f"rule {rn} matches input starting with {first!r}, which no member of FIRST describes",
                                      {"grammar": text, "rule": rn, "input": src, "first": fs.get(rn)}, True)
    chk.assumptions += ["first tokens are obtained from the generated parser (the reference semantics of C01 is not yet "
                        "connected to this check)"]


def replay(path: str) -> int:
    print(open(path).read())
    return 1
