(* Model of src/pegen/first_sets.py (FirstSetCalculator).  Sets of strings are kept as
   duplicate-free lists; the empty marker is "". *)
From Coq Require Import List String NArith Bool Arith.
From Pegen Require Import Base.StrUtil Grammar.Ast Analysis.Visitor Analysis.Nullable.
Import ListNotations.
Open Scope string_scope.

Definition sset := list string.
Fixpoint sadd (x : string) (s : sset) : sset := if mem_str x s then s else (s ++ [x])%list.
Definition sunion (a b : sset) : sset := fold_left (fun acc x => sadd x acc) b a.
Definition sdiff (a b : sset) : sset := filter (fun x => negb (mem_str x b)) a.
Definition sdiscard (x : string) (a : sset) : sset := filter (fun y => negb (String.eqb x y)) a.

Record fst_state := {
  f_sets : list (string * sset);      (* self.first_sets (insertion order) *)
  f_inproc : list string;             (* self.in_process *)
  f_err : bool                        (* model out of fuel *)
}.
Fixpoint fs_set (k : string) (v : sset) (l : list (string * sset)) : list (string * sset) :=
  match l with
  | [] => [(k, v)]
  | (k', v') :: l' => if String.eqb k k' then (k, v) :: l' else (k', v') :: fs_set k v l'
  end.

Section FS.
Variable rs : list rule.
Variable rule_nullable : string -> bool.     (* Rule.nullable after compute_nullables *)
Variable item_nullable : N -> bool.          (* NamedItem.nullable *)

Definition FM := fst_state -> sset * fst_state.

Section Open.
Variable visit_rule : string -> FM.          (* self.visit(self.rules[name]) *)

Definition is_neg (i : item) : bool := match i with NegLook _ => true | _ => false end.
Definition is_pos (i : item) : bool := match i with PosLook _ => true | _ => false end.

Fixpoint fv_item (i : item) : FM :=
  match i with
  | NameLeaf n =>                                            (* visit_NameLeaf *)
      fun st =>
        match find_rule rs n with
        | None => ([n], st)
        | Some _ =>
            match assoc_s n (f_sets st) with
            | None => let '(s, st') := visit_rule n st in
                      (s, {| f_sets := fs_set n s (f_sets st'); f_inproc := f_inproc st'; f_err := f_err st' |})
            | Some s => if mem_str n (f_inproc st) then ([], st) else (s, st)
            end
        end
  | StringLeaf raw => fun st => ([raw], st)
  | Group r => fv_rhs r
  | Opt j | Repeat0 _ j | Repeat1 _ j | PosLook j | NegLook j | Forced j => fv_item j
  | Gather _ _ e => fv_item e                       (* visit_Gather: only the element *)
  | Cut => fun st => ([], st)
  | RhsItem r => fv_rhs r        (* no visit_Rhs-as-item distinction: Rhs has a handler *)
  end
with fv_rhs (r : rhs) : FM :=
  match r with Rhs _ alts =>
    (fix go (l : list alt) (acc : sset) : FM :=
       match l with
       | [] => fun st => (acc, st)
       | a :: l' => fun st => let '(s, st') := fv_alt a st in go l' (sunion acc s) st'
       end) alts []
  end
with fv_alt (a : alt) : FM :=
  match a with Alt items _ =>
    fun st =>
      let '(res, st') :=
        (fix go (l : list nitem) (result to_remove : sset) : fst_state -> sset * fst_state :=
           match l with
           | [] => fun st => (result, st)
           | n :: l' =>
               fun st =>
                 let '(nw0, st0) := fv_item (ni_item n) st in
                 (* a gather whose element can match nothing may start with its separator *)
                 let '(nw, st1) := match ni_item n with
                                   | Gather _ s _ => if item_nullable (ni_id n)
                                                     then let '(r2, st2) := fv_item s st0 in (sunion nw0 r2, st2)
                                                     else (nw0, st0)
                                   | _ => (nw0, st0)
                                   end in
                 if is_neg (ni_item n) then go l' result (sunion to_remove nw) st1
                 else
                   let result' := sunion result (sdiff nw to_remove) in
                   if mem_str "" nw then go l' result' to_remove st1
                   else if negb (item_nullable (ni_id n)) || is_pos (ni_item n) then (result', st1)
                   else go l' result' to_remove st1
           end) items [] [] st in
      (sdiscard "" res, st')
  end.
End Open.

(* visit_Rule *)
Fixpoint fv_rule (fuel : nat) (name : string) : FM :=
  fun st =>
    match fuel with
    | O => ([], {| f_sets := f_sets st; f_inproc := f_inproc st; f_err := true |})
    | S f =>
        match find_rule rs name with
        | None => ([], st)
        | Some r =>
            if mem_str name (f_inproc st) then ([], st)
            else match assoc_s name (f_sets st) with
                 | Some s => (s, st)
                 | None =>
                     let st1 := {| f_sets := f_sets st; f_inproc := name :: f_inproc st; f_err := f_err st |} in
                     let '(t, st2) := fv_rhs (fv_rule f) (rrhs r) st1 in
                     let t' := if rule_nullable name then sadd "" t else t in
                     (t', {| f_sets := fs_set name t' (f_sets st2);
                             f_inproc := filter (fun x => negb (String.eqb x name)) (f_inproc st2);
                             f_err := f_err st2 |})
                 end
        end
    end.

Definition calculate : option (list (string * sset)) :=
  let st := fold_left (fun st r => snd (fv_rule (S (List.length rs)) (rname r) st)) rs
                      {| f_sets := []; f_inproc := []; f_err := false |} in
  if f_err st then None else Some (f_sets st).
End FS.

(* FirstSetCalculator(rules).calculate(): compute_nullables first *)
Definition first_sets (methods : list (string * bexp)) (iter_fields : list (string * list string)) (rs : list rule)
  : option (list (string * sset)) :=
  match compute_nullables methods iter_fields rs with
  | None => None
  | Some st => calculate rs (fun n => mem_str n (n_rules st)) (fun k => memN k (n_items st))
  end.
