(* Table-driven model of GrammarVisitor.visit / generic_visit for the boolean visitors
   (NullableVisitor, InvalidNodeVisitor).  The method tables and the per-class __iter__ field
   tables are extracted from the source on every run (harness/tables.py); a method body is a
   [bexp].  The visitor is state-passing because NullableVisitor sets flags while it walks. *)
From Coq Require Import List String NArith Bool.
From Pegen Require Import Base.StrUtil Grammar.Ast.
Import ListNotations.
Open Scope string_scope.

Inductive bexp :=
| BConst (b : bool)
| BVisit (f : string)                 (* self.visit(node.f) *)
| BOr (a b : bexp) | BAnd (a b : bexp) | BNot (a : bexp)
| BNotField (f : string)              (* not node.f *)
| BSeq (a b : bexp)                   (* a; then b *)
| BAnyLazy (f : string)               (* any(self.visit(x) for x in node.f) *)
| BAnyEager (f : string)              (* any([self.visit(x) for x in node.f]) *)
| BAllLazy (f : string)
| BAllEager (f : string)
| BStartsWith (f : string) (p : string)   (* node.f.startswith(p) *)
| BSpecial (tag : string).            (* flag-setting method, hand-modelled hook *)

Fixpoint assoc_s {A} (k : string) (l : list (string * A)) : option A :=
  match l with [] => None | (k', v) :: l' => if String.eqb k k' then Some v else assoc_s k l' end.

Section Visitor.
Variable St : Type.
(* The model is total.  That the extracted tables only mention attributes and shapes the model
   interprets is a separate, static, decidable condition ([wf_tbl] below), re-checked on every run;
   where it fails the value computed here ([fail_closed]) means nothing. *)
Definition M := St -> bool * St.
Definition ret (b : bool) : M := fun st => (b, st).
Definition bind (m : M) (k : bool -> M) : M :=
  fun st => let '(b, st') := m st in k b st'.

Inductive fval := FM (m : M) | FList (ms : list M) | FStr (s : string).
Definition env := list (string * fval).

Fixpoint any_lazy (ms : list M) : M :=
  match ms with [] => ret false | m :: ms' => bind m (fun b => if b then ret true else any_lazy ms') end.
Fixpoint all_lazy (ms : list M) : M :=
  match ms with [] => ret true | m :: ms' => bind m (fun b => if b then all_lazy ms' else ret false) end.
Fixpoint any_eager (ms : list M) : M :=
  match ms with [] => ret false | m :: ms' => bind m (fun b => bind (any_eager ms') (fun r => ret (b || r))) end.
Fixpoint all_eager (ms : list M) : M :=
  match ms with [] => ret true | m :: ms' => bind m (fun b => bind (all_eager ms') (fun r => ret (b && r))) end.
Definition fail_closed : M := ret false.

Fixpoint eval (e : bexp) (en : env) : M :=
  match e with
  | BConst b => ret b
  | BVisit f => match assoc_s f en with Some (FM m) => m | _ => fail_closed end
  | BOr a b => bind (eval a en) (fun x => if x then ret true else eval b en)
  | BAnd a b => bind (eval a en) (fun x => if x then eval b en else ret false)
  | BNot a => bind (eval a en) (fun x => ret (negb x))
  | BNotField f => match assoc_s f en with Some (FStr s) => ret (String.eqb s "") | _ => fail_closed end
  | BSeq a b => bind (eval a en) (fun _ => eval b en)
  | BAnyLazy f => match assoc_s f en with Some (FList ms) => any_lazy ms | _ => fail_closed end
  | BAnyEager f => match assoc_s f en with Some (FList ms) => any_eager ms | _ => fail_closed end
  | BAllLazy f => match assoc_s f en with Some (FList ms) => all_lazy ms | _ => fail_closed end
  | BAllEager f => match assoc_s f en with Some (FList ms) => all_eager ms | _ => fail_closed end
  | BStartsWith f p => match assoc_s f en with Some (FStr s) => ret (startswith p s) | _ => fail_closed end
  | BSpecial _ => fail_closed
  end.

(* generic_visit: walk what __iter__ yields, in order; the result (None) is falsy *)
Fixpoint run_all (ms : list M) : M :=
  match ms with [] => ret false | m :: ms' => bind m (fun _ => run_all ms') end.
Fixpoint generic (fields : list string) (en : env) : M :=
  match fields with
  | [] => ret false
  | f :: fs => match assoc_s f en with
               | Some (FM m) => bind m (fun _ => generic fs en)
               | Some (FList ms) => bind (run_all ms) (fun _ => generic fs en)
               | _ => fail_closed
               end
  end.

Variable methods : list (string * bexp).            (* "visit_X" -> body *)
Variable iter_fields : list (string * list string). (* class -> what __iter__ yields *)
(* hooks for BSpecial methods *)
Variable sp_nitem : nitem -> M -> M.                (* visit_NamedItem, given "visit(item.item)" *)
Variable sp_nameleaf : string -> M.                 (* visit_NameLeaf *)

Definition dispatch (cls : string) (en : env) (special : M) : M :=
  match assoc_s ("visit_" ++ cls) methods with
  | Some (BSpecial _) => special
  | Some e => eval e en
  | None => match assoc_s cls iter_fields with
            | Some fs => generic fs en
            | None => fail_closed
            end
  end.

Fixpoint v_item (i : item) : M :=
  match i with
  | NameLeaf n => dispatch "NameLeaf" [("value", FStr n)] (sp_nameleaf n)
  | StringLeaf raw => dispatch "StringLeaf" [("value", FStr raw)] fail_closed
      (* .value is the literal including its quotes, so `not node.value` is false for every literal *)
  | Group r => dispatch "Group" [("rhs", FM (v_rhs r))] fail_closed
  | Opt j => dispatch "Opt" [("node", FM (v_item j))] fail_closed
  | Repeat0 _ j => dispatch "Repeat0" [("node", FM (v_item j))] fail_closed
  | Repeat1 _ j => dispatch "Repeat1" [("node", FM (v_item j))] fail_closed
  | Gather _ s e => dispatch "Gather" [("separator", FM (v_item s)); ("node", FM (v_item e))] fail_closed
  | PosLook j => dispatch "PositiveLookahead" [("node", FM (v_item j))] fail_closed
  | NegLook j => dispatch "NegativeLookahead" [("node", FM (v_item j))] fail_closed
  | Forced j => dispatch "Forced" [("node", FM (v_item j))] fail_closed
  | Cut => dispatch "Cut" [] fail_closed
  | RhsItem r => v_rhs r
  end
with v_rhs (r : rhs) : M :=
  match r with Rhs _ alts =>
    dispatch "Rhs" [("alts", FList ((fix go (l : list alt) : list M :=
                                       match l with [] => [] | a :: l' => v_alt a :: go l' end) alts))]
             fail_closed
  end
with v_alt (a : alt) : M :=
  match a with Alt items _ =>
    dispatch "Alt" [("items", FList ((fix go (l : list nitem) : list M :=
                                        match l with [] => [] | n :: l' => v_nitem n :: go l' end) items))]
             fail_closed
  end
with v_nitem (n : nitem) : M :=
  match n with NItem _ _ _ i =>
    dispatch "NamedItem" [("item", FM (v_item i))] (sp_nitem n (v_item i))
  end.

End Visitor.

(* ---------------- static well-formedness of an extracted method table ---------------- *)
Inductive kind := KNode | KList | KStr.
Definition class_env : list (string * list (string * kind)) :=
  [("NameLeaf", [("value", KStr)]); ("StringLeaf", [("value", KStr)]); ("Group", [("rhs", KNode)]);
   ("Opt", [("node", KNode)]); ("Repeat0", [("node", KNode)]); ("Repeat1", [("node", KNode)]);
   ("Gather", [("separator", KNode); ("node", KNode)]); ("PositiveLookahead", [("node", KNode)]);
   ("NegativeLookahead", [("node", KNode)]); ("Forced", [("node", KNode)]); ("Cut", []);
   ("Rhs", [("alts", KList)]); ("Alt", [("items", KList)]); ("NamedItem", [("item", KNode)]);
   ("Rule", [("rhs", KNode)])].
Definition kind_eqb (a b : kind) : bool :=
  match a, b with KNode, KNode | KList, KList | KStr, KStr => true | _, _ => false end.
Definition has_kind (en : list (string * kind)) (f : string) (k : kind) : bool :=
  match assoc_s f en with Some k' => kind_eqb k k' | None => false end.
Fixpoint wf_bexp (specials_ok : bool) (en : list (string * kind)) (e : bexp) : bool :=
  match e with
  | BConst _ => true
  | BVisit f => has_kind en f KNode
  | BOr a b | BAnd a b | BSeq a b => wf_bexp specials_ok en a && wf_bexp specials_ok en b
  | BNot a => wf_bexp specials_ok en a
  | BNotField f | BStartsWith f _ => has_kind en f KStr
  | BAnyLazy f | BAnyEager f | BAllLazy f | BAllEager f => has_kind en f KList
  | BSpecial _ => specials_ok
  end.
Definition wf_tbl (methods : list (string * bexp)) (iter_fields : list (string * list string)) : bool :=
  forallb (fun ce =>
    let cls := fst ce in
    match assoc_s ("visit_" ++ cls) methods with
    | Some e => wf_bexp (String.eqb cls "NamedItem" || String.eqb cls "NameLeaf" || String.eqb cls "Rule") (snd ce) e
    | None => match assoc_s cls iter_fields with
              | Some fs => forallb (fun f => match assoc_s f (snd ce) with Some KStr => false | Some _ => true | None => false end) fs
              | None => false
              end
    end) class_env
  (* no method for a class that does not exist (e.g. visit_Repeat, visit_LookAhead: never dispatched) *)
  && forallb (fun me => existsb (fun ce => String.eqb (fst me) ("visit_" ++ fst ce)) class_env) methods.
