(* The quoted literals of a grammar, by a plain traversal of every rule, alternative and item at any
   depth -- the specification side of keyword collection ("a word that appears ANYWHERE in the
   grammar as a quoted identifier-like literal").  [occurs] is the declarative notion; [lits_*]
   computes it; they agree for every grammar.  The check compares the keyword tables the REAL
   generator emits with [hard_keywords] / [soft_keywords] on every explored grammar. *)
From Coq Require Import List String Ascii Bool.
From Pegen Require Import Base.StrUtil Grammar.Ast Grammar.Induction.
Import ListNotations.
Open Scope string_scope.

(* a string literal item [StringLeaf raw] sits somewhere inside the item / rhs / alternative *)
Inductive occ_item (raw : string) : item -> Prop :=
| o_here : occ_item raw (StringLeaf raw)
| o_group r : occ_rhs raw r -> occ_item raw (Group r)
| o_rhsitem r : occ_rhs raw r -> occ_item raw (RhsItem r)
| o_opt j : occ_item raw j -> occ_item raw (Opt j)
| o_rep0 id j : occ_item raw j -> occ_item raw (Repeat0 id j)
| o_rep1 id j : occ_item raw j -> occ_item raw (Repeat1 id j)
| o_gather_s id s e : occ_item raw s -> occ_item raw (Gather id s e)
| o_gather_e id s e : occ_item raw e -> occ_item raw (Gather id s e)
| o_pos j : occ_item raw j -> occ_item raw (PosLook j)
| o_neg j : occ_item raw j -> occ_item raw (NegLook j)
| o_forced j : occ_item raw j -> occ_item raw (Forced j)
with occ_rhs (raw : string) : rhs -> Prop :=
| o_rhs id alts a : In a alts -> occ_alt raw a -> occ_rhs raw (Rhs id alts)
with occ_alt (raw : string) : alt -> Prop :=
| o_alt items act n : In n items -> occ_item raw (ni_item n) -> occ_alt raw (Alt items act).

Fixpoint lits_item (i : item) : list string :=
  match i with
  | NameLeaf _ | Cut => []
  | StringLeaf raw => [raw]
  | Group r | RhsItem r => lits_rhs r
  | Opt j | Repeat0 _ j | Repeat1 _ j | PosLook j | NegLook j | Forced j => lits_item j
  | Gather _ s e => (lits_item s ++ lits_item e)%list
  end
with lits_rhs (r : rhs) : list string :=
  match r with Rhs _ alts =>
    (fix go (l : list alt) : list string := match l with [] => [] | a :: l' => (lits_alt a ++ go l')%list end) alts
  end
with lits_alt (a : alt) : list string :=
  match a with Alt items _ =>
    (fix go (l : list nitem) : list string := match l with [] => [] | n :: l' => (lits_item (ni_item n) ++ go l')%list end) items
  end.

Lemma lits_rhs_eq id alts : lits_rhs (Rhs id alts) = flat_map lits_alt alts.
Proof. induction alts as [|a l IH]; [reflexivity|]. cbn [flat_map]. rewrite <- IH. reflexivity. Qed.
Lemma lits_alt_eq items act : lits_alt (Alt items act) = flat_map (fun n => lits_item (ni_item n)) items.
Proof. induction items as [|n l IH]; [reflexivity|]. cbn [flat_map]. rewrite <- IH. reflexivity. Qed.

Theorem lits_spec raw :
  (forall i, In raw (lits_item i) <-> occ_item raw i) /\
  (forall r, In raw (lits_rhs r) <-> occ_rhs raw r) /\
  (forall a, In raw (lits_alt a) <-> occ_alt raw a) /\
  (forall n, In raw (lits_item (ni_item n)) <-> occ_item raw (ni_item n)).
Proof.
  apply grammar_ast_ind.
  - intros n. split; [intros []|intros H; inversion H].
  - intros s. cbn [lits_item In]. split; [intros [<-|[]]; constructor|intros H; inversion H; subst; left; reflexivity].
  - intros r Hr. change (lits_item (Group r)) with (lits_rhs r). rewrite Hr. split; [apply o_group|intros H; inversion H; assumption].
  - intros j Hj. change (lits_item (Opt j)) with (lits_item j). rewrite Hj. split; [apply o_opt|intros H; inversion H; assumption].
  - intros id j Hj. change (lits_item (Repeat0 id j)) with (lits_item j). rewrite Hj. split; [apply o_rep0|intros H; inversion H; assumption].
  - intros id j Hj. change (lits_item (Repeat1 id j)) with (lits_item j). rewrite Hj. split; [apply o_rep1|intros H; inversion H; assumption].
  - intros id s e Hs He. change (lits_item (Gather id s e)) with (lits_item s ++ lits_item e)%list.
    rewrite in_app_iff, Hs, He. split; [intros [H|H]; [apply o_gather_s|apply o_gather_e]; assumption|intros H; inversion H; auto].
  - intros j Hj. change (lits_item (PosLook j)) with (lits_item j). rewrite Hj. split; [apply o_pos|intros H; inversion H; assumption].
  - intros j Hj. change (lits_item (NegLook j)) with (lits_item j). rewrite Hj. split; [apply o_neg|intros H; inversion H; assumption].
  - intros j Hj. change (lits_item (Forced j)) with (lits_item j). rewrite Hj. split; [apply o_forced|intros H; inversion H; assumption].
  - split; [intros []|intros H; inversion H].
  - intros r Hr. change (lits_item (RhsItem r)) with (lits_rhs r). rewrite Hr. split; [apply o_rhsitem|intros H; inversion H; assumption].
  - intros id alts Hall. rewrite lits_rhs_eq, in_flat_map. rewrite Forall_forall in Hall. split.
    + intros (a & Ha & Hin). apply (o_rhs raw id alts a Ha). apply Hall; assumption.
    + intros H. inversion H as [? ? a Ha Ho]; subst. exists a. split; [exact Ha|]. apply Hall; assumption.
  - intros items act Hall. rewrite lits_alt_eq, in_flat_map. rewrite Forall_forall in Hall. split.
    + intros (n & Hn & Hin). apply (o_alt raw items act n Hn). apply Hall; assumption.
    + intros H. inversion H as [? ? n Hn Ho]; subst. exists n. split; [exact Hn|]. apply Hall; assumption.
  - intros id name ty i Hi. exact Hi.
Qed.

(* keyword tables: single-quoted identifier-like literals are hard keywords, double-quoted ones soft *)
Definition grammar_lits (g : grammar) : list string := flat_map (fun r => lits_rhs (rrhs r)) (rules g).
Definition is_kw (single : bool) (raw : string) : bool :=
  is_identifier (strip_quotes raw) && Bool.eqb (endswith "'" raw) single.
Definition hard_keywords (g : grammar) : list string :=
  sort_set (map strip_quotes (filter (is_kw true) (grammar_lits g))).
Definition soft_keywords (g : grammar) : list string :=
  sort_set (map strip_quotes (filter (is_kw false) (grammar_lits g))).

Theorem grammar_lits_spec g raw :
  In raw (grammar_lits g) <-> exists r, In r (rules g) /\ occ_rhs raw (rrhs r).
Proof.
  unfold grammar_lits. rewrite in_flat_map. split; intros (r & Hr & H); exists r; (split; [exact Hr|]);
    apply (proj1 (proj2 (lits_spec raw))); exact H.
Qed.
