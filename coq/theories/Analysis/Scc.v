(* Executable models of src/pegen/sccutils.py (strongly_connected_components, find_cycles_in_scc)
   and of parser_generator.compute_left_recursives.  Iteration over Python sets is made explicit:
   a graph is an association list  vertex -> adjacency list in iteration order. *)
From Coq Require Import List String NArith Bool Arith.
From Pegen Require Import Base.StrUtil.
Import ListNotations.
Local Open Scope list_scope.

Section Graph.
Variable V : Type.
Variable veqb : V -> V -> bool.

Definition graph := list (V * list V).      (* dict: insertion order; values in iteration order *)

Fixpoint vmem (x : V) (l : list V) : bool :=
  match l with [] => false | y :: l' => veqb x y || vmem x l' end.

Fixpoint succs (g : graph) (v : V) : list V :=
  match g with [] => [] | (k, a) :: g' => if veqb v k then a else succs g' v end.

(* ---------------- strongly_connected_components ---------------- *)
Record sccst := {
  index : list (V * nat);
  stack : list V;              (* bottom first *)
  bounds : list nat;           (* top first *)
  identified : list V;
  out : list (list V)          (* yielded components, in order *)
}.

Fixpoint lookup (k : V) (l : list (V * nat)) : option nat :=
  match l with [] => None | (a, b) :: l' => if veqb a k then Some b else lookup k l' end.

(* while index[w] < boundaries[-1]: boundaries.pop() *)
Fixpoint pop_bounds (iw : nat) (b : list nat) : list nat :=
  match b with
  | [] => []
  | x :: b' => if Nat.ltb iw x then pop_bounds iw b' else b
  end.

Fixpoint dfs (fuel : nat) (g : graph) (v : V) (s : sccst) : sccst :=
  match fuel with
  | O => s
  | S f =>
      let iv := List.length (stack s) in
      let s1 := {| index := (v, iv) :: index s; stack := stack s ++ [v]; bounds := iv :: bounds s;
                   identified := identified s; out := out s |} in
      let s2 := fold_left (fun s w =>
                  match lookup w (index s) with
                  | None => dfs f g w s
                  | Some iw => if vmem w (identified s) then s
                               else {| index := index s; stack := stack s;
                                       bounds := pop_bounds iw (bounds s);
                                       identified := identified s; out := out s |}
                  end) (succs g v) s1 in
      match bounds s2 with
      | b :: bs => if Nat.eqb b iv
                   then let scc := skipn iv (stack s2) in
                        {| index := index s2; stack := firstn iv (stack s2); bounds := bs;
                           identified := scc ++ identified s2; out := out s2 ++ [scc] |}
                   else s2
      | [] => s2
      end
  end.

(* for v in vertices: if v not in index: yield from dfs(v) *)
Definition sccs (vertices : list V) (g : graph) : list (list V) :=
  out (fold_left (fun s v => match lookup v (index s) with
                             | None => dfs (S (List.length vertices)) g v s
                             | Some _ => s end)
                 vertices
                 {| index := []; stack := []; bounds := []; identified := []; out := [] |}).

(* ---------------- find_cycles_in_scc ---------------- *)
Section Cycles.
Variable adj : V -> list V.      (* graph[node] reduced to the SCC, in iteration order *)

(* def dfs(node, path): if node in path: yield path + [node]; return
                        path = path + [node]; for child in graph[node]: yield from dfs(child, path) *)
Fixpoint dfs_cycles (fuel : nat) (node : V) (path : list V) : list (list V) :=
  match fuel with
  | O => []
  | S f => if vmem node path then [path ++ [node]]
           else flat_map (fun child => dfs_cycles f child (path ++ [node])) (adj node)
  end.
End Cycles.

Definition restrict (g : graph) (scc : list V) (v : V) : list V :=
  filter (fun d => vmem d scc) (succs g v).

Definition find_cycles (g : graph) (scc : list V) (start : V) : list (list V) :=
  dfs_cycles (restrict g scc) (S (List.length scc)) start [].

(* ---------------- leader selection (compute_left_recursives, multi-element SCC) ----------------
   leaders = set(scc)
   for start in scc: for cycle in find_cycles_in_scc(graph, scc, start):
       leaders -= scc - set(cycle);  if not leaders: raise ValueError *)
Definition keep_in (cycle : list V) (leaders : list V) : list V :=
  filter (fun v => vmem v cycle) leaders.

Fixpoint narrow (cycles : list (list V)) (leaders : list V) : option (list V) :=
  match cycles with
  | [] => Some leaders
  | c :: cs => match keep_in c leaders with
               | [] => None                       (* raise ValueError *)
               | l => narrow cs l
               end
  end.

Definition all_cycles (g : graph) (scc : list V) : list (list V) :=
  flat_map (find_cycles g scc) scc.

Definition candidates (g : graph) (scc : list V) : option (list V) :=
  narrow (all_cycles g scc) scc.

End Graph.

Arguments index {V}. Arguments stack {V}. Arguments bounds {V}. Arguments identified {V}. Arguments out {V}.

(* ---------------- compute_left_recursives on rule names ---------------- *)
Fixpoint min_str (l : list string) (acc : string) : string :=
  match l with [] => acc | x :: l' => min_str l' (if str_ltb x acc then x else acc) end.

Inductive lr_result :=
| LRFlags (left_rec : list string) (leaders : list string)
| LRValueError.

Definition smem := vmem string String.eqb.

Inductive comp_result := NoLeader | Leader (v : string) | Refuse.

(* what compute_left_recursives does with one yielded component *)
Definition leader_of (g : graph string) (scc : list string) : comp_result :=
  match scc with
  | [] => NoLeader
  | [name] => if smem name (succs string String.eqb g name) then Leader name else NoLeader
  | _ => match candidates string String.eqb g scc with
         | None => Refuse                      (* raise ValueError *)
         | Some [] => Refuse                   (* unreachable for scc <> [] *)
         | Some (c :: cs) => Leader (min_str cs c)
         end
  end.

Fixpoint lr_fold (g : graph string) (comps : list (list string)) (lr ld : list string) : lr_result :=
  match comps with
  | [] => LRFlags lr ld
  | scc :: rest =>
      match leader_of g scc with
      | NoLeader => lr_fold g rest lr ld
      | Leader v => lr_fold g rest (lr ++ scc) (ld ++ [v])
      | Refuse => LRValueError
      end
  end.

(* graph.keys() in dict order, sccs as yielded *)
Definition compute_left_recursives (g : graph string) : lr_result :=
  lr_fold g (sccs string String.eqb (map fst g) g) [] [].
