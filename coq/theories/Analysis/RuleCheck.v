(* Model of the up-front grammar checks of ParserGenerator.__init__:
   validate_rule_names, the start/trailer check and RuleCheckingVisitor (a GrammarVisitor that
   defines visit_NameLeaf and visit_NamedItem and otherwise relies on generic_visit, i.e. on what
   each node class's __iter__ yields -- table extracted from grammar.py on every run). *)
From Coq Require Import List String NArith Bool.
From Pegen Require Import Base.StrUtil Grammar.Ast Analysis.Visitor.
Import ListNotations.
Open Scope string_scope.

Inductive gerr :=
| Dangling (n : string)            (* GrammarError "Dangling reference to rule ..." *)
| UnderscoreVar (n : string)       (* GrammarError "Variable names cannot start with underscore" *)
| UnderscoreRule (n : string)      (* GrammarError "Rule names cannot start with underscore" *)
| NoStart                          (* GrammarError "Grammar without a trailer must have a 'start' rule" *)
| BadTable.                        (* the extracted __iter__ table mentions an attribute the model does not know *)

Section RC.
Variable iter_fields : list (string * list string).
Variable known : string -> bool.          (* node.value in self.rules or node.value in self.tokens *)

Inductive fres := RNode (r : option gerr) | RList (rs : list (option gerr)).

Fixpoint first_err (l : list (option gerr)) : option gerr :=
  match l with [] => None | Some e :: _ => Some e | None :: l' => first_err l' end.

(* generic_visit over the fields __iter__ yields, in order *)
Fixpoint generic_rc (fields : list string) (en : list (string * fres)) : option gerr :=
  match fields with
  | [] => None
  | f :: fs => match assoc_s f en with
               | Some (RNode (Some e)) => Some e
               | Some (RNode None) => generic_rc fs en
               | Some (RList rs) => match first_err rs with Some e => Some e | None => generic_rc fs en end
               | None => Some BadTable
               end
  end.

Definition by_table (cls : string) (en : list (string * fres)) : option gerr :=
  match assoc_s cls iter_fields with Some fs => generic_rc fs en | None => Some BadTable end.

Fixpoint rc_item (i : item) : option gerr :=
  match i with
  | NameLeaf n => if known n then None else Some (Dangling n)                  (* visit_NameLeaf *)
  | StringLeaf _ => by_table "StringLeaf" []
  | Group r => by_table "Group" [("rhs", RNode (rc_rhs r))]
  | Opt j => by_table "Opt" [("node", RNode (rc_item j))]
  | Repeat0 _ j => by_table "Repeat0" [("node", RNode (rc_item j))]
  | Repeat1 _ j => by_table "Repeat1" [("node", RNode (rc_item j))]
  | Gather _ s e => by_table "Gather" [("separator", RNode (rc_item s)); ("node", RNode (rc_item e))]
  | PosLook j => by_table "PositiveLookahead" [("node", RNode (rc_item j))]
  | NegLook j => by_table "NegativeLookahead" [("node", RNode (rc_item j))]
  | Forced j => by_table "Forced" [("node", RNode (rc_item j))]
  | Cut => by_table "Cut" []
  | RhsItem r => rc_rhs r
  end
with rc_rhs (r : rhs) : option gerr :=
  match r with Rhs _ alts =>
    by_table "Rhs" [("alts", RList ((fix go (l : list alt) := match l with [] => [] | a :: l' => rc_alt a :: go l' end) alts))]
  end
with rc_alt (a : alt) : option gerr :=
  match a with Alt items _ =>
    by_table "Alt" [("items", RList ((fix go (l : list nitem) := match l with [] => [] | n :: l' => rc_nitem n :: go l' end) items))]
  end
with rc_nitem (n : nitem) : option gerr :=                                       (* visit_NamedItem *)
  match n with NItem _ name _ i =>
    match name with
    | Some x => if negb (String.eqb x "") && startswith "_" x then Some (UnderscoreVar x) else rc_item i
    | None => rc_item i
    end
  end.

Definition rc_rule (r : rule) : option gerr := by_table "Rule" [("rhs", RNode (rc_rhs (rrhs r)))].

End RC.

Fixpoint first_underscore_rule (rs : list rule) : option gerr :=
  match rs with
  | [] => None
  | r :: rs' => if startswith "_" (rname r) then Some (UnderscoreRule (rname r)) else first_underscore_rule rs'
  end.

Definition has_rule (g : grammar) (n : string) : bool :=
  match find_rule (rules g) n with Some _ => true | None => false end.
Definition has_meta (g : grammar) (k : string) : bool :=
  match lookup_meta (metas g) k with Some _ => true | None => false end.

(* ParserGenerator.__init__ up to (excluding) compute_nullables *)
Definition check_grammar (iter_fields : list (string * list string)) (tokens : list string) (g : grammar)
  : option gerr :=
  match first_underscore_rule (rules g) with
  | Some e => Some e
  | None =>
      if negb (has_meta g "trailer") && negb (has_rule g "start") then Some NoStart
      else first_err (map (rc_rule iter_fields (fun n => has_rule g n || mem_str n tokens)) (rules g))
  end.
