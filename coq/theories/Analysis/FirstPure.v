(* The equations behind FirstSetCalculator, as pure functions of a table of rule FIRST sets and of
   the nullability of items: what `visit_*` computes once every rule it refers to has its final
   set.  A table is CLOSED when each rule's set contains what the equations give for its body.
   Proofs/FirstSound.v shows that every closed table over-approximates the first tokens of the
   reference semantics; the check evaluates [closed_b] on the table the calculator really
   computes. *)
From Coq Require Import List String Ascii NArith Bool Arith.
From Pegen Require Import Base.StrUtil Grammar.Ast Analysis.FirstSets.
Import ListNotations.
Open Scope string_scope.

Section FP.
Variable rs : list rule.
Variable T : string -> sset.          (* final FIRST set of each rule *)
Variable nulf : item -> bool.         (* nullability of an item (NamedItem.nullable of the item holding it) *)

(* what an item contributes inside an alternative: a gather whose element can match nothing may
   start with its separator (visit_Alt) *)
Definition effg (f : item -> sset) (i : item) : sset :=
  match i with
  | Gather _ s _ => if nulf i then sunion (f i) (f s) else f i
  | _ => f i
  end.

Definition scan (f : item -> sset) : list nitem -> sset -> sset -> sset :=
  fix go (l : list nitem) (result to_remove : sset) : sset :=
    match l with
    | [] => result
    | n :: l' =>
        let i := ni_item n in
        let nw := effg f i in
        if is_neg i then go l' result (sunion to_remove nw)
        else
          let result' := sunion result (sdiff nw to_remove) in
          if mem_str "" nw then go l' result' to_remove
          else if negb (nulf i) || is_pos i then result'
          else go l' result' to_remove
    end.

Fixpoint pf_item (i : item) : sset :=
  match i with
  | NameLeaf n => match find_rule rs n with None => [n] | Some _ => T n end
  | StringLeaf raw => [raw]
  | Group r | RhsItem r => pf_rhs r
  | Opt j | Repeat0 _ j | Repeat1 _ j | PosLook j | NegLook j | Forced j => pf_item j
  | Gather _ _ e => pf_item e
  | Cut => []
  end
with pf_rhs (r : rhs) : sset :=
  match r with Rhs _ alts =>
    (fix go (l : list alt) : sset := match l with [] => [] | a :: l' => sunion (pf_alt a) (go l') end) alts
  end
with pf_alt (a : alt) : sset :=
  match a with Alt items _ => sdiscard "" (scan pf_item items [] []) end.

Fixpoint pf_alts (l : list alt) : sset := match l with [] => [] | a :: l' => sunion (pf_alt a) (pf_alts l') end.
Lemma pf_rhs_eq id alts : pf_rhs (Rhs id alts) = pf_alts alts.
Proof. induction alts as [|a l IH]; [reflexivity|]. cbn [pf_alts]. rewrite <- IH. reflexivity. Qed.
Lemma pf_alt_eq items act : pf_alt (Alt items act) = sdiscard "" (scan pf_item items [] []).
Proof. reflexivity. Qed.

Definition subset_b (a b : sset) : bool := forallb (fun x => mem_str x b) a.
Definition closed_b : bool := forallb (fun r => subset_b (pf_rhs (rrhs r)) (T (rname r))) rs.

(* ---- the class of grammars the property speaks about ---- *)
Definition is_literal (s : string) : bool :=
  match s with String c _ => Ascii.eqb c "'"%char || Ascii.eqb c """"%char | EmptyString => false end.
Definition not_gather (i : item) : bool := match i with Gather _ _ _ => false | _ => true end.
Definition single_tok (i : item) : bool :=
  match i with
  | StringLeaf _ => true
  | NameLeaf n => match find_rule rs n with None => true | Some _ => false end
  | _ => false
  end.

Fixpoint lk_item (i : item) : bool :=
  match i with
  | NameLeaf n => match find_rule rs n with None => negb (is_literal n) | Some _ => true end
  | StringLeaf raw => is_literal raw
  | Group r | RhsItem r => lk_rhs r
  | Opt j | Repeat0 _ j | Repeat1 _ j | Forced j => not_gather j && lk_item j
  | Gather _ s e => not_gather s && not_gather e && lk_item s && lk_item e
  | PosLook j | NegLook j => single_tok j && lk_item j
  | Cut => true
  end
with lk_rhs (r : rhs) : bool :=
  match r with Rhs _ alts =>
    (fix go (l : list alt) : bool := match l with [] => true | a :: l' => lk_alt a && go l' end) alts
  end
with lk_alt (a : alt) : bool :=
  match a with Alt items _ =>
    (fix go (l : list nitem) : bool := match l with [] => true | n :: l' => lk_item (ni_item n) && go l' end) items
  end.
Fixpoint lk_alts (l : list alt) : bool := match l with [] => true | a :: l' => lk_alt a && lk_alts l' end.
Fixpoint lk_items (l : list nitem) : bool := match l with [] => true | n :: l' => lk_item (ni_item n) && lk_items l' end.
Lemma lk_rhs_eq id alts : lk_rhs (Rhs id alts) = lk_alts alts.
Proof. induction alts as [|a l IH]; [reflexivity|]. cbn [lk_alts]. rewrite <- IH. reflexivity. Qed.
Lemma lk_alt_eq items act : lk_alt (Alt items act) = lk_items items.
Proof. induction items as [|a l IH]; [reflexivity|]. cbn [lk_items]. rewrite <- IH. reflexivity. Qed.
Definition lk_rules : bool := forallb (fun r => lk_rhs (rrhs r)) rs.
End FP.
