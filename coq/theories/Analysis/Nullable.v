(* Model of parser_generator.NullableVisitor / compute_nullables (table-driven via Visitor.v),
   of the initial_names methods of grammar.py, make_first_graph and the left-recursion flags. *)
From Coq Require Import List String NArith Bool Arith.
From Pegen Require Import Base.StrUtil Grammar.Ast Analysis.Visitor Analysis.Scc.
Import ListNotations.
Open Scope string_scope.

Fixpoint memN (x : N) (l : list N) : bool :=
  match l with [] => false | y :: l' => N.eqb x y || memN x l' end.

Record nst := {
  n_rules : list string;      (* names of rules with .nullable = True *)
  n_visited : list string;    (* NullableVisitor.visited (rules are identified by their unique names) *)
  n_items : list N;           (* ids of NamedItem objects with .nullable = True *)
  n_done : list string;       (* ghost: rules whose visit_Rule has returned in the current pass *)
  n_err : bool                (* the model ran out of fuel (never happens for fuel > #rules; sticky) *)
}.
Definition set_err (st : nst) : nst :=
  {| n_rules := n_rules st; n_visited := n_visited st; n_items := n_items st; n_done := n_done st; n_err := true |}.

Section NV.
Variable methods : list (string * bexp).             (* extracted: NullableVisitor's visit_* bodies *)
Variable iter_fields : list (string * list string).  (* extracted: __iter__ fields *)
Variable rs : list rule.                             (* grammar.rules, dict order *)

Notation M := (M nst).

(* visit_NamedItem: if self.visit(item.item): item.nullable = True; return item.nullable *)
Definition sp_nitem (n : nitem) (visit_child : M) : M :=
  fun st => let '(b, st') := visit_child st in
            let st'' := if b && negb (memN (ni_id n) (n_items st'))
                        then {| n_rules := n_rules st'; n_visited := n_visited st'; n_items := ni_id n :: n_items st';
                                n_done := n_done st'; n_err := n_err st' |}
                        else st' in
            (memN (ni_id n) (n_items st''), st'').

Section Open.
Variable rec : string -> M.         (* self.visit(self.rules[name]) *)

(* visit_NameLeaf: if node.value in self.rules: return self.visit(self.rules[node.value]); return False *)
Definition sp_nameleaf (n : string) : M :=
  match find_rule rs n with Some _ => rec n | None => ret nst false end.

Definition nv_rhs : rhs -> M := v_rhs nst methods iter_fields sp_nitem sp_nameleaf.

(* visit_Rule *)
Definition nv_rule (r : rule) : M :=
  fun st =>
    if mem_str (rname r) (n_visited st) then (mem_str (rname r) (n_rules st), st)
    else
      let st1 := {| n_rules := n_rules st; n_visited := rname r :: n_visited st; n_items := n_items st;
                    n_done := n_done st; n_err := n_err st |} in
      let '(b, st2) := nv_rhs (rrhs r) st1 in
      let rules3 := if b && negb (mem_str (rname r) (n_rules st2)) then rname r :: n_rules st2 else n_rules st2 in
      let st3 := {| n_rules := rules3; n_visited := n_visited st2; n_items := n_items st2;
                    n_done := rname r :: n_done st2; n_err := n_err st2 |} in
      (mem_str (rname r) (n_rules st3), st3).
End Open.

(* recursion through rule references: bounded by the number of rules (the visited set grows) *)
Fixpoint nv_name (fuel : nat) (name : string) : M :=
  match fuel with
  | O => fun st => (false, set_err st)
  | S f => match find_rule rs name with
           | Some r => nv_rule (nv_name f) r
           | None => ret nst false        (* not reached: sp_nameleaf only recurses into existing rules *)
           end
  end.

(* one pass: nullable_visitor = NullableVisitor(rules); for rule in rules.values(): visit(rule) *)
Fixpoint pass_rules (fuel : nat) (l : list rule) (st : nst) : nst :=
  match l with
  | [] => st
  | r :: l' => pass_rules fuel l' (snd (nv_rule (nv_name fuel) r st))
  end.

Definition one_pass (st : nst) : nst :=
  pass_rules (S (List.length rs)) rs
    {| n_rules := n_rules st; n_visited := []; n_items := n_items st; n_done := []; n_err := n_err st |}.

(* while True: known = #nullable; pass; if #nullable == known: break *)
Fixpoint passes (fuel : nat) (st : nst) : option nst :=
  match fuel with
  | O => None
  | S f => let st' := one_pass st in
           if Nat.eqb (List.length (n_rules st')) (List.length (n_rules st)) then Some st'
           else passes f st'
  end.

(* None = out of fuel (passes or recursion depth) *)
Definition compute_nullables : option nst :=
  match passes (S (S (List.length rs))) {| n_rules := []; n_visited := []; n_items := []; n_done := []; n_err := false |} with
  | Some st => if n_err st then None else Some st
  | None => None
  end.

End NV.

(* ---------------- initial_names (grammar.py) ---------------- *)
Section Initial.
Variable item_flag : N -> bool.         (* NamedItem.nullable, by object id *)

Fixpoint in_item (i : item) : list string :=
  match i with
  | NameLeaf n => [n]
  | StringLeaf _ => []
  | Group r => in_rhs r
  | Opt j => in_item j
  | Repeat0 _ j | Repeat1 _ j => in_item j
  | Gather _ _ e => in_item e                   (* Repeat.initial_names: self.node *)
  | PosLook j | NegLook j => in_item j         (* Lookahead.initial_names: the operand is tried at the same position *)
  | Forced j => in_item j
  | Cut => []
  | RhsItem r => in_rhs r
  end
with in_rhs (r : rhs) : list string :=
  match r with Rhs _ alts =>
    (fix go (l : list alt) := match l with [] => [] | a :: l' => (in_alt a ++ go l')%list end) alts end
with in_alt (a : alt) : list string :=
  (* for item in items: names |= item.initial_names(); if not item.nullable: break *)
  match a with Alt items _ =>
    (fix go (l : list nitem) := match l with
                                | [] => []
                                | n :: l' => (in_nitem n ++ (if item_flag (ni_id n) then go l' else []))%list
                                end) items end
with in_nitem (n : nitem) : list string :=
  (* NamedItem.initial_names: a gather whose element can match nothing may start with its separator *)
  match n with NItem id _ _ i =>
    match i with
    | Gather _ s _ => if item_flag id then (in_item i ++ in_item s)%list else in_item i
    | _ => in_item i
    end
  end.

(* make_first_graph: rule -> set of initial names (sorted, as a canonical list); names that are
   not rules become vertices without edges *)
Definition first_graph (rs : list rule) : graph string :=
  let g := map (fun r => (rname r, sort_set (in_rhs (rrhs r)))) rs in
  let extra := filter (fun v => negb (existsb (fun r => String.eqb (rname r) v) rs))
                      (sort_set (flat_map snd g)) in
  (g ++ map (fun v => (v, [])) extra)%list.
End Initial.

(* ---------------- the whole analysis of ParserGenerator.__init__ ---------------- *)
Record analysis := {
  a_nullable : list string;          (* Rule.nullable *)
  a_item_nullable : list N;          (* NamedItem.nullable *)
  a_graph : graph string;            (* first_graph *)
  a_left_rec : list string;          (* Rule.left_recursive *)
  a_leaders : list string            (* Rule.leader *)
}.
Inductive aresult := AOk (a : analysis) | AValueError | ATableError.

Definition analyse (methods : list (string * bexp)) (iter_fields : list (string * list string)) (rs : list rule)
  : aresult :=
  match compute_nullables methods iter_fields rs with
  | None => ATableError
  | Some st =>
      let g := first_graph (fun k => memN k (n_items st)) rs in
      match compute_left_recursives g with
      | LRValueError => AValueError
      | LRFlags lr ld => AOk {| a_nullable := n_rules st; a_item_nullable := n_items st; a_graph := g;
                                a_left_rec := lr; a_leaders := ld |}
      end
  end.
