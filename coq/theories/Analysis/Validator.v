(* Model of src/pegen/validator.py: SubRuleValidator.visit_Rhs / check_intersection,
   validate_grammar.  validate_rule visits the Rule, whose generic traversal reaches the
   top-level Rhs only (visit_Rhs does not recurse), so only rule-level alternatives are compared. *)
From Coq Require Import List String Bool.
From Pegen Require Import Base.StrUtil Grammar.Ast Grammar.Printer.
Import ListNotations.
Open Scope string_scope.

Section Validator.
Variable simple : bool.     (* grammar.SIMPLE_STR at the time of the call *)

Definition items_strs (a : alt) : list string := map (nitem_str simple) (alt_items a).

(* second_items[:len(first_items)] == first_items *)
Definition check_intersection (first second : alt) : bool :=
  list_prefixb String.eqb (items_strs first) (items_strs second).

(* first later alternative that `a` shadows *)
Fixpoint first_shadowed (a : alt) (later : list alt) : option alt :=
  match later with
  | [] => None
  | b :: later' => if check_intersection a b then Some b else first_shadowed a later'
  end.

(* visit_Rhs: for index, alt in enumerate(alts): for other in alts[index+1:]: check *)
Fixpoint validate_alts (alts : list alt) : option alt :=
  match alts with
  | [] => None
  | a :: rest => match first_shadowed a rest with
                 | Some b => Some b
                 | None => validate_alts rest
                 end
  end.

(* validate_grammar: first (rule name, printed alternative) reported, or None *)
Fixpoint validate_rules (rs : list rule) : option (string * string) :=
  match rs with
  | [] => None
  | r :: rs' => match validate_alts (rhs_alts (rrhs r)) with
                | Some b => Some (rname r, alt_str simple b)
                | None => validate_rules rs'
                end
  end.
Definition validate_grammar (g : grammar) : option (string * string) := validate_rules (rules g).

End Validator.
