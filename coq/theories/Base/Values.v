(* Python values as far as generated parsers produce them. *)
From Coq Require Import List String ZArith Bool.
From Pegen Require Import Base.StrUtil Runtime.Tokenizer.
Import ListNotations.
Open Scope string_scope.

Inductive value :=
| VNone | VTrue | VFalse
| VInt (z : Z)
| VStr (s : string)
| VTok (t : rtok)
| VList (l : list value)
| VTuple (l : list value)
| VObj (ctor : string) (args : list value).      (* f(...): an object; truthy *)

(* Python truthiness *)
Definition truthy (v : value) : bool :=
  match v with
  | VNone | VFalse => false
  | VInt z => negb (Z.eqb z 0)
  | VStr s => negb (String.eqb s "")
  | VList l | VTuple l => match l with [] => false | _ => true end
  | _ => true
  end.

Definition env := list (string * value).
Fixpoint env_get (e : env) (x : string) : option value :=
  match e with [] => None | (y, v) :: e' => if String.eqb x y then Some v else env_get e' x end.
