(* String helpers that mirror the Python string operations pegen uses.
   Pure definitions only (no proofs) so that model files keep running when a proof breaks. *)
From Coq Require Import List String Ascii NArith Bool Arith.
Import ListNotations.
Open Scope string_scope.

Definition startswith (p s : string) : bool := String.prefix p s.

Fixpoint rev_string_acc (s acc : string) : string :=
  match s with EmptyString => acc | String c s' => rev_string_acc s' (String c acc) end.
Definition rev_string (s : string) : string := rev_string_acc s "".

Definition endswith (suffix s : string) : bool := String.prefix (rev_string suffix) (rev_string s).

Fixpoint contains_char (c : ascii) (s : string) : bool :=
  match s with EmptyString => false | String d s' => Ascii.eqb c d || contains_char c s' end.

Definition has_space (s : string) : bool := contains_char " "%char s.

(* Python's `sub in s` *)
Fixpoint contains (sub s : string) : bool :=
  String.prefix sub s ||
  match s with EmptyString => false | String _ s' => contains sub s' end.

(* text before the first occurrence of c (whole string when absent): s.split(c)[0] *)
Fixpoint before_char (c : ascii) (s : string) : string :=
  match s with
  | EmptyString => EmptyString
  | String d s' => if Ascii.eqb c d then EmptyString else String d (before_char c s')
  end.

(* text after the first occurrence of c; None when absent *)
Fixpoint after_char (c : ascii) (s : string) : option string :=
  match s with
  | EmptyString => None
  | String d s' => if Ascii.eqb c d then Some s' else after_char c s'
  end.

Definition join (sep : string) (l : list string) : string := String.concat sep l.

(* drop first and last character: v[1:-1] *)
Definition strip_quotes (s : string) : string :=
  match s with
  | EmptyString => EmptyString
  | String _ s' => rev_string (match rev_string s' with EmptyString => EmptyString | String _ r => r end)
  end.

Definition last_char (s : string) : option ascii :=
  match rev_string s with EmptyString => None | String c _ => Some c end.

(* decimal rendering *)
Definition digit_char (n : N) : ascii := ascii_of_N (48 + n).
Fixpoint N_to_string_fuel (fuel : nat) (n : N) (acc : string) : string :=
  match fuel with
  | O => acc
  | S f => let acc' := String (digit_char (N.modulo n 10)) acc in
           if N.ltb n 10 then acc' else N_to_string_fuel f (N.div n 10) acc'
  end.
Definition N_to_string (n : N) : string := N_to_string_fuel 40 n "".
Definition nat_to_string (n : nat) : string := N_to_string (N.of_nat n).

(* identifier test used for keywords: re.match(r"[a-zA-Z_]\w*\Z", val)  (ASCII only) *)
Definition is_alpha_ (c : ascii) : bool :=
  let n := N_of_ascii c in
  (N.leb 65 n && N.leb n 90) || (N.leb 97 n && N.leb n 122) || N.eqb n 95.
Definition is_digit (c : ascii) : bool :=
  let n := N_of_ascii c in N.leb 48 n && N.leb n 57.
Fixpoint all_chars (f : ascii -> bool) (s : string) : bool :=
  match s with EmptyString => true | String c s' => f c && all_chars f s' end.
Definition is_identifier (s : string) : bool :=
  match s with
  | EmptyString => false
  | String c s' => is_alpha_ c && all_chars (fun d => is_alpha_ d || is_digit d) s'
  end.

(* byte-wise lexicographic order = Python's str order on ASCII text *)
Fixpoint str_ltb (a b : string) : bool :=
  match a, b with
  | EmptyString, EmptyString => false
  | EmptyString, String _ _ => true
  | String _ _, EmptyString => false
  | String c a', String d b' =>
      if N.ltb (N_of_ascii c) (N_of_ascii d) then true
      else if N.ltb (N_of_ascii d) (N_of_ascii c) then false
      else str_ltb a' b'
  end.
Definition str_leb (a b : string) : bool := negb (str_ltb b a).

Fixpoint insert_sorted (x : string) (l : list string) : list string :=
  match l with
  | [] => [x]
  | y :: l' => if str_ltb x y then x :: l
               else if String.eqb x y then l       (* set semantics: no duplicates *)
               else y :: insert_sorted x l'
  end.
(* sorted(set(l)) *)
Definition sort_set (l : list string) : list string := fold_right insert_sorted [] l.

Definition mem_str (x : string) (l : list string) : bool := existsb (String.eqb x) l.

(* Python repr() of a str without backslashes or non-printables *)
Definition py_repr (s : string) : string :=
  if contains_char "'"%char s && negb (contains_char """"%char s)
  then """" ++ s ++ """"
  else "'" ++ s ++ "'".

(* list prefix test with a decidable equality *)
Fixpoint list_prefixb {A} (eqb : A -> A -> bool) (p l : list A) : bool :=
  match p, l with
  | [], _ => true
  | _ :: _, [] => false
  | x :: p', y :: l' => eqb x y && list_prefixb eqb p' l'
  end.

(* decidable equalities used by the correspondence cases *)
Fixpoint list_eqb {A} (eqb : A -> A -> bool) (a b : list A) : bool :=
  match a, b with
  | [], [] => true
  | x :: a', y :: b' => eqb x y && list_eqb eqb a' b'
  | _, _ => false
  end.
Definition option_eqb {A} (eqb : A -> A -> bool) (a b : option A) : bool :=
  match a, b with
  | None, None => true
  | Some x, Some y => eqb x y
  | _, _ => false
  end.
Definition pair_eqb {A B} (ea : A -> A -> bool) (eb : B -> B -> bool) (a b : A * B) : bool :=
  ea (fst a) (fst b) && eb (snd a) (snd b).
Definition strs_eqb := list_eqb String.eqb.

(* s.replace(old, new) for non-empty old *)
Fixpoint drop (n : nat) (s : string) : string :=
  match n, s with O, _ => s | S n', String _ s' => drop n' s' | S _, EmptyString => EmptyString end.
Fixpoint str_replace_fuel (fuel : nat) (old new s : string) : string :=
  match fuel with
  | O => s
  | S f => match s with
           | EmptyString => EmptyString
           | String c s' => if String.prefix old s then new ++ str_replace_fuel f old new (drop (String.length old) s)
                            else String c (str_replace_fuel f old new s')
           end
  end.
Definition str_replace (old new s : string) : string :=
  if String.eqb old "" then s else str_replace_fuel (S (String.length s)) old new s.

(* s.rstrip("\n") *)
Definition rstrip_nl (s : string) : string :=
  rev_string ((fix go (r : string) := match r with
                 | String c r' => if Ascii.eqb c (ascii_of_nat 10) then go r' else r
                 | EmptyString => EmptyString end) (rev_string s)).

Definition NL : string := String (ascii_of_nat 10) "".
