(* Model of the file handling of pegen.build.build_python_generator (and of the CLI / build API on
   top of it) with fault points.  Only two paths matter: the output path and "<output>.tmp".
   Buffered I/O: what write() hands over reaches the file at flush/close time; a failing write or
   close leaves an arbitrary prefix. *)
From Coq Require Import List String NArith Bool Arith.
Import ListNotations.
Open Scope string_scope.

Record fs := { target : option string; tmp : option string }.

(* outcome of everything that happens before the first file operation: reading and parsing the
   grammar, constructing the generator (reference checks, left-recursion analysis), emitting the
   module text into memory *)
Inductive genres := GenOK (text : string) | GenFail.

Inductive fkind := Exn | Kill.
(* fault at the k-th intercepted file operation (0-based, counted over the operations actually
   performed); [part] = how many characters of the text reached the file when a write/close
   fails, or for a kill at os.replace: 0 = before, 1 = after the (atomic) rename *)
Definition fault := nat -> option (fkind * nat).      (* any set of fault points *)
Definition NoFault : fault := fun _ => None.
Definition FaultAt (k : nat) (kind : fkind) (part : nat) : fault :=
  fun k' => if Nat.eqb k k' then Some (kind, part) else None.
Fixpoint faults_of (l : list (nat * fkind * nat)) : fault :=
  match l with
  | [] => NoFault
  | (k, kd, p) :: l' => fun k' => if Nat.eqb k k' then Some (kd, p) else faults_of l' k'
  end.

Inductive fsop := OOpen | OWrite | OClose | OReplace | OUnlink.
Inductive outcome := Done | Raised | Killed.

Definition prefix (n : nat) (s : string) : string := substring 0 n s.

Definition hit (f : fault) (k : nat) : option (fkind * nat) := f k.

(* cleanup handler: with contextlib.suppress(OSError): os.unlink(tmp); raise *)
Definition cleanup (s : fs) (f : fault) (k : nat) (tr : list fsop) : fs * outcome * list fsop :=
  match hit f k with
  | Some (Kill, _) => (s, Killed, (tr ++ [OUnlink])%list)
  | Some (Exn, _) => (s, Raised, (tr ++ [OUnlink])%list)                     (* unlink failed: suppressed *)
  | None => ({| target := target s; tmp := None |}, Raised, (tr ++ [OUnlink])%list)
  end.

Definition build (old : fs) (gr : genres) (f : fault) : fs * outcome * list fsop :=
  match gr with
  | GenFail => (old, Raised, [])
  | GenOK text =>
      (* 0: open(tmp, "w") *)
      match hit f 0 with
      | Some (Kill, _) => (old, Killed, [OOpen])
      | Some (Exn, _) => cleanup old f 1 [OOpen]
      | None =>
          let s0 := {| target := target old; tmp := Some "" |} in
          (* 1: file.write(text) -- buffered *)
          match hit f 1 with
          | Some (Kill, p) => ({| target := target old; tmp := Some (prefix p text) |}, Killed, [OOpen; OWrite])
          | Some (Exn, p) =>
              (* the with-block closes the file (2), then the handler unlinks (3) *)
              cleanup {| target := target old; tmp := Some (prefix p text) |} f 3 [OOpen; OWrite; OClose]
          | None =>
              (* 2: close -> flush *)
              match hit f 2 with
              | Some (Kill, p) => ({| target := target old; tmp := Some (prefix p text) |}, Killed, [OOpen; OWrite; OClose])
              | Some (Exn, p) => cleanup {| target := target old; tmp := Some (prefix p text) |} f 3 [OOpen; OWrite; OClose]
              | None =>
                  let s2 := {| target := target old; tmp := Some text |} in
                  (* 3: os.replace(tmp, output) -- atomic *)
                  match hit f 3 with
                  | Some (Kill, p) => if Nat.eqb p 0 then (s2, Killed, [OOpen; OWrite; OClose; OReplace])
                                      else ({| target := Some text; tmp := None |}, Killed, [OOpen; OWrite; OClose; OReplace])
                  | Some (Exn, _) => cleanup s2 f 4 [OOpen; OWrite; OClose; OReplace]
                  | None => ({| target := Some text; tmp := None |}, Done, [OOpen; OWrite; OClose; OReplace])
                  end
              end
          end
      end
  end.
