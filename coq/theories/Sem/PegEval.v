(* Executable (fuelled) evaluator for the reference PEG semantics of Sem/Peg.v, and the naming
   convention actions can rely on (explicit item names; documented default names of leaves). *)
From Coq Require Import List String NArith ZArith Bool Arith.
From Pegen Require Import Base.StrUtil Base.Values Grammar.Ast Grammar.Printer Runtime.Tokenizer Sem.Peg Gen.Gen.
Import ListNotations.
Open Scope string_scope.

(* default name of an item, as documented: lower-cased token names, rule names, "literal", "opt",
   "forced"; groups that are a single item take that item's name; other composite items have no
   name an action could use *)
Fixpoint default_name (i : item) : option string :=
  match i with
  | NameLeaf n => if String.eqb n "SOFT_KEYWORD" then Some "soft_keyword"
                  else if mem_str n TOKS1 then Some (lower n)
                  else if mem_str n TOKS2 then Some ("_" ++ lower n)
                  else Some n
  | StringLeaf _ => Some "literal"
  | Opt _ => Some "opt"
  | Forced _ => Some "forced"
  | Group (Rhs _ [Alt [NItem _ nm _ j] None]) | RhsItem (Rhs _ [Alt [NItem _ nm _ j] None]) =>
      match nm with Some x => Some x | None => default_name j end
  | _ => None
  end.

Definition base_name (n : nitem) : option string :=
  match ni_name n with Some x => Some x | None => default_name (ni_item n) end.

(* names bound in an alternative, in order: an item is bound only if the action uses its name
   (all named items when there is no action); repeated names get _1, _2, ... *)
Fixpoint dedupe_name (fuel : nat) (orig : string) (k : nat) (name : string) (seen : list string) : string :=
  match fuel with
  | O => name
  | S f => if mem_str name seen then dedupe_name f orig (S k) (orig ++ "_" ++ nat_to_string (S k)) seen else name
  end.
Fixpoint bound_names (items : list nitem) (used : option (list string)) (seen : list string) : list (option string) :=
  match items with
  | [] => []
  | n :: rest =>
      match base_name n with
      | Some x =>
          if (match used with Some u => mem_str x u | None => true end) && negb (String.eqb x "cut")
          then let x' := dedupe_name (S (List.length seen)) x 0 x seen in Some x' :: bound_names rest used (seen ++ [x'])%list
          else None :: bound_names rest used seen
      | None => None :: bound_names rest used seen
      end
  end.

Inductive goal :=
| GItem (i : item) (p : nat)
| GAlts (alts : list alt) (p : nat)
| GSeq (ns : list (nitem * option string)) (p : nat) (vals : list value) (e : env) (cut : bool)
| GStar (i : item) (p : nat)
| GSep (s e : item) (p : nat).

Inductive gres :=
| RItem (r : pres)
| RSeq (r : sres)
| RList (r : (list value * nat) + (string * nat)).

Section Eval.
Variable K : kinds.
Variable rs : list rule.
Variable toks : list rtok.
Variable keywords soft_keywords : list string.
Variable aeval : string -> env -> option value.

Definition forced_text (i : item) : string :=
  match i with
  | Group r => "expected (" ++ rhs_str true r ++ ")"
  | NameLeaf v | StringLeaf v => "expected " ++ v
  | _ => "expected"
  end.

Definition action_used (a : alt) : option (list string) :=
  match alt_action a with
  | Some ac => if String.eqb (atext ac) "" then None else Some (aused ac)
  | None => None
  end.

Definition subst_action (t : string) : string :=
  str_replace "UNREACHABLE" UNREACHABLE_FORMATTING (str_replace "LOCATIONS" LOCATION_FORMATTING t).

(* start/end positions offered to actions that use LOCATIONS *)
Definition loc_bindings (s e : nat) : env :=
  let real := filter (fun t => negb (N.eqb (ty t) (kNEWLINE K) || N.eqb (ty t) (kINDENT K) || N.eqb (ty t) (kDEDENT K)
                                     || N.eqb (ty t) (kENDMARKER K))) (firstn (e - s) (skipn s toks)) in
  (match nth_error toks s with
   | Some t => [("start_lineno", VInt (Z.of_nat (sline t))); ("start_col_offset", VInt (Z.of_nat (scol t)))]
   | None => [] end ++
   match rev real with
   | t :: _ => [("end_lineno", VInt (Z.of_nat (eline t))); ("end_col_offset", VInt (Z.of_nat (ecol t)))]
   | [] => [] end)%list.

Fixpoint ev (fuel : nat) (g : goal) : option gres :=
  match fuel with
  | O => None
  | S f =>
  match g with
  | GItem i p =>
      match i with
      | NameLeaf n =>
          match find_rule rs n with
          | Some r => ev f (GAlts (rhs_alts (rrhs r)) p)
          | None => match kind_match K keywords soft_keywords n
                            {| ty := 0; tstr := ""; sline := 0; scol := 0; eline := 0; ecol := 0; tline := ""; tspace := false |} with
                    | Some _ => Some (RItem (tok_step toks (fun t => match kind_match K keywords soft_keywords n t with
                                                                    | Some b => b | None => false end) p))
                    | None => None                    (* not a token kind the model knows: outside the semantics, no verdict *)
                    end
          end
      | StringLeaf raw => Some (RItem (tok_step toks (fun t => String.eqb (tstr t) (strip_quotes raw)) p))
      | Group r | RhsItem r => ev f (GAlts (rhs_alts r) p)
      | Opt j => match ev f (GItem j p) with
                 | Some (RItem (PSucc v p')) => Some (RItem (PSucc v p'))
                 | Some (RItem PFail) => Some (RItem (PSucc VNone p))
                 | other => other
                 end
      | Repeat0 _ j => match ev f (GStar j p) with
                       | Some (RList (inl (vs, p'))) => Some (RItem (PSucc (VList vs) p'))
                       | Some (RList (inr (m, q))) => Some (RItem (PErr m q))
                       | _ => None
                       end
      | Repeat1 _ j => match ev f (GStar j p) with
                       | Some (RList (inl ([], _))) => Some (RItem PFail)
                       | Some (RList (inl (vs, p'))) => Some (RItem (PSucc (VList vs) p'))
                       | Some (RList (inr (m, q))) => Some (RItem (PErr m q))
                       | _ => None
                       end
      | Gather _ s e =>
          match ev f (GItem e p) with
          | Some (RItem (PSucc v p1)) =>
              match ev f (GSep s e p1) with
              | Some (RList (inl (vs, p'))) => Some (RItem (PSucc (VList (v :: vs)) p'))
              | Some (RList (inr (m, q))) => Some (RItem (PErr m q))
              | _ => None
              end
          | other => other
          end
      | PosLook j => match ev f (GItem j p) with
                     | Some (RItem (PSucc v _)) => Some (RItem (PSucc v p))
                     | other => other
                     end
      | NegLook j => match ev f (GItem j p) with
                     | Some (RItem (PSucc _ _)) => Some (RItem PFail)
                     | Some (RItem PFail) => Some (RItem (PSucc VTrue p))
                     | other => other
                     end
      | Forced j => match ev f (GItem j p) with
                    | Some (RItem PFail) => Some (RItem (PErr (forced_text j) p))
                    | other => other
                    end
      | Cut => Some (RItem (PSucc VTrue p))
      end
  | GStar i p =>
      match ev f (GItem i p) with
      | Some (RItem PFail) => Some (RList (inl ([], p)))
      | Some (RItem (PErr m q)) => Some (RList (inr (m, q)))
      | Some (RItem (PSucc v p1)) =>
          match ev f (GStar i p1) with
          | Some (RList (inl (vs, p'))) => Some (RList (inl (v :: vs, p')))
          | other => other
          end
      | _ => None
      end
  | GSep s e p =>
      match ev f (GItem s p) with
      | Some (RItem PFail) => Some (RList (inl ([], p)))
      | Some (RItem (PErr m q)) => Some (RList (inr (m, q)))
      | Some (RItem (PSucc _ p1)) =>
          match ev f (GItem e p1) with
          | Some (RItem PFail) => Some (RList (inl ([], p)))
          | Some (RItem (PErr m q)) => Some (RList (inr (m, q)))
          | Some (RItem (PSucc v p2)) =>
              match ev f (GSep s e p2) with
              | Some (RList (inl (vs, p'))) => Some (RList (inl (v :: vs, p')))
              | other => other
              end
          | _ => None
          end
      | _ => None
      end
  | GSeq ns p vals e cut =>
      match ns with
      | [] => Some (RSeq (SSucc vals e p))
      | (n, nm) :: rest =>
          match ev f (GItem (ni_item n) p) with
          | Some (RItem PFail) => Some (RSeq (if cut then SCutFail else SFail))
          | Some (RItem (PErr m q)) => Some (RSeq (SErr m q))
          | Some (RItem (PSucc v p1)) =>
              let la := is_lookahead (ni_item n) in
              ev f (GSeq rest p1 (if la || is_cut (ni_item n) then vals else (vals ++ [v])%list)
                         (match nm with Some x => if la then e else (x, v) :: e | None => e end)
                         (cut || is_cut (ni_item n)))
          | _ => None
          end
      end
  | GAlts alts p =>
      match alts with
      | [] => Some (RItem PFail)
      | a :: rest =>
          let names := bound_names (alt_items a) (action_used a) [] in
          match ev f (GSeq (combine (alt_items a) names) p [] [] false) with
          | Some (RSeq (SSucc vals e p')) =>
              match action_used a, alt_action a with
              | Some _, Some ac =>
                  match aeval (subst_action (atext ac)) (loc_bindings p p' ++ e)%list with
                  | Some v => Some (RItem (PSucc v p'))
                  | None => Some (RItem (PErr "action raises" p'))
                  end
              | _, _ =>
                  (* default value: the single item, else the list of items (lookaheads and cuts carry no value) *)
                  Some (RItem (PSucc (match vals with [v] => v | _ => VList vals end) p'))
              end
          | Some (RSeq SFail) => ev f (GAlts rest p)
          | Some (RSeq SCutFail) => Some (RItem PFail)
          | Some (RSeq (SErr m q)) => Some (RItem (PErr m q))
          | _ => None
          end
      end
  end
  end.

Definition peg_eval (fuel : nat) (start : string) : option pres :=
  match ev fuel (GItem (NameLeaf start) 0) with
  | Some (RItem r) => Some r
  | _ => None
  end.
End Eval.
