(* Reference PEG semantics of a pegen grammar, defined on the grammar AST (no helper rules, no
   cache, no marks): the oracle of C01/C02/C12/C19.  Big-step inductive relation. *)
From Coq Require Import List String NArith Bool Arith.
From Pegen Require Import Base.StrUtil Base.Values Grammar.Ast Runtime.Tokenizer.
Import ListNotations.
Open Scope string_scope.

(* numeric token kinds of the running interpreter (extracted every run) *)
Record kinds := {
  kNAME : N; kNUMBER : N; kSTRING : N; kOP : N; kNEWLINE : N; kINDENT : N; kDEDENT : N; kENDMARKER : N;
  kTYPE_COMMENT : N; kFSTRING_START : N; kFSTRING_MIDDLE : N; kFSTRING_END : N; kASYNC : N; kAWAIT : N
}.

Inductive pres := PSucc (v : value) (p : nat) | PFail | PErr (msg : string) (p : nat).
(* outcome of a sequence of items: success with the values of the items (in order) and the bound
   names; failure; failure after a cut (commits the enclosing alternative list); forced error *)
Inductive sres := SSucc (vals : list value) (env : list (string * value)) (p : nat)
                | SFail | SCutFail | SErr (msg : string) (p : nat).

Section Peg.
Variable K : kinds.
Variable rs : list rule.
Variable toks : list rtok.
Variable keywords soft_keywords : list string.
(* interpretation of an alternative's action: the values of its items, the bound names, the span
   [start, end) of the match; None = evaluating the action raises *)
Variable aeval : alt -> list value -> list (string * value) -> nat -> nat -> option value.
(* the name the action can use for the k-th item of an alternative (explicit name, documented default name) *)
Variable item_name : alt -> nat -> option string.
Variable forced_msg : item -> string.                             (* message of a failing && *)

(* does token t satisfy the token-kind name n?  None: n is not a token kind the model knows *)
Definition kind_match (n : string) (t : rtok) : option bool :=
  if String.eqb n "NAME" then Some (N.eqb (ty t) (kNAME K) && negb (mem_str (tstr t) keywords))
  else if String.eqb n "SOFT_KEYWORD" then Some (N.eqb (ty t) (kNAME K) && mem_str (tstr t) soft_keywords)
  else if String.eqb n "NUMBER" then Some (N.eqb (ty t) (kNUMBER K))
  else if String.eqb n "STRING" then Some (N.eqb (ty t) (kSTRING K))
  else if String.eqb n "OP" then Some (N.eqb (ty t) (kOP K))
  else if String.eqb n "NEWLINE" then Some (N.eqb (ty t) (kNEWLINE K))
  else if String.eqb n "INDENT" then Some (N.eqb (ty t) (kINDENT K))
  else if String.eqb n "DEDENT" then Some (N.eqb (ty t) (kDEDENT K))
  else if String.eqb n "ENDMARKER" then Some (N.eqb (ty t) (kENDMARKER K))
  else if String.eqb n "TYPE_COMMENT" then Some (N.eqb (ty t) (kTYPE_COMMENT K))
  else if String.eqb n "FSTRING_START" then Some (N.eqb (ty t) (kFSTRING_START K))
  else if String.eqb n "FSTRING_MIDDLE" then Some (N.eqb (ty t) (kFSTRING_MIDDLE K))
  else if String.eqb n "FSTRING_END" then Some (N.eqb (ty t) (kFSTRING_END K))
  else if String.eqb n "ASYNC" then Some (N.eqb (ty t) (kASYNC K))
  else if String.eqb n "AWAIT" then Some (N.eqb (ty t) (kAWAIT K))
  else None.

(* one token: succeeds iff there is a token at p satisfying the test *)
Definition tok_step (test : rtok -> bool) (p : nat) : pres :=
  match nth_error toks p with
  | Some t => if test t then PSucc (VTok t) (S p) else PFail
  | None => PFail
  end.

Definition is_cut (i : item) : bool := match i with Cut => true | _ => false end.
Definition is_lookahead (i : item) : bool := match i with PosLook _ | NegLook _ => true | _ => false end.

(* the value an alternative yields: its action over the named items, else the single item, else
   the list of items (documented rule) *)
Definition alt_value (a : alt) (vals : list value) (env : list (string * value)) (s e : nat) : option value :=
  match alt_action a with
  | Some _ => aeval a vals env s e
  | None => Some (match vals with [v] => v | _ => VList vals end)
  end.

Definition bind_name (a : alt) (k : nat) (v : value) (env : list (string * value)) : list (string * value) :=
  match item_name a k with Some x => (x, v) :: env | None => env end.

Inductive peg_item : item -> nat -> pres -> Prop :=
| P_rule n r p res : find_rule rs n = Some r -> peg_alts (rhs_alts (rrhs r)) p res -> peg_item (NameLeaf n) p res
| P_token n p test : find_rule rs n = None -> (forall t, kind_match n t = Some (test t)) ->
    peg_item (NameLeaf n) p (tok_step test p)
| P_lit raw p : peg_item (StringLeaf raw) p (tok_step (fun t => String.eqb (tstr t) (strip_quotes raw)) p)
| P_group r p res : peg_alts (rhs_alts r) p res -> peg_item (Group r) p res
| P_rhsitem r p res : peg_alts (rhs_alts r) p res -> peg_item (RhsItem r) p res
| P_opt_some i p v p' : peg_item i p (PSucc v p') -> peg_item (Opt i) p (PSucc v p')
| P_opt_none i p : peg_item i p PFail -> peg_item (Opt i) p (PSucc VNone p)
| P_opt_err i p m q : peg_item i p (PErr m q) -> peg_item (Opt i) p (PErr m q)
| P_rep0 id i p res : peg_star i p res -> peg_item (Repeat0 id i) p
    (match res with inl (vs, p') => PSucc (VList vs) p' | inr (m, q) => PErr m q end)
| P_rep1 id i p res : peg_star i p res -> peg_item (Repeat1 id i) p
    (match res with inl ([], _) => PFail | inl (vs, p') => PSucc (VList vs) p' | inr (m, q) => PErr m q end)
| P_gather_fail id s e p : peg_item e p PFail -> peg_item (Gather id s e) p PFail
| P_gather_err id s e p m q : peg_item e p (PErr m q) -> peg_item (Gather id s e) p (PErr m q)
| P_gather id s e p v p1 res : peg_item e p (PSucc v p1) -> peg_sep s e p1 res ->
    peg_item (Gather id s e) p
      (match res with inl (vs, p') => PSucc (VList (v :: vs)) p' | inr (m, q) => PErr m q end)
| P_pos_ok i p v p' : peg_item i p (PSucc v p') -> peg_item (PosLook i) p (PSucc v p)
| P_pos_fail i p : peg_item i p PFail -> peg_item (PosLook i) p PFail
| P_pos_err i p m q : peg_item i p (PErr m q) -> peg_item (PosLook i) p (PErr m q)
| P_neg_ok i p : peg_item i p PFail -> peg_item (NegLook i) p (PSucc VTrue p)
| P_neg_fail i p v p' : peg_item i p (PSucc v p') -> peg_item (NegLook i) p PFail
| P_neg_err i p m q : peg_item i p (PErr m q) -> peg_item (NegLook i) p (PErr m q)
| P_forced_ok i p v p' : peg_item i p (PSucc v p') -> peg_item (Forced i) p (PSucc v p')
| P_forced_fail i p : peg_item i p PFail -> peg_item (Forced i) p (PErr (forced_msg i) p)
| P_forced_err i p m q : peg_item i p (PErr m q) -> peg_item (Forced i) p (PErr m q)
| P_cut p : peg_item Cut p (PSucc VTrue p)

(* greedy repetition: all matches until the first failure *)
with peg_star : item -> nat -> (list value * nat) + (string * nat) -> Prop :=
| PS_stop i p : peg_item i p PFail -> peg_star i p (inl ([], p))
| PS_err i p m q : peg_item i p (PErr m q) -> peg_star i p (inr (m, q))
| PS_more i p v p1 res : peg_item i p (PSucc v p1) -> peg_star i p1 res ->
    peg_star i p (match res with inl (vs, p') => inl (v :: vs, p') | inr e => inr e end)

(* ( s e )* as used by s.e+ : stops (and backs up over the separator) when "s e" fails *)
with peg_sep : item -> item -> nat -> (list value * nat) + (string * nat) -> Prop :=
| PG_stop_s s e p : peg_item s p PFail -> peg_sep s e p (inl ([], p))
| PG_err_s s e p m q : peg_item s p (PErr m q) -> peg_sep s e p (inr (m, q))
| PG_stop_e s e p vs p1 : peg_item s p (PSucc vs p1) -> peg_item e p1 PFail -> peg_sep s e p (inl ([], p))
| PG_err_e s e p vs p1 m q : peg_item s p (PSucc vs p1) -> peg_item e p1 (PErr m q) -> peg_sep s e p (inr (m, q))
| PG_more s e p vs p1 v p2 res : peg_item s p (PSucc vs p1) -> peg_item e p1 (PSucc v p2) -> peg_sep s e p2 res ->
    peg_sep s e p (match res with inl (l, p') => inl (v :: l, p') | inr er => inr er end)

(* the items of alternative [a] from the k-th on; [cut] = a cut has been passed; lookaheads and cuts
   carry no value and bind no name *)
with peg_seq : alt -> nat -> list nitem -> nat -> list value -> list (string * value) -> bool -> sres -> Prop :=
| PQ_nil a k p vals env cut : peg_seq a k [] p vals env cut (SSucc vals env p)
| PQ_fail a k n ns p vals env cut : peg_item (ni_item n) p PFail ->
    peg_seq a k (n :: ns) p vals env cut (if cut then SCutFail else SFail)
| PQ_err a k n ns p vals env cut m q : peg_item (ni_item n) p (PErr m q) -> peg_seq a k (n :: ns) p vals env cut (SErr m q)
| PQ_step a k n ns p vals env cut v p1 res : peg_item (ni_item n) p (PSucc v p1) ->
    peg_seq a (S k) ns p1 (if is_lookahead (ni_item n) || is_cut (ni_item n) then vals else (vals ++ [v])%list)
            (if is_lookahead (ni_item n) then env else bind_name a k v env)
            (cut || is_cut (ni_item n)) res ->
    peg_seq a k (n :: ns) p vals env cut res

(* ordered choice: commits to the first alternative that succeeds; a failure after a cut commits too *)
with peg_alts : list alt -> nat -> pres -> Prop :=
| PA_nil p : peg_alts [] p PFail
| PA_ok a rest p vals env p' v : peg_seq a 0 (alt_items a) p [] [] false (SSucc vals env p') ->
    alt_value a vals env p p' = Some v -> peg_alts (a :: rest) p (PSucc v p')
| PA_next a rest p res : peg_seq a 0 (alt_items a) p [] [] false SFail -> peg_alts rest p res -> peg_alts (a :: rest) p res
| PA_cut a rest p : peg_seq a 0 (alt_items a) p [] [] false SCutFail -> peg_alts (a :: rest) p PFail
| PA_err a rest p m q : peg_seq a 0 (alt_items a) p [] [] false (SErr m q) -> peg_alts (a :: rest) p (PErr m q)
| PA_raise a rest p vals env p' : peg_seq a 0 (alt_items a) p [] [] false (SSucc vals env p') ->
    alt_value a vals env p p' = None -> peg_alts (a :: rest) p (PErr "action raises" p').

Definition peg_start (p : nat) (res : pres) : Prop := peg_item (NameLeaf "start") p res.

End Peg.
