(* More fuel never changes an answer: whenever an invocation of the runtime model terminates
   (any outcome but OutOfFuel), the same invocation with more fuel returns the same outcome and the
   same state.  Proved for every configuration (verbose x cache), by the open-recursion pattern. *)
From Coq Require Import List String NArith ZArith Bool Arith Lia.
From Pegen Require Import Base.StrUtil Base.Values Runtime.Tokenizer Sem.Peg Gen.Gen Runtime.Exec.
Import ListNotations.
Open Scope string_scope.

Section Mono.
Variable K : kinds.
Variable toks : list rtok.
Variable verbose use_cache : bool.
Variable M : ir_module.
Variable aeval : string -> env -> option value.
Variable exact_types token_dict : list (string * N).

Definition done (r : R) : Prop := fst r <> OutOfFuel.
(* g answers like f wherever f terminates *)
Definition ext (f g : pstate -> R) : Prop := forall s, done (f s) -> g s = f s.

Lemma ext_refl f : ext f f. Proof. intros s _. reflexivity. Qed.

Lemma bind_done (r : R) k : done (bind_r r k) -> done r.
Proof. destruct r as [[v| |] s]; cbn; intros H; [discriminate|discriminate|exact H]. Qed.

Lemma logged_ext n la f g : ext f g -> ext (logged n la f) (logged n la g).
Proof.
  intros H s Hd. unfold logged in *. assert (Hf : done (f s)) by (destruct (f s) as [[v| |] s']; cbn in *; [discriminate|discriminate|exact Hd]).
  rewrite (H s Hf). reflexivity.
Qed.

Lemma memoize_ext n a f g : ext f g -> ext (memoize toks verbose use_cache n a f) (memoize toks verbose use_cache n a g).
Proof.
  intros H s Hd. unfold memoize in *. destruct (negb use_cache); [exact (H s Hd)|].
  destruct (cache_find _ _) as [[tree e]|]; [reflexivity|].
  unfold bind_r in *. destruct (if verbose then showpeek toks s else (Ok VNone, s)) as [[v0| |] s0]; try reflexivity.
  assert (Hf : done (f s0)) by (destruct (f s0) as [[v| |] s']; cbn in *; [discriminate|discriminate|exact Hd]).
  rewrite (H s0 Hf). reflexivity.
Qed.

Lemma logger_ext f g : ext f g -> ext (logger_wrap toks verbose f) (logger_wrap toks verbose g).
Proof.
  intros H s Hd. unfold logger_wrap in *. destruct (negb verbose); [exact (H s Hd)|].
  unfold bind_r in *. destruct (showpeek toks s) as [[v0| |] s0]; try reflexivity. exact (H s0 Hd).
Qed.

Lemma grow_ext : forall fuel fuel' key mark f g lr lm, fuel <= fuel' -> ext f g ->
  ext (grow fuel key mark f lr lm) (grow fuel' key mark g lr lm).
Proof.
  induction fuel as [|k IH]; intros fuel' key mark f g lr lm Hle H s Hd; cbn [grow] in *; [exfalso; apply Hd; reflexivity|].
  destruct fuel' as [|k']; [lia|]. cbn [grow]. unfold bind_r in *.
  assert (Hf : done (f (with_pos s mark))) by (destruct (f (with_pos s mark)) as [[v| |] s']; cbn in *; [discriminate|discriminate|exact Hd]).
  rewrite (H _ Hf). destruct (f (with_pos s mark)) as [[result| |] s1]; try reflexivity.
  destruct (negb (truthy result)); [reflexivity|]. destruct (truthy lr && Nat.leb (pos s1) lm); [reflexivity|].
  apply IH; [lia|exact H|exact Hd].
Qed.

Lemma memoize_left_rec_ext fuel fuel' n f g : fuel <= fuel' -> ext f g ->
  ext (memoize_left_rec toks verbose fuel n f) (memoize_left_rec toks verbose fuel' n g).
Proof.
  intros Hle H s Hd. unfold memoize_left_rec in *. destruct (cache_find _ _) as [[tree e]|]; [reflexivity|].
  unfold bind_r in *. destruct (if verbose then showpeek toks s else (Ok VNone, s)) as [[v0| |] s0]; try reflexivity.
  match type of Hd with done (match ?X with _ => _ end) =>
    assert (Hg : done X) by (destruct X as [[v| |] s']; cbn in *; [discriminate|discriminate|exact Hd]) end.
  rewrite (grow_ext fuel fuel' _ _ f g _ _ Hle H _ Hg). reflexivity.
Qed.

Section Open.
Variable rec rec' : string -> pstate -> R.
Hypothesis Hrec : forall n, ext (rec n) (rec' n).

Notation rcall := (run_call K toks verbose use_cache M exact_types token_dict rec).
Notation rcall' := (run_call K toks verbose use_cache M exact_types token_dict rec').

Lemma run_call_ext : forall c, ext (rcall c) (rcall' c).
Proof.
  fix IH 1. intros c. destruct c as [n|a|c|positive head tail c| |c msg]; intros s Hd; cbn [run_call] in *.
  - destruct (find_meth M n); [exact (Hrec n s Hd)|reflexivity].
  - reflexivity.
  - pose proof (bind_done _ _ Hd) as H1. rewrite (IH c s H1). reflexivity.
  - assert (Hgen : ext
      (logged (if positive then "positive_lookahead" else "negative_lookahead") true
         (fun st => let mark := pos st in bind_r (rcall c st) (fun v st1 =>
            (Ok (if positive then v else if truthy v then VFalse else VTrue), with_pos st1 mark))))
      (logged (if positive then "positive_lookahead" else "negative_lookahead") true
         (fun st => let mark := pos st in bind_r (rcall' c st) (fun v st1 =>
            (Ok (if positive then v else if truthy v then VFalse else VTrue), with_pos st1 mark))))).
    { apply logged_ext. intros st Hs. cbn zeta in *. rewrite (IH c st (bind_done _ _ Hs)). reflexivity. }
    destruct c as [n|a|c0|p0 h0 t0 c0| |c0 msg0]; try (exact (Hgen s Hd)).
    rewrite (IH c0 s (bind_done _ _ Hd)). reflexivity.
  - reflexivity.
  - rewrite (IH c s (bind_done _ _ Hd)). reflexivity.
Qed.

Notation rconjs := (run_conjs K toks verbose use_cache M exact_types token_dict rec).
Notation rconjs' := (run_conjs K toks verbose use_cache M exact_types token_dict rec').

Lemma run_conjs_ext cs : forall e s, fst (fst (rconjs cs e s)) <> OutOfFuel -> rconjs' cs e s = rconjs cs e s.
Proof.
  induction cs as [|c cs IHc]; intros e s Hd; cbn [run_conjs] in *; [reflexivity|].
  assert (H1 : done (rcall (cj_call c) s)).
  { destruct (rcall (cj_call c) s) as [[v| |] s']; cbn in *; [discriminate|discriminate|exact Hd]. }
  rewrite (run_call_ext _ _ H1). destruct (rcall (cj_call c) s) as [[v| |] s']; try reflexivity.
  match goal with |- context [if ?b then _ else _] => destruct b end; [|reflexivity].
  apply IHc. exact Hd.
Qed.

Notation ralts := (run_alts K toks verbose use_cache M aeval exact_types token_dict rec).
Notation ralts' := (run_alts K toks verbose use_cache M aeval exact_types token_dict rec').

Lemma run_alts_ext m mark start_tok prev alts : forall e0 s, done (ralts m mark start_tok prev alts e0 s) ->
  ralts' m mark start_tok prev alts e0 s = ralts m mark start_tok prev alts e0 s.
Proof.
  induction alts as [|a alts IHa]; intros e0 s Hd; cbn [run_alts] in *; [reflexivity|].
  destruct (a_guard a && negb (invalid s)); [apply IHa; exact Hd|].
  assert (H1 : fst (fst (rconjs (a_conjs a) e0 s)) <> OutOfFuel).
  { destruct (rconjs (a_conjs a) e0 s) as [[[v| |] e] s']; cbn in *; [discriminate|discriminate|exact Hd]. }
  rewrite (run_conjs_ext _ _ _ H1). destruct (rconjs (a_conjs a) e0 s) as [[[v| |] e] s']; try reflexivity.
  destruct (truthy v); [reflexivity|]. destruct (a_has_cut a && _); [reflexivity|]. apply IHa. exact Hd.
Qed.

Notation rloop := (run_loop K toks verbose use_cache M aeval exact_types token_dict rec).
Notation rloop' := (run_loop K toks verbose use_cache M aeval exact_types token_dict rec').

Lemma run_loop_ext m a : forall fuel fuel' mark start_tok children e0 s, fuel <= fuel' ->
  done (rloop fuel m a mark start_tok children e0 s) ->
  rloop' fuel' m a mark start_tok children e0 s = rloop fuel m a mark start_tok children e0 s.
Proof.
  induction fuel as [|f IHf]; intros fuel' mark start_tok children e0 s Hle Hd; cbn [run_loop] in *; [exfalso; apply Hd; reflexivity|].
  destruct fuel' as [|f']; [lia|]. cbn [run_loop].
  destruct (a_guard a && negb (invalid s)); [reflexivity|].
  assert (H1 : fst (fst (rconjs (a_conjs a) e0 s)) <> OutOfFuel).
  { destruct (rconjs (a_conjs a) e0 s) as [[[v| |] e] s']; cbn in *; [discriminate|discriminate|exact Hd]. }
  rewrite (run_conjs_ext _ _ _ H1). destruct (rconjs (a_conjs a) e0 s) as [[[v| |] e] s']; try reflexivity.
  destruct (truthy v); [|reflexivity].
  destruct (a_locations a && _); [reflexivity|]. destruct (aeval (a_action a) _); [|reflexivity].
  apply IHf; [lia|exact Hd].
Qed.

Lemma run_body_ext fuel fuel' m : fuel <= fuel' ->
  ext (run_body K toks verbose use_cache M aeval exact_types token_dict rec fuel m)
      (run_body K toks verbose use_cache M aeval exact_types token_dict rec' fuel' m).
Proof.
  intros Hle s Hd. unfold run_body in *.
  set (st0 := if m_without_invalid m then with_invalid s false else s) in *.
  assert (Hgo : forall start_tok st1,
    done (if m_loop m
     then match m_alts m with
          | [a] => match rloop fuel m a (pos st0) start_tok [] [] st1 with
                   | (Ok v, st2) => (Ok (loop_ret m v), if m_without_invalid m then with_invalid st2 (invalid s) else st2)
                   | other => other end
          | _ => (Raise XAssertion, st1) end
     else ralts m (pos st0) start_tok (invalid s) (m_alts m) [] st1) ->
    (if m_loop m
     then match m_alts m with
          | [a] => match rloop' fuel' m a (pos st0) start_tok [] [] st1 with
                   | (Ok v, st2) => (Ok (loop_ret m v), if m_without_invalid m then with_invalid st2 (invalid s) else st2)
                   | other => other end
          | _ => (Raise XAssertion, st1) end
     else ralts' m (pos st0) start_tok (invalid s) (m_alts m) [] st1) =
    (if m_loop m
     then match m_alts m with
          | [a] => match rloop fuel m a (pos st0) start_tok [] [] st1 with
                   | (Ok v, st2) => (Ok (loop_ret m v), if m_without_invalid m then with_invalid st2 (invalid s) else st2)
                   | other => other end
          | _ => (Raise XAssertion, st1) end
     else ralts m (pos st0) start_tok (invalid s) (m_alts m) [] st1)).
  { intros start_tok st1 H. destruct (m_loop m).
    - destruct (m_alts m) as [|a [|a2 rest]]; try reflexivity.
      assert (H1 : done (rloop fuel m a (pos st0) start_tok [] [] st1)).
      { destruct (rloop fuel m a (pos st0) start_tok [] [] st1) as [[v| |] s']; cbn in *; [discriminate|discriminate|exact H]. }
      rewrite (run_loop_ext m a fuel fuel' _ _ _ _ _ Hle H1). reflexivity.
    - apply run_alts_ext. exact H. }
  destruct (m_locations m).
  - destruct (peek toks st0) as [[t|] s1]; [apply Hgo; exact Hd|reflexivity].
  - apply Hgo. exact Hd.
Qed.
End Open.

Lemma run_meth_ext fuel fuel' rec rec' : fuel <= fuel' -> (forall n, ext (rec n) (rec' n)) ->
  forall n, ext (run_meth K toks verbose use_cache M aeval exact_types token_dict fuel rec n)
                (run_meth K toks verbose use_cache M aeval exact_types token_dict fuel' rec' n).
Proof.
  intros Hle Hrec n s Hd. unfold run_meth in *. destruct (find_meth M n) as [m|]; [|reflexivity].
  revert s Hd. apply logged_ext. pose proof (run_body_ext rec rec' Hrec fuel fuel' m Hle) as Hb.
  destruct (m_deco m).
  - apply memoize_ext. exact Hb.
  - apply memoize_left_rec_ext; [exact Hle|exact Hb].
  - apply logger_ext. exact Hb.
Qed.

Theorem fuel_mono : forall fuel fuel' n, fuel <= fuel' ->
  ext (run K toks verbose use_cache M aeval exact_types token_dict fuel n)
      (run K toks verbose use_cache M aeval exact_types token_dict fuel' n).
Proof.
  induction fuel as [|f IH]; intros fuel' n Hle s Hd; cbn [run] in *; [exfalso; apply Hd; reflexivity|].
  destruct fuel' as [|f']; [lia|]. cbn [run].
  apply run_meth_ext; [lia| |exact Hd]. intros n0. apply IH. lia.
Qed.
End Mono.
