(* Basic facts about the reference semantics: positions never decrease; the relation is functional. *)
From Coq Require Import List String NArith Bool Arith Lia.
From Pegen Require Import Base.StrUtil Base.Values Grammar.Ast Runtime.Tokenizer Sem.Peg.
Import ListNotations.

Scheme peg_item_min := Minimality for peg_item Sort Prop
  with peg_star_min := Minimality for peg_star Sort Prop
  with peg_sep_min := Minimality for peg_sep Sort Prop
  with peg_seq_min := Minimality for peg_seq Sort Prop
  with peg_alts_min := Minimality for peg_alts Sort Prop.
Combined Scheme peg_mutind from peg_item_min, peg_star_min, peg_sep_min, peg_seq_min, peg_alts_min.

Section P.
Variable K : kinds.
Variable rs : list rule.
Variable toks : list rtok.
Variable keywords soft_keywords : list string.
Variable aeval : alt -> list value -> list (string * value) -> nat -> nat -> option value.
Variable item_name : alt -> nat -> option string.
Variable forced_msg : item -> string.

Notation pitem := (peg_item K rs toks keywords soft_keywords aeval item_name forced_msg).
Notation pstar := (peg_star K rs toks keywords soft_keywords aeval item_name forced_msg).
Notation psep := (peg_sep K rs toks keywords soft_keywords aeval item_name forced_msg).
Notation pseq := (peg_seq K rs toks keywords soft_keywords aeval item_name forced_msg).
Notation palts := (peg_alts K rs toks keywords soft_keywords aeval item_name forced_msg).

Lemma tok_step_mono test p v p' : tok_step toks test p = PSucc v p' -> p <= p'.
Proof. unfold tok_step. destruct (nth_error toks p); [destruct (test r)|]; intros [= _ <-] || discriminate; lia. Qed.

Lemma mono_all :
  (forall i p r, pitem i p r -> forall v p', r = PSucc v p' -> p <= p') /\
  (forall i p r, pstar i p r -> forall vs p', r = inl (vs, p') -> p <= p') /\
  (forall s e p r, psep s e p r -> forall vs p', r = inl (vs, p') -> p <= p') /\
  (forall a k ns p vals env cut r, pseq a k ns p vals env cut r -> forall vals' env' p', r = SSucc vals' env' p' -> p <= p') /\
  (forall alts p r, palts alts p r -> forall v p', r = PSucc v p' -> p <= p').
Proof.
  apply peg_mutind; intros; subst; try discriminate;
    try (match goal with H : tok_step _ _ _ = PSucc _ _ |- _ => apply tok_step_mono in H; lia end);
    try (match goal with H : PSucc _ _ = PSucc _ _ |- _ => injection H as <- <- end);
    try (match goal with H : SSucc _ _ _ = SSucc _ _ _ |- _ => injection H as <- <- <- end);
    try (match goal with H : inl _ = inl _ |- _ => injection H as <- <- end);
    try lia; eauto.
  all: try (match goal with H : context [match ?r with _ => _ end] |- _ => destruct r as [[? ?]|[? ?]]; try discriminate end).
  all: try (match goal with H : PSucc _ _ = PSucc _ _ |- _ => injection H as <- <- end).
  all: try (match goal with H : inl _ = inl _ |- _ => injection H as <- <- end).
  all: try (match goal with l : list value |- _ => destruct l; try discriminate end).
  all: try (match goal with H : PSucc _ _ = PSucc _ _ |- _ => injection H as <- <- end).
  all: repeat match goal with
       | H : forall v p', PSucc ?a ?b = PSucc v p' -> _ |- _ => specialize (H _ _ eq_refl)
       | H : forall vs p', inl (?a, ?b) = inl (vs, p') -> _ |- _ => specialize (H _ _ eq_refl)
       | H : forall a b c, SSucc ?x ?y ?z = SSucc a b c -> _ |- _ => specialize (H _ _ _ eq_refl)
       end; try lia.
Qed.

Definition peg_item_mono := proj1 mono_all.

Lemma tok_step_ext t1 t2 p : (forall t, t1 t = t2 t) -> tok_step toks t1 p = tok_step toks t2 p.
Proof. intros H. unfold tok_step. destruct (nth_error toks p); [rewrite H|]; reflexivity. Qed.

(* use an induction hypothesis "any other derivation gives the same result" on a derivation at hand *)
Ltac use_ih :=
  repeat match goal with
  | IH : forall r2, pitem ?i ?p r2 -> ?r = r2, Hd : pitem ?i ?p ?r' |- _ =>
      let E := fresh "E" in pose proof (IH _ Hd) as E; clear Hd; try discriminate E
  | IH : forall r2, pstar ?i ?p r2 -> ?r = r2, Hd : pstar ?i ?p ?r' |- _ =>
      let E := fresh "E" in pose proof (IH _ Hd) as E; clear Hd; try discriminate E
  | IH : forall r2, psep ?s ?e ?p r2 -> ?r = r2, Hd : psep ?s ?e ?p ?r' |- _ =>
      let E := fresh "E" in pose proof (IH _ Hd) as E; clear Hd; try discriminate E
  | IH : forall r2, pseq ?a ?k ?ns ?p ?v ?en ?c r2 -> ?r = r2, Hd : pseq ?a ?k ?ns ?p ?v ?en ?c ?r' |- _ =>
      let E := fresh "E" in pose proof (IH _ Hd) as E; clear Hd; try discriminate E
  | IH : forall r2, palts ?a ?p r2 -> ?r = r2, Hd : palts ?a ?p ?r' |- _ =>
      let E := fresh "E" in pose proof (IH _ Hd) as E; clear Hd; try discriminate E
  end.

Ltac inj :=
  repeat match goal with
  | E : PSucc _ _ = PSucc _ _ |- _ => injection E as ? ?; subst
  | E : inl _ = inl _ |- _ => injection E as ?; subst
  | E : inr _ = inr _ |- _ => injection E as ?; subst
  | E : (_, _) = (_, _) |- _ => injection E as ? ?; subst
  | E : PErr _ _ = PErr _ _ |- _ => injection E as ? ?; subst
  | E : SSucc _ _ _ = SSucc _ _ _ |- _ => injection E as ? ? ?; subst
  | E : SErr _ _ = SErr _ _ |- _ => injection E as ? ?; subst
  | H : find_rule _ _ = Some ?a, H' : find_rule _ _ = Some ?b |- _ => rewrite H in H'; injection H' as <-
  | E : ?x = ?x |- _ => clear E
  end.
Ltac crunch := repeat (progress (use_ih; inj; subst)).

Lemma det_all :
  (forall i p r1, pitem i p r1 -> forall r2, pitem i p r2 -> r1 = r2) /\
  (forall i p r1, pstar i p r1 -> forall r2, pstar i p r2 -> r1 = r2) /\
  (forall s e p r1, psep s e p r1 -> forall r2, psep s e p r2 -> r1 = r2) /\
  (forall a k ns p vals env cut r1, pseq a k ns p vals env cut r1 -> forall r2, pseq a k ns p vals env cut r2 -> r1 = r2) /\
  (forall alts p r1, palts alts p r1 -> forall r2, palts alts p r2 -> r1 = r2).
Proof.
  apply peg_mutind; intros;
    match goal with Hlast : _ |- _ => inversion Hlast; subst; clear Hlast end;
    try congruence; crunch; try congruence; try reflexivity.
  all: try (apply tok_step_ext; intros t0;
            match goal with H1 : forall t, kind_match _ _ _ _ t = Some (?a t), H2 : forall t, kind_match _ _ _ _ t = Some (?b t) |- _ =>
              specialize (H1 t0); specialize (H2 t0); congruence end).
  all: crunch; try reflexivity; try congruence; auto.
Qed.

Definition peg_item_det := proj1 det_all.
End P.
