(* Refinement of the tokenizer wrapper model to a cursor over the filtered token list. *)
From Coq Require Import List String NArith Bool Arith Lia.
From Pegen Require Import Base.StrUtil Runtime.Tokenizer.
Import ListNotations.

Section TP.
Variable C : tokconsts.
Variable has_path : bool.
Variable file_lines : list string.
Variable raw0 : list rtok.

Notation filt := (filt C).
Notation filt_step := (filt_step C).
Notation fetch := (fetch C has_path).
Notation do_peek := (do_peek C has_path).
Notation step := (step C has_path file_lines).
Notation run := (run C has_path file_lines).

Definition K : list rtok := filt raw0.

(* ---------- the filter only ever appends ---------- *)
Lemma fold_step_extends l acc : exists rest, fold_left filt_step l acc = (acc ++ rest)%list.
Proof.
  revert acc; induction l as [|t l IH]; intros acc; cbn.
  - exists []. now rewrite app_nil_r.
  - unfold Tokenizer.filt_step at 2. destruct (dropped C (last_opt acc) t).
    + apply IH.
    + destruct (IH (acc ++ [t])%list) as [rest ->]. exists (t :: rest). now rewrite <- app_assoc.
Qed.

Lemma filt_app l l' : exists rest, filt (l ++ l') = (filt l ++ rest)%list.
Proof. unfold Tokenizer.filt. rewrite fold_left_app. apply fold_step_extends. Qed.

Lemma filt_snoc l t : filt (l ++ [t]) = filt_step (filt l) t.
Proof. unfold Tokenizer.filt. now rewrite fold_left_app. Qed.

Lemma firstn_length_app {A} (l l' : list A) : firstn (List.length l) (l ++ l') = l.
Proof. induction l; cbn; [destruct l'; reflexivity | now f_equal]. Qed.

(* ---------- the fetch loop ---------- *)
Lemma fetch_spec s : forall pre p tk ls i s' p' tk' ls' ok,
  raw0 = (pre ++ s)%list -> List.length pre = p -> tk = filt pre -> i <= List.length tk ->
  fetch s p tk ls i = (s', p', tk', ls', ok) ->
  exists pre', raw0 = (pre' ++ s')%list /\ List.length pre' = p' /\ tk' = filt pre' /\ p <= p' /\
    (exists ext, tk' = (tk ++ ext)%list) /\
    List.length tk' = (if ok then Nat.max (List.length tk) (S i) else i) /\
    (ok = false -> s' = [] /\ i = List.length tk') /\
    (forall k, p <= k < p' -> List.length (filt (firstn k raw0)) = i).
Proof.
  induction s as [|t s IH]; intros pre p tk ls i s' p' tk' ls' ok Hraw Hp Htk Hi; cbn [Tokenizer.fetch].
  - destruct (Nat.eqb i (List.length tk)) eqn:E; cbn [negb]; intros [= <- <- <- <- <-].
    + apply Nat.eqb_eq in E. exists pre. repeat split; auto; try lia.
      exists []. now rewrite app_nil_r.
    + apply Nat.eqb_neq in E. exists pre. repeat split; auto; try lia; try discriminate.
      exists []. now rewrite app_nil_r.
  - destruct (Nat.eqb i (List.length tk)) eqn:E; cbn [negb].
    2:{ intros [= <- <- <- <- <-]. apply Nat.eqb_neq in E. exists pre. repeat split; auto; try lia; try discriminate.
        exists []. now rewrite app_nil_r. }
    apply Nat.eqb_eq in E.
    assert (Hraw' : raw0 = ((pre ++ [t]) ++ s)%list) by (now rewrite <- app_assoc).
    assert (Hlen' : List.length (pre ++ [t]) = S p) by (rewrite app_length; cbn; lia).
    assert (Hk0 : List.length (filt (firstn p raw0)) = i).
    { rewrite Hraw, <- Hp, firstn_length_app, <- Htk. lia. }
    destruct (dropped C (last_opt tk) t) eqn:D; intros H.
    + assert (Htk' : tk = filt (pre ++ [t])).
      { rewrite filt_snoc. unfold Tokenizer.filt_step. rewrite <- Htk, D. reflexivity. }
      destruct (IH _ _ _ _ _ _ _ _ _ _ Hraw' Hlen' Htk' Hi H) as (pre' & H1 & H2 & H3 & H4 & H5 & H6 & H7 & H8).
      exists pre'. do 3 (split; [assumption|]). split; [lia|]. do 3 (split; [assumption|]).
      intros k Hk. destruct (Nat.eq_dec k p) as [->|Hne]; [exact Hk0 | apply H8; lia].
    + assert (Htk' : (tk ++ [t])%list = filt (pre ++ [t])).
      { rewrite filt_snoc. unfold Tokenizer.filt_step. rewrite <- Htk, D. reflexivity. }
      assert (Hi' : i <= List.length (tk ++ [t])) by (rewrite app_length; cbn; lia).
      (* after appending, the loop condition is false: unfold one step of the recursion *)
      destruct s as [|t2 s2]; cbn [Tokenizer.fetch] in H;
        rewrite app_length in H; cbn [List.length] in H;
        replace (Nat.eqb i (List.length tk + 1)) with false in H by (symmetry; apply Nat.eqb_neq; lia);
        cbn [negb] in H; injection H as <- <- <- <- <-.
      * exists (pre ++ [t])%list. repeat split; auto; try lia; try discriminate.
        -- exists [t]; reflexivity.
        -- rewrite app_length; cbn; lia.
        -- intros k Hk. assert (k = p) by lia. subst k. exact Hk0.
      * exists (pre ++ [t])%list. repeat split; auto; try lia; try discriminate.
        -- exists [t]; reflexivity.
        -- rewrite app_length; cbn; lia.
        -- intros k Hk. assert (k = p) by lia. subst k. exact Hk0.
Qed.

(* ---------- invariant ---------- *)
Record Inv (st : tkz) : Prop := {
  inv_split : exists pre, raw0 = (pre ++ src st)%list /\ List.length pre = pulled st /\ toks st = filt pre;
  inv_idx : idx st <= List.length (toks st);
  inv_lazy : forall k, k < pulled st -> List.length (filt (firstn k raw0)) < hw st
}.

Lemma inv_init : Inv (init raw0).
Proof.
  split; cbn.
  - exists []. repeat split; reflexivity.
  - lia.
  - intros k Hk; lia.
Qed.

Lemma toks_prefix_K st : Inv st -> exists rest, K = (toks st ++ rest)%list.
Proof.
  intros [(pre & Hraw & _ & Htk) _ _]. unfold K. rewrite Hraw, Htk. apply filt_app.
Qed.

Definition spec_out (i : nat) : out := match nth_error K i with Some t => OTok t | None => OStop end.

Lemma do_peek_spec st st' o : Inv st -> do_peek st = (st', o) ->
  Inv st' /\ o = spec_out (idx st) /\ idx st' = idx st /\
  List.length (toks st') = (if Nat.ltb (idx st) (List.length K) then Nat.max (List.length (toks st)) (S (idx st))
                            else List.length K) /\
  (exists ext, toks st' = (toks st ++ ext)%list).
Proof.
  intros HI. pose proof HI as [(pre & Hraw & Hp & Htk) Hidx Hlazy]. unfold Tokenizer.do_peek.
  destruct (fetch (src st) (pulled st) (toks st) (lines st) (idx st)) as [[[[s' p'] tk'] ls'] ok] eqn:F.
  destruct (fetch_spec _ _ _ _ _ _ _ _ _ _ _ Hraw Hp Htk Hidx F)
    as (pre' & H1 & H2 & H3 & H4 & [ext H5] & H6 & H7 & H8).
  assert (HK : exists rest, K = (tk' ++ rest)%list) by (unfold K; rewrite H1, H3; apply filt_app).
  destruct HK as [rest HK].
  set (st1 := {| src := s'; pulled := p'; toks := tk'; idx := idx st; lines := ls';
                 hw := Nat.max (hw st) (S (idx st)) |}).
  assert (HI1 : Inv st1).
  { split; cbn.
    - exists pre'. auto.
    - destruct ok; lia.
    - intros k Hk. destruct (Nat.lt_ge_cases k (pulled st)) as [Hlt|Hge].
      + specialize (Hlazy k Hlt). lia.
      + rewrite (H8 k) by lia. lia. }
  destruct ok.
  - assert (Hlt : idx st < List.length tk') by lia.
    destruct (nth_error tk' (idx st)) as [t|] eqn:N; [|apply nth_error_None in N; lia].
    intros [= <- <-]. split; [exact HI1|]. cbn [idx toks].
    assert (HKlen : idx st < List.length K) by (rewrite HK, app_length; lia).
    apply Nat.ltb_lt in HKlen. rewrite HKlen.
    repeat split; auto; [|exists ext; exact H5].
    unfold spec_out. rewrite HK, nth_error_app1 by lia. now rewrite N.
  - destruct (H7 eq_refl) as [-> Hlen]. intros [= <- <-]. split; [exact HI1|]. cbn [idx toks].
    assert (rest = []).
    { rewrite app_nil_r in H1. subst pre'. unfold K in HK. rewrite <- H3 in HK.
      rewrite <- (app_nil_r tk') in HK at 1. now apply app_inv_head in HK. }
    subst rest. rewrite app_nil_r in HK.
    assert (HKlen : Nat.ltb (idx st) (List.length K) = false) by (apply Nat.ltb_ge; rewrite HK; lia).
    rewrite HKlen. repeat split; auto; [| now rewrite HK | exists ext; exact H5].
    unfold spec_out. rewrite HK.
    destruct (nth_error tk' (idx st)) eqn:N; [|reflexivity].
    assert (idx st < List.length tk') by (apply nth_error_Some; congruence). lia.
Qed.

(* ---------- the abstract cursor ---------- *)
Record acur := { ac : nat; af : nat }.      (* cursor index; how many filtered tokens are fetched *)
Definition abs (st : tkz) : acur := {| ac := idx st; af := List.length (toks st) |}.

Definition a_peek (a : acur) : acur * out :=
  match nth_error K (ac a) with
  | Some t => ({| ac := ac a; af := Nat.max (af a) (S (ac a)) |}, OTok t)
  | None => ({| ac := ac a; af := List.length K |}, OStop)
  end.

(* None = not constrained by the cursor specification (get_lines: see the line theorems) *)
Definition astep (a : acur) (o : op) : acur * option out :=
  match o with
  | Peek => let '(a', r) := a_peek a in (a', Some r)
  | GetNext => let '(a', r) := a_peek a in
               match r with OTok _ => ({| ac := S (ac a'); af := af a' |}, Some r) | _ => (a', Some r) end
  | Mark => (a, Some (ONat (ac a)))
  | Reset m => if Nat.eqb m (ac a) then (a, Some ONone)
               else if Nat.leb m (af a) then ({| ac := m; af := af a |}, Some ONone)
               else (a, Some OAssert)
  | Diagnose => match af a with
                | O => let '(a', r) := a_peek a in (a', Some r)
                | S n => (a, Some (spec_out n))      (* the furthest token fetched *)
                end
  | LastNonWs => (a, Some (match last_non_ws C (rev (firstn (ac a) K)) with
                           | Some t => OTok t | None => OUnbound end))
  | GetLines _ => (a, None)
  end.

Definition out_ok (o : out) (ao : option out) : Prop := match ao with Some x => o = x | None => True end.

Lemma a_peek_abs st st' o : Inv st -> do_peek st = (st', o) -> a_peek (abs st) = (abs st', o).
Proof.
  intros HI H. destruct (do_peek_spec _ _ _ HI H) as (HI' & Ho & Hi & Hlen & _).
  unfold a_peek, abs; cbn [ac af]. subst o. unfold spec_out. rewrite Hi, Hlen.
  destruct (nth_error K (idx st)) eqn:N.
  - assert (idx st < List.length K) by (apply nth_error_Some; congruence).
    replace (Nat.ltb (idx st) (List.length K)) with true by (symmetry; now apply Nat.ltb_lt). reflexivity.
  - apply nth_error_None in N.
    replace (Nat.ltb (idx st) (List.length K)) with false by (symmetry; now apply Nat.ltb_ge). reflexivity.
Qed.

Lemma last_opt_nth (l : list rtok) n : List.length l = S n -> last_opt l = nth_error l n.
Proof.
  intros H. unfold last_opt.
  destruct (rev l) as [|t r] eqn:E.
  - apply (f_equal (@List.length _)) in E. rewrite rev_length in E. cbn in E; lia.
  - assert (l = (rev r ++ [t])%list) by (rewrite <- (rev_involutive l), E; reflexivity).
    subst l. rewrite app_length in H; cbn in H.
    rewrite nth_error_app2 by lia. replace (n - List.length (rev r)) with 0 by lia. reflexivity.
Qed.

Lemma set_idx_inv st m : Inv st -> m <= List.length (toks st) -> Inv (set_idx st m).
Proof. intros [H1 H2 H3] Hm. split; cbn; auto. Qed.

Theorem step_refines st o st' r : Inv st -> step st o = (st', r) ->
  Inv st' /\ exists ao, astep (abs st) o = (abs st', ao) /\ out_ok r ao.
Proof.
  intros HI. destruct o; cbn [Tokenizer.step astep].
  - (* Peek *) intros H. destruct (do_peek_spec _ _ _ HI H) as (HI' & _).
    rewrite (a_peek_abs _ _ _ HI H). split; [exact HI'|]. eexists; split; [reflexivity|reflexivity].
  - (* GetNext *) destruct (do_peek st) as [st1 r1] eqn:P.
    destruct (do_peek_spec _ _ _ HI P) as (HI1 & Ho & Hi & Hlen & _).
    rewrite (a_peek_abs _ _ _ HI P).
    destruct r1; intros [= <- <-]; try (split; [exact HI1|]; eexists; split; reflexivity).
    assert (Hlt : idx st1 < List.length (toks st1)).
    { rewrite Hi, Hlen. unfold spec_out in Ho. destruct (nth_error K (idx st)) eqn:N; [|discriminate].
      assert (idx st < List.length K) by (apply nth_error_Some; congruence).
      replace (Nat.ltb (idx st) (List.length K)) with true by (symmetry; now apply Nat.ltb_lt). lia. }
    split; [apply set_idx_inv; [exact HI1 | lia]|].
    eexists; split; [reflexivity|reflexivity].
  - (* Mark *) intros [= <- <-]. split; [exact HI|]. eexists; split; reflexivity.
  - (* Reset *) unfold abs at 1 2 3; cbn [ac af].
    destruct (Nat.eqb m (idx st)) eqn:E1.
    + intros [= <- <-]. split; [exact HI|]. eexists; split; reflexivity.
    + destruct (Nat.leb m (List.length (toks st))) eqn:E2; intros [= <- <-].
      * apply Nat.leb_le in E2. split; [apply set_idx_inv; assumption|]. eexists; split; reflexivity.
      * split; [exact HI|]. eexists; split; reflexivity.
  - (* Diagnose *) unfold abs at 1; cbn [af].
    destruct (toks st) as [|t0 tk0] eqn:T; cbn [List.length].
    + destruct (do_peek st) as [st1 r1] eqn:P.
      destruct (do_peek_spec _ _ _ HI P) as (HI1 & Ho & Hi & Hlen & _).
      rewrite (a_peek_abs _ _ _ HI P).
      pose proof (inv_idx _ HI) as Hidx. rewrite T in Hidx. cbn in Hidx. assert (Hi0 : idx st = 0) by lia.
      destruct r1 as [tp| | | | | | | | |];
        try (intros [= <- <-]; split; [exact HI1|]; eexists; split; reflexivity).
      (* the token returned by peek at 0 is also the last of the one-element buffer *)
      rewrite T in Hlen. cbn [List.length] in Hlen. rewrite Hi0 in Hlen.
      unfold spec_out in Ho. rewrite Hi0 in Ho.
      destruct (nth_error K 0) as [t1|] eqn:N; [|discriminate]. injection Ho as ->.
      assert (0 < List.length K) by (apply nth_error_Some; congruence).
      replace (Nat.ltb 0 (List.length K)) with true in Hlen by (symmetry; now apply Nat.ltb_lt).
      cbn in Hlen.
      rewrite (last_opt_nth _ 0 Hlen).
      destruct (toks_prefix_K _ HI1) as [rest HK].
      assert (Hn0 : nth_error (toks st1) 0 = Some t1).
      { rewrite HK in N. rewrite nth_error_app1 in N by lia. exact N. }
      rewrite Hn0. intros [= <- <-]. split; [exact HI1|]. eexists; split; reflexivity.
    + rewrite (last_opt_nth (t0 :: tk0) (List.length tk0)) by reflexivity.
      destruct (toks_prefix_K _ HI) as [rest HK]. rewrite T in HK.
      assert (Hn : nth_error (t0 :: tk0) (List.length tk0) = nth_error K (List.length tk0)).
      { rewrite HK. rewrite nth_error_app1 by (cbn; lia). reflexivity. }
      destruct (nth_error (t0 :: tk0) (List.length tk0)) as [t|] eqn:N.
      * intros [= <- <-]. split; [exact HI|]. eexists; split; [reflexivity|].
        cbn. unfold spec_out. now rewrite <- Hn.
      * apply nth_error_None in N. cbn in N. lia.
  - (* LastNonWs *)
    destruct (toks_prefix_K _ HI) as [rest HK].
    assert (Hf : firstn (idx st) (toks st) = firstn (idx st) K).
    { rewrite HK. rewrite firstn_app. pose proof (inv_idx _ HI).
      replace (idx st - List.length (toks st)) with 0 by lia. cbn. now rewrite app_nil_r. }
    change (ac (abs st)) with (idx st). rewrite <- Hf.
    destruct (last_non_ws C (rev (firstn (idx st) (toks st)))); intros [= <- <-];
      (split; [exact HI|]; eexists; split; reflexivity).
  - (* GetLines: state unchanged *)
    assert (forall r0, (st, r0) = (st', r) -> Inv st' /\ exists ao, (abs st, @None out) = (abs st', ao) /\ out_ok r ao).
    { intros r0 [= <- <-]. split; [exact HI|]. eexists; split; [reflexivity|exact I]. }
    destruct (lines st).
    + destruct has_path; [destruct (get_all _ ls)|]; apply H.
    + destruct (get_all _ ls); apply H.
Qed.

(* ---------- whole runs ---------- *)
Fixpoint arun (a : acur) (ops : list op) : acur * list (option out) :=
  match ops with
  | [] => (a, [])
  | o :: ops' => let '(a1, r) := astep a o in let '(a2, rs) := arun a1 ops' in (a2, r :: rs)
  end.

Theorem run_refines ops : forall st st' outs, Inv st -> run st ops = (st', outs) ->
  Inv st' /\ exists aouts, arun (abs st) ops = (abs st', aouts) /\ Forall2 out_ok outs aouts.
Proof.
  induction ops as [|o ops IH]; intros st st' outs HI; cbn [Tokenizer.run arun].
  - intros [= <- <-]. split; [exact HI|]. exists []. split; [reflexivity|constructor].
  - destruct (step st o) as [st1 r] eqn:S1. destruct (run st1 ops) as [st2 rs] eqn:R. intros [= <- <-].
    destruct (step_refines _ _ _ _ HI S1) as (HI1 & ao & HA & Hok).
    destruct (IH _ _ _ HI1 R) as (HI2 & aouts & HR & HF).
    split; [exact HI2|]. rewrite HA, HR. eexists; split; [reflexivity|]. constructor; assumption.
Qed.

End TP.

(* corollaries used by Props/C14.v *)
Section Corollaries.
Variable C : tokconsts.
Variable has_path : bool.
Variable file_lines : list string.
Variable raw0 : list rtok.

Lemma reachable_inv ops st outs :
  run C has_path file_lines (init raw0) ops = (st, outs) -> Inv C raw0 st.
Proof. intros H. exact (proj1 (run_refines C has_path file_lines raw0 ops _ _ _ (inv_init C raw0) H)). Qed.

Lemma diagnose_keeps_cursor st st' r :
  Inv C raw0 st -> step C has_path file_lines st Diagnose = (st', r) -> idx st' = idx st.
Proof.
  intros HI H. destruct (step_refines C has_path file_lines raw0 _ _ _ _ HI H) as (_ & ao & HA & _).
  assert (E : ac (fst (astep C raw0 (abs st) Diagnose)) = ac (abs st)).
  { cbn [astep]. destruct (af (abs st)); [unfold a_peek; destruct (nth_error _ _)|]; reflexivity. }
  rewrite HA in E. exact E.
Qed.

Lemma lazy_pull ops st outs :
  run C has_path file_lines (init raw0) ops = (st, outs) ->
  forall k, k < pulled st -> List.length (filt C (firstn k raw0)) < hw st.
Proof. intros H. exact (inv_lazy _ _ _ (reachable_inv _ _ _ H)). Qed.

End Corollaries.
