(* Facts about the generator model. *)
From Coq Require Import List String Ascii NArith Bool Arith Lia.
From Pegen Require Import Base.StrUtil.
Import ListNotations.
Open Scope string_scope.

(* ---------- byte-wise string order ---------- *)
Lemma str_ltb_irrefl a : str_ltb a a = false.
Proof. induction a as [|c a IH]; cbn; [reflexivity|]. rewrite N.ltb_irrefl. exact IH. Qed.

Lemma N_of_ascii_inj c d : N_of_ascii c = N_of_ascii d -> c = d.
Proof. intros H. rewrite <- (ascii_N_embedding c), <- (ascii_N_embedding d), H. reflexivity. Qed.

Lemma str_ltb_trans a : forall b c, str_ltb a b = true -> str_ltb b c = true -> str_ltb a c = true.
Proof.
  induction a as [|x a IH]; intros [|y b] [|z c]; cbn; try discriminate; auto.
  destruct (N.ltb_spec (N_of_ascii x) (N_of_ascii y)); destruct (N.ltb_spec (N_of_ascii y) (N_of_ascii z));
    destruct (N.ltb_spec (N_of_ascii x) (N_of_ascii z)); try reflexivity; try lia;
    destruct (N.ltb_spec (N_of_ascii y) (N_of_ascii x)); try discriminate; try lia;
    destruct (N.ltb_spec (N_of_ascii z) (N_of_ascii y)); try discriminate; try lia;
    destruct (N.ltb_spec (N_of_ascii z) (N_of_ascii x)); try discriminate; try lia; intros; eauto.
Qed.

Lemma str_ltb_total a : forall b, str_ltb a b = false -> String.eqb a b = false -> str_ltb b a = true.
Proof.
  induction a as [|x a IH]; intros [|y b]; cbn; try discriminate; auto.
  destruct (N.ltb_spec (N_of_ascii x) (N_of_ascii y)); [discriminate|].
  destruct (N.ltb_spec (N_of_ascii y) (N_of_ascii x)); [reflexivity|].
  assert (x = y) by (apply N_of_ascii_inj; lia). subst y. rewrite Ascii.eqb_refl. apply IH.
Qed.

Fixpoint strictly_sorted (l : list string) : Prop :=
  match l with
  | [] => True
  | x :: l' => (match l' with [] => True | y :: _ => str_ltb x y = true end) /\ strictly_sorted l'
  end.

Lemma insert_sorted_In x l y : In y (insert_sorted x l) <-> y = x \/ In y l.
Proof.
  induction l as [|z l IH]; cbn; [intuition|].
  destruct (str_ltb x z); [cbn; intuition|].
  destruct (String.eqb x z) eqn:E.
  - apply String.eqb_eq in E. subst z. cbn. intuition.
  - cbn. rewrite IH. intuition.
Qed.

Lemma insert_sorted_head x l : strictly_sorted l ->
  match insert_sorted x l with
  | [] => False
  | h :: _ => h = x \/ (exists t, l = h :: t /\ str_ltb h x = true)
  end.
Proof.
  destruct l as [|z l]; cbn; [auto|]. intros _.
  destruct (str_ltb x z) eqn:E1; [auto|]. destruct (String.eqb x z) eqn:E2.
  - apply String.eqb_eq in E2. auto.
  - right. exists l. split; [reflexivity|]. apply str_ltb_total; [exact E1|exact E2].
Qed.

Lemma insert_sorted_sorted x l : strictly_sorted l -> strictly_sorted (insert_sorted x l).
Proof.
  induction l as [|z l IH]; cbn; [auto|]. intros [Hz Hl].
  destruct (str_ltb x z) eqn:E1; [cbn; auto|].
  destruct (String.eqb x z) eqn:E2; [cbn; auto|].
  cbn. split; [|apply IH; exact Hl].
  pose proof (insert_sorted_head x l Hl) as Hh. destruct (insert_sorted x l) as [|h t]; [auto|].
  destruct Hh as [->|(t' & -> & Hlt)].
  - apply str_ltb_total; assumption.
  - exact Hz.
Qed.

Theorem sort_set_sorted l : strictly_sorted (sort_set l).
Proof. induction l as [|x l IH]; cbn; [exact I|]. apply insert_sorted_sorted; exact IH. Qed.

Theorem sort_set_In l x : In x (sort_set l) <-> In x l.
Proof.
  induction l as [|y l IH]; cbn; [tauto|]. rewrite insert_sorted_In, IH. intuition.
Qed.
