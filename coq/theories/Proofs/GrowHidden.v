(* HIDDEN left recursion as a theorem about the interpreter:   a: 'q'? a 'x' | 'b'   -- the recursive reference comes
   after an item that can match nothing.  On  b x^n  the optional never matches and the rule returns the left-nested
   tree [None, [None, ..., x1], x2] ..., for every n. *)
From Coq Require Import List String NArith Bool Arith Lia.
From Pegen Require Import Base.StrUtil Base.Values Runtime.Tokenizer Sem.Peg Gen.Gen Runtime.Exec Proofs.GrowSpec Proofs.GrowAxb.
Import ListNotations.
Open Scope string_scope.

Definition hid_alt1 : ialt :=
  {| a_has_cut := false; a_guard := false;
     a_conjs := [axb_cj "opt" (CComma (CExpect "'q'")); axb_cj "a" (CMeth "a"); axb_cj "literal" (CExpect "'x'")];
     a_locations := false; a_action := "[opt, a, literal]"; a_names := ["opt"; "a"; "literal"]; a_explicit := false; a_unreachable := false |}.
Definition hid_meth : meth :=
  {| m_name := "a"; m_deco := DMemoLeftRec; m_type := "Any"; m_comment := "# a: 'q'? a 'x' | 'b'"; m_nullable := false;
     m_without_invalid := false; m_locations := false; m_loop := false; m_gather := false; m_alts := [hid_alt1; axb_alt2] |}.
Definition hid_aeval (text : string) (e : env) : option value :=
  if String.eqb text "literal" then env_get e "literal"
  else match env_get e "opt", env_get e "a", env_get e "literal" with Some o, Some x, Some y => Some (VList [o; x; y]) | _, _, _ => None end.

(* the left-nested tree, with the unmatched optional in front *)
Fixpoint nest3 (t : value) (xs : list rtok) : value :=
  match xs with [] => t | x :: xs' => nest3 (VList [VNone; t; VTok x]) xs' end.
Lemma nest3_snoc xs : forall t x, nest3 t (xs ++ [x]) = VList [VNone; nest3 t xs; VTok x].
Proof. induction xs as [|y xs IH]; intros t x; cbn [nest3 app]; [reflexivity|apply IH]. Qed.
Lemma nest3_truthy xs : forall t, truthy t = true -> truthy (nest3 t xs) = true.
Proof. induction xs as [|y xs IH]; intros t Ht; cbn [nest3]; [exact Ht|apply IH; reflexivity]. Qed.

Section Hid.
Variable K : kinds.
Variable toks : list rtok.
Variable M : ir_module.                     (* any module whose method a is the one above *)
Hypothesis HM : find_meth M "a" = Some hid_meth.
Notation RUN := (run K toks false false M hid_aeval [] []).
Notation rcall := (run_call K toks false false M [] []).
Definition body (f : nat) : pstate -> R := run_body K toks false false M hid_aeval [] [] (RUN f) f hid_meth.

Lemma test_true s t : tstr t = s -> expect_test K [] [] s t = true.
Proof. intros <-. unfold expect_test. rewrite String.eqb_refl. reflexivity. Qed.
Lemma test_false s t : tstr t <> s -> expect_test K [] [] s t = false.
Proof.
  intros H. apply String.eqb_neq in H. unfold expect_test. rewrite H. cbn [lookupN find orb]. apply andb_false_r.
Qed.

Lemma expect_true rec q s st t : py_arg q = inl s -> nth_error toks (pos st) = Some t -> expect_test K [] [] s t = true ->
  exists st1, rcall rec (CExpect q) st = (Ok (VTok t), st1) /\ pos st1 = S (pos st).
Proof.
  intros Hq Hn Ht. cbn [run_call]. rewrite Hq. unfold logged, memoize. cbn [negb]. unfold prim_tok, peek. rewrite Hn, Ht.
  eexists. split; reflexivity.
Qed.
Lemma expect_false rec q s st t : py_arg q = inl s -> nth_error toks (pos st) = Some t -> expect_test K [] [] s t = false ->
  exists st1, rcall rec (CExpect q) st = (Ok VNone, st1) /\ pos st1 = pos st.
Proof.
  intros Hq Hn Ht. cbn [run_call]. rewrite Hq. unfold logged, memoize. cbn [negb]. unfold prim_tok, peek. rewrite Hn, Ht.
  eexists. split; reflexivity.
Qed.

(* self.a() while the seed is in the cache: the decorator replays it *)
Lemma seed_hit f st v e : cache_find (pos st, "a", None) (cache st) = Some (v, e) ->
  exists st1, RUN (S f) "a" st = (Ok v, st1) /\ pos st1 = (if truthy v then e else pos st).
Proof.
  intros H. cbn [run]. unfold run_meth. rewrite HM. cbn [m_deco hid_meth].
  unfold logged, memoize_left_rec. rewrite H. destruct (truthy v); eexists; split; reflexivity.
Qed.

Lemma qx : py_arg "'x'" = inl "x". Proof. reflexivity. Qed.
Lemma qb : py_arg "'b'" = inl "b". Proof. reflexivity. Qed.

Notation rconjs := (run_conjs K toks false false M [] []).

(* the conjunctions of the two alternatives *)
Lemma call_a rec st : rcall rec (CMeth "a") st = rec "a" st.
Proof. cbn [run_call]. rewrite HM. reflexivity. Qed.
Ltac conj_fields := cbn [cj_call axb_cj cj_notnone cj_var].

Lemma qq : py_arg "'q'" = inl "q". Proof. reflexivity. Qed.
(* the optional 'q' on a token that is not a q: (None,), nothing consumed, the cache untouched *)
Lemma opt_q rec st t0 : nth_error toks (pos st) = Some t0 -> tstr t0 <> "q" ->
  exists st1, rcall rec (CComma (CExpect "'q'")) st = (Ok (VTuple [VNone]), st1) /\ pos st1 = pos st /\ cache st1 = cache st.
Proof.
  intros Hn Ht. cbn [run_call]. rewrite qq. unfold logged, memoize. cbn [negb]. unfold prim_tok, peek. rewrite Hn.
  rewrite (test_false "q" t0 Ht). cbn [bind_r]. eexists. split; [reflexivity|]. split; reflexivity.
Qed.

Lemma alt1_no_seed f st t0 : nth_error toks (pos st) = Some t0 -> tstr t0 <> "q" ->
  cache_find (pos st, "a", None) (cache st) = Some (VNone, pos st) ->
  exists e st1, rconjs (RUN (S f)) (a_conjs hid_alt1) [] st = (Ok VFalse, e, st1) /\ pos st1 = pos st.
Proof.
  intros Hn Ht Hs. cbn [a_conjs hid_alt1 run_conjs]. conj_fields.
  destruct (opt_q (RUN (S f)) st t0 Hn Ht) as (st0 & -> & Hp0 & Hc0). cbn [truthy]. rewrite call_a.
  rewrite <- Hp0, <- Hc0 in Hs.
  destruct (seed_hit f st0 VNone (pos st0) Hs) as (st1 & -> & Hp1). cbn [truthy] in Hp1.
  cbn [truthy]. eexists _, _. split; [reflexivity|]. rewrite Hp1. exact Hp0.
Qed.
Lemma alt1_seed f st t0 v k t : nth_error toks (pos st) = Some t0 -> tstr t0 <> "q" ->
  cache_find (pos st, "a", None) (cache st) = Some (v, k) -> truthy v = true ->
  nth_error toks k = Some t ->
  (tstr t = "x" -> exists st2, rconjs (RUN (S f)) (a_conjs hid_alt1) [] st =
       (Ok VTrue, [("literal", VTok t); ("a", v); ("opt", VNone)], st2) /\ pos st2 = S k) /\
  (tstr t <> "x" -> exists e st2, rconjs (RUN (S f)) (a_conjs hid_alt1) [] st = (Ok VFalse, e, st2)).
Proof.
  intros Hn0 Ht0 Hs Hv Hn. cbn [a_conjs hid_alt1 run_conjs]. conj_fields.
  destruct (opt_q (RUN (S f)) st t0 Hn0 Ht0) as (st0 & -> & Hp0 & Hc0). cbn [truthy]. rewrite call_a.
  rewrite <- Hp0, <- Hc0 in Hs.
  destruct (seed_hit f st0 v k Hs) as (st1 & -> & Hp1). rewrite Hv in Hp1. rewrite Hv.
  split; intros Ht.
  - destruct (expect_true (RUN (S f)) "'x'" "x" st1 t qx) as (st2 & E2 & Hp2); [rewrite Hp1; exact Hn|apply test_true; exact Ht|].
    rewrite E2. cbn [truthy]. eexists. split; [reflexivity|]. rewrite Hp2, Hp1. reflexivity.
  - destruct (expect_false (RUN (S f)) "'x'" "x" st1 t qx) as (st2 & E2 & Hp2); [rewrite Hp1; exact Hn|apply test_false; exact Ht|].
    rewrite E2. cbn [truthy]. eexists _, _. reflexivity.
Qed.
Lemma alt2_b rec e st b : nth_error toks (pos st) = Some b ->
  (tstr b = "b" -> exists st2, rconjs rec (a_conjs axb_alt2) e st = (Ok VTrue, ("literal", VTok b) :: e, st2) /\ pos st2 = S (pos st)) /\
  (tstr b <> "b" -> exists e2 st2, rconjs rec (a_conjs axb_alt2) e st = (Ok VFalse, e2, st2)).
Proof.
  intros Hn. cbn [a_conjs axb_alt2 run_conjs]. conj_fields. split; intros Ht.
  - destruct (expect_true rec "'b'" "b" st b qb Hn (test_true _ _ Ht)) as (st2 & -> & Hp2).
    cbn [truthy]. eexists. split; [reflexivity|exact Hp2].
  - destruct (expect_false rec "'b'" "b" st b qb Hn (test_false _ _ Ht)) as (st2 & -> & Hp2).
    cbn [truthy]. eexists _, _. reflexivity.
Qed.

(* the body: the alternatives in order *)
Notation ralts := (run_alts K toks false false M hid_aeval [] []).
Lemma body_eq f st : body f st = ralts (RUN f) hid_meth (pos st) None (invalid st) [hid_alt1; axb_alt2] [] st.
Proof. reflexivity. Qed.

Lemma body_alt1 f st v t st2 :
  rconjs (RUN (S f)) (a_conjs hid_alt1) [] st = (Ok VTrue, [("literal", VTok t); ("a", v); ("opt", VNone)], st2) ->
  body (S f) st = (Ok (VList [VNone; v; VTok t]), st2).
Proof.
  intros E. rewrite body_eq. cbn [run_alts]. cbn [a_guard hid_alt1 andb]. rewrite E. reflexivity.
Qed.
Lemma body_alt2 f st e1 st1 b :
  rconjs (RUN (S f)) (a_conjs hid_alt1) [] st = (Ok VFalse, e1, st1) ->
  nth_error toks (pos st) = Some b ->
  (tstr b = "b" -> exists st2, body (S f) st = (Ok (VTok b), st2) /\ pos st2 = S (pos st)) /\
  (tstr b <> "b" -> exists st2, body (S f) st = (Ok VNone, st2) /\ pos st2 = pos st).
Proof.
  intros E Hn. rewrite body_eq. cbn [run_alts]. cbn [a_guard hid_alt1 andb]. rewrite E. cbn [truthy a_has_cut hid_alt1 andb].
  cbn [a_guard axb_alt2 andb].
  destruct (alt2_b (RUN (S f)) e1 (with_pos st1 (pos st)) b Hn) as [Hyes Hno]. split; intros Ht.
  - destruct (Hyes Ht) as (st2 & -> & Hp2). eexists. split; [reflexivity|exact Hp2].
  - destruct (Hno Ht) as (e2 & st2 & ->). cbn [truthy a_has_cut axb_alt2 andb m_without_invalid hid_meth]. eexists. split; reflexivity.
Qed.
Lemma run_a F st : RUN (S F) "a" st = logged "a" false (memoize_left_rec toks false F "a" (body F)) st.
Proof. change (run_meth K toks false false M hid_aeval [] [] F (RUN F) "a" st = logged "a" false (memoize_left_rec toks false F "a" (body F)) st).
  unfold run_meth. rewrite HM. reflexivity. Qed.

(* ---- b x^n followed by something else ---- *)
Section Input.
Variables (b y : rtok) (xs rest : list rtok).
Hypothesis Htoks : toks = b :: xs ++ y :: rest.
Hypothesis Hb : tstr b = "b".
Hypothesis Hxs : Forall (fun t => tstr t = "x") xs.
Hypothesis Hy : tstr y <> "x".
Lemma Hbq : tstr b <> "q". Proof. rewrite Hb. discriminate. Qed.

Definition res (k : nat) : value := match k with O => VNone | S j => nest3 (VTok b) (firstn j xs) end.

Lemma tok0 : nth_error toks 0 = Some b. Proof. rewrite Htoks. reflexivity. Qed.
Lemma tok_x j x : nth_error xs j = Some x -> nth_error toks (S j) = Some x /\ tstr x = "x".
Proof.
  intros H. split.
  - rewrite Htoks. cbn [nth_error]. rewrite nth_error_app1; [exact H|]. apply nth_error_Some. congruence.
  - rewrite Forall_forall in Hxs. apply Hxs. exact (nth_error_In _ _ H).
Qed.
Lemma tok_y : nth_error toks (S (List.length xs)) = Some y.
Proof. rewrite Htoks. cbn [nth_error]. rewrite nth_error_app2; [|apply le_n]. rewrite Nat.sub_diag. reflexivity. Qed.
Lemma firstn_snoc j x : nth_error xs j = Some x -> firstn (S j) xs = (firstn j xs ++ [x])%list.
Proof.
  clear Hxs Htoks. revert j. induction xs as [|a l IH]; intros [|j] H; cbn in H; try discriminate.
  - injection H as ->. reflexivity.
  - cbn [firstn app]. f_equal. exact (IH j H).
Qed.
Lemma res_truthy k : truthy (res (S k)) = true.
Proof. cbn [res]. apply nest3_truthy. reflexivity. Qed.

Lemma step f k st : k < S (List.length xs) -> seeded (0, "a", None) res (fun k => k) k st -> pos st = 0 ->
  exists st', body (S f) st = (Ok (res (S k)), st') /\ pos st' = S k /\ truthy (res (S k)) = true /\ (k < S k \/ truthy (res k) = false).
Proof.
  intros Hk Hs Hp. unfold seeded in Hs. destruct k as [|j].
  - cbn [res] in Hs. rewrite <- Hp in Hs. assert (Hn : nth_error toks (pos st) = Some b) by (rewrite Hp; exact tok0).
    destruct (alt1_no_seed f st b Hn Hbq Hs) as (e1 & st1 & E1 & _).
    destruct (proj1 (body_alt2 f st e1 st1 b E1 Hn) Hb) as (st2 & E2 & Hp2).
    exists st2. split; [exact E2|]. split; [rewrite Hp2, Hp; reflexivity|]. split; [reflexivity|left; lia].
  - assert (Hj : j < List.length xs) by lia. destruct (nth_error xs j) as [x|] eqn:Ex; [|apply nth_error_None in Ex; lia].
    destruct (tok_x j x Ex) as [Hn Hx]. rewrite <- Hp in Hs at 1.
    assert (Hn0 : nth_error toks (pos st) = Some b) by (rewrite Hp; exact tok0).
    destruct (proj1 (alt1_seed f st b (res (S j)) (S j) x Hn0 Hbq Hs (res_truthy j) Hn) Hx) as (st2 & E2 & Hp2).
    exists st2. split; [|split; [exact Hp2|split; [apply res_truthy|left; lia]]].
    rewrite (body_alt1 f st _ _ _ E2). cbn [res]. rewrite (firstn_snoc j x Ex), nest3_snoc. reflexivity.
Qed.

Lemma stop f st : seeded (0, "a", None) res (fun k => k) (S (List.length xs)) st -> pos st = 0 ->
  exists v st', body (S f) st = (Ok v, st') /\
    (truthy v = false \/ (truthy (res (S (List.length xs))) = true /\ pos st' <= S (List.length xs))).
Proof.
  intros Hs Hp. unfold seeded in Hs. rewrite <- Hp in Hs at 1.
  assert (Hn : nth_error toks (pos st) = Some b) by (rewrite Hp; exact tok0).
  destruct (proj2 (alt1_seed f st b _ _ y Hn Hbq Hs (res_truthy _) tok_y) Hy) as (e1 & st1 & E1).
  destruct (proj1 (body_alt2 f st e1 st1 b E1 Hn) Hb) as (st2 & E2 & Hp2).
  exists (VTok b), st2. split; [exact E2|]. right. split; [apply res_truthy|]. rewrite Hp2, Hp. lia.
Qed.

Theorem hid_accepts fuel : List.length xs + 3 <= fuel ->
  exists st', RUN fuel "a" init_state = (Ok (nest3 (VTok b) xs), st') /\ pos st' = S (List.length xs).
Proof.
  intros Hf. destruct fuel as [|[|f]]; try lia. rewrite run_a.
  destruct (memoize_left_rec_is_iteration toks "a" (body (S f)) res (fun k => k) (S (List.length xs)) init_state (S f)
              eq_refl eq_refl (step f) (stop f) eq_refl ltac:(lia)) as (st' & E & Hp & _).
  unfold logged. cbn [pos init_state] in E. rewrite E. eexists. split.
  - cbn [res]. rewrite firstn_all. reflexivity.
  - cbn [pos log]. rewrite Hp, res_truthy. reflexivity.
Qed.
End Input.

(* ---- anything that does not start with b is refused, nothing consumed ---- *)
Theorem hid_rejects t rest fuel : toks = t :: rest -> tstr t <> "b" -> tstr t <> "q" -> 2 <= fuel ->
  exists st', RUN fuel "a" init_state = (Ok VNone, st') /\ pos st' = 0.
Proof.
  intros Htoks Ht Htq Hf. destruct fuel as [|[|f]]; try lia. rewrite run_a.
  destruct (memoize_left_rec_is_iteration toks "a" (body (S f)) (fun _ => VNone) (fun _ => 0) 0 init_state (S f)
              eq_refl eq_refl) as (st' & E & Hp & _).
  - intros k st Hk. lia.
  - intros st Hs Hp. unfold seeded in Hs. cbn [pos init_state] in Hp, Hs. rewrite <- Hp in Hs.
    assert (Hn : nth_error toks (pos st) = Some t) by (rewrite Hp, Htoks; reflexivity).
    destruct (alt1_no_seed f st t Hn Htq Hs) as (e1 & st1 & E1 & _).
    destruct (proj2 (body_alt2 f st e1 st1 t E1 Hn) Ht) as (st2 & E2 & Hp2).
    exists VNone, st2. split; [exact E2|left; reflexivity].
  - reflexivity.
  - lia.
  - unfold logged. cbn [pos init_state] in E. rewrite E. eexists. split; [reflexivity|]. cbn [pos log]. rewrite Hp. reflexivity.
Qed.
End Hid.
