(* "Every reference resolves": if every call of a module names a method of the module or a
   primitive of the runtime, and every expect() argument is a quoted literal ([refs_ok], decidable),
   then no run ever raises AttributeError (a missing method) or NameError for a call argument --
   for every input, configuration, fuel and state. *)
From Coq Require Import List String NArith ZArith Bool Arith Lia.
From Pegen Require Import Base.StrUtil Base.Values Runtime.Tokenizer Sem.Peg Gen.Gen Runtime.Exec.
Import ListNotations.
Open Scope string_scope.

Section Refs.
Variable K : kinds.
Variable toks : list rtok.
Variable verbose use_cache : bool.
Variable M : ir_module.
Variable aeval : string -> env -> option value.
Variable exact_types token_dict : list (string * N).

Definition is_some {A} (o : option A) : bool := match o with Some _ => true | None => false end.

Fixpoint call_ok (c : call) : bool :=
  match c with
  | CMeth n => is_some (find_meth M n) || is_some (prim_test K M n)
  | CExpect a => match py_arg a with inl _ => true | inr _ => false end
  | CComma c' | CForced c' _ | CLook _ _ _ c' => call_ok c'
  | CTrue => true
  end.
Definition refs_ok : bool :=
  forallb (fun m => forallb (fun a => forallb (fun c => call_ok (cj_call c)) (a_conjs a)) (m_alts m)) (i_meths M).
Hypothesis Hrefs : refs_ok = true.

(* the outcome is not "a reference does not resolve" *)
Definition resolved (r : R) : Prop :=
  match fst r with
  | Raise (XAttributeError _) => False
  | _ => True
  end.
Definition safe (f : pstate -> R) : Prop := forall st, resolved (f st).

Lemma resolved_ok v st : resolved (Ok v, st). Proof. exact I. Qed.

Lemma showpeek_safe : safe (showpeek toks).
Proof. intros st. unfold showpeek. destruct (peek toks st) as [[t|] s]; exact I. Qed.
Lemma prim_tok_safe test : safe (prim_tok toks test).
Proof. intros st. unfold prim_tok. destruct (peek toks st) as [[t|] s]; [destruct (test t)|]; exact I. Qed.
Lemma logged_safe n la f : safe f -> safe (logged n la f).
Proof. intros Hf st. unfold logged. specialize (Hf st). destruct (f st) as [[w|e|] s]; [exact I|exact Hf|exact I]. Qed.
Lemma bind_safe (r : R) k : resolved r -> (forall v s, resolved (k v s)) -> resolved (bind_r r k).
Proof. intros Hr Hk. unfold bind_r. destruct r as [[v|e|] s]; [apply Hk|exact Hr|exact I]. Qed.
Lemma pre_show_safe st : resolved (if verbose then showpeek toks st else (Ok VNone, st)).
Proof. destruct verbose; [apply showpeek_safe|exact I]. Qed.
Lemma memoize_safe n a body : safe body -> safe (memoize toks verbose use_cache n a body).
Proof.
  intros Hb st. unfold memoize. destruct (negb use_cache); [apply Hb|].
  destruct (cache_find _ _) as [[tree e]|]; [exact I|].
  apply bind_safe; [apply pre_show_safe|]. intros _ s1. apply bind_safe; [apply Hb|]. intros; exact I.
Qed.
Lemma logger_safe body : safe body -> safe (logger_wrap toks verbose body).
Proof.
  intros Hb st. unfold logger_wrap. destruct (negb verbose); [apply Hb|].
  apply bind_safe; [apply showpeek_safe|]. intros _ s1. apply Hb.
Qed.
Lemma grow_safe fuel : forall key mark body lastresult lastmark, safe body -> safe (grow fuel key mark body lastresult lastmark).
Proof.
  induction fuel as [|f IH]; intros key mark body lr lm Hb st; cbn [grow]; [exact I|].
  apply bind_safe; [apply Hb|]. intros result s1.
  destruct (negb (truthy result)); [exact I|]. destruct (truthy lr && Nat.leb (pos s1) lm); [exact I|]. apply IH. exact Hb.
Qed.
Lemma memoize_left_rec_safe fuel n body : safe body -> safe (memoize_left_rec toks verbose fuel n body).
Proof.
  intros Hb st. unfold memoize_left_rec. destruct (cache_find _ _) as [[tree e]|]; [exact I|].
  apply bind_safe; [apply pre_show_safe|]. intros _ s0. apply bind_safe; [apply grow_safe; exact Hb|]. intros; exact I.
Qed.

Section Open.
Variable rec : string -> pstate -> R.
Hypothesis Hrec : forall n, find_meth M n <> None -> safe (rec n).

Notation rcall := (run_call K toks verbose use_cache M exact_types token_dict rec).

Lemma forced_tail_safe (v : value) (s : pstate) :
  resolved (match v with
            | VNone => let '(t, st'') := diagnose toks s in (Raise (XSyntaxError "expected" t), st'')
            | _ => (Ok v, s)
            end).
Proof. destruct v; try exact I. destruct (diagnose toks s); exact I. Qed.

Lemma run_call_safe : forall c, call_ok c = true -> safe (rcall c).
Proof.
  fix IH 1. intros c Hc. destruct c as [n|a|c|positive head tail c| |c msg]; intros st; cbn [run_call]; cbn [call_ok] in Hc.
  - destruct (find_meth M n) eqn:E; [apply Hrec; congruence|].
    destruct (prim_test K M n); [|discriminate].
    apply logged_safe. apply memoize_safe. apply prim_tok_safe.
  - destruct (py_arg a); [|discriminate]. apply logged_safe. apply memoize_safe. apply prim_tok_safe.
  - apply bind_safe; [apply IH; exact Hc|]. intros; exact I.
  - assert (Hgen : resolved (logged (if positive then "positive_lookahead" else "negative_lookahead") true
              (fun st => let mark := pos st in bind_r (rcall c st) (fun v st1 =>
                 (Ok (if positive then v else if truthy v then VFalse else VTrue), with_pos st1 mark))) st)).
    { apply logged_safe. intros s. cbn zeta. apply bind_safe; [apply IH; exact Hc|]. intros; exact I. }
    destruct c as [n|a|c0|p0 h0 t0 c0| |c0 msg0]; try (exact Hgen).
    cbn [call_ok] in Hc. apply bind_safe; [apply IH; exact Hc|]. intros v s1.
    apply logged_safe. intros s2. destruct v; try exact I. destruct (diagnose toks s2); exact I.
  - exact I.
  - apply bind_safe; [apply IH; exact Hc|]. intros v s. apply forced_tail_safe.
Qed.

Notation rconjs := (run_conjs K toks verbose use_cache M exact_types token_dict rec).
Definition resolved3 (r : outcome * env * pstate) : Prop :=
  match fst (fst r) with Raise (XAttributeError _) => False | _ => True end.

Lemma run_conjs_safe cs : forallb (fun c => call_ok (cj_call c)) cs = true -> forall e st, resolved3 (rconjs cs e st).
Proof.
  induction cs as [|c cs IHc]; intros Hcs e st; cbn [run_conjs]; [exact I|].
  cbn [forallb] in Hcs. apply andb_prop in Hcs as [Hc Hcs].
  pose proof (run_call_safe _ Hc st) as H. destruct (rcall (cj_call c) st) as [[w|x|] s]; [|exact H|exact I].
  match goal with |- context [if ?b then _ else _] => destruct b end; [apply IHc; exact Hcs|exact I].
Qed.

Notation ralts := (run_alts K toks verbose use_cache M aeval exact_types token_dict rec).
Lemma run_alts_safe m mark start_tok prev alts :
  forallb (fun a => forallb (fun c => call_ok (cj_call c)) (a_conjs a)) alts = true ->
  forall e0 st, resolved (ralts m mark start_tok prev alts e0 st).
Proof.
  induction alts as [|a alts IHa]; intros Hall e0 st; cbn [run_alts]; [exact I|].
  cbn [forallb] in Hall. apply andb_prop in Hall as [Ha Hall].
  destruct (a_guard a && negb (invalid st)); [apply IHa; exact Hall|].
  pose proof (run_conjs_safe _ Ha e0 st) as H. destruct (rconjs (a_conjs a) e0 st) as [[[w|x|] e] s]; [|exact H|exact I].
  destruct (truthy w).
  - destruct (a_locations a && _); [exact I|]. destruct (aeval (a_action a) _); exact I.
  - destruct (a_has_cut a && _); [exact I|]. apply IHa. exact Hall.
Qed.

Notation rloop := (run_loop K toks verbose use_cache M aeval exact_types token_dict rec).
Lemma run_loop_safe fuel m a : forallb (fun c => call_ok (cj_call c)) (a_conjs a) = true ->
  forall mark start_tok children e0 st, resolved (rloop fuel m a mark start_tok children e0 st).
Proof.
  intros Ha. induction fuel as [|f IHf]; intros mark start_tok children e0 st; cbn [run_loop]; [exact I|].
  destruct (a_guard a && negb (invalid st)); [exact I|].
  pose proof (run_conjs_safe _ Ha e0 st) as H. destruct (rconjs (a_conjs a) e0 st) as [[[w|x|] e] s]; [|exact H|exact I].
  destruct (truthy w).
  - destruct (a_locations a && _); [exact I|]. destruct (aeval (a_action a) _); [apply IHf|exact I].
  - destruct (a_has_cut a && _); exact I.
Qed.

Lemma run_body_safe fuel m : forallb (fun a => forallb (fun c => call_ok (cj_call c)) (a_conjs a)) (m_alts m) = true ->
  safe (run_body K toks verbose use_cache M aeval exact_types token_dict rec fuel m).
Proof.
  intros Hm st. unfold run_body.
  set (st0 := if m_without_invalid m then with_invalid st false else st).
  assert (Hgo : forall start_tok st1,
    resolved (if m_loop m
     then match m_alts m with
          | [a] => match rloop fuel m a (pos st0) start_tok [] [] st1 with
                   | (Ok v, st2) => (Ok (loop_ret m v), if m_without_invalid m then with_invalid st2 (invalid st) else st2)
                   | other => other end
          | _ => (Raise XAssertion, st1) end
     else ralts m (pos st0) start_tok (invalid st) (m_alts m) [] st1)).
  { intros start_tok st1. destruct (m_loop m).
    - destruct (m_alts m) as [|a [|a2 rest]]; try exact I.
      cbn [forallb] in Hm. apply andb_prop in Hm as [Ha _].
      pose proof (run_loop_safe fuel m a Ha (pos st0) start_tok [] [] st1) as H.
      destruct (rloop fuel m a (pos st0) start_tok [] [] st1) as [[w|x|] s2]; [exact I|exact H|exact I].
    - apply run_alts_safe. exact Hm. }
  destruct (m_locations m).
  - destruct (peek toks st0) as [[t|] s1]; [apply Hgo|exact I].
  - apply Hgo.
Qed.
End Open.

Lemma find_meth_ok n m : find_meth M n = Some m ->
  forallb (fun a => forallb (fun c => call_ok (cj_call c)) (a_conjs a)) (m_alts m) = true.
Proof.
  unfold find_meth. intros H. apply find_some in H as [Hin _]. unfold refs_ok in Hrefs.
  rewrite forallb_forall in Hrefs. apply Hrefs. exact Hin.
Qed.

Lemma run_meth_safe fuel rec : (forall n, find_meth M n <> None -> safe (rec n)) ->
  forall n, find_meth M n <> None -> safe (run_meth K toks verbose use_cache M aeval exact_types token_dict fuel rec n).
Proof.
  intros Hrec n Hn st. unfold run_meth. destruct (find_meth M n) as [m|] eqn:E; [|congruence].
  apply logged_safe. pose proof (find_meth_ok n m E) as Hm. destruct (m_deco m).
  - apply memoize_safe. apply run_body_safe; assumption.
  - apply memoize_left_rec_safe. apply run_body_safe; assumption.
  - apply logger_safe. apply run_body_safe; assumption.
Qed.

Theorem references_resolve fuel : forall n, find_meth M n <> None ->
  safe (run K toks verbose use_cache M aeval exact_types token_dict fuel n).
Proof.
  induction fuel as [|f IH]; intros n Hn; cbn [run]; [intros st; exact I|].
  apply run_meth_safe; assumption.
Qed.
End Refs.
