(* The generator collects EVERY keyword: for every grammar whose repetition / gather / group nodes carry
   pairwise distinct identities (object identity in the implementation), every identifier-like quoted
   literal occurring anywhere in the grammar -- at any nesting depth, under any operator -- is in the
   KEYWORDS (single quotes) or SOFT_KEYWORDS (double quotes) table of the module the generator model
   emits.  Invariant over the call maker, its node cache and the work list:
     J1  every node whose identity is in the cache has its content among the items of a rule that is
         queued or already emitted (or, for an inlined one-item group, its item is covered);
     J2  every top-level item of an emitted rule is covered: literal leaves are registered, transparent
         operators are covered inside, boundary nodes are in the cache.
   When the queue is empty, induction on the size of items gives the claim. *)
From Coq Require Import List String Ascii NArith ZArith Bool Arith Lia.
From Pegen Require Import Base.StrUtil Base.Values Grammar.Ast Grammar.Induction Grammar.Printer Analysis.Visitor Analysis.Nullable
  Analysis.Literals Gen.Gen Proofs.GenProofs Proofs.GenRefs.
Import ListNotations.
Open Scope string_scope.

(* ---- cacheable nodes and their identities ---- *)
Definition rhs_id (r : rhs) : N := match r with Rhs id _ => id end.
Definition node_id (n : item) : N :=
  match n with
  | Repeat0 id _ | Repeat1 id _ | Gather id _ _ => id
  | Group r | RhsItem r => rhs_id r
  | _ => 0%N
  end.

(* all cacheable nodes inside an item (rhs nodes in the canonical form [Group r]) *)
Fixpoint nodes_item (i : item) : list item :=
  match i with
  | NameLeaf _ | StringLeaf _ | Cut => []
  | Group r | RhsItem r => Group r :: nodes_rhs r
  | Opt j | PosLook j | NegLook j | Forced j => nodes_item j
  | Repeat0 _ j | Repeat1 _ j => i :: nodes_item j
  | Gather _ s e => i :: (nodes_item s ++ nodes_item e)%list
  end
with nodes_rhs (r : rhs) : list item :=
  match r with Rhs _ alts => (fix go (l : list alt) := match l with [] => [] | a :: l' => (nodes_alt a ++ go l')%list end) alts end
with nodes_alt (a : alt) : list item :=
  match a with Alt items _ =>
    (fix go (l : list nitem) := match l with [] => [] | n :: l' => ((match n with NItem _ _ _ i => nodes_item i end) ++ go l')%list end) items
  end.
Lemma nodes_rhs_eq id alts : nodes_rhs (Rhs id alts) = flat_map nodes_alt alts.
Proof. induction alts as [|a l IH]; [reflexivity|]. cbn [flat_map]. rewrite <- IH. reflexivity. Qed.
Lemma nodes_alt_eq items act : nodes_alt (Alt items act) = flat_map (fun n => nodes_item (ni_item n)) items.
Proof. induction items as [|n l IH]; [reflexivity|]. cbn [flat_map]. rewrite <- IH. destruct n; reflexivity. Qed.

Definition grammar_nodes (g : grammar) : list item := flat_map (fun r => nodes_rhs (rrhs r)) (rules g).
Definition ids_distinct (g : grammar) : Prop :=
  forall n1 n2, In n1 (grammar_nodes g) -> In n2 (grammar_nodes g) -> node_id n1 = node_id n2 -> n1 = n2.

(* ---- coverage ---- *)
Definition registered (st : gst) (raw : string) : Prop :=
  is_identifier (strip_quotes raw) = true ->
  if endswith "'" raw then In (strip_quotes raw) (g_keywords st) else In (strip_quotes raw) (g_soft st).
Definition cachedP (st : gst) (id : N) : Prop := assocN id (g_cache st) <> None.

Fixpoint Cov (st : gst) (i : item) : Prop :=
  match i with
  | StringLeaf raw => registered st raw
  | NameLeaf _ | Cut => True
  | Opt j | PosLook j | NegLook j | Forced j => Cov st j
  | Group r | RhsItem r => cachedP st (rhs_id r)
  | Repeat0 id _ | Repeat1 id _ | Gather id _ _ => cachedP st id
  end.

(* the items the rule emitter visits *)
Definition top_items (r : rule) : list item := flat_map (fun a => map ni_item (alt_items a)) (rhs_alts (flatten r)).
Definition rhs_items (r : rhs) : list item := flat_map (fun a => map ni_item (alt_items a)) (rhs_alts r).

(* content of a boundary node *)
Definition content (n : item) : list item :=
  match n with
  | Repeat0 _ j | Repeat1 _ j => [j]
  | Gather _ s e => [s; e]
  | Group r | RhsItem r => rhs_items r
  | _ => []
  end.
Definition inlined (n : item) : option item :=
  match n with
  | Group (Rhs _ [Alt [NItem _ _ _ it] None]) | RhsItem (Rhs _ [Alt [NItem _ _ _ it] None]) => Some it
  | _ => None
  end.

Section Inv.
Variable g : grammar.
Definition entry_ok (st : gst) (E : list rule) (n : item) : Prop :=
  (forall i, In i (content n) -> exists r, In r (g_todo st ++ E)%list /\ In i (top_items r)) \/
  (exists it, inlined n = Some it /\ Cov st it).
Definition J1 (st : gst) (E : list rule) : Prop :=
  forall id n, cachedP st id -> In n (grammar_nodes g) -> node_id n = id -> entry_ok st E n.
Definition J2 (st : gst) (E : list rule) : Prop := forall r i, In r E -> In i (top_items r) -> Cov st i.
(* every item the emitter will ever visit consists of nodes of the grammar *)
Definition closed_item (i : item) : Prop := incl (nodes_item i) (grammar_nodes g).
Definition J0 (st : gst) (E : list rule) : Prop := forall r i, In r (g_todo st ++ E)%list -> In i (top_items r) -> closed_item i.

(* what only grows *)
Definition grows (st st' : gst) : Prop :=
  incl (g_keywords st) (g_keywords st') /\ incl (g_soft st) (g_soft st') /\
  (forall id, cachedP st id -> cachedP st' id) /\ (exists l, g_todo st' = (g_todo st ++ l)%list).
Lemma grows_refl st : grows st st.
Proof. split; [apply incl_refl|]. split; [apply incl_refl|]. split; [auto|exists []; rewrite app_nil_r; reflexivity]. Qed.
Lemma grows_trans a b c : grows a b -> grows b c -> grows a c.
Proof.
  intros (A1 & A2 & A3 & (l1 & A4)) (B1 & B2 & B3 & (l2 & B4)). split; [eapply incl_tran; eauto|]. split; [eapply incl_tran; eauto|].
  split; [auto|]. exists (l1 ++ l2)%list. rewrite B4, A4, app_assoc. reflexivity.
Qed.
Lemma Cov_grows st st' i : grows st st' -> Cov st i -> Cov st' i.
Proof.
  intros (A1 & A2 & A3 & _). induction i; cbn [Cov]; auto.
  intros H Hid. specialize (H Hid). destruct (endswith "'" raw); [apply A1|apply A2]; exact H.
Qed.
Lemma entry_ok_grows st st' E n : grows st st' -> entry_ok st E n -> entry_ok st' E n.
Proof.
  intros Hg [H|(it & Hi & Hc)]; [left|right; exists it; split; [exact Hi|eapply Cov_grows; eauto]].
  intros i Hi. destruct (H i Hi) as (r & Hr & Ht). exists r. split; [|exact Ht].
  destruct Hg as (_ & _ & _ & (l & El)). rewrite El. apply in_app_or in Hr as [Hr|Hr]; apply in_or_app; [left; apply in_or_app; left; exact Hr|right; exact Hr].
Qed.
End Inv.

(* ---- shapes of the helper rules ---- *)
Lemma top_items_loop name i1 i2 j : is_loop_name name = true ->
  top_items (mk_rule name (Rhs i1 [Alt [NItem i2 None None j] None])) = [j].
Proof. intros H. unfold top_items, flatten. cbn [rname mk_rule rrhs]. rewrite H. reflexivity. Qed.
Lemma top_items_extra name i1 i2 i3 s e act : is_loop_name name = true ->
  top_items (mk_rule name (Rhs i1 [Alt [NItem i2 None None s; NItem i3 (Some "elem") None e] act])) = [s; e].
Proof. intros H. unfold top_items, flatten. cbn [rname mk_rule rrhs]. rewrite H. reflexivity. Qed.
Lemma top_items_gather k i4 i5 i6 e extra :
  top_items (mk_rule ("_gather_" ++ nat_to_string k) (Rhs i4 [Alt [NItem i5 (Some "elem") None e; NItem i6 (Some "seq") None (NameLeaf extra)] None]))
  = [e; NameLeaf extra].
Proof.
  assert (H : is_loop_name ("_gather_" ++ nat_to_string k) = false) by reflexivity.
  unfold top_items, flatten. cbn [rname mk_rule rrhs]. rewrite H. destruct e; reflexivity.
Qed.
Lemma loop0_name k : is_loop_name ("_loop0_" ++ nat_to_string k) = true. Proof. reflexivity. Qed.
Lemma loop1_name k : is_loop_name ("_loop1_" ++ nat_to_string k) = true. Proof. reflexivity. Qed.

Lemma in_rhs_items_nodes r i : In i (rhs_items r) -> incl (nodes_item i) (nodes_rhs r).
Proof.
  destruct r as [id alts]. unfold rhs_items. cbn [rhs_alts]. rewrite nodes_rhs_eq. intros H.
  apply in_flat_map in H as (a & Ha & Hi). apply in_map_iff in Hi as (n & <- & Hn).
  intros x Hx. apply in_flat_map. exists a. split; [exact Ha|]. destruct a as [items act]. rewrite nodes_alt_eq.
  apply in_flat_map. exists n. split; [exact Hn|exact Hx].
Qed.

Section CM.
Variable g : grammar.
Hypothesis Hids : ids_distinct g.
Variable E : list rule.

Notation J0 := (J0 g). Notation J1 := (J1 g). Notation closed_item := (closed_item g).

Definition pre (st : gst) : Prop := J1 st E /\ J0 st E.
Definition post (st : gst) (i : item) (st' : gst) : Prop := grows st st' /\ Cov st' i /\ J1 st' E /\ J0 st' E.

Lemma same_tc_grows st st' : same_tc st st' -> g_keywords st' = g_keywords st -> g_soft st' = g_soft st -> grows st st'.
Proof.
  intros (A & B) C D. split; [rewrite C; apply incl_refl|]. split; [rewrite D; apply incl_refl|].
  split; [unfold cachedP; rewrite B; auto|exists []; rewrite A, app_nil_r; reflexivity].
Qed.
Lemma pre_same st st' : same_tc st st' -> g_keywords st' = g_keywords st -> g_soft st' = g_soft st -> pre st -> pre st'.
Proof.
  intros S C D (H1 & H0). pose proof (same_tc_grows _ _ S C D) as Hg. destruct S as (A & B). split.
  - intros id n Hc Hn Hid. eapply entry_ok_grows; [exact Hg|]. apply (H1 id n); auto. unfold cachedP in *. rewrite <- B. exact Hc.
  - intros r i Hr Hi. apply (H0 r i); auto. rewrite <- A. exact Hr.
Qed.

(* specs that also say the keyword lists are untouched *)
Lemma next_counter_kw st y s : next_counter st = (inl y, s) -> same_tc st s /\ g_keywords s = g_keywords st /\ g_soft s = g_soft st.
Proof. unfold next_counter. intros [= <- <-]. repeat split. Qed.
Lemma fresh_id_kw st y s : fresh_id st = (inl y, s) -> same_tc st s /\ g_keywords s = g_keywords st /\ g_soft s = g_soft st.
Proof. unfold fresh_id. intros [= <- <-]. repeat split. Qed.

Lemma pre_step st s : (same_tc st s /\ g_keywords s = g_keywords st /\ g_soft s = g_soft st) -> pre st -> pre s.
Proof. intros (A & B & C). apply pre_same; assumption. Qed.
Lemma grows_step st s : (same_tc st s /\ g_keywords s = g_keywords st /\ g_soft s = g_soft st) -> grows st s.
Proof. intros (A & B & C). apply same_tc_grows; assumption. Qed.

(* queueing a helper rule and recording the node: the generic step for boundary nodes *)
Lemma queue_and_cache st (n : item) (rs : list rule) id v :
  pre st -> closed_item n -> In (match n with RhsItem r => Group r | _ => n end) (nodes_item n) ->
  node_id n = id ->
  (forall i, In i (content n) -> exists r, In r rs /\ In i (top_items r)) ->
  (forall r i, In r rs -> In i (top_items r) -> closed_item i) ->
  let st1 := {| g_counter := g_counter st; g_todo := (g_todo st ++ rs)%list; g_cache := (id, v) :: g_cache st;
                g_keywords := g_keywords st; g_soft := g_soft st; g_fresh := g_fresh st; g_locals := g_locals st |} in
  grows st st1 /\ cachedP st1 id /\ J1 st1 E /\ J0 st1 E.
Proof.
  intros (H1 & H0) Hcl Hself Hid Hcont Hclosed st1.
  assert (Hg : grows st st1).
  { split; [apply incl_refl|]. split; [apply incl_refl|]. split; [|exists rs; reflexivity].
    intros id' Hc. unfold cachedP in *. cbn. destruct (N.eqb id' id); [discriminate|exact Hc]. }
  split; [exact Hg|]. split; [unfold cachedP; cbn; rewrite N.eqb_refl; discriminate|]. split.
  - intros id' n' Hc Hn' Hid'. unfold cachedP in Hc. cbn in Hc. destruct (N.eqb id' id) eqn:Eid.
    + apply N.eqb_eq in Eid. subst id'.
      (* the node with this identity is the one being visited *)
      set (nc := match n with RhsItem r => Group r | _ => n end) in *.
      assert (Hnc : In nc (grammar_nodes g)) by (apply Hcl; exact Hself).
      assert (Hidc : node_id nc = id) by (subst nc; destruct n; exact Hid).
      assert (En : n' = nc) by (apply Hids; [exact Hn'|exact Hnc|congruence]).
      subst n'. left. intros i Hi.
      assert (Hi' : In i (content n)) by (subst nc; destruct n; exact Hi).
      destruct (Hcont i Hi') as (r & Hr & Ht). exists r. split; [|exact Ht]. cbn. apply in_or_app. left. apply in_or_app. right. exact Hr.
    + eapply entry_ok_grows; [exact Hg|]. apply (H1 id' n'); auto.
  - intros r i Hr Hi. cbn in Hr. apply in_app_or in Hr as [Hr|Hr]; [apply in_app_or in Hr as [Hr|Hr]|].
    + apply (H0 r i); [apply in_or_app; left; exact Hr|exact Hi].
    + apply (Hclosed r i Hr Hi).
    + apply (H0 r i); [apply in_or_app; right; exact Hr|exact Hi].
Qed.

Lemma pre_grows_same st st' : grows st st' -> g_cache st' = g_cache st -> g_todo st' = g_todo st -> pre st -> pre st'.
Proof.
  intros Hg B A (H1 & H0). split.
  - intros id n Hc Hn Hid. eapply entry_ok_grows; [exact Hg|]. apply (H1 id n); auto. unfold cachedP in *. rewrite <- B. exact Hc.
  - intros r i Hr Hi. apply (H0 r i); auto. rewrite <- A. exact Hr.
Qed.

Lemma post_refl st i : pre st -> Cov st i -> post st i st.
Proof. intros (H1 & H0) Hc. split; [apply grows_refl|]. split; [exact Hc|]. split; assumption. Qed.

Lemma post_pre_step st s i st' : (same_tc st s /\ g_keywords s = g_keywords st /\ g_soft s = g_soft st) -> post s i st' -> post st i st'.
Proof. intros Hs (A & B & C & D). split; [eapply grows_trans; [apply grows_step; exact Hs|exact A]|]. split; [exact B|split; assumption]. Qed.

Definition not_single (r : rhs) : Prop := match r with Rhs _ [Alt [NItem _ _ _ _] None] => False | _ => True end.
Lemma top_items_tmp k r : not_single r -> top_items (mk_rule ("_tmp_" ++ nat_to_string k) r) = rhs_items r.
Proof.
  intros H. assert (Hn : is_loop_name ("_tmp_" ++ nat_to_string k) = false) by reflexivity.
  unfold top_items, flatten. cbn [rname mk_rule rrhs]. rewrite Hn. unfold rhs_items.
  destruct r as [id alts]. destruct alts as [|[[|[i0 nm0 ty0 it0] [|n2 items]] [act|]] [|a2 alts]]; try reflexivity;
    try (destruct it0; reflexivity). destruct H.
Qed.

Lemma closed_sub i j : closed_item i -> incl (nodes_item j) (nodes_item i) -> closed_item j.
Proof. intros H Hi x Hx. apply H. apply Hi. exact Hx. Qed.

Ltac gb H := let y := fresh "y" in let s := fresh "s" in let E := fresh "E" in
  apply gbind_inv in H as (y & s & E & H).

Lemma cm_kw : forall fuel,
  (forall i st nc st', closed_item i -> pre st -> cm_item fuel i st = (inl nc, st') -> post st i st') /\
  (forall r st nc st', closed_item (Group r) -> pre st -> cm_rhs fuel r st = (inl nc, st') -> post st (Group r) st').
Proof.
  induction fuel as [|f [IHi IHr]]; [split; intros; discriminate|]. split.
  - intros i st nc st' Hcl HP H. destruct i as [n|raw|r|j|id j|id j|id s e|j|j|j| |r]; cbn [cm_item] in H.
    + (* NameLeaf *)
      destruct (String.eqb n "SOFT_KEYWORD"); [apply gret_spec in H as (_ & ->); apply post_refl; [exact HP|exact I]|].
      destruct (mem_str n TOKS1); [apply gret_spec in H as (_ & ->); apply post_refl; [exact HP|exact I]|].
      destruct (mem_str n TOKS2); apply gret_spec in H as (_ & ->); (apply post_refl; [exact HP|exact I]).
    + (* StringLeaf *)
      apply gbind_inv in H as (u0 & t0 & F0 & H). apply gret_spec in H as (_ & ->).
      destruct (is_identifier (strip_quotes raw)) eqn:Eid.
      * unfold add_keyword in F0. injection F0 as _ <-.
        assert (Hg : grows st {| g_counter := g_counter st; g_todo := g_todo st; g_cache := g_cache st;
                                 g_keywords := if endswith "'" raw then strip_quotes raw :: g_keywords st else g_keywords st;
                                 g_soft := if endswith "'" raw then g_soft st else strip_quotes raw :: g_soft st;
                                 g_fresh := g_fresh st; g_locals := g_locals st |}).
        { split; cbn; [destruct (endswith "'" raw); [apply incl_tl|]; apply incl_refl|].
          split; [destruct (endswith "'" raw); [|apply incl_tl]; apply incl_refl|]. split; [auto|exists []; rewrite app_nil_r; reflexivity]. }
        destruct (pre_grows_same _ _ Hg eq_refl eq_refl HP) as (A1 & A0).
        split; [exact Hg|]. split; [|split; assumption]. cbn [Cov]. intros _. cbn. destruct (endswith "'" raw); left; reflexivity.
      * apply gret_spec in F0 as (_ & ->). apply post_refl; [exact HP|]. cbn [Cov]. intros Hc. rewrite Eid in Hc. discriminate.
    + (* Group *) apply (IHr r st nc st'); auto.
    + (* Opt *)
      apply gbind_inv in H as (y & s & F0 & H). assert (Hs : post st j s) by (apply (IHi j st y s); auto).
      destruct (endswith "," _); apply gret_spec in H as (_ & ->); exact Hs.
    + (* Repeat0 *)
      apply gbind_inv in H as (c0 & t0 & F0 & H). apply cache_get_spec in F0 as (-> & ->). destruct (assocN id (g_cache st)) as [v|] eqn:EC.
      { apply gret_spec in H as (_ & ->). apply post_refl; [exact HP|]. cbn [Cov]. unfold cachedP. rewrite EC. discriminate. }
      apply gbind_inv in H as (k & t1 & F1 & H). apply gbind_inv in H as (i1 & t2 & F2 & H). apply gbind_inv in H as (i2 & t3 & F3 & H).
      apply gbind_inv in H as (u4 & t4 & F4 & H). apply gbind_inv in H as (u5 & t5 & F5 & H). apply gret_spec in H as (_ & ->).
      pose proof (next_counter_kw _ _ _ F1) as S1. pose proof (fresh_id_kw _ _ _ F2) as S2. pose proof (fresh_id_kw _ _ _ F3) as S3.
      apply add_todo_spec in F4. apply cache_put_spec in F5. subst t5 t4.
      apply (post_pre_step _ _ _ _ S1). apply (post_pre_step _ _ _ _ S2). apply (post_pre_step _ _ _ _ S3).
      set (rl := mk_rule ("_loop0_" ++ nat_to_string k) (Rhs i1 [Alt [NItem i2 None None j] None])).
      destruct (queue_and_cache t3 (Repeat0 id j) [rl] id (Some ("_loop0_" ++ nat_to_string k), CComma (CMeth ("_loop0_" ++ nat_to_string k))))
        as (G1 & G2 & G3 & G4).
      * exact (pre_step _ _ S3 (pre_step _ _ S2 (pre_step _ _ S1 HP))).
      * exact Hcl.
      * left. reflexivity.
      * reflexivity.
      * intros i [<-|[]]. exists rl. split; [left; reflexivity|]. unfold rl. rewrite (top_items_loop _ _ _ _ (loop0_name k)). left. reflexivity.
      * intros r i [<-|[]] Hi. unfold rl in Hi. rewrite (top_items_loop _ _ _ _ (loop0_name k)) in Hi. destruct Hi as [<-|[]].
        apply (closed_sub _ _ Hcl). intros x Hx. right. exact Hx.
      * split; [exact G1|]. split; [exact G2|split; assumption].
    + (* Repeat1 *)
      apply gbind_inv in H as (c0 & t0 & F0 & H). apply cache_get_spec in F0 as (-> & ->). destruct (assocN id (g_cache st)) as [v|] eqn:EC.
      { apply gret_spec in H as (_ & ->). apply post_refl; [exact HP|]. cbn [Cov]. unfold cachedP. rewrite EC. discriminate. }
      apply gbind_inv in H as (k & t1 & F1 & H). apply gbind_inv in H as (i1 & t2 & F2 & H). apply gbind_inv in H as (i2 & t3 & F3 & H).
      apply gbind_inv in H as (u4 & t4 & F4 & H). apply gbind_inv in H as (u5 & t5 & F5 & H). apply gret_spec in H as (_ & ->).
      pose proof (next_counter_kw _ _ _ F1) as S1. pose proof (fresh_id_kw _ _ _ F2) as S2. pose proof (fresh_id_kw _ _ _ F3) as S3.
      apply add_todo_spec in F4. apply cache_put_spec in F5. subst t5 t4.
      apply (post_pre_step _ _ _ _ S1). apply (post_pre_step _ _ _ _ S2). apply (post_pre_step _ _ _ _ S3).
      set (rl := mk_rule ("_loop1_" ++ nat_to_string k) (Rhs i1 [Alt [NItem i2 None None j] None])).
      destruct (queue_and_cache t3 (Repeat1 id j) [rl] id (Some ("_loop1_" ++ nat_to_string k), CMeth ("_loop1_" ++ nat_to_string k)))
        as (G1 & G2 & G3 & G4).
      * exact (pre_step _ _ S3 (pre_step _ _ S2 (pre_step _ _ S1 HP))).
      * exact Hcl.
      * left. reflexivity.
      * reflexivity.
      * intros i [<-|[]]. exists rl. split; [left; reflexivity|]. unfold rl. rewrite (top_items_loop _ _ _ _ (loop1_name k)). left. reflexivity.
      * intros r i [<-|[]] Hi. unfold rl in Hi. rewrite (top_items_loop _ _ _ _ (loop1_name k)) in Hi. destruct Hi as [<-|[]].
        apply (closed_sub _ _ Hcl). intros x Hx. right. exact Hx.
      * split; [exact G1|]. split; [exact G2|split; assumption].
    + (* Gather *)
      apply gbind_inv in H as (c0 & t0 & F0 & H). apply cache_get_spec in F0 as (-> & ->). destruct (assocN id (g_cache st)) as [v|] eqn:EC.
      { apply gret_spec in H as (_ & ->). apply post_refl; [exact HP|]. cbn [Cov]. unfold cachedP. rewrite EC. discriminate. }
      apply gbind_inv in H as (k & t1 & F1 & H). apply gbind_inv in H as (k2 & t2 & F2 & H).
      apply gbind_inv in H as (i1 & t3 & F3 & H). apply gbind_inv in H as (i2 & t4 & F4 & H). apply gbind_inv in H as (i3 & t5 & F5 & H).
      apply gbind_inv in H as (i4 & t6 & F6 & H). apply gbind_inv in H as (i5 & t7 & F7 & H). apply gbind_inv in H as (i6 & t8 & F8 & H).
      apply gbind_inv in H as (u9 & t9 & F9 & H). apply gbind_inv in H as (u10 & t10 & F10 & H). apply gbind_inv in H as (u11 & t11 & F11 & H).
      apply gret_spec in H as (_ & ->).
      pose proof (next_counter_kw _ _ _ F1) as S1. pose proof (next_counter_kw _ _ _ F2) as S2.
      pose proof (fresh_id_kw _ _ _ F3) as S3. pose proof (fresh_id_kw _ _ _ F4) as S4. pose proof (fresh_id_kw _ _ _ F5) as S5.
      pose proof (fresh_id_kw _ _ _ F6) as S6. pose proof (fresh_id_kw _ _ _ F7) as S7. pose proof (fresh_id_kw _ _ _ F8) as S8.
      apply add_todo_spec in F9. apply add_todo_spec in F10. apply cache_put_spec in F11. subst t11 t10 t9.
      apply (post_pre_step _ _ _ _ S1). apply (post_pre_step _ _ _ _ S2). apply (post_pre_step _ _ _ _ S3). apply (post_pre_step _ _ _ _ S4).
      apply (post_pre_step _ _ _ _ S5). apply (post_pre_step _ _ _ _ S6). apply (post_pre_step _ _ _ _ S7). apply (post_pre_step _ _ _ _ S8).
      set (extra := ("_loop0_" ++ nat_to_string k2)%string).
      set (r1 := mk_rule extra (Rhs i1 [Alt [NItem i2 None None s; NItem i3 (Some "elem") None e]
                                   (Some {| atext := "elem"; aused := ["elem"]; aparses := true |})])).
      set (r2 := mk_rule ("_gather_" ++ nat_to_string k) (Rhs i4 [Alt [NItem i5 (Some "elem") None e; NItem i6 (Some "seq") None (NameLeaf extra)] None])).
      assert (Ht1 : top_items r1 = [s; e]) by (unfold r1, extra; apply top_items_extra; apply loop0_name).
      assert (Ht2 : top_items r2 = [e; NameLeaf extra]) by (unfold r2; apply top_items_gather).
      destruct (queue_and_cache t8 (Gather id s e) [r1; r2] id (Some ("_gather_" ++ nat_to_string k), CMeth ("_gather_" ++ nat_to_string k)))
        as (G1 & G2 & G3 & G4).
      * exact (pre_step _ _ S8 (pre_step _ _ S7 (pre_step _ _ S6 (pre_step _ _ S5 (pre_step _ _ S4 (pre_step _ _ S3 (pre_step _ _ S2 (pre_step _ _ S1 HP)))))))).
      * exact Hcl.
      * left. reflexivity.
      * reflexivity.
      * intros i Hi. exists r1. split; [left; reflexivity|]. rewrite Ht1. exact Hi.
      * intros r i Hr Hi. destruct Hr as [<-|[<-|[]]].
        -- rewrite Ht1 in Hi. apply (closed_sub _ _ Hcl). intros x Hx. right. apply in_or_app.
           destruct Hi as [<-|[<-|[]]]; [left|right]; exact Hx.
        -- rewrite Ht2 in Hi. destruct Hi as [<-|[<-|[]]].
           ++ apply (closed_sub _ _ Hcl). intros x Hx. right. apply in_or_app. right. exact Hx.
           ++ intros x [].
      * match goal with |- post _ _ ?X =>
          assert (EX : X = {| g_counter := g_counter t8; g_todo := (g_todo t8 ++ [r1; r2])%list;
                              g_cache := (id, (Some ("_gather_" ++ nat_to_string k), CMeth ("_gather_" ++ nat_to_string k))) :: g_cache t8;
                              g_keywords := g_keywords t8; g_soft := g_soft t8; g_fresh := g_fresh t8; g_locals := g_locals t8 |})
            by (cbn; rewrite <- app_assoc; reflexivity); rewrite EX end.
        split; [exact G1|]. split; [exact G2|split; assumption].
    + (* PosLook *)
      apply gbind_inv in H as (y & s & F0 & H). assert (Hs : post st j s) by (apply (IHi j st y s); auto).
      destruct (split_call _) as [[hd tl]|err]; [|discriminate]. apply gret_spec in H as (_ & ->). exact Hs.
    + (* NegLook *)
      apply gbind_inv in H as (y & s & F0 & H). assert (Hs : post st j s) by (apply (IHi j st y s); auto).
      destruct (split_call _) as [[hd tl]|err]; [|discriminate]. apply gret_spec in H as (_ & ->). exact Hs.
    + (* Forced *)
      destruct j as [n|raw|r|j|id j|id j|id s e|j|j|j| |r]; try discriminate.
      * apply gbind_inv in H as (y & s & F0 & H). apply gret_spec in H as (_ & ->). exact (IHi (NameLeaf n) st y s Hcl HP F0).
      * apply gbind_inv in H as (y & s & F0 & H). apply gret_spec in H as (_ & ->). exact (IHi (StringLeaf raw) st y s Hcl HP F0).
      * apply gbind_inv in H as (y & s & F0 & H). assert (Hs : post st (Group r) s) by (exact (IHr r st y s Hcl HP F0)).
        destruct (snd y); apply gret_spec in H as (_ & ->); exact Hs.
    + (* Cut *) apply gret_spec in H as (_ & ->). apply post_refl; [exact HP|exact I].
    + (* RhsItem *) exact (IHr r st nc st' Hcl HP H).
  - intros r st nc st' Hcl HP H. destruct r as [id alts]. cbn [cm_rhs] in H.
    apply gbind_inv in H as (c0 & t0 & F0 & H). apply cache_get_spec in F0 as (-> & ->). destruct (assocN id (g_cache st)) as [v|] eqn:EC.
    { apply gret_spec in H as (_ & ->). apply post_refl; [exact HP|]. cbn [Cov rhs_id]. unfold cachedP. rewrite EC. discriminate. }
    apply gbind_inv in H as (v & t1 & F1 & H). apply gbind_inv in H as (u2 & t2 & F2 & H). apply gret_spec in H as (_ & ->).
    apply cache_put_spec in F2. subst t2.
    (* the multi-item / multi-alternative case: a _tmp_ helper *)
    assert (Hgen : not_single (Rhs id alts) ->
              (k <- next_counter ;; let name := ("_tmp_" ++ nat_to_string k)%string in
               _ <- add_todo (mk_rule name (Rhs id alts)) ;; gret (Some name, CMeth name)) st = (inl v, t1) ->
              post st (Group (Rhs id alts)) (snd (cache_put id v t1))).
    { intros Hns Hg. apply gbind_inv in Hg as (k & s1 & G1 & Hg). apply gbind_inv in Hg as (u & s2 & G2 & Hg).
      apply gret_spec in Hg as (-> & ->). pose proof (next_counter_kw _ _ _ G1) as S1. apply add_todo_spec in G2. subst s2.
      apply (post_pre_step _ _ _ _ S1).
      set (rt := mk_rule ("_tmp_" ++ nat_to_string k) (Rhs id alts)).
      destruct (queue_and_cache s1 (Group (Rhs id alts)) [rt] id (Some ("_tmp_" ++ nat_to_string k), CMeth ("_tmp_" ++ nat_to_string k)))
        as (Q1 & Q2 & Q3 & Q4).
      - exact (pre_step _ _ S1 HP).
      - exact Hcl.
      - left. reflexivity.
      - reflexivity.
      - intros i Hi. exists rt. split; [left; reflexivity|]. unfold rt. rewrite (top_items_tmp k _ Hns). exact Hi.
      - intros r i [<-|[]] Hi. unfold rt in Hi. rewrite (top_items_tmp k _ Hns) in Hi.
        apply (closed_sub _ _ Hcl). intros x Hx. right. exact (in_rhs_items_nodes _ _ Hi x Hx).
      - split; [exact Q1|]. split; [exact Q2|split; assumption]. }
    destruct alts as [|[[|[i0 nm0 ty0 it0] [|n2 items]] [act|]] [|a2 alts]]; try (exact (Hgen I F1)).
    (* one alternative, one item, no action: the item's own call is recorded for the group *)
    apply gbind_inv in F1 as (w & s1 & G1 & F1). apply gret_spec in F1 as (-> & ->).
    assert (Hcl0 : closed_item it0).
    { apply (closed_sub _ _ Hcl). intros x Hx. right. rewrite nodes_rhs_eq. cbn [flat_map]. rewrite app_nil_r, nodes_alt_eq. cbn [flat_map ni_item].
      rewrite app_nil_r. exact Hx. }
    destruct (IHi it0 st w s1 Hcl0 HP G1) as (A & B & C & D).
    set (v := (match nm0 with Some x => if String.eqb x "" then fst w else Some x | None => fst w end, snd w)).
    assert (Hg : grows s1 (snd (cache_put id v s1))).
    { split; [apply incl_refl|]. split; [apply incl_refl|]. split; [|exists []; rewrite app_nil_r; reflexivity].
      intros id' Hc. unfold cachedP in *. cbn. destruct (N.eqb id' id); [discriminate|exact Hc]. }
    split; [eapply grows_trans; eauto|]. split; [cbn [Cov rhs_id]; unfold cachedP; cbn; rewrite N.eqb_refl; discriminate|]. split.
    + intros id' n' Hc Hn' Hid'. unfold cachedP in Hc. cbn in Hc. destruct (N.eqb id' id) eqn:Eid.
      * apply N.eqb_eq in Eid. subst id'.
        assert (Hnc : In (Group (Rhs id [Alt [NItem i0 nm0 ty0 it0] None])) (grammar_nodes g)) by (apply Hcl; left; reflexivity).
        assert (En : n' = Group (Rhs id [Alt [NItem i0 nm0 ty0 it0] None])) by (apply Hids; [exact Hn'|exact Hnc|exact Hid']).
        subst n'. right. exists it0. split; [reflexivity|]. eapply Cov_grows; [exact Hg|exact B].
      * eapply entry_ok_grows; [exact Hg|]. apply (C id' n'); auto.
    + intros r i Hr Hi. apply (D r i); auto.
Qed.
End CM.

(* ---- the rule emitter ---- *)
Lemma dedupe_kw x st y s : dedupe x st = (inl y, s) -> same_tc st s /\ g_keywords s = g_keywords st /\ g_soft s = g_soft st.
Proof.
  unfold dedupe. intros H. apply gbind_inv in H as (l & t0 & F0 & H). apply get_locals_spec in F0. subst t0.
  apply gbind_inv in H as (u & t1 & F1 & H). apply gret_spec in H as (_ & ->). unfold set_locals in F1. injection F1 as _ <-. repeat split.
Qed.
Lemma set_locals_kw l st y s : set_locals l st = (inl y, s) -> same_tc st s /\ g_keywords s = g_keywords st /\ g_soft s = g_soft st.
Proof. unfold set_locals. intros [= _ <-]. repeat split. Qed.

Section Emit.
Variable g : grammar.
Hypothesis Hids : ids_distinct g.
Variable invalid_tbl : list (string * bexp).
Variable iter_fields : list (string * list string).
Variable rs0 : list rule.
Variable nullable_rules left_rec leaders : list string.
Variable item_flag : N -> bool.
Variable E : list rule.

Notation pre := (pre g E). Notation post := (post g E). Notation closed_item := (closed_item g).

Lemma emit_item_kw n used unreachable is_gather st c st' :
  closed_item (ni_item n) -> pre st -> emit_item n used unreachable is_gather st = (inl c, st') -> post st (ni_item n) st'.
Proof.
  intros Hcl HP H. unfold emit_item in H. apply gbind_inv in H as (nc & t0 & F0 & H).
  pose proof (proj1 (cm_kw g Hids E _) _ _ _ _ Hcl HP F0) as Hpost.
  match type of H with (match ?nm with _ => _ end) _ = _ => destruct nm as [x|] end.
  - destruct (String.eqb x ""); [apply gret_spec in H as (_ & ->); exact Hpost|].
    destruct (String.eqb x "cut"); [apply gret_spec in H as (_ & ->); exact Hpost|].
    apply gbind_inv in H as (x' & t1 & F1 & H). apply gret_spec in H as (_ & ->). pose proof (dedupe_kw _ _ _ _ F1) as S1.
    destruct Hpost as (A & B & C & D). pose proof (grows_step _ _ S1) as Hg.
    destruct (pre_step _ _ _ _ S1 (Logic.conj C D)) as (C' & D').
    split; [eapply grows_trans; eauto|]. split; [eapply Cov_grows; eauto|split; assumption].
  - apply gret_spec in H as (_ & ->). exact Hpost.
Qed.

Lemma emit_items_kw used unreachable is_gather : forall l st cs st',
  (forall n, In n l -> closed_item (ni_item n)) -> pre st -> emit_items l used unreachable is_gather st = (inl cs, st') ->
  grows st st' /\ (forall n, In n l -> Cov st' (ni_item n)) /\ pre st'.
Proof.
  induction l as [|n l IH]; intros st cs st' Hcl HP H; cbn [emit_items] in H.
  - apply gret_spec in H as (_ & ->). split; [apply grows_refl|]. split; [intros n []|exact HP].
  - apply gbind_inv in H as (c & t0 & F0 & H). apply gbind_inv in H as (cs0 & t1 & F1 & H). apply gret_spec in H as (_ & ->).
    destruct (emit_item_kw _ _ _ _ _ _ _ (Hcl n (or_introl eq_refl)) HP F0) as (A & B & C & D).
    destruct (IH _ _ _ (fun m Hm => Hcl m (or_intror Hm)) (Logic.conj C D) F1) as (A2 & B2 & P2).
    split; [eapply grows_trans; eauto|]. split; [|exact P2].
    intros m [<-|Hm]; [eapply Cov_grows; eauto|apply B2; exact Hm].
Qed.

Lemma emit_alt_kw a is_loop is_gather st x st' :
  (forall n, In n (alt_items a) -> closed_item (ni_item n)) -> pre st ->
  emit_alt invalid_tbl iter_fields a is_loop is_gather st = (inl x, st') ->
  grows st st' /\ (forall n, In n (alt_items a) -> Cov st' (ni_item n)) /\ pre st'.
Proof.
  intros Hcl HP H. unfold emit_alt in H.
  apply gbind_inv in H as (u0 & t0 & F0 & H).
  assert (S0 : t0 = st).
  { match type of F0 with (match ?o with _ => _ end) _ = _ => destruct o as [ac|] end;
      [destruct (aparses ac); [apply gret_spec in F0 as (_ & ->); reflexivity|discriminate]|apply gret_spec in F0 as (_ & ->); reflexivity]. }
  subst t0.
  apply gbind_inv in H as (u1 & t1 & F1 & H). pose proof (set_locals_kw _ _ _ _ F1) as S1.
  apply gbind_inv in H as (conjs & t2 & F2 & H).
  destruct (emit_items_kw _ _ _ _ _ _ _ Hcl (pre_step _ _ _ _ S1 HP) F2) as (A & B & P).
  apply gbind_inv in H as (locals & t3 & F3 & H). apply get_locals_spec in F3. subst t3.
  apply gbind_inv in H as (final & t4 & F4 & H). apply gret_spec in H as (_ & ->).
  assert (S4 : t4 = t2).
  { repeat match type of F4 with
           | (match ?o with _ => _ end) _ = _ => destruct o
           | (if ?b then _ else _) _ = _ => destruct b
           | gret _ _ = _ => apply gret_spec in F4 as (_ & ->); reflexivity
           | gfail _ _ = _ => discriminate
           end. }
  subst t4. split; [eapply grows_trans; [apply (grows_step _ _ S1)|exact A]|]. split; [exact B|exact P].
Qed.

Lemma emit_alts_kw is_loop is_gather : forall l st xs st',
  (forall a n, In a l -> In n (alt_items a) -> closed_item (ni_item n)) -> pre st ->
  emit_alts invalid_tbl iter_fields l is_loop is_gather st = (inl xs, st') ->
  grows st st' /\ (forall a n, In a l -> In n (alt_items a) -> Cov st' (ni_item n)) /\ pre st'.
Proof.
  induction l as [|a l IH]; intros st xs st' Hcl HP H; cbn [emit_alts] in H.
  - apply gret_spec in H as (_ & ->). split; [apply grows_refl|]. split; [intros a n []|exact HP].
  - apply gbind_inv in H as (x & t0 & F0 & H). apply gbind_inv in H as (xs0 & t1 & F1 & H). apply gret_spec in H as (_ & ->).
    destruct (emit_alt_kw _ _ _ _ _ _ (fun n Hn => Hcl a n (or_introl eq_refl) Hn) HP F0) as (A & B & P).
    destruct (IH _ _ _ (fun b n Hb Hn => Hcl b n (or_intror Hb) Hn) P F1) as (A2 & B2 & P2).
    split; [eapply grows_trans; eauto|]. split; [|exact P2].
    intros b n [<-|Hb] Hn; [eapply Cov_grows; [exact A2|apply B; exact Hn]|apply (B2 b n Hb Hn)].
Qed.

Lemma emit_rule_kw r st m st' :
  (forall i, In i (top_items r) -> closed_item i) -> pre st ->
  emit_rule invalid_tbl iter_fields rs0 nullable_rules left_rec leaders item_flag r st = (inl m, st') ->
  grows st st' /\ (forall i, In i (top_items r) -> Cov st' i) /\ pre st'.
Proof.
  intros Hcl HP H. unfold emit_rule in H.
  apply gbind_inv in H as (u0 & t0 & F0 & H).
  assert (S0 : t0 = st).
  { destruct (is_loop_name (rname r)); [|apply gret_spec in F0 as (_ & ->); reflexivity].
    destruct (rhs_alts (flatten r)) as [|a [|a2 l]]; try discriminate. apply gret_spec in F0 as (_ & ->). reflexivity. }
  subst t0. apply gbind_inv in H as (alts & t1 & F1 & H). apply gret_spec in H as (_ & ->).
  assert (Hcl' : forall a n, In a (rhs_alts (flatten r)) -> In n (alt_items a) -> closed_item (ni_item n)).
  { intros a n Ha Hn. apply Hcl. unfold top_items. apply in_flat_map. exists a. split; [exact Ha|]. apply in_map. exact Hn. }
  destruct (emit_alts_kw _ _ _ _ _ _ Hcl' HP F1) as (A & B & P). split; [exact A|]. split; [|exact P].
  intros i Hi. unfold top_items in Hi. apply in_flat_map in Hi as (a & Ha & Hi). apply in_map_iff in Hi as (n & <- & Hn). exact (B a n Ha Hn).
Qed.
End Emit.

(* ---- the work list ---- *)
Lemma pop_todo_kw st r s : pop_todo st = (inl (Some r), s) ->
  g_todo st = r :: g_todo s /\ g_cache s = g_cache st /\ g_keywords s = g_keywords st /\ g_soft s = g_soft st.
Proof. unfold pop_todo. destruct (g_todo st) as [|r0 rest] eqn:Et; intros [= <- <-]. cbn. auto. Qed.

Lemma Cov_same st s i : g_cache s = g_cache st -> g_keywords s = g_keywords st -> g_soft s = g_soft st -> Cov st i -> Cov s i.
Proof.
  intros A B C. induction i; cbn [Cov]; unfold cachedP, registered; rewrite ?A, ?B, ?C; auto.
Qed.

Section All.
Variable g : grammar.
Hypothesis Hids : ids_distinct g.
Variable invalid_tbl : list (string * bexp).
Variable iter_fields : list (string * list string).
Variable rs0 : list rule.
Variable nullable_rules left_rec leaders : list string.
Variable item_flag : N -> bool.

Lemma emit_all_kw : forall fuel E st ms st',
  J1 g st E -> J0 g st E -> J2 st E ->
  emit_all invalid_tbl iter_fields rs0 nullable_rules left_rec leaders item_flag fuel st = (inl ms, st') ->
  exists E', incl (g_todo st ++ E)%list E' /\ g_todo st' = [] /\ J1 g st' E' /\ J0 g st' E' /\ J2 st' E'.
Proof.
  induction fuel as [|f IH]; intros E st ms st' H1 H0 H2 H; cbn [emit_all] in H; [discriminate|].
  apply gbind_inv in H as (o & t0 & F0 & H). destruct o as [r|].
  - apply pop_todo_kw in F0 as (Et & Ec & Ek & Es).
    apply gbind_inv in H as (m & t1 & F1 & H). apply gbind_inv in H as (ms0 & t2 & F2 & H). apply gret_spec in H as (_ & ->).
    assert (Hset : forall R, In R (g_todo st ++ E)%list <-> In R (g_todo t0 ++ r :: E)%list).
    { intros R. rewrite Et. cbn [app]. rewrite !in_app_iff. cbn [In]. rewrite in_app_iff. tauto. }
    assert (H1' : J1 g t0 (r :: E)).
    { intros id n Hc Hn Hid. assert (Hc' : cachedP st id) by (unfold cachedP in *; rewrite <- Ec; exact Hc).
      destruct (H1 id n Hc' Hn Hid) as [Hl|(it & Hi & Hcv)]; [left|right; exists it; split; [exact Hi|exact (Cov_same _ _ _ Ec Ek Es Hcv)]].
      intros i Hi. destruct (Hl i Hi) as (R & HR & Ht). exists R. split; [apply Hset; exact HR|exact Ht]. }
    assert (H0' : J0 g t0 (r :: E)).
    { intros R i HR Hi. apply (H0 R i); [apply Hset; exact HR|exact Hi]. }
    assert (Hcl : forall i, In i (top_items r) -> closed_item g i).
    { intros i Hi. apply (H0' r i); [apply in_or_app; right; left; reflexivity|exact Hi]. }
    destruct (emit_rule_kw g Hids _ _ _ _ _ _ _ (r :: E) r t0 m t1 Hcl (Logic.conj H1' H0') F1) as (A & B & (C & D)).
    assert (H2' : J2 t1 (r :: E)).
    { intros R i [<-|HR] Hi; [exact (B i Hi)|]. eapply Cov_grows; [exact A|]. apply (Cov_same st t0 i Ec Ek Es). exact (H2 R i HR Hi). }
    destruct (IH (r :: E) t1 ms0 t2 C D H2' F2) as (E' & I1 & I2 & I3 & I4 & I5).
    exists E'. split; [|auto]. intros R HR. apply I1. apply Hset in HR. apply in_app_or in HR as [HR|HR]; apply in_or_app; [left|right; exact HR].
    destruct A as (_ & _ & _ & (l & El)). rewrite El. apply in_or_app. left. exact HR.
  - unfold pop_todo in F0. destruct (g_todo st) as [|r0 rest] eqn:Et; [|discriminate]. injection F0 as <-.
    apply gret_spec in H as (_ & ->). exists E. cbn [app]. split; [apply incl_refl|]. split; [exact Et|]. auto.
Qed.
End All.

(* ---- when the queue is empty, coverage means registration ---- *)
Section Final.
Variable g : grammar.
Variable st : gst.
Variable E : list rule.
Hypothesis Hempty : g_todo st = [].
Hypothesis H1 : J1 g st E.
Hypothesis H0 : J0 g st E.
Hypothesis H2 : J2 st E.

Definition Pi (i : item) : Prop := closed_item g i -> Cov st i -> forall raw, In raw (lits_item i) -> registered st raw.
Definition Pr (r : rhs) : Prop := forall i, In i (rhs_items r) -> Pi i.
Definition Pa (a : alt) : Prop := forall n, In n (alt_items a) -> Pi (ni_item n).
Definition Pn (n : nitem) : Prop := Pi (ni_item n).

Lemma content_covered n i : In n (grammar_nodes g) -> cachedP st (node_id n) -> inlined n = None -> In i (content n) ->
  closed_item g i /\ Cov st i.
Proof.
  intros Hn Hc Hinl Hi. destruct (H1 (node_id n) n Hc Hn eq_refl) as [Hl|(it & Hit & _)]; [|congruence].
  destruct (Hl i Hi) as (R & HR & Ht). rewrite Hempty in HR. cbn [app] in HR.
  split; [apply (H0 R i); [rewrite Hempty; exact HR|exact Ht]|exact (H2 R i HR Ht)].
Qed.

Lemma lits_rhs_items r raw : In raw (lits_rhs r) -> exists i, In i (rhs_items r) /\ In raw (lits_item i).
Proof.
  destruct r as [id alts]. rewrite lits_rhs_eq. intros H. apply in_flat_map in H as (a & Ha & H). destruct a as [items act].
  rewrite lits_alt_eq in H. apply in_flat_map in H as (n & Hn & H). exists (ni_item n). split; [|exact H].
  unfold rhs_items. cbn [rhs_alts]. apply in_flat_map. exists (Alt items act). split; [exact Ha|]. cbn [alt_items]. apply in_map. exact Hn.
Qed.

Lemma rhs_case r : Pr r -> Pi (Group r) /\ Pi (RhsItem r).
Proof.
  intros Hr. assert (Hgen : closed_item g (Group r) -> cachedP st (rhs_id r) -> forall raw, In raw (lits_rhs r) -> registered st raw).
  { intros Hcl Hc raw Hraw. assert (Hn : In (Group r) (grammar_nodes g)) by (apply Hcl; left; reflexivity).
    destruct (lits_rhs_items r raw Hraw) as (i & Hi & Hli).
    destruct (H1 (rhs_id r) (Group r) Hc Hn eq_refl) as [Hl|(it & Hit & Hcv)].
    - destruct (Hl i Hi) as (R & HR & Ht). rewrite Hempty in HR. cbn [app] in HR.
      apply (Hr i Hi); [apply (H0 R i); [rewrite Hempty; exact HR|exact Ht]|exact (H2 R i HR Ht)|exact Hli].
    - destruct r as [id alts]. destruct alts as [|[[|[i0 nm0 ty0 it0] [|n2 items]] [act|]] [|a2 alts]]; try discriminate.
      injection Hit as <-. unfold rhs_items in Hi. cbn in Hi. destruct Hi as [<-|[]].
      apply (Hr it0); [left; reflexivity| |exact Hcv|exact Hli].
      intros x Hx. apply Hcl. right. rewrite nodes_rhs_eq. cbn [flat_map]. rewrite app_nil_r, nodes_alt_eq. cbn [flat_map ni_item].
      rewrite app_nil_r. exact Hx. }
  split; intros Hcl Hc raw Hraw; apply Hgen; auto.
Qed.

Lemma extraction : (forall i, Pi i) /\ (forall r, Pr r) /\ (forall a, Pa a) /\ (forall n, Pn n).
Proof.
  apply grammar_ast_ind.
  - intros n Hcl Hc raw [].
  - intros s Hcl Hc raw [<-|[]]. exact Hc.
  - intros r Hr. exact (proj1 (rhs_case r Hr)).
  - intros j Hj Hcl Hc raw Hraw. exact (Hj Hcl Hc raw Hraw).
  - (* Repeat0 *) intros id j Hj Hcl Hc raw Hraw.
    assert (Hn : In (Repeat0 id j) (grammar_nodes g)) by (apply Hcl; left; reflexivity).
    destruct (content_covered (Repeat0 id j) j Hn Hc eq_refl (or_introl eq_refl)) as (A & B). exact (Hj A B raw Hraw).
  - (* Repeat1 *) intros id j Hj Hcl Hc raw Hraw.
    assert (Hn : In (Repeat1 id j) (grammar_nodes g)) by (apply Hcl; left; reflexivity).
    destruct (content_covered (Repeat1 id j) j Hn Hc eq_refl (or_introl eq_refl)) as (A & B). exact (Hj A B raw Hraw).
  - (* Gather *) intros id s e Hs He Hcl Hc raw Hraw.
    assert (Hn : In (Gather id s e) (grammar_nodes g)) by (apply Hcl; left; reflexivity).
    cbn [lits_item] in Hraw. apply in_app_or in Hraw as [Hraw|Hraw].
    + destruct (content_covered (Gather id s e) s Hn Hc eq_refl (or_introl eq_refl)) as (A & B). exact (Hs A B raw Hraw).
    + destruct (content_covered (Gather id s e) e Hn Hc eq_refl (or_intror (or_introl eq_refl))) as (A & B). exact (He A B raw Hraw).
  - intros j Hj Hcl Hc raw Hraw. exact (Hj Hcl Hc raw Hraw).
  - intros j Hj Hcl Hc raw Hraw. exact (Hj Hcl Hc raw Hraw).
  - intros j Hj Hcl Hc raw Hraw. exact (Hj Hcl Hc raw Hraw).
  - intros Hcl Hc raw [].
  - intros r Hr. exact (proj2 (rhs_case r Hr)).
  - intros id alts Hall i Hi. unfold rhs_items in Hi. cbn [rhs_alts] in Hi. apply in_flat_map in Hi as (a & Ha & Hi).
    apply in_map_iff in Hi as (n & <- & Hn). rewrite Forall_forall in Hall. exact (Hall a Ha n Hn).
  - intros items act Hall n Hn. rewrite Forall_forall in Hall. exact (Hall n Hn).
  - intros id name ty i Hi. exact Hi.
Qed.
End Final.

(* ---- the theorem ---- *)
Lemma top_items_closed g r : In r (rules g) -> forall i, In i (top_items r) -> closed_item g i.
Proof.
  intros Hr i Hi x Hx. unfold grammar_nodes. apply in_flat_map. exists r. split; [exact Hr|].
  assert (Hsub : incl (nodes_rhs (flatten r)) (nodes_rhs (rrhs r))).
  { unfold flatten. destruct (is_loop_name (rname r)); [apply incl_refl|].
    destruct (rrhs r) as [id alts]. destruct alts as [|[[|[i0 nm0 ty0 it0] [|n2 items]] [act|]] [|a2 alts]]; try apply incl_refl;
      destruct it0; try apply incl_refl.
    intros y Hy. rewrite nodes_rhs_eq. cbn [flat_map]. rewrite app_nil_r, nodes_alt_eq. cbn [flat_map ni_item nodes_item]. rewrite app_nil_r.
    right. exact Hy. }
  apply Hsub. exact (in_rhs_items_nodes (flatten r) i Hi x Hx).
Qed.

Lemma lits_top_items r raw : In raw (lits_rhs (rrhs r)) -> exists i, In i (top_items r) /\ In raw (lits_item i).
Proof.
  intros H. unfold top_items. change (flat_map (fun a => map ni_item (alt_items a)) (rhs_alts (flatten r))) with (rhs_items (flatten r)).
  apply lits_rhs_items. unfold flatten. destruct (is_loop_name (rname r)); [exact H|].
  destruct (rrhs r) as [id alts]. destruct alts as [|[[|[i0 nm0 ty0 it0] [|n2 items]] [act|]] [|a2 alts]]; try exact H;
    destruct it0; try exact H.
  rewrite lits_rhs_eq in H. cbn [flat_map] in H. rewrite app_nil_r, lits_alt_eq in H. cbn [flat_map ni_item lits_item] in H.
  rewrite app_nil_r in H. exact H.
Qed.

Theorem generator_collects_every_keyword : forall invalid_tbl iter_fields pre suf file fb g an M,
  ids_distinct g ->
  generate invalid_tbl iter_fields pre suf file fb g an = inl M ->
  forall raw, In raw (grammar_lits g) -> is_identifier (strip_quotes raw) = true ->
  if endswith "'" raw then In (strip_quotes raw) (i_keywords M) else In (strip_quotes raw) (i_soft_keywords M).
Proof.
  intros tbl itf pre suf file fb g an M Hids H raw Hraw Hid. unfold generate in H.
  match type of H with (match ?e with _ => _ end) = _ => destruct e as [[ms|err] st] eqn:EA end; [|discriminate].
  injection H as <-. cbn [i_keywords i_soft_keywords].
  set (st0 := {| g_counter := 0; g_todo := rules g; g_cache := []; g_keywords := []; g_soft := []; g_fresh := fb; g_locals := [] |}) in *.
  assert (I1 : J1 g st0 []) by (intros id n Hc; exfalso; apply Hc; reflexivity).
  assert (I0 : J0 g st0 []).
  { intros r i Hr Hi. cbn in Hr. rewrite app_nil_r in Hr. exact (top_items_closed g r Hr i Hi). }
  assert (I2 : J2 st0 []) by (intros r i []).
  destruct (emit_all_kw g Hids _ _ _ _ _ _ _ _ _ _ _ _ I1 I0 I2 EA) as (E' & A & B & C & D & F).
  unfold grammar_lits in Hraw. apply in_flat_map in Hraw as (r & Hr & Hraw).
  destruct (lits_top_items r raw Hraw) as (i & Hi & Hli).
  assert (HrE : In r E') by (apply A; cbn; rewrite app_nil_r; exact Hr).
  pose proof (proj1 (extraction g st E' B C D F) i) as HP.
  assert (Hreg : registered st raw).
  { apply HP; [apply (D r i); [rewrite B; exact HrE|exact Hi]|exact (F r i HrE Hi)|exact Hli]. }
  specialize (Hreg Hid). destruct (endswith "'" raw); apply sort_set_In; exact Hreg.
Qed.

(* a decidable sufficient condition for [ids_distinct]: the identities, listed in traversal order, have no repetition *)
Fixpoint nodup_N (l : list N) : bool :=
  match l with [] => true | x :: l' => negb (existsb (N.eqb x) l') && nodup_N l' end.
Definition ids_distinct_b (g : grammar) : bool := nodup_N (map node_id (grammar_nodes g)).

Lemma nodup_inj {A} (f : A -> N) : forall l, nodup_N (map f l) = true ->
  forall a b, In a l -> In b l -> f a = f b -> a = b.
Proof.
  induction l as [|x l IH]; intros H a b Ha Hb E; [destruct Ha|]. cbn [map nodup_N] in H. apply andb_prop in H as [Hx Hl].
  apply negb_true_iff in Hx.
  assert (Hno : forall y, In y l -> f x <> f y).
  { intros y Hy Ey. assert (Hex : existsb (N.eqb (f x)) (map f l) = true).
    { apply existsb_exists. exists (f y). split; [apply in_map; exact Hy|apply N.eqb_eq; exact Ey]. }
    rewrite Hex in Hx. discriminate. }
  destruct Ha as [<-|Ha], Hb as [<-|Hb].
  - reflexivity.
  - exfalso. exact (Hno b Hb E).
  - exfalso. exact (Hno a Ha (eq_sym E)).
  - exact (IH Hl a b Ha Hb E).
Qed.

Theorem ids_distinct_b_sound g : ids_distinct_b g = true -> ids_distinct g.
Proof. intros H n1 n2 H1 H2 E. exact (nodup_inj node_id _ H n1 n2 H1 H2 E). Qed.
