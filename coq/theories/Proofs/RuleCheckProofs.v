(* With a complete __iter__ table, the reference checker refuses exactly the grammars that contain
   a dangling name or an underscore variable at ANY position. *)
From Coq Require Import List String NArith Bool.
From Pegen Require Import Base.StrUtil Grammar.Ast Grammar.Induction Analysis.Visitor Analysis.RuleCheck.
Import ListNotations.
Open Scope string_scope.

(* all names referenced / all item names bound, anywhere in the tree *)
Fixpoint item_names (i : item) : list string :=
  match i with
  | NameLeaf n => [n]
  | StringLeaf _ | Cut => []
  | Group r | RhsItem r => rhs_names r
  | Opt j | Repeat0 _ j | Repeat1 _ j | PosLook j | NegLook j | Forced j => item_names j
  | Gather _ s e => (item_names s ++ item_names e)%list
  end
with rhs_names (r : rhs) : list string :=
  match r with Rhs _ alts =>
    (fix go (l : list alt) := match l with [] => [] | a :: l' => (alt_names a ++ go l')%list end) alts end
with alt_names (a : alt) : list string :=
  match a with Alt items _ =>
    (fix go (l : list nitem) := match l with [] => [] | n :: l' => (nitem_names n ++ go l')%list end) items end
with nitem_names (n : nitem) : list string :=
  match n with NItem _ _ _ i => item_names i end.

Fixpoint item_vars (i : item) : list string :=
  match i with
  | NameLeaf _ | StringLeaf _ | Cut => []
  | Group r | RhsItem r => rhs_vars r
  | Opt j | Repeat0 _ j | Repeat1 _ j | PosLook j | NegLook j | Forced j => item_vars j
  | Gather _ s e => (item_vars s ++ item_vars e)%list
  end
with rhs_vars (r : rhs) : list string :=
  match r with Rhs _ alts =>
    (fix go (l : list alt) := match l with [] => [] | a :: l' => (alt_vars a ++ go l')%list end) alts end
with alt_vars (a : alt) : list string :=
  match a with Alt items _ =>
    (fix go (l : list nitem) := match l with [] => [] | n :: l' => (nitem_vars n ++ go l')%list end) items end
with nitem_vars (n : nitem) : list string :=
  match n with NItem _ name _ i =>
    match name with Some x => x :: item_vars i | None => item_vars i end end.

Definition bad_var (x : string) : bool := negb (String.eqb x "") && startswith "_" x.

Definition fields_ok (tbl : list (string * list string)) : Prop :=
  assoc_s "Rule" tbl = Some ["rhs"] /\ assoc_s "Rhs" tbl = Some ["alts"] /\ assoc_s "Alt" tbl = Some ["items"] /\
  assoc_s "StringLeaf" tbl = Some [] /\ assoc_s "Group" tbl = Some ["rhs"] /\ assoc_s "Opt" tbl = Some ["node"] /\
  assoc_s "Repeat0" tbl = Some ["node"] /\ assoc_s "Repeat1" tbl = Some ["node"] /\
  (assoc_s "Gather" tbl = Some ["separator"; "node"] \/ assoc_s "Gather" tbl = Some ["node"; "separator"]) /\
  assoc_s "PositiveLookahead" tbl = Some ["node"] /\ assoc_s "NegativeLookahead" tbl = Some ["node"] /\
  assoc_s "Forced" tbl = Some ["node"] /\ assoc_s "Cut" tbl = Some [].

Definition lists_eqb := list_eqb String.eqb.
Definition has (tbl : list (string * list string)) (c : string) (fs : list string) : bool :=
  match assoc_s c tbl with Some l => lists_eqb l fs | None => false end.
Definition fields_ok_b (tbl : list (string * list string)) : bool :=
  has tbl "Rule" ["rhs"] && has tbl "Rhs" ["alts"] && has tbl "Alt" ["items"] && has tbl "StringLeaf" [] &&
  has tbl "Group" ["rhs"] && has tbl "Opt" ["node"] && has tbl "Repeat0" ["node"] && has tbl "Repeat1" ["node"] &&
  (has tbl "Gather" ["separator"; "node"] || has tbl "Gather" ["node"; "separator"]) &&
  has tbl "PositiveLookahead" ["node"] && has tbl "NegativeLookahead" ["node"] && has tbl "Forced" ["node"] &&
  has tbl "Cut" [].

Lemma lists_eqb_eq a b : lists_eqb a b = true -> a = b.
Proof.
  revert b; induction a as [|x a IH]; intros [|y b]; cbn; try discriminate; auto.
  intros H. apply andb_prop in H as [H1 H2]. apply String.eqb_eq in H1. f_equal; auto.
Qed.
Lemma has_spec tbl c fs : has tbl c fs = true -> assoc_s c tbl = Some fs.
Proof. unfold has. destruct (assoc_s c tbl); [|discriminate]. intros H. apply lists_eqb_eq in H. now subst. Qed.

Lemma fields_ok_b_spec tbl : fields_ok_b tbl = true -> fields_ok tbl.
Proof.
  unfold fields_ok_b, fields_ok. intros H.
  repeat (apply andb_prop in H as [H ?]).
  repeat match goal with Hx : has _ _ _ = true |- _ => apply has_spec in Hx end.
  repeat split; auto.
  match goal with Hx : (_ || _) = true |- _ => apply orb_prop in Hx as [Hx|Hx]; apply has_spec in Hx; auto end.
Qed.

Section P.
Variable tbl : list (string * list string).
Variable known : string -> bool.
Hypothesis Hok : fields_ok tbl.

Definition good_names (l : list string) : Prop := forall n, In n l -> known n = true.
Definition good_vars (l : list string) : Prop := forall x, In x l -> bad_var x = false.

Lemma good_names_app a b : good_names (a ++ b) <-> good_names a /\ good_names b.
Proof. unfold good_names. split; [intros H; split; intros n Hn; apply H; apply in_or_app; auto|].
  intros [H1 H2] n Hn. apply in_app_or in Hn as [Hn|Hn]; auto. Qed.
Lemma good_vars_app a b : good_vars (a ++ b) <-> good_vars a /\ good_vars b.
Proof. unfold good_vars. split; [intros H; split; intros n Hn; apply H; apply in_or_app; auto|].
  intros [H1 H2] n Hn. apply in_app_or in Hn as [Hn|Hn]; auto. Qed.

Notation rci := (rc_item tbl known).
Notation rcr := (rc_rhs tbl known).
Notation rca := (rc_alt tbl known).
Notation rcn := (rc_nitem tbl known).

Definition Pi (i : item) := rci i = None <-> good_names (item_names i) /\ good_vars (item_vars i).
Definition Pr (r : rhs) := rcr r = None <-> good_names (rhs_names r) /\ good_vars (rhs_vars r).
Definition Pa (a : alt) := rca a = None <-> good_names (alt_names a) /\ good_vars (alt_vars a).
Definition Pn (n : nitem) := rcn n = None <-> good_names (nitem_names n) /\ good_vars (nitem_vars n).

Lemma gn_nil : good_names [] /\ good_vars [].
Proof. split; intros x []. Qed.

Ltac tbl_rw :=
  destruct Hok as (H1 & H2 & H3 & H4 & H5 & H6 & H7 & H8 & H9 & H10 & H11 & H12 & H13).

Lemma one_field cls f r : assoc_s cls tbl = Some [f] ->
  by_table tbl cls [(f, RNode r)] = r.
Proof. intros H. unfold by_table. rewrite H. cbn. rewrite String.eqb_refl. destruct r; reflexivity. Qed.

Lemma two_none (a b : option gerr) (A B : Prop) : (a = None <-> A) -> (b = None <-> B) ->
  (match a with Some e => Some e | None => match b with Some e => Some e | None => None end end = None <-> A /\ B).
Proof.
  intros Ha Hb. destruct a as [x|], b as [y|]; (split; [try discriminate | intros [HA HB]]);
    try (apply Ha in HA; discriminate); try (apply Hb in HB; discriminate); try reflexivity.
  intros _. split; [apply Ha|apply Hb]; reflexivity.
Qed.

Lemma cons_none (a : option gerr) (rest : list (option gerr)) (A B : Prop) :
  (a = None <-> A) -> (first_err rest = None <-> B) ->
  (match a with Some e => Some e | None => first_err rest end = None <-> A /\ B).
Proof.
  intros Ha Hb. destruct a as [x|]; (split; [try discriminate | intros [HA HB]]).
  - apply Ha in HA. discriminate.
  - intros H. split; [apply Ha; reflexivity | apply Hb; exact H].
  - apply Hb; exact HB.
Qed.

Lemma list_field cls f rs : assoc_s cls tbl = Some [f] -> by_table tbl cls [(f, RList rs)] = first_err rs.
Proof. intros H. unfold by_table. rewrite H. cbn. rewrite String.eqb_refl. destruct (first_err rs); reflexivity. Qed.

Lemma all_props : (forall i, Pi i) /\ (forall r, Pr r) /\ (forall a, Pa a) /\ (forall n, Pn n).
Proof.
  tbl_rw.
  apply grammar_ast_ind; unfold Pi, Pr, Pa, Pn.
  - (* NameLeaf *) intros n. cbn. destruct (known n) eqn:E.
    + split; [intros _; split; [intros x [<-|[]]; exact E | intros x []] | reflexivity].
    + split; [discriminate|]. intros [H _]. specialize (H n (or_introl eq_refl)). congruence.
  - (* StringLeaf *) intros s. cbn. unfold by_table. rewrite H4. cbn. split; [intros _; apply gn_nil|reflexivity].
  - (* Group *) intros r IH. cbn [rc_item item_names item_vars]. rewrite (one_field "Group" "rhs" _ H5). exact IH.
  - intros i IH. cbn [rc_item item_names item_vars]. rewrite (one_field "Opt" "node" _ H6). exact IH.
  - intros id i IH. cbn [rc_item item_names item_vars]. rewrite (one_field "Repeat0" "node" _ H7). exact IH.
  - intros id i IH. cbn [rc_item item_names item_vars]. rewrite (one_field "Repeat1" "node" _ H8). exact IH.
  - (* Gather *) intros id s e IHs IHe. cbn [rc_item item_names item_vars].
    rewrite good_names_app, good_vars_app.
    unfold by_table. destruct H9 as [H9|H9]; rewrite H9; cbn.
    + rewrite (two_none _ _ _ _ IHs IHe). tauto.
    + rewrite (two_none _ _ _ _ IHe IHs). tauto.
  - intros i IH. cbn [rc_item item_names item_vars]. rewrite (one_field "PositiveLookahead" "node" _ H10). exact IH.
  - intros i IH. cbn [rc_item item_names item_vars]. rewrite (one_field "NegativeLookahead" "node" _ H11). exact IH.
  - intros i IH. cbn [rc_item item_names item_vars]. rewrite (one_field "Forced" "node" _ H12). exact IH.
  - (* Cut *) cbn. unfold by_table. rewrite H13. cbn. split; [intros _; apply gn_nil|reflexivity].
  - (* RhsItem *) intros r IH. exact IH.
  - (* Rhs *) intros id alts HF. cbn [rc_rhs rhs_names rhs_vars].
    rewrite (list_field "Rhs" "alts" _ H2).
    induction HF as [|a alts Ha HF IH]; cbn [first_err].
    + split; [intros _; apply gn_nil|reflexivity].
    + rewrite good_names_app, good_vars_app. rewrite (cons_none _ _ _ _ Ha IH). tauto.
  - (* Alt *) intros items act HF. cbn [rc_alt alt_names alt_vars].
    rewrite (list_field "Alt" "items" _ H3).
    induction HF as [|n items Hn HF IH]; cbn [first_err].
    + split; [intros _; apply gn_nil|reflexivity].
    + rewrite good_names_app, good_vars_app. rewrite (cons_none _ _ _ _ Hn IH). tauto.
  - (* NamedItem *) intros id name ty i IH. cbn [rc_nitem nitem_names nitem_vars].
    destruct name as [x|]; [|exact IH].
    fold (bad_var x). destruct (bad_var x) eqn:B.
    + split; [discriminate|]. intros [_ H]. specialize (H x (or_introl eq_refl)). congruence.
    + rewrite IH. split; intros [Ha Hb]; (split; [exact Ha|]).
      * intros y [<-|Hy]; [exact B|apply Hb; exact Hy].
      * intros y Hy. apply Hb. right; exact Hy.
Qed.

Theorem rc_rule_spec r : rc_rule tbl known r = None <->
  good_names (rhs_names (rrhs r)) /\ good_vars (rhs_vars (rrhs r)).
Proof.
  unfold rc_rule. destruct Hok as (H1 & _). rewrite (one_field "Rule" "rhs" _ H1).
  exact (proj1 (proj2 all_props) (rrhs r)).
Qed.

End P.

(* ---------------- the whole up-front check ---------------- *)
Lemma first_underscore_none rs : first_underscore_rule rs = None <->
  forall r, In r rs -> startswith "_" (rname r) = false.
Proof.
  induction rs as [|r rs IH]; cbn; [split; [intros _ r []|reflexivity]|].
  destruct (startswith "_" (rname r)) eqn:E.
  - split; [discriminate|]. intros H. specialize (H r (or_introl eq_refl)). congruence.
  - rewrite IH. split; [intros H r' [<-|Hr]; auto | intros H r' Hr; apply H; right; exact Hr].
Qed.

Lemma first_err_map_none {A} (f : A -> option gerr) l :
  first_err (map f l) = None <-> forall x, In x l -> f x = None.
Proof.
  induction l as [|x l IH]; cbn; [split; [intros _ y []|reflexivity]|].
  destruct (f x) eqn:E.
  - split; [discriminate|]. intros H. specialize (H x (or_introl eq_refl)). congruence.
  - rewrite IH. split; [intros H y [<-|Hy]; auto | intros H y Hy; apply H; right; exact Hy].
Qed.

Definition known_in (g : grammar) (tokens : list string) (n : string) : bool := has_rule g n || mem_str n tokens.

Theorem check_grammar_accepts tbl tokens g : fields_ok tbl ->
  (check_grammar tbl tokens g = None <->
   (forall r, In r (rules g) -> startswith "_" (rname r) = false) /\
   (has_meta g "trailer" = true \/ has_rule g "start" = true) /\
   (forall r, In r (rules g) ->
      good_names (known_in g tokens) (rhs_names (rrhs r)) /\ good_vars (rhs_vars (rrhs r)))).
Proof.
  intros Hok. unfold check_grammar.
  destruct (first_underscore_rule (rules g)) eqn:U.
  - split; [discriminate|]. intros [H _]. apply (proj2 (first_underscore_none _)) in H. congruence.
  - pose proof (proj1 (first_underscore_none _) U) as U'. clear U. rename U' into U.
    destruct (has_meta g "trailer") eqn:T, (has_rule g "start") eqn:S; cbn [negb andb];
      try (rewrite first_err_map_none; split;
           [intros H; split; [exact U|split; [auto|]]; intros r Hr; apply (rc_rule_spec tbl _ Hok); apply H; exact Hr
           |intros (_ & _ & H) r Hr; apply (rc_rule_spec tbl _ Hok); apply H; exact Hr]).
    split; [discriminate|]. intros (_ & [H|H] & _); discriminate.
Qed.
