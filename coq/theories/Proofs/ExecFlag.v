(* The error-mode flag: every invocation that returns leaves call_invalid_rules as it found it
   (a *_without_invalid method clears it for its body and restores it on every return path), and
   with the flag off a guarded alternative behaves exactly as if it were not there. *)
From Coq Require Import List String NArith ZArith Bool Arith Lia.
From Pegen Require Import Base.StrUtil Base.Values Runtime.Tokenizer Sem.Peg Gen.Gen Runtime.Exec.
Import ListNotations.
Open Scope string_scope.

Section Flag.
Variable K : kinds.
Variable toks : list rtok.
Variable verbose use_cache : bool.
Variable M : ir_module.
Variable aeval : string -> env -> option value.
Variable exact_types token_dict : list (string * N).

(* "f keeps the flag": whenever it returns normally the flag is what it was *)
Definition keeps (f : pstate -> R) : Prop := forall st v st', f st = (Ok v, st') -> invalid st' = invalid st.

Lemma peek_flag st t st' : peek toks st = (t, st') -> invalid st' = invalid st.
Proof. unfold peek. destruct (nth_error toks (pos st)); intros [= <- <-]; reflexivity. Qed.

Lemma showpeek_keeps : keeps (showpeek toks).
Proof.
  intros st v st'. unfold showpeek. destruct (peek toks st) as [[t|] s] eqn:E; intros [= <- <-].
  exact (peek_flag _ _ _ E).
Qed.

Lemma prim_tok_keeps test : keeps (prim_tok toks test).
Proof.
  intros st v st'. unfold prim_tok. destruct (peek toks st) as [[t|] s] eqn:E; [|discriminate].
  pose proof (peek_flag _ _ _ E). destruct (test t); intros [= <- <-]; cbn; assumption.
Qed.

Lemma logged_keeps n la f : keeps f -> keeps (logged n la f).
Proof.
  intros Hf st v st'. unfold logged. destruct (f st) as [[w| |] s] eqn:E; try discriminate.
  intros [= <- <-]. cbn. exact (Hf _ _ _ E).
Qed.

Lemma pre_show_flag st : forall v s, (if verbose then showpeek toks st else (Ok VNone, st)) = (Ok v, s) -> invalid s = invalid st.
Proof. intros v s. destruct verbose; [apply showpeek_keeps | intros [= <- <-]; reflexivity]. Qed.

Lemma memoize_keeps n a body : keeps body -> keeps (memoize toks verbose use_cache n a body).
Proof.
  intros Hb st v st'. unfold memoize. destruct (negb use_cache); [apply Hb|].
  destruct (cache_find _ _) as [[tree e]|]; [intros [= <- <-]; reflexivity|].
  unfold bind_r. destruct (if verbose then showpeek toks st else (Ok VNone, st)) as [[v0| |] s0] eqn:E0; try discriminate.
  destruct (body s0) as [[tree| |] s1] eqn:E1; try discriminate. intros [= <- <-]. cbn.
  rewrite (Hb _ _ _ E1). exact (pre_show_flag _ _ _ E0).
Qed.

Lemma logger_keeps body : keeps body -> keeps (logger_wrap toks verbose body).
Proof.
  intros Hb st v st'. unfold logger_wrap. destruct (negb verbose); [apply Hb|].
  unfold bind_r. destruct (showpeek toks st) as [[v0| |] s0] eqn:E0; try discriminate.
  intros H. rewrite (Hb _ _ _ H). exact (showpeek_keeps _ _ _ E0).
Qed.

Lemma grow_keeps fuel : forall key mark body lastresult lastmark, keeps body ->
  keeps (grow fuel key mark body lastresult lastmark).
Proof.
  induction fuel as [|f IH]; intros key mark body lr lm Hb st v st'; cbn [grow]; [discriminate|].
  unfold bind_r. destruct (body (with_pos st mark)) as [[result| |] s1] eqn:E; try discriminate.
  pose proof (Hb _ _ _ E) as H1. cbn in H1.
  destruct (negb (truthy result)); [intros [= <- <-]; cbn; exact H1|].
  destruct (truthy lr && Nat.leb (pos s1) lm); [intros [= <- <-]; cbn; exact H1|].
  intros H. rewrite (IH _ _ _ _ _ Hb _ _ _ H). cbn. exact H1.
Qed.

Lemma memoize_left_rec_keeps fuel n body : keeps body -> keeps (memoize_left_rec toks verbose fuel n body).
Proof.
  intros Hb st v st'. unfold memoize_left_rec.
  destruct (cache_find _ _) as [[tree e]|]; [intros [= <- <-]; destruct (truthy tree); reflexivity|].
  unfold bind_r. destruct (if verbose then showpeek toks st else (Ok VNone, st)) as [[v0| |] s0] eqn:E0; try discriminate.
  destruct (grow fuel _ (pos st) body VNone (pos st) _) as [[tree| |] s1] eqn:E1; try discriminate.
  intros [= <- <-]. pose proof (grow_keeps fuel _ _ _ _ _ Hb _ _ _ E1) as H1. cbn in H1.
  destruct (truthy tree); cbn; rewrite H1; exact (pre_show_flag _ _ _ E0).
Qed.

Lemma diagnose_flag st t st' : diagnose toks st = (t, st') -> invalid st' = invalid st.
Proof.
  unfold diagnose. destruct (fetched st); [|intros [= <- <-]; reflexivity].
  destruct (peek toks st) as [t0 s0] eqn:E. intros [= <- <-]. exact (peek_flag _ _ _ E).
Qed.

Section Open.
Variable rec : string -> pstate -> R.
Hypothesis Hrec : forall n, keeps (rec n).

Notation rcall := (run_call K toks verbose use_cache M exact_types token_dict rec).

Lemma run_call_keeps : forall c, keeps (rcall c).
Proof.
  fix IH 1. intros c. destruct c as [n|a|c|positive head tail c| |c msg]; intros st v st'; cbn [run_call].
  - destruct (find_meth M n); [apply Hrec|]. destruct (prim_test K M n); [|discriminate].
    apply logged_keeps. apply memoize_keeps. apply prim_tok_keeps.
  - destruct (py_arg a); [|discriminate]. apply logged_keeps. apply memoize_keeps. apply prim_tok_keeps.
  - unfold bind_r. destruct (rcall c st) as [[w| |] s] eqn:E; try discriminate. intros [= <- <-]. exact (IH c _ _ _ E).
  - assert (Hgen : keeps (logged (if positive then "positive_lookahead" else "negative_lookahead") true
              (fun st => let mark := pos st in bind_r (rcall c st) (fun v st1 =>
                 (Ok (if positive then v else if truthy v then VFalse else VTrue), with_pos st1 mark))))).
    { apply logged_keeps. intros s w s'. cbn zeta. unfold bind_r. destruct (rcall c s) as [[u| |] s1] eqn:E; try discriminate.
      intros [= <- <-]. cbn. exact (IH c _ _ _ E). }
    destruct c as [n|a|c0|p0 h0 t0 c0| |c0 msg0]; try (apply Hgen).
    (* operand is a forced item: its inner call is evaluated first *)
    unfold bind_r. destruct (rcall c0 st) as [[w| |] s] eqn:E; try discriminate.
    pose proof (IH c0 _ _ _ E) as Hin.
    intros H. apply logged_keeps in H.
    + rewrite H. exact Hin.
    + intros s1 w1 s1'. destruct w; try (intros [= <- <-]; reflexivity).
      destruct (diagnose toks s1); discriminate.
  - intros [= <- <-]. reflexivity.
  - unfold bind_r. destruct (rcall c st) as [[w| |] s] eqn:E; try discriminate.
    destruct w; try (intros [= <- <-]; exact (IH c _ _ _ E)).
    destruct (diagnose toks s); discriminate.
Qed.

Notation rconjs := (run_conjs K toks verbose use_cache M exact_types token_dict rec).
Lemma run_conjs_keeps cs : forall e st v e' st', rconjs cs e st = (Ok v, e', st') -> invalid st' = invalid st.
Proof.
  induction cs as [|c cs IHc]; intros e st v e' st'; cbn [run_conjs]; [intros [= <- <- <-]; reflexivity|].
  destruct (rcall (cj_call c) st) as [[w| |] s] eqn:E; try discriminate.
  pose proof (run_call_keeps _ _ _ _ E) as H1.
  match goal with |- context [if ?b then _ else _] => destruct b end.
  - intros H. rewrite (IHc _ _ _ _ _ H). exact H1.
  - intros [= <- <- <-]. exact H1.
Qed.

Notation ralts := (run_alts K toks verbose use_cache M aeval exact_types token_dict rec).

(* a method body returns with the flag set to [prev] (if it is a *_without_invalid method) or unchanged *)
Lemma run_alts_flag m mark start_tok prev alts : forall e0 st v st', ralts m mark start_tok prev alts e0 st = (Ok v, st') ->
  invalid st' = (if m_without_invalid m then prev else invalid st).
Proof.
  induction alts as [|a alts IHa]; intros e0 st v st'; cbn [run_alts].
  - intros [= <- <-]. destruct (m_without_invalid m); reflexivity.
  - destruct (a_guard a && negb (invalid st)); [intros H; rewrite (IHa _ _ _ _ H); reflexivity|].
    destruct (rconjs (a_conjs a) e0 st) as [[[w| |] e] s] eqn:E; try discriminate.
    pose proof (run_conjs_keeps _ _ _ _ _ _ E) as H1.
    destruct (truthy w).
    + destruct (a_locations a && _); [discriminate|]. destruct (aeval (a_action a) _); [|discriminate].
      intros [= <- <-]. destruct (m_without_invalid m); cbn; auto.
    + destruct (a_has_cut a && _).
      * intros [= <- <-]. destruct (m_without_invalid m); cbn; auto.
      * intros H. rewrite (IHa _ _ _ _ H). cbn. rewrite H1. reflexivity.
Qed.

Notation rloop := (run_loop K toks verbose use_cache M aeval exact_types token_dict rec).
Lemma run_loop_keeps fuel m a : forall mark start_tok children e0 st v st',
  rloop fuel m a mark start_tok children e0 st = (Ok v, st') -> invalid st' = invalid st.
Proof.
  induction fuel as [|f IHf]; intros mark start_tok children e0 st v st'; cbn [run_loop]; [discriminate|].
  destruct (a_guard a && negb (invalid st)); [intros [= <- <-]; reflexivity|].
  destruct (rconjs (a_conjs a) e0 st) as [[[w| |] e] s] eqn:E; try discriminate.
  pose proof (run_conjs_keeps _ _ _ _ _ _ E) as H1.
  destruct (truthy w).
  - destruct (a_locations a && _); [discriminate|]. destruct (aeval (a_action a) _); [|discriminate].
    intros H. rewrite (IHf _ _ _ _ _ _ _ H). exact H1.
  - destruct (a_has_cut a && _); intros [= <- <-]; exact H1.
Qed.

Lemma run_body_keeps fuel m : keeps (run_body K toks verbose use_cache M aeval exact_types token_dict rec fuel m).
Proof.
  intros st v st'. unfold run_body.
  set (st0 := if m_without_invalid m then with_invalid st false else st).
  assert (Hgo : forall start_tok st1, invalid st1 = invalid st0 ->
    (if m_loop m
     then match m_alts m with
          | [a] => match rloop fuel m a (pos st0) start_tok [] [] st1 with
                   | (Ok v, st2) => (Ok (loop_ret m v), if m_without_invalid m then with_invalid st2 (invalid st) else st2)
                   | other => other end
          | _ => (Raise XAssertion, st1) end
     else ralts m (pos st0) start_tok (invalid st) (m_alts m) [] st1) = (Ok v, st') -> invalid st' = invalid st).
  { intros start_tok st1 H1. destruct (m_loop m).
    - destruct (m_alts m) as [|a [|a2 rest]]; try discriminate.
      destruct (rloop fuel m a (pos st0) start_tok [] [] st1) as [[w| |] s2] eqn:E; try discriminate.
      intros [= <- <-]. pose proof (run_loop_keeps _ _ _ _ _ _ _ _ _ _ E) as H2.
      subst st0. destruct (m_without_invalid m); cbn in *; congruence.
    - intros H. rewrite (run_alts_flag _ _ _ _ _ _ _ _ _ H). subst st0. destruct (m_without_invalid m); cbn in *; congruence. }
  destruct (m_locations m).
  - destruct (peek toks st0) as [[t|] s1] eqn:E; [|discriminate]. apply Hgo. exact (peek_flag _ _ _ E).
  - apply Hgo. reflexivity.
Qed.
End Open.

Lemma run_meth_keeps fuel rec : (forall n, keeps (rec n)) ->
  forall n, keeps (run_meth K toks verbose use_cache M aeval exact_types token_dict fuel rec n).
Proof.
  intros Hrec n. unfold run_meth. destruct (find_meth M n) as [m|]; [|intros st v st'; discriminate].
  apply logged_keeps. destruct (m_deco m).
  - apply memoize_keeps. apply run_body_keeps; exact Hrec.
  - apply memoize_left_rec_keeps. apply run_body_keeps; exact Hrec.
  - apply logger_keeps. apply run_body_keeps; exact Hrec.
Qed.

Theorem flag_restored fuel : forall n, keeps (run K toks verbose use_cache M aeval exact_types token_dict fuel n).
Proof.
  induction fuel as [|f IH]; intros n; cbn [run]; [intros st v st'; discriminate|].
  apply run_meth_keeps. exact IH.
Qed.

(* with the flag off a guarded alternative is skipped: at the start of an alternative the cursor is
   at the method's mark, so skipping it is the same as not having it *)
Lemma guarded_alt_inert rec m mark start_tok prev a alts e0 st :
  a_guard a = true -> invalid st = false -> pos st = mark ->
  run_alts K toks verbose use_cache M aeval exact_types token_dict rec m mark start_tok prev (a :: alts) e0 st =
  run_alts K toks verbose use_cache M aeval exact_types token_dict rec m mark start_tok prev alts e0 st.
Proof.
  intros Hg Hi Hp. cbn [run_alts]. rewrite Hg, Hi. cbn.
  replace (with_pos st mark) with st; [reflexivity|]. destruct st; cbn in *; subst; reflexivity.
Qed.
End Flag.
