(* A verified CHECKER for strongly connected components (translation validation): whatever list of
   components passes [scc_check] -- for any graph, any algorithm, any iteration order -- is exactly
   the partition of the vertices into classes of mutual reachability, and the vertices flagged by
   [lr_check] are exactly those lying on a cycle.  The check evaluates it on the components and
   flags that the real sccutils / compute_left_recursives produce for every explored graph. *)
From Coq Require Import List Bool Arith Lia.
From Pegen Require Import Analysis.Scc.
Import ListNotations.

Section C.
Variable V : Type.
Variable veqb : V -> V -> bool.
Hypothesis veqb_eq : forall a b, veqb a b = true <-> a = b.

Notation vmem := (vmem V veqb).
Notation succs := (succs V veqb).

Lemma vmem_In x l : vmem x l = true <-> In x l.
Proof.
  induction l as [|y l IH]; cbn; [split; [discriminate|contradiction]|].
  rewrite orb_true_iff, IH, veqb_eq. split; intros [H|H]; auto.
Qed.

Definition edge (g : graph V) (u w : V) : Prop := In w (succs g u).
Inductive path (g : graph V) : V -> V -> Prop :=
| p_refl u : path g u u
| p_step u w x : edge g u w -> path g w x -> path g u x.

Lemma path_trans g u w x : path g u w -> path g w x -> path g u x.
Proof. induction 1; intros H2; [exact H2|]. eapply p_step; eauto. Qed.

(* ---- reachable sets by iterated expansion (only soundness is needed) ---- *)
Fixpoint addl (l acc : list V) : list V :=
  match l with
  | [] => acc
  | x :: l' => if vmem x acc then addl l' acc else addl l' (acc ++ [x])
  end.
Fixpoint closure (n : nat) (g : graph V) (acc : list V) : list V :=
  match n with O => acc | S k => closure k g (addl (flat_map (succs g) acc) acc) end.
Definition reach (g : graph V) (v : V) : list V := closure (List.length g) g [v].

Lemma addl_In l : forall acc x, In x (addl l acc) -> In x acc \/ In x l.
Proof.
  induction l as [|y l IH]; intros acc x H; cbn in *; [auto|].
  destruct (vmem y acc); apply IH in H.
  - destruct H; auto.
  - destruct H as [H|H]; [apply in_app_iff in H as [H|[H|[]]]; auto|auto].
Qed.

Lemma closure_sound n g : forall acc x, In x (closure n g acc) -> exists a, In a acc /\ path g a x.
Proof.
  induction n as [|n IH]; intros acc x H; cbn in H.
  - exists x. split; [exact H|constructor].
  - apply IH in H as (a & Ha & Hp). apply addl_In in Ha as [Ha|Ha].
    + exists a. auto.
    + apply in_flat_map in Ha as (b & Hb & Hab). exists b. split; [exact Hb|]. eapply p_step; eauto.
Qed.

Lemma reach_sound g v x : vmem x (reach g v) = true -> path g v x.
Proof.
  intros H. apply vmem_In in H. apply closure_sound in H as (a & [<-|[]] & Hp). exact Hp.
Qed.

(* ---- the checker ---- *)
Fixpoint nodup_b (l : list V) : bool :=
  match l with [] => true | x :: l' => negb (vmem x l') && nodup_b l' end.
Definition subset_b (a b : list V) : bool := forallb (fun x => vmem x b) a.
Fixpoint idx (x : V) (cs : list (list V)) : nat :=
  match cs with [] => 0 | C :: cs' => if vmem x C then 0 else S (idx x cs') end.

Definition scc_check (g : graph V) (vs : list V) (cs : list (list V)) : bool :=
  nodup_b (concat cs) && subset_b vs (concat cs) && subset_b (concat cs) vs
  && forallb (fun v => subset_b (succs g v) vs) vs
  && forallb (fun C => match C with
                       | [] => false
                       | h :: _ => forallb (fun x => vmem h (reach g x) && vmem x (reach g h)) C
                       end) cs
  && forallb (fun u => forallb (fun w => Nat.leb (idx w cs) (idx u cs)) (succs g u)) vs.

(* flagged = members of components that have more than one element or a self-loop *)
Definition cyclic_comp (g : graph V) (C : list V) : bool :=
  match C with
  | [v] => vmem v (succs g v)
  | [] => false
  | _ => true
  end.
Definition lr_check (g : graph V) (cs : list (list V)) (lr : list V) : bool :=
  let expected := concat (filter (cyclic_comp g) cs) in
  subset_b lr expected && subset_b expected lr.

Lemma nodup_b_NoDup l : nodup_b l = true -> NoDup l.
Proof.
  induction l as [|x l IH]; cbn; intros H; [constructor|]. apply andb_prop in H as [H1 H2].
  constructor; [|auto]. intros Hin. apply vmem_In in Hin. rewrite Hin in H1. discriminate.
Qed.
Lemma subset_b_incl a b : subset_b a b = true -> forall x, In x a -> In x b.
Proof. unfold subset_b. intros H x Hx. rewrite forallb_forall in H. apply vmem_In. auto. Qed.

Lemma idx_spec x cs : In x (concat cs) -> exists C, nth_error cs (idx x cs) = Some C /\ In x C.
Proof.
  induction cs as [|C cs IH]; cbn; [contradiction|]. intros H.
  destruct (vmem x C) eqn:E; [exists C; split; [reflexivity|apply vmem_In; exact E]|].
  apply in_app_iff in H as [H|H]; [apply vmem_In in H; congruence|]. exact (IH H).
Qed.

Section Sound.
Variables (g : graph V) (vs : list V) (cs : list (list V)).
Hypothesis Hc : scc_check g vs cs = true.

Lemma check_parts :
  NoDup (concat cs) /\ (forall x, In x vs <-> In x (concat cs)) /\
  (forall u w, In u vs -> edge g u w -> In w vs /\ idx w cs <= idx u cs) /\
  (forall C, In C cs -> exists h, In h C /\ forall x, In x C -> path g x h /\ path g h x).
Proof.
  pose proof Hc as H. unfold scc_check in H.
  apply andb_prop in H as [H Hidx]. apply andb_prop in H as [H Hreach]. apply andb_prop in H as [H Hclosed].
  apply andb_prop in H as [H Hsub2]. apply andb_prop in H as [Hnd Hsub1].
  split; [apply nodup_b_NoDup; exact Hnd|]. split; [|split].
  - intros x. split; apply subset_b_incl; assumption.
  - intros u w Hu He. rewrite forallb_forall in Hidx, Hclosed. split.
    + eapply subset_b_incl; [apply Hclosed; exact Hu|exact He].
    + specialize (Hidx u Hu). rewrite forallb_forall in Hidx. apply Nat.leb_le. apply Hidx. exact He.
  - intros C HC. rewrite forallb_forall in Hreach. specialize (Hreach C HC). destruct C as [|h C']; [discriminate|].
    exists h. split; [left; reflexivity|]. intros x Hx. rewrite forallb_forall in Hreach. specialize (Hreach x Hx).
    apply andb_prop in Hreach as [H3 H4]. split; apply reach_sound; assumption.
Qed.

Lemma path_idx u w : path g u w -> In u vs -> In w vs /\ idx w cs <= idx u cs.
Proof.
  destruct check_parts as (_ & _ & He & _).
  induction 1 as [u|u w x Hedge Hp IH]; intros Hu; [auto|].
  destruct (He u w Hu Hedge) as [Hw Hle]. destruct (IH Hw) as [Hx Hle2]. split; [exact Hx|lia].
Qed.

Theorem scc_check_sound :
  NoDup (concat cs) /\
  forall u w, In u vs -> In w vs ->
    ((exists C, In C cs /\ In u C /\ In w C) <-> (path g u w /\ path g w u)).
Proof.
  destruct check_parts as (Hnd & Hvs & He & Hcomp). split; [exact Hnd|].
  intros u w Hu Hw. split.
  - intros (C & HC & HuC & HwC). destruct (Hcomp C HC) as (h & _ & Hh).
    destruct (Hh u HuC) as [Huh Hhu]. destruct (Hh w HwC) as [Hwh Hhw].
    split; eapply path_trans; eauto.
  - intros [Huw Hwu]. destruct (path_idx u w Huw Hu) as [_ H1]. destruct (path_idx w u Hwu Hw) as [_ H2].
    destruct (idx_spec u cs (proj1 (Hvs u) Hu)) as (C & HC & HuC).
    destruct (idx_spec w cs (proj1 (Hvs w) Hw)) as (C' & HC' & HwC').
    assert (E : idx u cs = idx w cs) by lia. rewrite E in HC. rewrite HC in HC'. injection HC' as <-.
    exists C. split; [eapply nth_error_In; exact HC|auto].
Qed.

(* a vertex lies on a cycle *)
Definition on_cycle (v : V) : Prop := exists w, edge g v w /\ path g w v.

Lemma NoDup_app_l (a b : list V) : NoDup (a ++ b) -> NoDup a.
Proof.
  induction a as [|x a IH]; cbn; intros H; [constructor|]. inversion H as [|? ? Hn Hr]; subst.
  constructor; [intros Hin; apply Hn; apply in_app_iff; left; exact Hin|auto].
Qed.
Lemma NoDup_app_r (a b : list V) : NoDup (a ++ b) -> NoDup b.
Proof. induction a as [|x a IH]; cbn; intros H; [exact H|]. inversion H; subst. auto. Qed.
Lemma NoDup_concat_in (ll : list (list V)) C : NoDup (concat ll) -> In C ll -> NoDup C.
Proof.
  induction ll as [|D l IH]; cbn; [contradiction|]. intros Hnd [->|H].
  - apply NoDup_app_l in Hnd. exact Hnd.
  - apply NoDup_app_r in Hnd. auto.
Qed.

Theorem lr_check_sound lr : lr_check g cs lr = true ->
  forall v, In v vs -> (In v lr <-> on_cycle v).
Proof.
  intros Hl v Hv. unfold lr_check in Hl. apply andb_prop in Hl as [Hl1 Hl2].
  destruct scc_check_sound as [Hnd Hs]. destruct check_parts as (_ & Hvs & He & _).
  assert (Hexp : In v lr <-> exists C, In C cs /\ cyclic_comp g C = true /\ In v C).
  { split.
    - intros H. apply (subset_b_incl _ _ Hl1) in H. apply in_concat in H as (C & HC & HvC).
      apply filter_In in HC as [HC Hcy]. eauto.
    - intros (C & HC & Hcy & HvC). apply (subset_b_incl _ _ Hl2). apply in_concat. exists C.
      split; [apply filter_In; auto|exact HvC]. }
  rewrite Hexp. split.
  - intros (C & HC & Hcy & HvC).
    assert (HndC : NoDup C) by (eapply NoDup_concat_in; eauto).
    destruct C as [|a [|b C']]; [discriminate| |].
    + destruct HvC as [<-|[]]. cbn in Hcy. apply vmem_In in Hcy. exists a. split; [exact Hcy|constructor].
    + (* another member of the component *)
      assert (Hx : exists x, In x (a :: b :: C') /\ x <> v).
      { inversion HndC as [|? ? Hna _]; subst. destruct HvC as [<-|HvC].
        - exists b. split; [right; left; reflexivity|]. intros ->. apply Hna. left. reflexivity.
        - exists a. split; [left; reflexivity|]. intros ->. apply Hna. exact HvC. }
      destruct Hx as (x & HxC & Hne).
      assert (Hxvs : In x vs) by (apply Hvs; apply in_concat; eauto).
      destruct (proj1 (Hs v x Hv Hxvs)) as [Hvx Hxv]; [eauto|].
      inversion Hvx as [|? w ? Hedge Hp]; subst; [congruence|].
      exists w. split; [exact Hedge|]. eapply path_trans; eauto.
  - intros (w & Hedge & Hp).
    destruct (He v w Hv Hedge) as [Hw _].
    assert (Hvw : path g v w) by (eapply p_step; [exact Hedge|constructor]).
    destruct (proj2 (Hs v w Hv Hw) (conj Hvw Hp)) as (C & HC & HvC & HwC).
    exists C. split; [exact HC|]. split; [|exact HvC].
    destruct C as [|a [|b C']]; [contradiction| |reflexivity].
    destruct HvC as [<-|[]]. destruct HwC as [<-|[]]. cbn. apply vmem_In. exact Hedge.
Qed.
End Sound.
End C.
