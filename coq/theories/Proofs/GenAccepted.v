(* End to end: a grammar the up-front check accepts yields a module in which every reference resolves.  The glue between
   the reference checker (Analysis/RuleCheck.v, proved exact in RuleCheckProofs.v) and the generator theorem (GenRefs.v):
   when the token kinds handed to the checker are all kinds the call maker knows (decidable, re-evaluated on every run on
   the token set of the real generator), "every leaf is a rule or a token" is the hypothesis [grammar_names_ok]. *)
From Coq Require Import List String NArith Bool.
From Pegen Require Import Base.StrUtil Grammar.Ast Grammar.Induction Analysis.Visitor Analysis.RuleCheck Gen.Gen Runtime.Exec
  Proofs.RuleCheckProofs Proofs.ExecRefs Proofs.GenRefs.
Import ListNotations.
Open Scope string_scope.

(* leafs_* is "every referenced name satisfies ok" *)
Lemma leafs_names ok :
  (forall i, (forall n, In n (item_names i) -> ok n = true) -> leafs_item ok i = true) /\
  (forall r, (forall n, In n (rhs_names r) -> ok n = true) -> leafs_rhs ok r = true) /\
  (forall a, (forall n, In n (alt_names a) -> ok n = true) -> leafs_alt ok a = true) /\
  (forall n0, (forall n, In n (nitem_names n0) -> ok n = true) -> leafs_nitem ok n0 = true).
Proof.
  apply grammar_ast_ind; cbn [leafs_item item_names]; auto.
  - intros n H. apply H. left. reflexivity.
  - intros id s e IHs IHe H. rewrite IHs, IHe; [reflexivity| |]; intros n Hn; apply H; apply in_or_app; [right|left]; exact Hn.
  - intros id alts HF H. rewrite leafs_rhs_forall. apply forallb_forall. intros a Ha.
    rewrite Forall_forall in HF. apply (HF a Ha). intros n Hn. apply H. cbn [rhs_names].
    clear -Ha Hn. induction alts as [|b l IH]; [destruct Ha|]. apply in_or_app. destruct Ha as [<-|Ha]; [left; exact Hn|right; exact (IH Ha)].
  - intros items act HF H. rewrite leafs_alt_forall. apply forallb_forall. intros m Hm.
    rewrite Forall_forall in HF. apply (HF m Hm). intros n Hn. apply H. cbn [alt_names].
    clear -Hm Hn. induction items as [|b l IH]; [destruct Hm|]. apply in_or_app. destruct Hm as [<-|Hm]; [left; exact Hn|right; exact (IH Hm)].
Qed.

Lemma has_rule_mem g n : has_rule g n = true -> mem_str n (map rname (rules g)) = true.
Proof.
  unfold has_rule. destruct (find_rule (rules g) n) as [r|] eqn:E; [|discriminate]. intros _.
  apply mem_str_In. induction (rules g) as [|r0 l IH]; cbn in E; [discriminate|].
  destruct (String.eqb (rname r0) n) eqn:E0; [apply String.eqb_eq in E0; left; exact E0|right; exact (IH E)].
Qed.

Definition strs_rules (g : grammar) : bool := forallb (fun r => strs_rhs (rrhs r)) (rules g).

Theorem accepted_names_ok tbl tokens g : fields_ok tbl ->
  forallb is_tok tokens = true -> strs_rules g = true ->
  check_grammar tbl tokens g = None -> grammar_names_ok g = true.
Proof.
  intros Hok Htok Hstr Hacc. apply (check_grammar_accepts tbl tokens g Hok) in Hacc as (_ & _ & H).
  unfold grammar_names_ok. apply forallb_forall. intros r Hr. unfold rhs_ok. apply andb_true_intro. split.
  - apply (proj1 (proj2 (leafs_names _))). intros n Hn. destruct (H r Hr) as [Hg _]. specialize (Hg n Hn).
    unfold known_in in Hg. unfold okN. apply orb_prop in Hg as [Hg|Hg]; apply orb_true_iff.
    + left. apply has_rule_mem. exact Hg.
    + right. rewrite forallb_forall in Htok. apply Htok. apply mem_str_In. exact Hg.
  - unfold strs_rules in Hstr. rewrite forallb_forall in Hstr. exact (Hstr r Hr).
Qed.

(* accepted by the up-front check => no run of the generated parser ends in AttributeError for a missing method *)
Theorem accepted_grammars_resolve :
  forall K toks verbose use_cache aeval exact_types token_dict tbl tokens invalid_tbl iter_fields pre suf file fb g an M,
  fields_ok tbl -> forallb is_tok tokens = true -> strs_rules g = true ->
  check_grammar tbl tokens g = None ->
  generate invalid_tbl iter_fields pre suf file fb g an = inl M ->
  forall fuel n st, find_meth M n <> None ->
  match fst (run K toks verbose use_cache M aeval exact_types token_dict fuel n st) with
  | Raise (XAttributeError _) => False
  | _ => True
  end.
Proof.
  intros K toks verbose use_cache aeval ex td tbl tokens it itf pre suf file fb g an M Hok Htok Hstr Hacc Hgen fuel n st Hn.
  apply (references_resolve K toks verbose use_cache M aeval ex td); [|exact Hn].
  exact (generated_refs_ok K it itf pre suf file fb g an M (accepted_names_ok tbl tokens g Hok Htok Hstr Hacc) Hgen).
Qed.
