(* Unbounded correctness of the cycle enumeration and of the leader candidates:
   the candidate set is exactly the set of SCC members that lie on every simple cycle. *)
From Coq Require Import List String NArith Bool Arith Lia.
From Pegen Require Import Base.StrUtil Analysis.Scc.
Import ListNotations.
Local Open Scope list_scope.

Section LP.
Variable V : Type.
Variable veqb : V -> V -> bool.
Hypothesis veqb_spec : forall a b, veqb a b = true <-> a = b.

Notation vmem := (vmem V veqb).

Lemma vmem_In x l : vmem x l = true <-> In x l.
Proof.
  induction l as [|y l IH]; cbn; [split; [discriminate|tauto]|].
  rewrite orb_true_iff, IH, veqb_spec. split; intros [H|H]; auto.
Qed.

Lemma vmem_false x l : vmem x l = false <-> ~ In x l.
Proof. rewrite <- vmem_In. destruct (vmem x l); split; congruence. Qed.

Lemma NoDup_app_snoc (p : list V) a : NoDup p -> ~ In a p -> NoDup (p ++ [a]).
Proof.
  induction p as [|x p IH]; intros Hn Ha; cbn; [constructor; [intros []|constructor]|].
  inversion Hn; subst. constructor.
  - intros H. apply in_app_or in H as [H|[H|[]]]; [contradiction|]. subst. apply Ha. left; reflexivity.
  - apply IH; auto. intros H. apply Ha. right; exact H.
Qed.

Section Adj.
Variable adj : V -> list V.

Fixpoint chain (l : list V) : Prop :=
  match l with
  | a :: t => match t with b :: _ => In b (adj a) /\ chain t | [] => True end
  | [] => True
  end.

Definition simple_cycle (c : list V) : Prop :=
  match c with
  | [] => False
  | x :: _ => NoDup c /\ chain c /\ In x (adj (last c x))
  end.

Lemma chain_cons a b t : chain (a :: b :: t) <-> In b (adj a) /\ chain (b :: t).
Proof. reflexivity. Qed.

Lemma chain_app_r a b : chain (a ++ b) -> chain b.
Proof.
  induction a as [|x a IH]; cbn [app]; [auto|].
  destruct (a ++ b) as [|y t] eqn:E.
  - destruct b; [auto|destruct a; discriminate].
  - intros [_ H]. apply IH. exact H.
Qed.

Lemma chain_snoc p a : chain p -> (p = [] \/ In a (adj (last p a))) -> chain (p ++ [a]).
Proof.
  induction p as [|x p IH]; intros Hc Hl; cbn [app]; [exact I|].
  destruct p as [|y p].
  - cbn. destruct Hl as [H|H]; [discriminate|]. cbn in H. auto.
  - cbn [app]. apply chain_cons. destruct Hc as [H1 H2]. split; [exact H1|].
    apply IH; [exact H2|]. right. destruct Hl as [H|H]; [discriminate|]. exact H.
Qed.

Lemma last_app_cons (a : list V) x b d : last (a ++ x :: b) d = last (x :: b) d.
Proof.
  induction a as [|y a IH]; [reflexivity|].
  cbn [app]. remember (a ++ x :: b) as t eqn:E. destruct t as [|v l]; [destruct a; discriminate|].
  cbn [last]. exact IH.
Qed.

Lemma last_indep (l : list V) d d' : l <> [] -> last l d = last l d'.
Proof. induction l as [|x l IH]; [congruence|]. intros _. destruct l; [reflexivity|]. apply IH. discriminate. Qed.

(* ---------- completeness: every simple walk that closes back is enumerated ---------- *)
Lemma dfs_complete w' : forall fuel p0 n0 x,
  NoDup (p0 ++ n0 :: w') -> chain (n0 :: w') -> In x (adj (last (n0 :: w') n0)) ->
  In x (p0 ++ n0 :: w') -> S (List.length w') < fuel ->
  In (p0 ++ n0 :: w' ++ [x]) (dfs_cycles V veqb adj fuel n0 p0).
Proof.
  induction w' as [|n1 w'' IH]; intros fuel p0 n0 x Hnd Hch Hx Hin Hf;
    (destruct fuel as [|f]; [lia|]); cbn [dfs_cycles].
  - assert (Hn0 : vmem n0 p0 = false).
    { apply vmem_false. intros H. apply NoDup_remove_2 in Hnd. apply Hnd. rewrite app_nil_r. exact H. }
    rewrite Hn0. apply in_flat_map. exists x. split; [exact Hx|].
    destruct f as [|f']; [cbn in Hf; lia|]. cbn [dfs_cycles].
    assert (Hx' : vmem x (p0 ++ [n0]) = true) by (apply vmem_In; exact Hin).
    rewrite Hx'. left. rewrite <- app_assoc. reflexivity.
  - assert (Hn0 : vmem n0 p0 = false).
    { apply vmem_false. intros H. apply NoDup_remove_2 in Hnd. apply Hnd. apply in_or_app. left; exact H. }
    rewrite Hn0. apply chain_cons in Hch as [He Hch]. apply in_flat_map. exists n1. split; [exact He|].
    replace (p0 ++ n0 :: (n1 :: w'') ++ [x]) with ((p0 ++ [n0]) ++ n1 :: w'' ++ [x])
      by (rewrite <- app_assoc; reflexivity).
    apply IH.
    + rewrite <- app_assoc. exact Hnd.
    + exact Hch.
    + change (last (n0 :: n1 :: w'') n0) with (last (n1 :: w'') n0) in Hx.
      rewrite (last_indep (n1 :: w'') n0 n1) in Hx by discriminate. exact Hx.
    + rewrite <- app_assoc. exact Hin.
    + cbn in Hf. lia.
Qed.

(* ---------- soundness: every enumerated list is a simple path plus a closing vertex ---------- *)
Lemma dfs_sound fuel : forall n0 p0 l,
  NoDup p0 -> chain p0 -> (p0 = [] \/ In n0 (adj (last p0 n0))) ->
  In l (dfs_cycles V veqb adj fuel n0 p0) ->
  exists p x, l = p ++ [x] /\ NoDup p /\ chain p /\ In x p /\ In x (adj (last p x)) /\
              (forall v, In v p -> In v p0 \/ v = n0 \/ exists u, In v (adj u)).
Proof.
  induction fuel as [|f IH]; intros n0 p0 l Hnd Hch Hlk; cbn [dfs_cycles]; [intros []|].
  destruct (vmem n0 p0) eqn:M.
  - intros [<-|[]]. apply vmem_In in M. exists p0, n0. repeat split; auto.
    destruct Hlk as [->|H]; [destruct M|exact H].
  - apply vmem_false in M. intros H. apply in_flat_map in H as (child & Hc & Hl).
    destruct (IH child (p0 ++ [n0]) l) as (p & x & E & H1 & H2 & H3 & H4 & H5); auto.
    + apply NoDup_app_snoc; auto.
    + apply chain_snoc; auto.
    + right. rewrite last_last. exact Hc.
    + exists p, x. repeat split; auto. intros v Hv. destruct (H5 v Hv) as [H|[H|H]].
      * apply in_app_or in H as [H|[<-|[]]]; auto.
      * right; right. exists n0. subst; exact Hc.
      * auto.
Qed.

(* an enumerated list contains a simple cycle all of whose vertices are in the list *)
Lemma dfs_contains_cycle fuel start l :
  In l (dfs_cycles V veqb adj fuel start []) ->
  exists c, simple_cycle c /\ incl c l /\ (forall v, In v c -> v = start \/ exists u, In v (adj u)).
Proof.
  intros Hl0. destruct (dfs_sound fuel start [] l) as (p & x & -> & Hnd & Hch & Hx & Hcl & Hmem); auto.
  - constructor.
  - exact I.
  - apply in_split in Hx as (a & b & ->). exists (x :: b). split; [|split].
    + cbn [simple_cycle]. split; [|split].
      * apply NoDup_remove_1 with (l := a) (a := x) in Hnd as Hnd'.
        apply NoDup_remove_2 in Hnd. constructor.
        -- intros Hb. apply Hnd. apply in_or_app; right; exact Hb.
        -- clear -Hnd'. induction a; [exact Hnd'|]. inversion Hnd'; auto.
      * eapply chain_app_r; exact Hch.
      * rewrite last_app_cons in Hcl. exact Hcl.
    + intros v Hv. apply in_or_app; left. apply in_or_app; right. exact Hv.
    + intros v Hv. destruct (Hmem v) as [[]|[Hm|Hm]]; auto. apply in_or_app; right; exact Hv.
Qed.
End Adj.

(* ---------- narrowing = intersection ---------- *)
Definition inter (cycles : list (list V)) (leaders : list V) : list V :=
  filter (fun v => forallb (vmem v) cycles) leaders.

Lemma filter_filter (f g : V -> bool) l : filter f (filter g l) = filter (fun v => g v && f v) l.
Proof. induction l as [|x l IH]; cbn; [reflexivity|]. destruct (g x); cbn; [destruct (f x)|]; now rewrite IH. Qed.

Lemma inter_cons c cs l : inter (c :: cs) l = inter cs (keep_in V veqb c l).
Proof. unfold inter, keep_in. rewrite filter_filter. reflexivity. Qed.

Lemma inter_nil_l cs : inter cs [] = [].
Proof. reflexivity. Qed.

Lemma narrow_some cs : forall l r, narrow V veqb cs l = Some r -> r = inter cs l.
Proof.
  induction cs as [|c cs IH]; intros l r; cbn [narrow].
  - intros [= <-]. unfold inter. cbn. induction l; cbn; congruence.
  - rewrite inter_cons. destruct (keep_in V veqb c l) eqn:E; [discriminate|]. apply IH.
Qed.

Lemma narrow_some_nonempty cs : forall l r, l <> [] -> narrow V veqb cs l = Some r -> r <> [].
Proof.
  induction cs as [|c cs IH]; intros l r Hl; cbn [narrow].
  - intros [= <-]; exact Hl.
  - destruct (keep_in V veqb c l) eqn:E; [discriminate|]. apply IH. discriminate.
Qed.

Lemma narrow_none cs : forall l, narrow V veqb cs l = None -> inter cs l = [].
Proof.
  induction cs as [|c cs IH]; intros l; cbn [narrow]; [discriminate|].
  rewrite inter_cons. destruct (keep_in V veqb c l) eqn:E; [reflexivity|]. apply IH.
Qed.

Lemma in_inter v cs l : In v (inter cs l) <-> In v l /\ forall c, In c cs -> In v c.
Proof.
  unfold inter. rewrite filter_In, forallb_forall. split; intros [H1 H2]; split; auto.
  - intros c Hc. apply vmem_In. apply H2; exact Hc.
  - intros c Hc. apply vmem_In. apply H2; exact Hc.
Qed.

(* ---------- the candidate set ---------- *)
Section Cand.
Variable g : graph V.
Variable scc : list V.
Notation radj := (restrict V veqb g scc).

Definition cycle_in_scc (c : list V) : Prop := simple_cycle radj c /\ incl c scc.
Definition on_every_cycle (v : V) : Prop := forall c, cycle_in_scc c -> In v c.

Lemma radj_in_scc u v : In v (radj u) -> In v scc.
Proof. unfold restrict. rewrite filter_In. intros [_ H]. apply vmem_In; exact H. Qed.

Lemma all_cycles_sound l : In l (all_cycles V veqb g scc) -> exists c, cycle_in_scc c /\ incl c l.
Proof.
  unfold all_cycles, find_cycles. rewrite in_flat_map. intros (s & Hs & Hl).
  destruct (dfs_contains_cycle radj _ _ _ Hl) as (c & Hc & Hi & Hm).
  exists c. split; [split; [exact Hc|]|exact Hi].
  intros v Hv. destruct (Hm v Hv) as [->|[u Hu]]; [exact Hs|eapply radj_in_scc; exact Hu].
Qed.

Lemma all_cycles_complete c : cycle_in_scc c -> exists l, In l (all_cycles V veqb g scc) /\ incl l c.
Proof.
  intros [Hc Hi]. destruct c as [|s rest]; [destruct Hc|]. destruct Hc as (Hnd & Hch & Hcl).
  exists (s :: rest ++ [s]). split.
  - unfold all_cycles, find_cycles. apply in_flat_map. exists s. split; [apply Hi; left; reflexivity|].
    apply (dfs_complete radj rest (S (List.length scc)) [] s s); auto.
    + left; reflexivity.
    + assert (List.length (s :: rest) <= List.length scc) by (apply NoDup_incl_length; assumption).
      cbn in H. lia.
  - intros v [<-|Hv]; [left; reflexivity|]. apply in_app_or in Hv as [Hv|[<-|[]]]; [right; exact Hv|left; reflexivity].
Qed.

Theorem inter_all_cycles_spec v :
  In v (inter (all_cycles V veqb g scc) scc) <-> In v scc /\ on_every_cycle v.
Proof.
  rewrite in_inter. split; intros [Hs H]; split; auto.
  - intros c Hc. destruct (all_cycles_complete c Hc) as (l & Hl & Hi). apply Hi. apply H. exact Hl.
  - intros l Hl. destruct (all_cycles_sound l Hl) as (c & Hc & Hi). apply Hi. apply H. exact Hc.
Qed.

Theorem candidates_some r : candidates V veqb g scc = Some r ->
  forall v, In v r <-> In v scc /\ on_every_cycle v.
Proof. intros H v. apply narrow_some in H. subst r. apply inter_all_cycles_spec. Qed.

Theorem candidates_some_nonempty r : scc <> [] -> candidates V veqb g scc = Some r -> r <> [].
Proof. intros Hs H. eapply narrow_some_nonempty; eauto. Qed.

(* refusal: every member of the component is avoided by some simple cycle of the component *)
Theorem candidates_none : candidates V veqb g scc = None ->
  forall v, In v scc -> exists c, cycle_in_scc c /\ ~ In v c.
Proof.
  intros H v Hv. apply narrow_none in H.
  assert (Hn : ~ In v (inter (all_cycles V veqb g scc) scc)) by (rewrite H; intros []).
  unfold inter in Hn. rewrite filter_In in Hn.
  destruct (forallb (vmem v) (all_cycles V veqb g scc)) eqn:F; [exfalso; apply Hn; auto|].
  assert (Hex : exists l, In l (all_cycles V veqb g scc) /\ vmem v l = false).
  { clear -F. induction (all_cycles V veqb g scc) as [|l ls IH]; cbn in F; [discriminate|].
    destruct (vmem v l) eqn:E; [destruct (IH F) as (l' & H1 & H2); exists l'; split; [right|]; auto|].
    exists l; split; [left; reflexivity|exact E]. }
  destruct Hex as (l & Hl & Hvl). destruct (all_cycles_sound l Hl) as (c & Hc & Hi).
  exists c. split; [exact Hc|]. intros Hin. apply vmem_false in Hvl. apply Hvl. apply Hi. exact Hin.
Qed.
End Cand.
End LP.

(* ---------- rule names: the leader that compute_left_recursives picks ---------- *)
Lemma min_str_in l : forall acc, In (min_str l acc) (acc :: l).
Proof.
  induction l as [|x l IH]; intros acc; cbn; [auto|].
  destruct (IH (if str_ltb x acc then x else acc)) as [H|H]; [|auto].
  destruct (str_ltb x acc); rewrite <- H; auto.
Qed.

Lemma string_eqb_spec a b : String.eqb a b = true <-> a = b.
Proof. apply String.eqb_eq. Qed.

Notation s_on_every_cycle := (on_every_cycle string String.eqb).
Notation s_cycle_in_scc := (cycle_in_scc string String.eqb).

Theorem leader_of_multi g a b rest v :
  leader_of g (a :: b :: rest) = Leader v ->
  In v (a :: b :: rest) /\ s_on_every_cycle g (a :: b :: rest) v.
Proof.
  cbn [leader_of]. destruct (candidates string String.eqb g (a :: b :: rest)) as [[|c cs]|] eqn:E; try discriminate.
  intros [= <-]. apply (candidates_some string String.eqb string_eqb_spec g _ _ E). apply min_str_in.
Qed.

Theorem leader_of_refuse g scc : leader_of g scc = Refuse ->
  forall v, In v scc -> exists c, s_cycle_in_scc g scc c /\ ~ In v c.
Proof.
  destruct scc as [|a [|b rest]]; cbn [leader_of]; try discriminate.
  - destruct (smem a _); discriminate.
  - destruct (candidates string String.eqb g (a :: b :: rest)) as [[|c cs]|] eqn:E; try discriminate.
    + intros _. exfalso. eapply (candidates_some_nonempty string String.eqb g (a :: b :: rest)); eauto. discriminate.
    + intros _. apply (candidates_none string String.eqb string_eqb_spec g _ E).
Qed.

(* conversely: if some member lies on every cycle, the component is not refused *)
Corollary leader_of_not_refused g scc v :
  In v scc -> s_on_every_cycle g scc v -> leader_of g scc <> Refuse.
Proof.
  intros Hv Hall Hr. destruct (leader_of_refuse g scc Hr v Hv) as (c & Hc & Hn). apply Hn. apply Hall. exact Hc.
Qed.

Theorem leader_of_single g n :
  leader_of g [n] = (if smem n (succs string String.eqb g n) then Leader n else NoLeader).
Proof. reflexivity. Qed.
