(* Which methods a generated module has: one per rule of the grammar, in the order of the grammar, followed by
   the helper methods the call maker queued (_tmp_k, _loop0_k, _loop1_k, _gather_k), whose numbers k are pairwise
   distinct (each comes from its own increment of ParserGenerator.counter).  Invariant over the call maker and the
   work list: the queue is only ever extended at its end, by rules named after fresh counter values. *)
From Coq Require Import List String NArith Bool Arith Lia.
From Pegen Require Import Base.StrUtil Grammar.Ast Analysis.Visitor Analysis.Nullable Gen.Gen Proofs.GenRefs Proofs.DecimalInj.
Import ListNotations.
Open Scope string_scope.

Definition helper_name (n : string) (k : nat) : Prop :=
  n = "_tmp_" ++ nat_to_string k \/ n = "_loop0_" ++ nat_to_string k \/
  n = "_loop1_" ++ nat_to_string k \/ n = "_gather_" ++ nat_to_string k.
Definition numbered (new : list rule) (ks : list nat) : Prop := Forall2 (fun r k => helper_name (rname r) k) new ks.

(* st' extends st: the counter went up, the queue got new helper rules at its end, numbered by distinct values the
   counter took in between *)
Definition ext (st st' : gst) : Prop :=
  g_counter st <= g_counter st' /\
  exists new ks, g_todo st' = (g_todo st ++ new)%list /\ numbered new ks /\ NoDup ks /\
                 Forall (fun k => g_counter st < k <= g_counter st') ks /\
                 g_counter st' = g_counter st + List.length new.

Lemma nodup_app_disj {A} (l1 l2 : list A) : NoDup l1 -> NoDup l2 -> (forall x, In x l1 -> In x l2 -> False) -> NoDup (l1 ++ l2).
Proof.
  induction l1 as [|a l IH]; intros H1 H2 Hd; [exact H2|]. cbn. inversion H1 as [|? ? Ha Hl]; subst. constructor.
  - intros Hin. apply in_app_or in Hin as [Hin|Hin]; [exact (Ha Hin)|exact (Hd a (or_introl eq_refl) Hin)].
  - apply IH; [exact Hl|exact H2|]. intros x Hx. apply Hd. right. exact Hx.
Qed.

Lemma ext_refl st : ext st st.
Proof. split; [lia|]. exists [], []. split; [rewrite app_nil_r; reflexivity|]. split; [constructor|]. split; [constructor|]. split; [constructor|cbn; lia]. Qed.

Lemma ext_trans st s1 s2 : ext st s1 -> ext s1 s2 -> ext st s2.
Proof.
  intros (L1 & n1 & k1 & T1 & N1 & D1 & B1 & C1) (L2 & n2 & k2 & T2 & N2 & D2 & B2 & C2). split; [lia|].
  exists (n1 ++ n2)%list, (k1 ++ k2)%list. split; [rewrite T2, T1, app_assoc; reflexivity|].
  split; [apply Forall2_app; assumption|]. rewrite Forall_forall in B1, B2. split; [|split].
  - apply nodup_app_disj; [exact D1|exact D2|]. intros x H1 H2. specialize (B1 x H1). specialize (B2 x H2). lia.
  - apply Forall_forall. intros x Hx. apply in_app_or in Hx as [Hx|Hx]; [specialize (B1 x Hx)|specialize (B2 x Hx)]; lia.
  - rewrite app_length. lia.
Qed.

Lemma ext_same st s : g_todo s = g_todo st -> g_counter s = g_counter st -> ext st s.
Proof.
  intros Ht Hc. split; [lia|]. exists [], []. split; [rewrite app_nil_r; exact Ht|]. split; [constructor|]. split; [constructor|]. split; [constructor|cbn; lia].
Qed.

Lemma new_helper st s r : g_todo s = (g_todo st ++ [r])%list -> g_counter s = S (g_counter st) ->
  helper_name (rname r) (S (g_counter st)) -> ext st s.
Proof.
  intros Ht Hc Hn. split; [lia|]. exists [r], [S (g_counter st)]. split; [exact Ht|]. split; [constructor; [exact Hn|constructor]|].
  split; [constructor; [intros []|constructor]|]. split; [constructor; [lia|constructor]|cbn; lia].
Qed.

Lemma new_helper2 st s r1 r2 : g_todo s = (g_todo st ++ [r1; r2])%list -> g_counter s = S (S (g_counter st)) ->
  helper_name (rname r1) (S (S (g_counter st))) -> helper_name (rname r2) (S (g_counter st)) -> ext st s.
Proof.
  intros Ht Hc H1 H2. split; [lia|]. exists [r1; r2], [S (S (g_counter st)); S (g_counter st)]. split; [exact Ht|].
  split; [constructor; [exact H1|constructor; [exact H2|constructor]]|]. split.
  - constructor; [intros [E|[]]; lia|constructor; [intros []|constructor]].
  - split; [constructor; [lia|constructor; [lia|constructor]]|cbn; lia].
Qed.

(* what the primitive actions do to the queue and the counter *)
Lemma next_counter_p st y s : next_counter st = (inl y, s) -> y = S (g_counter st) /\ g_todo s = g_todo st /\ g_counter s = S (g_counter st).
Proof. unfold next_counter. intros [= <- <-]. repeat split. Qed.
Lemma fresh_id_p st y s : fresh_id st = (inl y, s) -> g_todo s = g_todo st /\ g_counter s = g_counter st.
Proof. unfold fresh_id. intros [= <- <-]. split; reflexivity. Qed.
Lemma add_keyword_p h w st y s : add_keyword h w st = (inl y, s) -> g_todo s = g_todo st /\ g_counter s = g_counter st.
Proof. unfold add_keyword. intros [= <- <-]. split; reflexivity. Qed.
Lemma cache_put_p id v st y s : cache_put id v st = (inl y, s) -> g_todo s = g_todo st /\ g_counter s = g_counter st.
Proof. unfold cache_put. intros [= <- <-]. split; reflexivity. Qed.
Lemma set_locals_p l st y s : set_locals l st = (inl y, s) -> g_todo s = g_todo st /\ g_counter s = g_counter st.
Proof. unfold set_locals. intros [= _ <-]. split; reflexivity. Qed.
Lemma add_todo_p r st y s : add_todo r st = (inl y, s) -> g_todo s = (g_todo st ++ [r])%list /\ g_counter s = g_counter st.
Proof. unfold add_todo. intros [= _ <-]. split; reflexivity. Qed.
Lemma dedupe_p x st y s : dedupe x st = (inl y, s) -> g_todo s = g_todo st /\ g_counter s = g_counter st.
Proof.
  unfold dedupe. intros H. apply gbind_inv in H as (l & t0 & F0 & H). apply get_locals_spec in F0. subst t0.
  apply gbind_inv in H as (u & t1 & F1 & H). apply set_locals_p in F1. apply gret_spec in H as (_ & ->). exact F1.
Qed.

Lemma cm_ext : forall fuel,
  (forall i st nc st', cm_item fuel i st = (inl nc, st') -> ext st st') /\
  (forall r st nc st', cm_rhs fuel r st = (inl nc, st') -> ext st st').
Proof.
  induction fuel as [|f [IHi IHr]]; [split; intros; discriminate|]. split.
  - intros i st nc st' H. destruct i as [n|raw|r|j|id j|id j|id s e|j|j|j| |r]; cbn [cm_item] in H.
    + (* NameLeaf *)
      destruct (String.eqb n "SOFT_KEYWORD"); [apply gret_spec in H as (_ & ->); apply ext_refl|].
      destruct (mem_str n TOKS1); [apply gret_spec in H as (_ & ->); apply ext_refl|].
      destruct (mem_str n TOKS2); apply gret_spec in H as (_ & ->); apply ext_refl.
    + (* StringLeaf *)
      gb H. apply gret_spec in H as (_ & ->).
      destruct (is_identifier _); [apply add_keyword_p in E as (A & B); apply ext_same; assumption|apply gret_spec in E as (_ & ->); apply ext_refl].
    + (* Group *) exact (IHr _ _ _ _ H).
    + (* Opt *) gb H. pose proof (IHi _ _ _ _ E) as X. destruct (endswith "," _); apply gret_spec in H as (_ & ->); exact X.
    + (* Repeat0 *)
      gb H. apply cache_get_spec in E as (-> & ->). destruct (assocN id (g_cache st)) as [v|]; [apply gret_spec in H as (_ & ->); apply ext_refl|].
      gb H. gb H. gb H. gb H. gb H. apply gret_spec in H as (_ & ->).
      apply next_counter_p in E as (-> & A1 & B1). apply fresh_id_p in E0 as (A2 & B2). apply fresh_id_p in E1 as (A3 & B3).
      apply add_todo_p in E2 as (A4 & B4). apply cache_put_p in E3 as (A5 & B5).
      eapply new_helper; [rewrite A5, A4, A3, A2, A1; reflexivity|lia|]. cbn [rname mk_rule]. right. left. reflexivity.
    + (* Repeat1 *)
      gb H. apply cache_get_spec in E as (-> & ->). destruct (assocN id (g_cache st)) as [v|]; [apply gret_spec in H as (_ & ->); apply ext_refl|].
      gb H. gb H. gb H. gb H. gb H. apply gret_spec in H as (_ & ->).
      apply next_counter_p in E as (-> & A1 & B1). apply fresh_id_p in E0 as (A2 & B2). apply fresh_id_p in E1 as (A3 & B3).
      apply add_todo_p in E2 as (A4 & B4). apply cache_put_p in E3 as (A5 & B5).
      eapply new_helper; [rewrite A5, A4, A3, A2, A1; reflexivity|lia|]. cbn [rname mk_rule]. right. right. left. reflexivity.
    + (* Gather *)
      gb H. apply cache_get_spec in E as (-> & ->). destruct (assocN id (g_cache st)) as [v|]; [apply gret_spec in H as (_ & ->); apply ext_refl|].
      gb H. gb H. gb H. gb H. gb H. gb H. gb H. gb H. gb H. gb H. gb H. apply gret_spec in H as (_ & ->).
      apply next_counter_p in E as (-> & A1 & B1). apply next_counter_p in E0 as (-> & A2 & B2).
      apply fresh_id_p in E1 as (A3 & B3). apply fresh_id_p in E2 as (A4 & B4). apply fresh_id_p in E3 as (A5 & B5).
      apply fresh_id_p in E4 as (A6 & B6). apply fresh_id_p in E5 as (A7 & B7). apply fresh_id_p in E6 as (A8 & B8).
      apply add_todo_p in E7 as (A9 & B9). apply add_todo_p in E8 as (A10 & B10). apply cache_put_p in E9 as (A11 & B11).
      eapply new_helper2.
      * rewrite A11, A10, A9, A8, A7, A6, A5, A4, A3, A2, A1, <- app_assoc. reflexivity.
      * lia.
      * cbn [rname mk_rule]. rewrite B1. right. left. reflexivity.
      * cbn [rname mk_rule]. right. right. right. reflexivity.
    + (* PosLook *)
      gb H. pose proof (IHi _ _ _ _ E) as X. destruct (split_call _) as [[hd tl]|err]; [|discriminate]. apply gret_spec in H as (_ & ->). exact X.
    + (* NegLook *)
      gb H. pose proof (IHi _ _ _ _ E) as X. destruct (split_call _) as [[hd tl]|err]; [|discriminate]. apply gret_spec in H as (_ & ->). exact X.
    + (* Forced *)
      destruct j as [n|raw|r|j|id j|id j|id s e|j|j|j| |r]; try discriminate.
      * gb H. apply gret_spec in H as (_ & ->). exact (IHi _ _ _ _ E).
      * gb H. apply gret_spec in H as (_ & ->). exact (IHi _ _ _ _ E).
      * gb H. pose proof (IHr _ _ _ _ E) as X. destruct (snd y); apply gret_spec in H as (_ & ->); exact X.
    + (* Cut *) apply gret_spec in H as (_ & ->). apply ext_refl.
    + (* RhsItem *) exact (IHr _ _ _ _ H).
  - intros r st nc st' H. destruct r as [id alts]. cbn [cm_rhs] in H.
    gb H. apply cache_get_spec in E as (-> & ->). destruct (assocN id (g_cache st)) as [v|]; [apply gret_spec in H as (_ & ->); apply ext_refl|].
    gb H. gb H. apply gret_spec in H as (_ & ->). apply cache_put_p in E0 as (A0 & B0).
    assert (Hv : ext st s).
    { assert (Hgen : (k <- next_counter ;; let name := ("_tmp_" ++ nat_to_string k)%string in
                       _ <- add_todo (mk_rule name (Rhs id alts)) ;; gret (Some name, CMeth name)) st = (inl y, s) -> ext st s).
      { intros Hg. apply gbind_inv in Hg as (k & t0 & F0 & Hg). apply gbind_inv in Hg as (u & t1 & F1 & Hg).
        apply gret_spec in Hg as (_ & ->). apply next_counter_p in F0 as (-> & A1 & B1). apply add_todo_p in F1 as (A2 & B2).
        eapply new_helper; [rewrite A2, A1; reflexivity|lia|]. cbn [rname mk_rule]. left. reflexivity. }
      destruct alts as [|[[|[i0 nm0 ty0 it0] [|n2 items]] [act|]] [|a2 alts]]; try (exact (Hgen E)).
      apply gbind_inv in E as (w & t0 & F0 & E). apply gret_spec in E as (_ & ->). exact (IHi _ _ _ _ F0). }
    eapply ext_trans; [exact Hv|apply ext_same; assumption].
Qed.

Section EmitSec.
Variable invalid_tbl : list (string * bexp).
Variable iter_fields : list (string * list string).
Variable rs0 : list rule.
Variable nullable_rules left_rec leaders : list string.
Variable item_flag : N -> bool.

Lemma emit_item_ext n used unreachable is_gather st c st' :
  emit_item n used unreachable is_gather st = (inl c, st') -> ext st st'.
Proof.
  intros H. unfold emit_item in H. apply gbind_inv in H as (nc & t0 & F0 & H).
  pose proof (proj1 (cm_ext _) _ _ _ _ F0) as X.
  match type of H with (match ?nm with _ => _ end) _ = _ => destruct nm as [x|] end.
  - destruct (String.eqb x ""); [apply gret_spec in H as (_ & ->); exact X|].
    destruct (String.eqb x "cut"); [apply gret_spec in H as (_ & ->); exact X|].
    apply gbind_inv in H as (x' & t1 & F1 & H). apply gret_spec in H as (_ & ->). apply dedupe_p in F1 as (A & B).
    eapply ext_trans; [exact X|apply ext_same; assumption].
  - apply gret_spec in H as (_ & ->). exact X.
Qed.

Lemma emit_items_ext used unreachable is_gather : forall l st cs st',
  emit_items l used unreachable is_gather st = (inl cs, st') -> ext st st'.
Proof.
  induction l as [|n l IH]; intros st cs st' H; cbn [emit_items] in H.
  - apply gret_spec in H as (_ & ->). apply ext_refl.
  - apply gbind_inv in H as (c & t0 & F0 & H). apply gbind_inv in H as (cs0 & t1 & F1 & H). apply gret_spec in H as (_ & ->).
    eapply ext_trans; [exact (emit_item_ext _ _ _ _ _ _ _ F0)|exact (IH _ _ _ F1)].
Qed.

Lemma emit_alt_ext a is_loop is_gather st x st' :
  emit_alt invalid_tbl iter_fields a is_loop is_gather st = (inl x, st') -> ext st st'.
Proof.
  intros H. unfold emit_alt in H. destruct a as [items act]. cbn [alt_items alt_action] in H.
  apply gbind_inv in H as (u0 & t0 & F0 & H).
  assert (S0 : t0 = st).
  { match type of F0 with (match ?o with _ => _ end) _ = _ => destruct o as [ac|] end;
      [destruct (aparses ac); [apply gret_spec in F0 as (_ & ->); reflexivity|discriminate]|apply gret_spec in F0 as (_ & ->); reflexivity]. }
  subst t0.
  apply gbind_inv in H as (u1 & t1 & F1 & H). apply set_locals_p in F1 as (A1 & B1).
  apply gbind_inv in H as (conjs & t2 & F2 & H). pose proof (emit_items_ext _ _ _ _ _ _ _ F2) as X.
  apply gbind_inv in H as (locals & t3 & F3 & H). apply get_locals_spec in F3. subst t3.
  apply gbind_inv in H as (final & t4 & F4 & H). apply gret_spec in H as (_ & ->).
  assert (S4 : t4 = t2).
  { match type of F4 with (match ?o with _ => _ end) _ = _ => destruct o as [t|] end; [apply gret_spec in F4 as (_ & ->); reflexivity|].
    destruct is_gather.
    - destruct locals as [|x0 [|y0 [|z0 l]]]; try discriminate. apply gret_spec in F4 as (_ & ->). reflexivity.
    - destruct (has_invalid_alt _ _ _); [discriminate|]. destruct locals as [|x0 [|y0 l]]; apply gret_spec in F4 as (_ & ->); reflexivity. }
  subst t4. eapply ext_trans; [apply ext_same; eassumption|exact X].
Qed.

Lemma emit_alts_ext is_loop is_gather : forall l st xs st',
  emit_alts invalid_tbl iter_fields l is_loop is_gather st = (inl xs, st') -> ext st st'.
Proof.
  induction l as [|a l IH]; intros st xs st' H; cbn [emit_alts] in H.
  - apply gret_spec in H as (_ & ->). apply ext_refl.
  - apply gbind_inv in H as (x & t0 & F0 & H). apply gbind_inv in H as (xs0 & t1 & F1 & H). apply gret_spec in H as (_ & ->).
    eapply ext_trans; [exact (emit_alt_ext _ _ _ _ _ _ F0)|exact (IH _ _ _ F1)].
Qed.

Lemma emit_rule_ext r st m st' :
  emit_rule invalid_tbl iter_fields rs0 nullable_rules left_rec leaders item_flag r st = (inl m, st') ->
  ext st st' /\ m_name m = rname r.
Proof.
  intros H. unfold emit_rule in H. apply gbind_inv in H as (u0 & t0 & F0 & H).
  assert (S0 : t0 = st).
  { destruct (is_loop_name (rname r)); [|apply gret_spec in F0 as (_ & ->); reflexivity].
    destruct (rhs_alts (flatten r)) as [|a [|a2 l]]; try discriminate. apply gret_spec in F0 as (_ & ->). reflexivity. }
  subst t0. apply gbind_inv in H as (alts & t1 & F1 & H). apply gret_spec in H as (-> & ->).
  split; [exact (emit_alts_ext _ _ _ _ _ _ F1)|reflexivity].
Qed.

(* the methods of the module: the queue as it stood, then the helpers queued meanwhile *)
Lemma emit_all_names : forall fuel st ms st',
  emit_all invalid_tbl iter_fields rs0 nullable_rules left_rec leaders item_flag fuel st = (inl ms, st') ->
  exists new ks, map m_name ms = (map rname (g_todo st) ++ map rname new)%list /\ numbered new ks /\ NoDup ks /\
                 Forall (fun k => g_counter st < k <= g_counter st + List.length new) ks.
Proof.
  induction fuel as [|f IH]; intros st ms st' H; cbn [emit_all] in H; [discriminate|].
  apply gbind_inv in H as (o & t0 & F0 & H). unfold pop_todo in F0. destruct (g_todo st) as [|r rest] eqn:Et.
  - injection F0 as <- <-. apply gret_spec in H as (-> & _). exists [], []. split; [reflexivity|]. split; [constructor|]. split; constructor.
  - injection F0 as <- <-.
    apply gbind_inv in H as (m & t1 & F1 & H). apply gbind_inv in H as (ms0 & t2 & F2 & H). apply gret_spec in H as (-> & _).
    destruct (emit_rule_ext _ _ _ _ F1) as ((L1 & n1 & k1 & T1 & N1 & D1 & B1 & C1) & Hm). cbn [g_todo g_counter] in *.
    destruct (IH _ _ _ F2) as (n2 & k2 & E2 & N2 & D2 & B2).
    exists (n1 ++ n2)%list, (k1 ++ k2)%list. split; [|split; [apply Forall2_app; assumption|split]].
    + cbn [map]. rewrite Hm, E2, T1, !map_app, <- app_assoc. reflexivity.
    + rewrite Forall_forall in B1, B2. apply nodup_app_disj; [exact D1|exact D2|]. intros x H1 H2. specialize (B1 x H1). specialize (B2 x H2). lia.
    + rewrite Forall_forall in *. rewrite app_length. intros x Hx. apply in_app_or in Hx as [Hx|Hx]; [specialize (B1 x Hx)|specialize (B2 x Hx)]; lia.
Qed.
End EmitSec.

Theorem generated_methods_follow_the_rules invalid_tbl iter_fields module_prefix module_suffix filename fresh_base g an M :
  generate invalid_tbl iter_fields module_prefix module_suffix filename fresh_base g an = inl M ->
  exists helpers ks, map m_name (i_meths M) = (map rname (rules g) ++ map rname helpers)%list /\
                     numbered helpers ks /\ NoDup ks /\ Forall (fun k => k <= List.length helpers) ks.
Proof.
  unfold generate. intros H.
  match type of H with (match ?e with _ => _ end) = _ => destruct e as [[ms|err] st] eqn:E end; [|discriminate].
  injection H as <-. cbn [i_meths].
  destruct (emit_all_names _ _ _ _ _ _ _ _ _ _ _ E) as (new & ks & A & B & C & D). cbn [g_todo g_counter] in A, D.
  exists new, ks. split; [exact A|]. split; [exact B|]. split; [exact C|].
  eapply Forall_impl; [|exact D]. cbn. intros k Hk. lia.
Qed.

(* ---------- distinct numbers give distinct names ---------- *)
Lemma forall2_in_l {A B} (P : A -> B -> Prop) l1 l2 x : Forall2 P l1 l2 -> In x l1 -> exists y, In y l2 /\ P x y.
Proof.
  induction 1 as [|a b l1 l2 Hab _ IH]; intros Hin; [destruct Hin|]. destruct Hin as [<-|Hin].
  - exists b. split; [left; reflexivity|exact Hab].
  - destruct (IH Hin) as (y & Hy & Py). exists y. split; [right; exact Hy|exact Py].
Qed.

Ltac differ_at n E := apply (f_equal (String.get n)) in E; cbn [String.append String.get] in E; discriminate E.
Lemma helper_name_inj n j k : helper_name n j -> helper_name n k -> small j -> small k -> j = k.
Proof.
  intros Hj Hk Sj Sk. apply nat_to_string_inj; [exact Sj|exact Sk|].
  destruct Hj as [-> | [-> | [-> | ->]]]; destruct Hk as [E | [E | [E | E]]];
    first [exact (append_inj_l _ _ _ E) | differ_at 1 E | differ_at 5 E].
Qed.

Lemma helper_starts_underscore n k : helper_name n k -> startswith "_" n = true.
Proof. intros [-> | [-> | [-> | ->]]]; unfold startswith; cbn [String.append String.prefix]; rewrite ?Ascii.eqb_refl; reflexivity. Qed.

Lemma helper_names_distinct : forall new ks, numbered new ks -> NoDup ks -> Forall small ks -> NoDup (map rname new).
Proof.
  induction 1 as [|r k new ks Hrk Hrest IH]; intros Hnd Hs; cbn [map]; [constructor|].
  inversion Hnd as [|? ? Hk Hnd']; subst. inversion Hs as [|? ? Sk Ss]; subst. constructor; [|exact (IH Hnd' Ss)].
  intros Hin. apply in_map_iff in Hin as (r' & E & Hr'). destruct (forall2_in_l _ _ _ _ Hrest Hr') as (k' & Hk' & Pk').
  rewrite E in Pk'. rewrite Forall_forall in Ss. pose proof (helper_name_inj _ _ _ Hrk Pk' Sk (Ss _ Hk')) as ->. exact (Hk Hk').
Qed.

Theorem generated_method_names_distinct invalid_tbl iter_fields module_prefix module_suffix filename fresh_base g an M :
  generate invalid_tbl iter_fields module_prefix module_suffix filename fresh_base g an = inl M ->
  NoDup (map rname (rules g)) -> (forall r, In r (rules g) -> startswith "_" (rname r) = false) ->
  small (List.length (i_meths M)) ->
  NoDup (map m_name (i_meths M)).
Proof.
  intros H Hnd Hus Hsm. destruct (generated_methods_follow_the_rules _ _ _ _ _ _ _ _ _ H) as (helpers & ks & A & B & C & D).
  assert (Hlen : List.length (i_meths M) = List.length (rules g) + List.length helpers).
  { rewrite <- (map_length m_name), A, app_length, !map_length. reflexivity. }
  assert (Hs : Forall small ks).
  { eapply Forall_impl; [|exact D]. cbn. intros k Hk. unfold small in *. rewrite Hlen in Hsm.
    apply N.le_lt_trans with (m := N.of_nat (List.length (rules g) + List.length helpers)); [|exact Hsm]. lia. }
  rewrite A. apply nodup_app_disj; [exact Hnd|exact (helper_names_distinct _ _ B C Hs)|].
  intros x H1 H2. apply in_map_iff in H1 as (r & <- & Hr). apply in_map_iff in H2 as (r' & E & Hr').
  destruct (forall2_in_l _ _ _ _ B Hr') as (k & _ & Pk). apply helper_starts_underscore in Pk. rewrite E, (Hus r Hr) in Pk. discriminate.
Qed.
