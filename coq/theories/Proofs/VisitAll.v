(* The table-driven visitor reaches every NamedItem nested in the node it is applied to, when every method of the table
   visits all the children of its class on every evaluation path ([total_tbl]) and is well-kinded ([wf_tbl]):
   whatever the flag-setting hook establishes for a NamedItem at the moment it is visited (and later steps only
   preserve) holds, after the visit of a node, for ALL NamedItems inside it. *)
From Coq Require Import List String NArith Bool.
From Pegen Require Import Base.StrUtil Grammar.Ast Grammar.Induction Analysis.Visitor Proofs.VisitorSim Proofs.NullableProofs.
Import ListNotations.
Open Scope string_scope.

(* the NamedItems nested in a node, at any depth *)
Fixpoint inside_item (i : item) : list nitem :=
  match i with
  | NameLeaf _ | StringLeaf _ | Cut => []
  | Group r | RhsItem r => inside_rhs r
  | Opt j | Repeat0 _ j | Repeat1 _ j | PosLook j | NegLook j | Forced j => inside_item j
  | Gather _ s e => (inside_item s ++ inside_item e)%list
  end
with inside_rhs (r : rhs) : list nitem :=
  match r with Rhs _ alts =>
    (fix go (l : list alt) := match l with [] => [] | a :: l' => (inside_alt a ++ go l')%list end) alts end
with inside_alt (a : alt) : list nitem :=
  match a with Alt items _ =>
    (fix go (l : list nitem) := match l with [] => [] | n :: l' => (inside_nitem n ++ go l')%list end) items end
with inside_nitem (n : nitem) : list nitem :=
  match n with NItem id nm ty i => NItem id nm ty i :: inside_item i end.

Lemma inside_rhs_eq id alts : inside_rhs (Rhs id alts) = flat_map inside_alt alts.
Proof. cbn [inside_rhs]. induction alts as [|a l IH]; [reflexivity|]. cbn [flat_map]. rewrite <- IH. reflexivity. Qed.
Lemma inside_alt_eq items act : inside_alt (Alt items act) = flat_map inside_nitem items.
Proof. cbn [inside_alt]. induction items as [|a l IH]; [reflexivity|]. cbn [flat_map]. rewrite <- IH. reflexivity. Qed.

Section Cover.
Variable St : Type.
Variable Inv : St -> Prop.
Variable Ok : St -> Prop.
Variable le : St -> St -> Prop.
Variable Q : nitem -> St -> Prop.
Hypothesis le_refl : forall s, le s s.
Hypothesis le_trans : forall a b c, le a b -> le b c -> le a c.
Hypothesis Q_mono : forall n s s', Q n s -> le s s' -> Q n s'.

Notation Pres' := (Pres St Inv Ok).
Definition Mono (m : M St) : Prop := forall st b st', m st = (b, st') -> le st st'.
Definition Post (m : M St) (L : list nitem) : Prop :=
  forall st b st', Inv st -> m st = (b, st') -> Ok st' -> forall n, In n L -> Q n st'.
Definition Good (m : M St) (L : list nitem) : Prop := Pres' m /\ Mono m /\ Post m L.

Lemma good_ret b : Good (ret St b) [].
Proof.
  split; [apply pres_ret|]. split.
  - intros st b' st' [= _ <-]. apply le_refl.
  - intros st b' st' _ _ _ n [].
Qed.

Lemma good_weaken m L L' : Good m L -> incl L' L -> Good m L'.
Proof. intros (A & B & C) Hi. split; [exact A|]. split; [exact B|]. intros st b st' HI E Hok n Hn. exact (C _ _ _ HI E Hok n (Hi n Hn)). Qed.

Lemma good_bind m k L1 L2 : Good m L1 -> (forall b, Good (k b) L2) -> Good (bind St m k) (L1 ++ L2).
Proof.
  intros (P1 & M1 & C1) Hk. split; [|split].
  - apply pres_bind; [exact P1|]. intros b. exact (proj1 (Hk b)).
  - intros st b st'. unfold bind. destruct (m st) as [b1 st1] eqn:E1. intros E2.
    eapply le_trans; [exact (M1 _ _ _ E1)|exact (proj1 (proj2 (Hk b1)) _ _ _ E2)].
  - intros st b st' HI. unfold bind. destruct (m st) as [b1 st1] eqn:E1. intros E2 Hok n Hn.
    destruct (P1 _ _ _ HI E1) as [HI1 Hok1]. destruct (Hk b1) as (P2 & M2 & C2).
    destruct (P2 _ _ _ HI1 E2) as [HI2 Hok2].
    apply in_app_or in Hn as [Hn|Hn].
    + eapply Q_mono; [exact (C1 _ _ _ HI E1 (Hok2 Hok) n Hn)|exact (M2 _ _ _ E2)].
    + exact (C2 _ _ _ HI1 E2 Hok n Hn).
Qed.

Lemma good_nil m L : Good m L -> Good m [].
Proof. intros H. eapply good_weaken; [exact H|]. intros x []. Qed.

Lemma good_any_eager ms Ls : Forall2 Good ms Ls -> Good (any_eager St ms) (List.concat Ls).
Proof.
  induction 1 as [|m L ms Ls Hm _ IH]; cbn [any_eager List.concat]; [apply good_ret|].
  apply good_bind; [exact Hm|]. intros b. rewrite <- (app_nil_r (List.concat Ls)). apply good_bind; [exact IH|]. intros r. apply good_ret.
Qed.
Lemma good_all_eager ms Ls : Forall2 Good ms Ls -> Good (all_eager St ms) (List.concat Ls).
Proof.
  induction 1 as [|m L ms Ls Hm _ IH]; cbn [all_eager List.concat]; [apply good_ret|].
  apply good_bind; [exact Hm|]. intros b. rewrite <- (app_nil_r (List.concat Ls)). apply good_bind; [exact IH|]. intros r. apply good_ret.
Qed.
Lemma good_any_lazy ms Ls : Forall2 Good ms Ls -> Good (any_lazy St ms) [].
Proof.
  induction 1 as [|m L ms Ls Hm _ IH]; cbn [any_lazy]; [apply good_ret|].
  change (@nil nitem) with (@nil nitem ++ @nil nitem)%list. apply good_bind; [exact (good_nil _ _ Hm)|]. intros [|]; [apply good_ret|exact IH].
Qed.
Lemma good_all_lazy ms Ls : Forall2 Good ms Ls -> Good (all_lazy St ms) [].
Proof.
  induction 1 as [|m L ms Ls Hm _ IH]; cbn [all_lazy]; [apply good_ret|].
  change (@nil nitem) with (@nil nitem ++ @nil nitem)%list. apply good_bind; [exact (good_nil _ _ Hm)|]. intros [|]; [exact IH|apply good_ret].
Qed.
Lemma good_run_all ms Ls : Forall2 Good ms Ls -> Good (run_all St ms) (List.concat Ls).
Proof.
  induction 1 as [|m L ms Ls Hm _ IH]; cbn [run_all List.concat]; [apply good_ret|].
  apply good_bind; [exact Hm|]. intros _. exact IH.
Qed.

(* environments annotated with what each field covers *)
Inductive Cval : fval St -> list nitem -> Prop :=
| CM m L : Good m L -> Cval (FM St m) L
| CL ms Ls : Forall2 Good ms Ls -> Cval (FList St ms) (List.concat Ls)
| CS s : Cval (FStr St s) [].
Definition Cenv (en : env St) (cen : list (string * list nitem)) : Prop :=
  Forall2 (fun x y => fst x = fst y /\ Cval (snd x) (snd y)) en cen.

Lemma cenv_assoc en cen f : Cenv en cen ->
  match assoc_s f en, assoc_s f cen with
  | Some x, Some y => Cval x y
  | None, None => True
  | _, _ => False
  end.
Proof.
  intros H. induction H as [|[k v] [k' v'] en cen [Hk Hv] _ IH]; cbn; [exact I|].
  cbn in Hk. subst k'. destruct (String.eqb f k); [exact Hv|exact IH].
Qed.

Section Eval.
Variable en : env St.
Variable cen : list (string * list nitem).
Hypothesis HC : Cenv en cen.

Definition covN (f : string) : list nitem :=
  match assoc_s f en, assoc_s f cen with Some (FM _ _), Some L => L | _, _ => [] end.
Definition covL (f : string) : list nitem :=
  match assoc_s f en, assoc_s f cen with Some (FList _ _), Some L => L | _, _ => [] end.
Fixpoint cov (e : bexp) : list nitem :=
  match e with
  | BVisit f => covN f
  | BAnyEager f | BAllEager f => covL f
  | BSeq a b => (cov a ++ cov b)%list
  | BOr a _ | BAnd a _ | BNot a => cov a
  | _ => []
  end.

Lemma good_eval e : Good (eval St e en) (cov e).
Proof.
  induction e; cbn [eval cov]; try apply good_ret.
  - (* BVisit *) unfold covN. pose proof (cenv_assoc en cen f HC) as H.
    destruct (assoc_s f en) as [[m|ms|s]|]; try apply good_ret.
    destruct (assoc_s f cen); [|destruct H]. inversion H; subst. assumption.
  - (* BOr *) rewrite <- (app_nil_r (cov e1)). apply good_bind; [exact IHe1|]. intros [|]; [apply good_ret|exact (good_nil _ _ IHe2)].
  - (* BAnd *) rewrite <- (app_nil_r (cov e1)). apply good_bind; [exact IHe1|]. intros [|]; [exact (good_nil _ _ IHe2)|apply good_ret].
  - (* BNot *) rewrite <- (app_nil_r (cov e)). apply good_bind; [exact IHe|]. intros b. apply good_ret.
  - (* BNotField *) destruct (assoc_s f en) as [[m|ms|s]|]; apply good_ret.
  - (* BSeq *) apply good_bind; [exact IHe1|]. intros _. exact IHe2.
  - (* BAnyLazy *) pose proof (cenv_assoc en cen f HC) as H. destruct (assoc_s f en) as [[m|ms|s]|]; try apply good_ret.
    destruct (assoc_s f cen); [|destruct H]. inversion H; subst. eapply good_any_lazy; eassumption.
  - (* BAnyEager *) unfold covL. pose proof (cenv_assoc en cen f HC) as H. destruct (assoc_s f en) as [[m|ms|s]|]; try apply good_ret.
    destruct (assoc_s f cen); [|destruct H]. inversion H; subst. apply good_any_eager; assumption.
  - (* BAllLazy *) pose proof (cenv_assoc en cen f HC) as H. destruct (assoc_s f en) as [[m|ms|s]|]; try apply good_ret.
    destruct (assoc_s f cen); [|destruct H]. inversion H; subst. eapply good_all_lazy; eassumption.
  - (* BAllEager *) unfold covL. pose proof (cenv_assoc en cen f HC) as H. destruct (assoc_s f en) as [[m|ms|s]|]; try apply good_ret.
    destruct (assoc_s f cen); [|destruct H]. inversion H; subst. apply good_all_eager; assumption.
  - (* BStartsWith *) destruct (assoc_s f en) as [[m|ms|s]|]; apply good_ret.
Qed.

(* a field that the method visits on every path, with the kind the method expects, is covered *)
Lemma mem_str_app x a b : mem_str x (a ++ b) = mem_str x a || mem_str x b.
Proof. unfold mem_str. apply existsb_app. Qed.

Lemma cov_node sp kenv e f m L : wf_bexp sp kenv e = true -> has_kind kenv f KNode = true ->
  mem_str f (visits e) = true -> assoc_s f en = Some (FM St m) -> assoc_s f cen = Some L -> incl L (cov e).
Proof.
  intros Hw Hk Hv He Hc. induction e; cbn [visits cov wf_bexp] in *; try discriminate.
  - unfold mem_str in Hv. cbn in Hv. rewrite orb_false_r in Hv. apply String.eqb_eq in Hv. subst f0.
    unfold covN. rewrite He, Hc. apply incl_refl.
  - apply andb_prop in Hw as [H1 _]. exact (IHe1 H1 Hv).
  - apply andb_prop in Hw as [H1 _]. exact (IHe1 H1 Hv).
  - exact (IHe Hw Hv).
  - apply andb_prop in Hw as [H1 H2]. rewrite mem_str_app in Hv. apply orb_prop in Hv as [Hv|Hv].
    + apply incl_appl. exact (IHe1 H1 Hv).
    + apply incl_appr. exact (IHe2 H2 Hv).
  - exfalso. unfold mem_str in Hv. cbn in Hv. rewrite orb_false_r in Hv. apply String.eqb_eq in Hv. subst f0.
    unfold has_kind in *. destruct (assoc_s f kenv) as [[| |]|]; discriminate.
  - exfalso. unfold mem_str in Hv. cbn in Hv. rewrite orb_false_r in Hv. apply String.eqb_eq in Hv. subst f0.
    unfold has_kind in *. destruct (assoc_s f kenv) as [[| |]|]; discriminate.
Qed.

Lemma cov_list sp kenv e f ms L : wf_bexp sp kenv e = true -> has_kind kenv f KList = true ->
  mem_str f (visits e) = true -> assoc_s f en = Some (FList St ms) -> assoc_s f cen = Some L -> incl L (cov e).
Proof.
  intros Hw Hk Hv He Hc. induction e; cbn [visits cov wf_bexp] in *; try discriminate.
  - exfalso. unfold mem_str in Hv. cbn in Hv. rewrite orb_false_r in Hv. apply String.eqb_eq in Hv. subst f0.
    unfold has_kind in *. destruct (assoc_s f kenv) as [[| |]|]; discriminate.
  - apply andb_prop in Hw as [H1 _]. exact (IHe1 H1 Hv).
  - apply andb_prop in Hw as [H1 _]. exact (IHe1 H1 Hv).
  - exact (IHe Hw Hv).
  - apply andb_prop in Hw as [H1 H2]. rewrite mem_str_app in Hv. apply orb_prop in Hv as [Hv|Hv].
    + apply incl_appl. exact (IHe1 H1 Hv).
    + apply incl_appr. exact (IHe2 H2 Hv).
  - unfold mem_str in Hv. cbn in Hv. rewrite orb_false_r in Hv. apply String.eqb_eq in Hv. subst f0.
    unfold covL. rewrite He, Hc. apply incl_refl.
  - unfold mem_str in Hv. cbn in Hv. rewrite orb_false_r in Hv. apply String.eqb_eq in Hv. subst f0.
    unfold covL. rewrite He, Hc. apply incl_refl.
Qed.
End Eval.
End Cover.

(* ---------------- lifting to whole items ---------------- *)
Definition has_methods (methods : list (string * bexp)) : bool :=
  forallb (fun ce => match assoc_s ("visit_" ++ fst ce) methods with Some _ => true | None => false end) class_env.
Definition is_special (methods : list (string * bexp)) (cls : string) : bool :=
  match assoc_s ("visit_" ++ cls) methods with Some (BSpecial _) => true | _ => false end.
Definition visit_all_ok (methods : list (string * bexp)) (iter_fields : list (string * list string)) : bool :=
  wf_tbl methods iter_fields && total_tbl methods && has_methods methods && is_special methods "NamedItem".

Section LiftAll.
Variable St : Type.
Variable Inv : St -> Prop.
Variable Ok : St -> Prop.
Variable le : St -> St -> Prop.
Variable Q : nitem -> St -> Prop.
Hypothesis le_refl : forall s, le s s.
Hypothesis le_trans : forall a b c, le a b -> le b c -> le a c.
Hypothesis Q_mono : forall n s s', Q n s -> le s s' -> Q n s'.
Variable dir : bool.
Variable methods : list (string * bexp).
Variable iter_fields : list (string * list string).
Variable sp_nitem : nitem -> M St -> M St.
Variable sp_nameleaf : string -> M St.
Variable p_nameleaf : string -> bool.
Variable okn : nitem -> Prop.

Notation Sim' := (Sim St Inv Ok dir).
Notation Good' := (Good St Inv Ok le Q).
Notation vi := (v_item St methods iter_fields sp_nitem sp_nameleaf).
Notation vr := (v_rhs St methods iter_fields sp_nitem sp_nameleaf).
Notation va := (v_alt St methods iter_fields sp_nitem sp_nameleaf).
Notation vn := (v_nitem St methods iter_fields sp_nitem sp_nameleaf).
Notation pi := (pv_item methods p_nameleaf).

Hypothesis Hok : visit_all_ok methods iter_fields = true.
Hypothesis Hmono : forallb (fun kv => no_not (snd kv)) methods = true.
Hypothesis HleafS : forall n, Sim' (sp_nameleaf n) (p_nameleaf n).
Hypothesis HnitemS : forall n m, okn n -> Sim' m (pi (ni_item n)) -> Sim' (sp_nitem n m) (pi (ni_item n)).
Hypothesis Hleaf : forall n, Good' (sp_nameleaf n) [].
Hypothesis Hnitem : forall n m L, okn n -> Good' m L -> Sim' m (pi (ni_item n)) -> Good' (sp_nitem n m) (n :: L).

Lemma ok_parts : wf_tbl methods iter_fields = true /\ total_tbl methods = true /\ has_methods methods = true /\
  is_special methods "NamedItem" = true.
Proof.
  pose proof Hok as H0. unfold visit_all_ok in H0. apply andb_prop in H0 as [H0 H3]. apply andb_prop in H0 as [H0 H2].
  apply andb_prop in H0 as [H0 H1]. repeat split; assumption.
Qed.

Definition specials (cls : string) : bool := String.eqb cls "NamedItem" || String.eqb cls "NameLeaf" || String.eqb cls "Rule".

Lemma wf_class cls kenv e : In (cls, kenv) class_env -> assoc_s ("visit_" ++ cls) methods = Some e ->
  wf_bexp (specials cls) kenv e = true.
Proof.
  intros Hin He. destruct ok_parts as (Hw & _). unfold wf_tbl in Hw. apply andb_prop in Hw as [Hw _].
  rewrite forallb_forall in Hw. specialize (Hw _ Hin). cbn [fst snd] in Hw. rewrite He in Hw. exact Hw.
Qed.
Lemma total_class cls fs e : In (cls, fs) class_fields -> assoc_s ("visit_" ++ cls) methods = Some e ->
  forallb (fun f => mem_str f (visits e)) fs = true.
Proof.
  intros Hin He. destruct ok_parts as (_ & Ht & _). unfold total_tbl in Ht.
  rewrite forallb_forall in Ht. specialize (Ht _ Hin). cbn [fst snd] in Ht. rewrite He in Ht. exact Ht.
Qed.
Lemma method_class cls kenv : In (cls, kenv) class_env -> exists e, assoc_s ("visit_" ++ cls) methods = Some e.
Proof.
  intros Hin. destruct ok_parts as (_ & _ & Hm & _). unfold has_methods in Hm.
  rewrite forallb_forall in Hm. specialize (Hm _ Hin). cbn [fst] in Hm.
  destruct (assoc_s ("visit_" ++ cls) methods) as [e|]; [exists e; reflexivity|discriminate].
Qed.

Ltac in_list := cbn; repeat (first [left; reflexivity | right]).

(* a class with one node field *)
Lemma good_node1 cls f m L : In (cls, [(f, KNode)]) class_env -> In (cls, [f]) class_fields -> specials cls = false ->
  Good' m L -> Good' (dispatch St methods iter_fields cls [(f, FM St m)] (fail_closed St)) L.
Proof.
  intros Hce Hcf Hsp Hm. destruct (method_class _ _ Hce) as [e He].
  pose proof (wf_class _ _ _ Hce He) as Hw. rewrite Hsp in Hw. pose proof (total_class _ _ _ Hcf He) as Ht.
  cbn [forallb] in Ht. rewrite andb_true_r in Ht.
  assert (HC : Cenv St Inv Ok le Q [(f, FM St m)] [(f, L)]).
  { constructor; [split; [reflexivity|constructor; exact Hm]|constructor]. }
  unfold dispatch. rewrite He.
  assert (Hg : Good' (eval St e [(f, FM St m)]) L).
  { eapply good_weaken; [|].
    - apply (good_eval St Inv Ok le Q le_refl le_trans Q_mono _ _ HC e).
    - eapply (cov_node St _ _ false [(f, KNode)] e f m L Hw); [|exact Ht| |]; unfold has_kind; cbn [assoc_s]; rewrite String.eqb_refl; reflexivity. }
  destruct e; exact Hg.
Qed.

Lemma good_leafcls cls en sp : (exists kenv, In (cls, kenv) class_env) -> (forall f v, In (f, v) en -> exists s, v = FStr St s) ->
  Good' sp [] -> Good' (dispatch St methods iter_fields cls en sp) [].
Proof.
  intros [kenv Hce] Hstr Hsp. destruct (method_class _ _ Hce) as [e He]. unfold dispatch. rewrite He.
  assert (HC : exists cen, Cenv St Inv Ok le Q en cen).
  { clear -Hstr. induction en as [|[f v] en' IH]; [exists []; constructor|].
    destruct IH as [cen Hc]; [intros f0 v0 H0; apply (Hstr f0 v0); right; exact H0|].
    destruct (Hstr f v (or_introl eq_refl)) as [s ->]. exists ((f, []) :: cen). constructor; [split; [reflexivity|constructor]|exact Hc]. }
  destruct HC as [cen HC].
  assert (Hg : Good' (eval St e en) []).
  { eapply good_nil. apply (good_eval St Inv Ok le Q le_refl le_trans Q_mono _ _ HC e). }
  destruct e; try exact Hg. exact Hsp.
Qed.

Lemma good_all :
  (forall i, ok_item okn i -> Good' (vi i) (inside_item i)) /\
  (forall r, ok_rhs okn r -> Good' (vr r) (inside_rhs r)) /\
  (forall a, ok_alt okn a -> Good' (va a) (inside_alt a)) /\
  (forall n, ok_nitem okn n -> Good' (vn n) (inside_nitem n)).
Proof.
  pose proof (sim_items St Inv Ok dir methods iter_fields sp_nitem sp_nameleaf p_nameleaf okn Hmono HleafS HnitemS) as (SI & SR & SA & SN).
  assert (Gret : Good' (fail_closed St) []) by (apply good_ret; exact le_refl).
  apply grammar_ast_ind.
  - (* NameLeaf *) intros n _. cbn [v_item inside_item]. apply good_leafcls; [eexists; in_list| |apply Hleaf].
    intros f v [[= <- <-]|[]]. eexists; reflexivity.
  - (* StringLeaf *) intros s _. cbn [v_item inside_item]. apply good_leafcls; [eexists; in_list| |exact Gret].
    intros f v [[= <- <-]|[]]. eexists; reflexivity.
  - (* Group *) intros r IH H. cbn [v_item inside_item ok_item] in *. apply good_node1; [in_list|in_list|reflexivity|exact (IH H)].
  - (* Opt *) intros i IH H. cbn [v_item inside_item ok_item] in *. apply good_node1; [in_list|in_list|reflexivity|exact (IH H)].
  - (* Repeat0 *) intros id i IH H. cbn [v_item inside_item ok_item] in *. apply good_node1; [in_list|in_list|reflexivity|exact (IH H)].
  - (* Repeat1 *) intros id i IH H. cbn [v_item inside_item ok_item] in *. apply good_node1; [in_list|in_list|reflexivity|exact (IH H)].
  - (* Gather *) intros id s e IHs IHe H. cbn [v_item inside_item ok_item] in *. destruct H as [H1 H2].
    destruct (method_class "Gather" [("separator", KNode); ("node", KNode)] ltac:(in_list)) as [b Hb].
    pose proof (wf_class "Gather" _ _ ltac:(in_list) Hb) as Hw. cbn [specials String.eqb orb] in Hw.
    pose proof (total_class "Gather" ["separator"; "node"] _ ltac:(in_list) Hb) as Ht. cbn [forallb] in Ht.
    apply andb_prop in Ht as [Ht1 Ht2]. rewrite andb_true_r in Ht2.
    set (en := [("separator", FM St (vi s)); ("node", FM St (vi e))]).
    assert (HC : Cenv St Inv Ok le Q en [("separator", inside_item s); ("node", inside_item e)]).
    { constructor; [split; [reflexivity|constructor; exact (IHs H1)]|]. constructor; [split; [reflexivity|constructor; exact (IHe H2)]|constructor]. }
    unfold dispatch. rewrite Hb.
    assert (Hg : Good' (eval St b en) (inside_item s ++ inside_item e)).
    { eapply good_weaken; [|].
      - apply (good_eval St Inv Ok le Q le_refl le_trans Q_mono _ _ HC b).
      - apply incl_app.
        + eapply (cov_node St _ _ false _ b "separator" (vi s) _ Hw); [|exact Ht1| |]; reflexivity.
        + eapply (cov_node St _ _ false _ b "node" (vi e) _ Hw); [|exact Ht2| |]; reflexivity. }
    destruct b; exact Hg.
  - (* PosLook *) intros i IH H. cbn [v_item inside_item ok_item] in *. apply good_node1; [in_list|in_list|reflexivity|exact (IH H)].
  - (* NegLook *) intros i IH H. cbn [v_item inside_item ok_item] in *. apply good_node1; [in_list|in_list|reflexivity|exact (IH H)].
  - (* Forced *) intros i IH H. cbn [v_item inside_item ok_item] in *. apply good_node1; [in_list|in_list|reflexivity|exact (IH H)].
  - (* Cut *) intros _. cbn [v_item inside_item]. apply good_leafcls; [eexists; in_list| |exact Gret]. intros f v [].
  - (* RhsItem *) intros r IH H. cbn [v_item inside_item ok_item] in *. exact (IH H).
  - (* Rhs *) intros id alts HF H. rewrite inside_rhs_eq. cbn [v_rhs ok_rhs] in *.
    destruct (method_class "Rhs" [("alts", KList)] ltac:(in_list)) as [b Hb].
    pose proof (wf_class "Rhs" _ _ ltac:(in_list) Hb) as Hw. cbn [specials String.eqb orb] in Hw.
    pose proof (total_class "Rhs" ["alts"] _ ltac:(in_list) Hb) as Ht. cbn [forallb] in Ht. rewrite andb_true_r in Ht.
    match goal with |- Good' (dispatch _ _ _ _ [(_, FList _ ?l)] _) _ => set (ms := l) end.
    assert (HF2 : Forall2 Good' ms (map inside_alt alts)).
    { subst ms. induction HF as [|a l Ha HF' IH]; cbn; [constructor|]. destruct H as [H1 H2]. constructor; [exact (Ha H1)|exact (IH H2)]. }
    assert (HC : Cenv St Inv Ok le Q [("alts", FList St ms)] [("alts", List.concat (map inside_alt alts))]).
    { constructor; [split; [reflexivity|constructor; exact HF2]|constructor]. }
    unfold dispatch. rewrite Hb. rewrite flat_map_concat_map.
    assert (Hg : Good' (eval St b [("alts", FList St ms)]) (List.concat (map inside_alt alts))).
    { eapply good_weaken; [|].
      - apply (good_eval St Inv Ok le Q le_refl le_trans Q_mono _ _ HC b).
      - eapply (cov_list St _ _ false _ b "alts" ms _ Hw); [|exact Ht| |]; reflexivity. }
    destruct b; exact Hg.
  - (* Alt *) intros items act HF H. rewrite inside_alt_eq. cbn [v_alt ok_alt] in *.
    destruct (method_class "Alt" [("items", KList)] ltac:(in_list)) as [b Hb].
    pose proof (wf_class "Alt" _ _ ltac:(in_list) Hb) as Hw. cbn [specials String.eqb orb] in Hw.
    pose proof (total_class "Alt" ["items"] _ ltac:(in_list) Hb) as Ht. cbn [forallb] in Ht. rewrite andb_true_r in Ht.
    match goal with |- Good' (dispatch _ _ _ _ [(_, FList _ ?l)] _) _ => set (ms := l) end.
    assert (HF2 : Forall2 Good' ms (map inside_nitem items)).
    { subst ms. induction HF as [|a l Ha HF' IH]; cbn; [constructor|]. destruct H as [H1 H2]. constructor; [exact (Ha H1)|exact (IH H2)]. }
    assert (HC : Cenv St Inv Ok le Q [("items", FList St ms)] [("items", List.concat (map inside_nitem items))]).
    { constructor; [split; [reflexivity|constructor; exact HF2]|constructor]. }
    unfold dispatch. rewrite Hb. rewrite flat_map_concat_map.
    assert (Hg : Good' (eval St b [("items", FList St ms)]) (List.concat (map inside_nitem items))).
    { eapply good_weaken; [|].
      - apply (good_eval St Inv Ok le Q le_refl le_trans Q_mono _ _ HC b).
      - eapply (cov_list St _ _ false _ b "items" ms _ Hw); [|exact Ht| |]; reflexivity. }
    destruct b; exact Hg.
  - (* NamedItem *) intros id name ty i IH H. destruct H as [H1 H2].
    change (vn (NItem id name ty i)) with
      (dispatch St methods iter_fields "NamedItem" [("item", FM St (vi i))] (sp_nitem (NItem id name ty i) (vi i))).
    change (inside_nitem (NItem id name ty i)) with (NItem id name ty i :: inside_item i).
    destruct ok_parts as (_ & _ & _ & Hs). unfold is_special in Hs.
    destruct (assoc_s ("visit_" ++ "NamedItem") methods) as [e|] eqn:He; [|discriminate]. destruct e; try discriminate.
    unfold dispatch. rewrite He.
    apply (Hnitem (NItem id name ty i)); [exact H1|exact (IH H2)|exact (SI i H2)].
Qed.
End LiftAll.
