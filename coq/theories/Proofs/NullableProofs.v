(* The table-driven nullable analysis computes the least pre-fixed point of the equations read off
   the (monotone) method table -- hence it does not depend on the order of the rules. *)
From Coq Require Import List String NArith Bool Arith Lia.
From Pegen Require Import Base.StrUtil Grammar.Ast Grammar.Induction Analysis.Visitor Analysis.Nullable
  Proofs.VisitorSim.
Import ListNotations.
Open Scope string_scope.

(* ---------- decidable side conditions on the extracted method table ---------- *)
Definition monotone_tbl (t : list (string * bexp)) : bool := forallb (fun kv => no_not (snd kv)) t.

(* fields that are visited on every evaluation path *)
Fixpoint visits (e : bexp) : list string :=
  match e with
  | BVisit f | BAnyEager f | BAllEager f => [f]
  | BSeq a b => (visits a ++ visits b)%list
  | BOr a _ | BAnd a _ | BNot a => visits a
  | _ => []
  end.
Definition class_fields : list (string * list string) :=
  [("Rhs", ["alts"]); ("Alt", ["items"]); ("Group", ["rhs"]); ("Opt", ["node"]); ("Repeat0", ["node"]);
   ("Repeat1", ["node"]); ("Gather", ["separator"; "node"]); ("PositiveLookahead", ["node"]);
   ("NegativeLookahead", ["node"]); ("Forced", ["node"])].
Definition total_tbl (t : list (string * bexp)) : bool :=
  forallb (fun cf => match assoc_s ("visit_" ++ fst cf) t with
                     | Some e => forallb (fun f => mem_str f (visits e)) (snd cf)
                     | None => true          (* generic_visit walks everything __iter__ yields *)
                     end) class_fields.

Lemma mem_str_In x l : mem_str x l = true <-> In x l.
Proof.
  unfold mem_str. rewrite existsb_exists. split.
  - intros (y & Hy & E). apply String.eqb_eq in E. now subst.
  - intros H. exists x. split; [exact H|apply String.eqb_refl].
Qed.

Lemma find_rule_some rs n r : find_rule rs n = Some r -> In r rs /\ rname r = n.
Proof.
  induction rs as [|r0 rs IH]; cbn; [discriminate|].
  destruct (String.eqb (rname r0) n) eqn:E.
  - intros [= <-]. apply String.eqb_eq in E. auto.
  - intros H. destruct (IH H). auto.
Qed.

Lemma find_rule_nodup rs r : NoDup (map rname rs) -> In r rs -> find_rule rs (rname r) = Some r.
Proof.
  induction rs as [|r0 rs IH]; cbn; [intros _ []|].
  intros Hn [<-|Hin]; [now rewrite String.eqb_refl|].
  inversion Hn; subst. destruct (String.eqb (rname r0) (rname r)) eqn:E.
  - apply String.eqb_eq in E. exfalso. apply H1. rewrite E. apply in_map. exact Hin.
  - apply IH; assumption.
Qed.

Section NP.
Variable methods : list (string * bexp).
Variable iter_fields : list (string * list string).
Variable rs : list rule.
Hypothesis Hmono : monotone_tbl methods = true.
Hypothesis Hnodup : NoDup (map rname rs).

Definition pleaf (A : string -> bool) (n : string) : bool :=
  match find_rule rs n with Some _ => A n | None => false end.
Definition pvr (A : string -> bool) := pv_rhs methods (pleaf A).
Definition pvi (A : string -> bool) := pv_item methods (pleaf A).

(* A is closed under the nullability equations of the grammar *)
Definition prefixed (A : string -> bool) : Prop :=
  forall name r, find_rule rs name = Some r -> pvr A (rrhs r) = true -> A name = true.

Definition Ok (st : nst) : Prop := n_err st = false.

Notation nvrhs := (nv_rhs methods iter_fields rs).
Notation nvrule := (nv_rule methods iter_fields rs).
Notation nvname := (nv_name methods iter_fields rs).

(* ================= upper bound: flags stay inside every pre-fixed point ================= *)
Section Upper.
Variable G : string -> bool.
Hypothesis HG : prefixed G.
Variable item_of : N -> option item.         (* which NamedItem object an id denotes *)

Definition InvU (st : nst) : Prop :=
  n_err st = false ->
  (forall x, mem_str x (n_rules st) = true -> G x = true) /\
  (forall id it, memN id (n_items st) = true -> item_of id = Some it -> pvi G it = true).
Definition oknU (n : nitem) : Prop := item_of (ni_id n) = Some (ni_item n).
Notation SimU := (Sim nst InvU Ok true).

Lemma up_nitem n m : oknU n -> SimU m (pvi G (ni_item n)) -> SimU (sp_nitem n m) (pvi G (ni_item n)).
Proof.
  intros Hid Hm st b st' HI. unfold sp_nitem. destruct (m st) as [b1 st1] eqn:E1.
  destruct (Hm _ _ _ HI E1) as (HI1 & Hok1 & Hv1).
  destruct (b1 && negb (memN (ni_id n) (n_items st1))) eqn:C; intros [= <- <-].
  - apply andb_prop in C as [C1 C2]. subst b1. split; [|split].
    + intros Hok. cbn [n_err] in Hok. destruct (HI1 Hok) as [HR HIt]. split; cbn [n_rules n_items]; [exact HR|].
      intros id it Hm' Hof. cbn in Hm'. apply orb_prop in Hm' as [Hm'|Hm'].
      * apply N.eqb_eq in Hm'. subst id. unfold oknU in Hid. rewrite Hid in Hof. injection Hof as <-.
        exact (Hv1 Hok eq_refl).
      * eapply HIt; eauto.
    + exact Hok1.
    + intros Hok. cbn. rewrite N.eqb_refl. cbn. intros _. exact (Hv1 Hok eq_refl).
  - split; [exact HI1|]. split; [exact Hok1|]. intros Hok Hb.
    destruct b1.
    + exact (Hv1 Hok eq_refl).
    + destruct (HI1 Hok) as [_ HIt]. eapply HIt; [exact Hb | exact Hid].
Qed.

Definition GoodU (rec : string -> M nst) : Prop :=
  forall name r, find_rule rs name = Some r -> SimU (rec name) (G name).

Lemma up_leaf rec : GoodU rec -> forall n, SimU (sp_nameleaf rs rec n) (pleaf G n).
Proof.
  intros HG' n. unfold sp_nameleaf, pleaf. destruct (find_rule rs n) as [r|] eqn:E.
  - eapply HG'; eauto.
  - apply sim_ret.
Qed.

Definition ok_rules : Prop := forall r, In r rs -> ok_rhs oknU (rrhs r).

Lemma up_rhs rec : GoodU rec -> forall r, ok_rhs oknU r -> SimU (nvrhs rec r) (pvr G r).
Proof.
  intros HG' r Hr.
  exact (proj1 (proj2 (sim_items nst InvU Ok true methods iter_fields sp_nitem (sp_nameleaf rs rec) (pleaf G) oknU
                         Hmono (up_leaf rec HG') up_nitem)) r Hr).
Qed.

Lemma up_rule rec r : GoodU rec -> find_rule rs (rname r) = Some r -> ok_rhs oknU (rrhs r) ->
  SimU (nvrule rec r) (G (rname r)).
Proof.
  intros HG' Hf Hr st b st' HI. unfold nv_rule.
  destruct (mem_str (rname r) (n_visited st)) eqn:Vis.
  - intros [= <- <-]. split; [exact HI|]. split; [auto|]. intros Hok Hb. exact (proj1 (HI Hok) _ Hb).
  - match goal with |- context [nv_rhs _ _ _ _ _ ?s1] => set (st1 := s1) end.
    destruct (nvrhs rec (rrhs r) st1) as [b2 st2] eqn:E2.
    assert (HI1 : InvU st1) by (intros Hok; exact (HI Hok)).
    destruct (up_rhs rec HG' (rrhs r) Hr _ _ _ HI1 E2) as (HI2 & Hok2 & Hv2).
    intros [= <- <-]. cbn [n_err n_rules n_items].
    assert (HI3 : n_err st2 = false ->
                  forall x, mem_str x (if b2 && negb (mem_str (rname r) (n_rules st2)) then rname r :: n_rules st2 else n_rules st2) = true -> G x = true).
    { intros Hok x Hx. destruct (HI2 Hok) as [HR _].
      destruct (b2 && negb (mem_str (rname r) (n_rules st2))) eqn:C; [|apply HR; exact Hx].
      apply andb_prop in C as [C1 _]. subst b2. cbn in Hx. apply orb_prop in Hx as [Hx|Hx]; [|apply HR; exact Hx].
      apply String.eqb_eq in Hx. subst x. apply (HG _ _ Hf). exact (Hv2 Hok eq_refl). }
    split; [|split].
    + intros Hok. cbn [n_err] in Hok. split; [exact (HI3 Hok)|exact (proj2 (HI2 Hok))].
    + intros Hok. apply Hok2 in Hok. exact Hok.
    + intros Hok Hb. exact (HI3 Hok _ Hb).
Qed.

Lemma up_name fuel : ok_rules -> GoodU (nvname fuel).
Proof.
  intros Hrules. induction fuel as [|f IH]; intros name r Hf; cbn [nv_name].
  - intros st b st' HI [= <- <-]. split; [|split].
    + intros Hok. discriminate Hok.
    + intros Hok. discriminate Hok.
    + intros Hok. discriminate Hok.
  - rewrite Hf. destruct (find_rule_some _ _ _ Hf) as [Hin Hn]. subst name.
    apply up_rule; auto.
Qed.

Lemma up_pass fuel : ok_rules -> forall l st, incl l rs -> InvU st -> InvU (pass_rules methods iter_fields rs fuel l st).
Proof.
  intros Hrules. induction l as [|r l IH]; intros st Hl HI; cbn [pass_rules]; [exact HI|].
  apply IH; [intros x Hx; apply Hl; right; exact Hx|].
  destruct (nvrule (nvname fuel) r st) as [b st'] eqn:E. cbn [snd].
  assert (Hin : In r rs) by (apply Hl; left; reflexivity).
  exact (proj1 (up_rule _ r (up_name fuel Hrules) (find_rule_nodup _ _ Hnodup Hin) (Hrules r Hin) _ _ _ HI E)).
Qed.

Lemma up_passes : ok_rules -> forall fuel st st', InvU st -> passes methods iter_fields rs fuel st = Some st' -> InvU st'.
Proof.
  intros Hrules. induction fuel as [|f IH]; intros st st' HI; cbn [passes]; [discriminate|].
  assert (HI1 : InvU (one_pass methods iter_fields rs st)).
  { unfold one_pass. apply up_pass; [exact Hrules|apply incl_refl|]. intros Hok. exact (HI Hok). }
  destruct (Nat.eqb _ _); [intros [= <-]; exact HI1 | apply IH; exact HI1].
Qed.

Theorem nullable_below_prefixed st : ok_rules ->
  compute_nullables methods iter_fields rs = Some st ->
  forall x, mem_str x (n_rules st) = true -> G x = true.
Proof.
  intros Hrules. unfold compute_nullables.
  destruct (passes _ _ _ _ _) as [st0|] eqn:E; [|discriminate].
  destruct (n_err st0) eqn:Err; [discriminate|]. intros [= <-].
  assert (HI : InvU st0).
  { eapply up_passes; [exact Hrules| |exact E]. intros _. split; cbn; intros; discriminate. }
  exact (proj1 (HI Err)).
Qed.
End Upper.

(* ================= lower bound within one pass ================= *)
Section Lower.
Variable F0 : string -> bool.        (* the rule flags at the start of the pass *)
Variable L0 : list string.           (* n_rules at the start of the pass *)

(* S: rules whose visit is in progress;  X0: rules known to be in the visited set *)
Definition J (S X0 : list string) (st : nst) : Prop :=
  n_err st = false ->
  (forall x, F0 x = true -> mem_str x (n_rules st) = true) /\
  (forall x, mem_str x (n_visited st) = true -> In x S \/ mem_str x (n_done st) = true) /\
  (forall x r, mem_str x (n_done st) = true -> find_rule rs x = Some r -> pvr F0 (rrhs r) = true ->
               mem_str x (n_rules st) = true) /\
  (forall x, In x X0 -> mem_str x (n_visited st) = true) /\
  (exists a, n_rules st = (a ++ L0)%list).

Lemma lo_nitem S X0 n m : True -> Sim nst (J S X0) Ok false m (pvi F0 (ni_item n)) ->
  Sim nst (J S X0) Ok false (sp_nitem n m) (pvi F0 (ni_item n)).
Proof.
  intros _ Hm st b st' HI. unfold sp_nitem. destruct (m st) as [b1 st1] eqn:E1.
  destruct (Hm _ _ _ HI E1) as (HI1 & Hok1 & Hv1).
  destruct (b1 && negb (memN (ni_id n) (n_items st1))) eqn:C; intros [= <- <-].
  - split; [exact HI1|]. split; [exact Hok1|]. intros Hok _. cbn. rewrite N.eqb_refl. reflexivity.
  - split; [exact HI1|]. split; [exact Hok1|]. intros Hok Hp. specialize (Hv1 Hok Hp). subst b1.
    cbn in C. apply negb_false_iff in C. exact C.
Qed.

Definition GoodL (rec : string -> M nst) : Prop :=
  forall S X0 name r, find_rule rs name = Some r -> Sim nst (J S X0) Ok false (rec name) (F0 name).

Lemma lo_leaf rec S X0 : GoodL rec -> forall n, Sim nst (J S X0) Ok false (sp_nameleaf rs rec n) (pleaf F0 n).
Proof.
  intros HG' n. unfold sp_nameleaf, pleaf. destruct (find_rule rs n) as [r|] eqn:E.
  - eapply HG'; eauto.
  - apply sim_ret.
Qed.

Lemma ok_rhs_true_all :
  (forall i, ok_item (fun _ => True) i) /\ (forall r, ok_rhs (fun _ => True) r) /\
  (forall a, ok_alt (fun _ => True) a) /\ (forall n, ok_nitem (fun _ => True) n).
Proof.
  apply grammar_ast_ind; cbn; auto.
  - intros id alts HF. induction HF; cbn; auto.
  - intros items act HF. induction HF; cbn; auto.
Qed.

Lemma lo_rhs rec S X0 : GoodL rec -> forall r, Sim nst (J S X0) Ok false (nvrhs rec r) (pvr F0 r).
Proof.
  intros HG' r.
  exact (proj1 (proj2 (sim_items nst (J S X0) Ok false methods iter_fields sp_nitem (sp_nameleaf rs rec) (pleaf F0)
                         (fun _ => True) Hmono (lo_leaf rec S X0 HG') (lo_nitem S X0))) r
               (proj1 (proj2 ok_rhs_true_all) r)).
Qed.

Lemma mem_str_cons x y l : mem_str x (y :: l) = String.eqb x y || mem_str x l.
Proof. reflexivity. Qed.

(* visiting a rule: afterwards it is in the visited set, the invariant holds for the same stack *)
Lemma lo_rule rec r S X0 : GoodL rec -> find_rule rs (rname r) = Some r ->
  forall st b st', J S X0 st -> nvrule rec r st = (b, st') ->
  J S (rname r :: X0) st' /\ (Ok st' -> Ok st) /\ (Ok st' -> F0 (rname r) = true -> b = true).
Proof.
  intros HG' Hf st b st' HJ. unfold nv_rule.
  destruct (mem_str (rname r) (n_visited st)) eqn:Vis.
  - intros [= <- <-]. split; [|split; [auto|]].
    + intros Hok. destruct (HJ Hok) as (Ha & Hb & Hc & Hd & He). repeat split; auto.
      intros x [<-|Hx]; auto.
    + intros Hok HF. exact (proj1 (HJ Hok) _ HF).
  - match goal with |- context [nv_rhs _ _ _ _ _ ?s1] => set (st1 := s1) end.
    destruct (nvrhs rec (rrhs r) st1) as [b2 st2] eqn:E2.
    assert (HJ1 : J (rname r :: S) (rname r :: X0) st1).
    { intros Hok. destruct (HJ Hok) as (Ha & Hb & Hc & Hd & He). subst st1; cbn [n_rules n_visited n_done].
      repeat split; auto.
      - intros x Hx. rewrite mem_str_cons in Hx. apply orb_prop in Hx as [Hx|Hx].
        + apply String.eqb_eq in Hx. left; left; auto.
        + destruct (Hb x Hx); [left; right; auto | right; auto].
      - intros x [<-|Hx]; rewrite mem_str_cons; [rewrite String.eqb_refl; reflexivity|].
        rewrite (Hd x Hx). apply orb_true_r. }
    destruct (lo_rhs rec (rname r :: S) (rname r :: X0) HG' (rrhs r) _ _ _ HJ1 E2) as (HJ2 & Hok2 & Hv2).
    intros [= <- <-]. cbn [n_err n_rules].
    set (rules3 := if b2 && negb (mem_str (rname r) (n_rules st2)) then rname r :: n_rules st2 else n_rules st2).
    assert (Hsub : forall x, mem_str x (n_rules st2) = true -> mem_str x rules3 = true).
    { intros x Hx. subst rules3. destruct (b2 && _); [rewrite mem_str_cons, Hx; apply orb_true_r | exact Hx]. }
    split; [|split].
    + intros Hok. cbn [n_err] in Hok. destruct (HJ2 Hok) as (Ha & Hb & Hc & Hd & He).
      cbn [n_rules n_visited n_done]. split; [|split; [|split; [|split]]].
      * intros x Hx. apply Hsub. apply Ha; exact Hx.
      * intros x Hx. destruct (Hb x Hx) as [[<-|Hs]|Hdn].
        -- right. rewrite mem_str_cons, String.eqb_refl. reflexivity.
        -- left; exact Hs.
        -- right. rewrite mem_str_cons, Hdn. apply orb_true_r.
      * intros x r' Hx Hfr Hp. rewrite mem_str_cons in Hx. apply orb_prop in Hx as [Hx|Hx].
        -- apply String.eqb_eq in Hx. subst x. rewrite Hf in Hfr. injection Hfr as <-.
           specialize (Hv2 Hok Hp). subst b2. subst rules3.
           destruct (mem_str (rname r) (n_rules st2)) eqn:M; cbn [andb negb]; [exact M|].
           rewrite mem_str_cons, String.eqb_refl. reflexivity.
        -- apply Hsub. eapply Hc; eauto.
      * exact Hd.
      * destruct He as [a He]. subst rules3. destruct (b2 && _); [exists (rname r :: a); rewrite He; reflexivity | exists a; exact He].
    + intros Hok. apply Hok2 in Hok. exact Hok.
    + intros Hok HF. cbn. apply Hsub. exact (proj1 (HJ2 Hok) _ HF).
Qed.

Lemma J_weaken S X0 x st : J S (x :: X0) st -> J S X0 st.
Proof.
  intros H Hok. destruct (H Hok) as (Ha & Hb & Hc & Hd & He). repeat split; auto. intros y Hy. apply Hd. right; exact Hy.
Qed.

Lemma lo_name fuel : GoodL (nvname fuel).
Proof.
  induction fuel as [|f IH]; intros S X0 name r Hf; cbn [nv_name].
  - intros st b st' HI [= <- <-]. split; [|split]; intros Hok; discriminate Hok.
  - rewrite Hf. destruct (find_rule_some _ _ _ Hf) as [Hin Hn]. subst name.
    intros st b st' HJ E. destruct (lo_rule _ r S X0 IH Hf _ _ _ HJ E) as (H1 & H2 & H3).
    split; [eapply J_weaken; exact H1|]. split; [exact H2|]. intros Hok. unfold V. exact (H3 Hok).
Qed.

Lemma lo_pass fuel : forall l X0 st, incl l rs -> J [] X0 st ->
  J [] (rev (map rname l) ++ X0)%list (pass_rules methods iter_fields rs fuel l st) /\
  (Ok (pass_rules methods iter_fields rs fuel l st) -> Ok st).
Proof.
  induction l as [|r l IH]; intros X0 st Hl HJ; cbn [pass_rules map rev]; [split; [exact HJ|auto]|].
  destruct (nvrule (nvname fuel) r st) as [b st'] eqn:E. cbn [snd].
  assert (Hin : In r rs) by (apply Hl; left; reflexivity).
  destruct (lo_rule _ r [] X0 (lo_name fuel) (find_rule_nodup _ _ Hnodup Hin) _ _ _ HJ E) as (H1 & H2 & _).
  destruct (IH (rname r :: X0) st' (fun x Hx => Hl x (or_intror Hx)) H1) as [H3 H4].
  split; [|tauto]. rewrite <- app_assoc. exact H3.
Qed.
End Lower.

Definition flags_of (st : nst) : string -> bool := fun x => mem_str x (n_rules st).

(* a pass that adds no rule flag leaves a state whose flags are closed under the equations *)
Lemma stable_pass_prefixed st :
  n_err (one_pass methods iter_fields rs st) = false ->
  List.length (n_rules (one_pass methods iter_fields rs st)) = List.length (n_rules st) ->
  prefixed (flags_of (one_pass methods iter_fields rs st)).
Proof.
  intros Hok Hlen. unfold one_pass in *.
  set (st0 := {| n_rules := n_rules st; n_visited := []; n_items := n_items st; n_done := []; n_err := n_err st |}) in *.
  assert (HJ0 : J (flags_of st) (n_rules st) [] [] st0).
  { intros _. subst st0; cbn. repeat split; auto; try (intros; discriminate); try (intros ? []).
    exists []. reflexivity. }
  destruct (lo_pass (flags_of st) (n_rules st) (S (List.length rs)) rs [] st0 (incl_refl _) HJ0) as [HJ _].
  set (st1 := pass_rules methods iter_fields rs (S (List.length rs)) rs st0) in *.
  destruct (HJ Hok) as (Ha & Hb & Hc & Hd & [a He]).
  assert (a = []).
  { rewrite He, app_length in Hlen. destruct a; [reflexivity|cbn in Hlen; lia]. }
  subst a. cbn in He.
  intros name r Hf Hp.
  assert (Heq : flags_of st1 = flags_of st) by (unfold flags_of; rewrite He; reflexivity).
  rewrite Heq in Hp.
  assert (Hvis : mem_str name (n_visited st1) = true).
  { apply Hd. rewrite app_nil_r. apply in_rev. rewrite rev_involutive.
    destruct (find_rule_some _ _ _ Hf) as [Hin <-]. apply in_map. exact Hin. }
  destruct (Hb _ Hvis) as [[]|Hdn].
  unfold flags_of at 1. exact (Hc name r Hdn Hf Hp).
Qed.

Lemma passes_prefixed : forall fuel st st',
  passes methods iter_fields rs fuel st = Some st' -> n_err st' = false -> prefixed (flags_of st').
Proof.
  induction fuel as [|f IH]; intros st st'; cbn [passes]; [discriminate|].
  destruct (Nat.eqb _ _) eqn:E.
  - intros [= <-] Hok. apply Nat.eqb_eq in E. apply stable_pass_prefixed; assumption.
  - apply IH.
Qed.

Theorem nullable_prefixed st :
  compute_nullables methods iter_fields rs = Some st -> prefixed (flags_of st).
Proof.
  unfold compute_nullables. destruct (passes _ _ _ _ _) as [st0|] eqn:E; [|discriminate].
  destruct (n_err st0) eqn:Err; [discriminate|]. intros [= <-]. eapply passes_prefixed; eauto.
Qed.
End NP.

(* ================= least pre-fixed point, order independence ================= *)
From Coq Require Import Permutation.

Definition ids_consistent (rs : list rule) : Prop :=
  exists item_of : N -> option item, forall r, In r rs -> ok_rhs (fun n => item_of (ni_id n) = Some (ni_item n)) (rrhs r).

Theorem nullable_least methods iter_fields rs st :
  monotone_tbl methods = true -> NoDup (map rname rs) -> ids_consistent rs ->
  compute_nullables methods iter_fields rs = Some st ->
  prefixed methods rs (flags_of st) /\
  (forall G, prefixed methods rs G -> forall x, flags_of st x = true -> G x = true).
Proof.
  intros Hm Hn [item_of Hids] Hc. split.
  - eapply nullable_prefixed; eauto.
  - intros G HG x Hx. eapply (nullable_below_prefixed methods iter_fields rs Hm Hn G HG item_of); eauto.
Qed.

(* the pure reading depends on the grammar only through the rule lookup function *)
Lemma pv_ext methods (p q : string -> bool) : (forall n, p n = q n) ->
  (forall i, pv_item methods p i = pv_item methods q i) /\ (forall r, pv_rhs methods p r = pv_rhs methods q r) /\
  (forall a, pv_alt methods p a = pv_alt methods q a) /\ (forall n, pv_nitem methods p n = pv_nitem methods q n).
Proof.
  intros Hpq. apply grammar_ast_ind.
  - intros n. rewrite !pv_item_eq. now rewrite Hpq.
  - intros s. reflexivity.
  - intros r IH. rewrite !(pv_item_eq _ _ (Group r)). now rewrite IH.
  - intros i IH. rewrite !(pv_item_eq _ _ (Opt i)). now rewrite IH.
  - intros id i IH. rewrite !(pv_item_eq _ _ (Repeat0 id i)). now rewrite IH.
  - intros id i IH. rewrite !(pv_item_eq _ _ (Repeat1 id i)). now rewrite IH.
  - intros id s e IHs IHe. rewrite !(pv_item_eq _ _ (Gather id s e)). now rewrite IHs, IHe.
  - intros i IH. rewrite !(pv_item_eq _ _ (PosLook i)). now rewrite IH.
  - intros i IH. rewrite !(pv_item_eq _ _ (NegLook i)). now rewrite IH.
  - intros i IH. rewrite !(pv_item_eq _ _ (Forced i)). now rewrite IH.
  - reflexivity.
  - intros r IH. rewrite !(pv_item_eq _ _ (RhsItem r)). exact IH.
  - intros id alts HF. rewrite !pv_rhs_eq. do 4 f_equal.
    induction HF as [|a l Ha _ IH]; [reflexivity|]. cbn [map]. now rewrite Ha, IH.
  - intros items act HF. rewrite !pv_alt_eq. do 4 f_equal.
    induction HF as [|a l Ha _ IH]; [reflexivity|]. cbn [map]. now rewrite Ha, IH.
  - intros id name ty i IH. rewrite !pv_nitem_eq. now rewrite IH.
Qed.

Lemma find_rule_none rs n : find_rule rs n = None <-> forall r, In r rs -> rname r <> n.
Proof.
  induction rs as [|r0 rs IH]; cbn; [split; [intros _ r []|reflexivity]|].
  destruct (String.eqb (rname r0) n) eqn:E.
  - apply String.eqb_eq in E. split; [discriminate|]. intros H. exfalso. apply (H r0); auto.
  - apply String.eqb_neq in E. rewrite IH. split.
    + intros H r [<-|Hr]; auto.
    + intros H r Hr. apply H. right; exact Hr.
Qed.

Lemma find_rule_perm rs rs' n : NoDup (map rname rs) -> Permutation rs rs' -> find_rule rs n = find_rule rs' n.
Proof.
  intros Hn Hp.
  assert (Hn' : NoDup (map rname rs')) by (eapply Permutation_NoDup; [apply Permutation_map; exact Hp|exact Hn]).
  destruct (find_rule rs n) as [r|] eqn:E.
  - destruct (find_rule_some _ _ _ E) as [Hin <-]. symmetry. apply find_rule_nodup; [exact Hn'|].
    eapply Permutation_in; eauto.
  - symmetry. apply find_rule_none. intros r Hr. apply (proj1 (find_rule_none rs n) E).
    eapply Permutation_in; [apply Permutation_sym; exact Hp|exact Hr].
Qed.

Lemma prefixed_same_lookup methods rs rs' A : (forall n, find_rule rs n = find_rule rs' n) ->
  prefixed methods rs A -> prefixed methods rs' A.
Proof.
  intros Hf HP name r Hfr Hp. rewrite <- Hf in Hfr. apply (HP name r Hfr).
  assert (Hext : forall n, pleaf rs A n = pleaf rs' A n) by (intros n; unfold pleaf; rewrite Hf; reflexivity).
  unfold pvr in *. rewrite (proj1 (proj2 (pv_ext methods (pleaf rs A) (pleaf rs' A) Hext)) (rrhs r)). exact Hp.
Qed.

Theorem nullable_order_independent methods iter_fields rs rs' st st' :
  monotone_tbl methods = true -> NoDup (map rname rs) -> Permutation rs rs' -> ids_consistent rs ->
  compute_nullables methods iter_fields rs = Some st ->
  compute_nullables methods iter_fields rs' = Some st' ->
  forall x, flags_of st x = flags_of st' x.
Proof.
  intros Hm Hn Hp Hids Hc Hc'.
  assert (Hn' : NoDup (map rname rs')) by (eapply Permutation_NoDup; [apply Permutation_map; exact Hp|exact Hn]).
  assert (Hids' : ids_consistent rs').
  { destruct Hids as [f Hf]. exists f. intros r Hr. apply Hf. eapply Permutation_in; [apply Permutation_sym; exact Hp|exact Hr]. }
  assert (Hl : forall n, find_rule rs n = find_rule rs' n) by (intros; apply find_rule_perm; assumption).
  destruct (nullable_least _ _ _ _ Hm Hn Hids Hc) as [P1 L1].
  destruct (nullable_least _ _ _ _ Hm Hn' Hids' Hc') as [P2 L2].
  intros x. destruct (flags_of st x) eqn:E1, (flags_of st' x) eqn:E2; auto.
  - rewrite (L1 _ (prefixed_same_lookup _ _ _ _ (fun n => eq_sym (Hl n)) P2) x E1) in E2. discriminate.
  - rewrite (L2 _ (prefixed_same_lookup _ _ _ _ Hl P1) x E2) in E1. discriminate.
Qed.
