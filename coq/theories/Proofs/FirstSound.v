(* Every table closed under the FIRST equations over-approximates the first tokens of the reference
   semantics (grammars whose lookahead operands are single tokens). *)
From Coq Require Import List String Ascii NArith Bool Arith Lia.
From Pegen Require Import Base.StrUtil Base.Values Grammar.Ast Runtime.Tokenizer Sem.Peg
  Analysis.Visitor Analysis.FirstSets Analysis.FirstPure
  Proofs.VisitorSim Proofs.PegProofs Proofs.NullableProofs Proofs.InvalidProofs Proofs.NullSem.
Import ListNotations.
Open Scope string_scope.

(* ---- sets as lists ---- *)
Lemma mem_str_In x l : mem_str x l = true <-> In x l.
Proof.
  unfold mem_str. rewrite existsb_exists. split.
  - intros (y & Hy & E). apply String.eqb_eq in E. subst. exact Hy.
  - intros H. exists x. split; [exact H|apply String.eqb_refl].
Qed.
Lemma In_sadd x y s : In x (sadd y s) <-> x = y \/ In x s.
Proof.
  assert (E0 : sadd y s = if mem_str y s then s else (s ++ [y])%list) by (destruct y; reflexivity).
  rewrite E0. destruct (mem_str y s) eqn:E.
  - split; [auto|]. intros [->|H]; [apply mem_str_In; exact E|exact H].
  - rewrite in_app_iff. cbn. split; [intros [H|[H|[]]]; auto|intros [H|H]; auto].
Qed.
Lemma In_sunion x a b : In x (sunion a b) <-> In x a \/ In x b.
Proof.
  unfold sunion. revert a. induction b as [|y b IH]; intros a; cbn [fold_left].
  - split; [auto|intros [H|[]]; exact H].
  - rewrite IH, In_sadd. cbn [In]. split; [intros [[->|H]|H]; auto|intros [H|[->|H]]; auto].
Qed.
Lemma In_sdiff x a b : In x (sdiff a b) <-> In x a /\ ~ In x b.
Proof.
  unfold sdiff. rewrite filter_In. split; intros [H1 H2]; split; auto.
  - intros H. apply mem_str_In in H. rewrite H in H2. discriminate.
  - destruct (mem_str x b) eqn:E; [apply mem_str_In in E; contradiction|reflexivity].
Qed.
Lemma In_sdiscard x y a : In x (sdiscard y a) <-> In x a /\ x <> y.
Proof.
  unfold sdiscard. rewrite filter_In. split; intros [H1 H2]; split; auto.
  - intros ->. rewrite String.eqb_refl in H2. discriminate.
  - apply negb_true_iff. apply String.eqb_neq. congruence.
Qed.
Lemma subset_b_spec a b : subset_b a b = true -> forall x, In x a -> In x b.
Proof. unfold subset_b. rewrite forallb_forall. intros H x Hx. apply mem_str_In. auto. Qed.

Lemma find_rule_In rs n r : find_rule rs n = Some r -> In r rs /\ rname r = n.
Proof.
  induction rs as [|r0 l IH]; cbn [find_rule]; [discriminate|].
  destruct (String.eqb_spec (rname r0) n) as [E|E].
  - intros [= <-]. split; [left; reflexivity|exact E].
  - intros H. destruct (IH H) as [H1 H2]. split; [right; exact H1|exact H2].
Qed.

Section FS.
Variable tbl : list (string * bexp).
Hypothesis Hok : nul_tbl_ok tbl = true.
Variable K : kinds.
Variable rs : list rule.
Variable toks : list rtok.
Variable keywords soft_keywords : list string.
Variable aeval : alt -> list value -> list (string * value) -> nat -> nat -> option value.
Variable item_name : alt -> nat -> option string.
Variable forced_msg : item -> string.
Variable F : string -> bool.
Hypothesis HF : prefixed tbl rs F.
Variable T : string -> sset.

Notation pitem := (peg_item K rs toks keywords soft_keywords aeval item_name forced_msg).
Notation pstar := (peg_star K rs toks keywords soft_keywords aeval item_name forced_msg).
Notation psep := (peg_sep K rs toks keywords soft_keywords aeval item_name forced_msg).
Notation pseq := (peg_seq K rs toks keywords soft_keywords aeval item_name forced_msg).
Notation palts := (peg_alts K rs toks keywords soft_keywords aeval item_name forced_msg).
Notation nulf := (pv_item tbl (pleaf rs F)).
Notation pf := (pf_item rs T nulf).
Notation eff := (effg nulf pf).
Notation mono := (mono_all K rs toks keywords soft_keywords aeval item_name forced_msg).
Notation nsem := (nullable_sem tbl Hok K rs toks keywords soft_keywords aeval item_name forced_msg F HF).

Hypothesis Hclosed : closed_b rs T nulf = true.
Hypothesis Hlk : lk_rules rs = true.

(* a member of a FIRST set describes a token: its literal, or its token kind *)
Definition describes (m : string) (t : rtok) : Prop :=
  (is_literal m = true /\ String.eqb (tstr t) (strip_quotes m) = true)
  \/ (is_literal m = false /\ kind_match K keywords soft_keywords m t = Some true).
Definition fd (p : nat) (S : sset) : Prop :=
  exists t m, nth_error toks p = Some t /\ In m S /\ describes m t.
(* what negative lookaheads at this position have excluded *)
Definition inv (p : nat) (rem : sset) : Prop :=
  forall d t, In d rem -> nth_error toks p = Some t -> ~ describes d t.

Lemma fd_sub p A B : (forall x, In x A -> In x B) -> fd p A -> fd p B.
Proof. intros H (t & m & H1 & H2 & H3). exists t, m. auto. Qed.

Lemma effg_ng i : not_gather i = true -> eff i = pf i.
Proof. destruct i; try reflexivity. discriminate. Qed.

Lemma closed_rule n r : find_rule rs n = Some r -> forall x, In x (pf_rhs rs T nulf (rrhs r)) -> In x (T n).
Proof.
  intros H. destruct (find_rule_In rs n r H) as [Hin <-]. unfold closed_b in Hclosed.
  rewrite forallb_forall in Hclosed. apply subset_b_spec. apply Hclosed. exact Hin.
Qed.
Lemma lk_rule n r : find_rule rs n = Some r -> lk_rhs rs (rrhs r) = true.
Proof.
  intros H. destruct (find_rule_In rs n r H) as [Hin _]. unfold lk_rules in Hlk. rewrite forallb_forall in Hlk. auto.
Qed.

Lemma scan_mono l : forall res rem m, In m res -> In m (scan nulf pf l res rem).
Proof.
  induction l as [|n l IH]; intros res rem m H; cbn [scan]; [exact H|].
  destruct (is_neg (ni_item n)); [apply IH; exact H|].
  assert (H' : In m (sunion res (sdiff (eff (ni_item n)) rem))) by (apply In_sunion; left; exact H).
  destruct (mem_str "" (eff (ni_item n))); [apply IH; exact H'|].
  destruct (negb (nulf (ni_item n)) || is_pos (ni_item n)); [exact H'|apply IH; exact H'].
Qed.

Lemma describes_nonempty m t : describes m t -> m <> "".
Proof. intros [[H _]|[_ H]] ->; [discriminate|]. unfold kind_match in H. cbn in H. discriminate. Qed.

Lemma literal_no_kind m t : is_literal m = true -> kind_match K keywords soft_keywords m t = None.
Proof.
  destruct m as [|c s]; [discriminate|]. cbn [is_literal]. intros H. unfold kind_match.
  assert (E : forall x rest, Ascii.eqb c x = false -> String.eqb (String c s) (String x rest) = false).
  { intros x rest Hx. cbn [String.eqb]. rewrite Hx. reflexivity. }
  apply orb_prop in H. destruct H as [H|H]; apply Ascii.eqb_eq in H; subst c; reflexivity.
Qed.

(* a single token matcher: what its success / failure at p says about the token there *)
Lemma single_succ j p v p' : single_tok rs j = true -> lk_item rs j = true -> pitem j p (PSucc v p') ->
  exists t d, nth_error toks p = Some t /\ pf j = [d] /\ describes d t.
Proof.
  intros Hs Hl H. destruct j; try discriminate.
  - cbn [single_tok lk_item] in Hs, Hl. destruct (find_rule rs n) eqn:E; [discriminate|].
    inversion H; subst; [congruence|].
    match goal with Ht : tok_step _ _ _ = PSucc _ _ |- _ => unfold tok_step in Ht; destruct (nth_error toks p) as [t|] eqn:Et; [|discriminate];
      destruct (test t) eqn:Etest; [|discriminate] end.
    exists t, n. split; [reflexivity|]. split; [cbn [pf_item]; rewrite E; reflexivity|].
    right. split; [apply negb_true_iff; exact Hl|]. match goal with Hk : forall t, kind_match _ _ _ _ t = Some _ |- _ => rewrite Hk, Etest end. reflexivity.
  - cbn [lk_item] in Hl. inversion H; subst.
    match goal with Ht : tok_step _ _ _ = PSucc _ _ |- _ => unfold tok_step in Ht; destruct (nth_error toks p) as [t|] eqn:Et; [|discriminate];
      destruct (String.eqb (tstr t) (strip_quotes raw)) eqn:Etest; [|discriminate] end.
    exists t, raw. split; [reflexivity|]. split; [reflexivity|]. left. split; assumption.
Qed.

Lemma single_fail j p : single_tok rs j = true -> lk_item rs j = true -> pitem j p PFail ->
  exists d, pf j = [d] /\ forall t, nth_error toks p = Some t -> ~ describes d t.
Proof.
  intros Hs Hl H. destruct j; try discriminate.
  - cbn [single_tok lk_item] in Hs, Hl. destruct (find_rule rs n) eqn:E; [discriminate|].
    inversion H; subst; [congruence|].
    exists n. split; [cbn [pf_item]; rewrite E; reflexivity|]. intros t Et [[Hlit _]|[_ Hk]].
    + rewrite Hlit in Hl. discriminate.
    + match goal with Ht : tok_step _ _ _ = PFail |- _ => unfold tok_step in Ht; rewrite Et in Ht end.
      match goal with Hk' : forall t, kind_match _ _ _ _ t = Some _ |- _ => rewrite Hk' in Hk end.
      injection Hk as Hk. rewrite Hk in *. discriminate.
  - cbn [lk_item] in Hl. inversion H; subst.
    exists raw. split; [reflexivity|]. intros t Et [[_ Hm]|[Hlit _]].
    + match goal with Ht : tok_step _ _ _ = PFail |- _ => unfold tok_step in Ht; rewrite Et, Hm in Ht end. discriminate.
    + rewrite Hl in Hlit. discriminate.
Qed.

Lemma gather_nul id s e : nulf e = true -> nulf (Gather id s e) = true.
Proof.
  intros H. rewrite (pv_item_eq _ _ (Gather id s e)), H. unfold nul_tbl_ok in Hok.
  do 13 (apply andb_prop in Hok as [Hok ?Hc]). destruct (nulf s); assumption.
Qed.

Theorem first_sound :
  (forall i p r, pitem i p r -> lk_item rs i = true -> forall v p', r = PSucc v p' -> p < p' -> fd p (eff i)) /\
  (forall i p r, pstar i p r -> lk_item rs i = true -> not_gather i = true ->
     forall vs p', r = inl (vs, p') -> p < p' -> fd p (pf i)) /\
  (forall s e p r, psep s e p r -> lk_item rs s = true -> lk_item rs e = true -> not_gather s = true -> not_gather e = true ->
     forall l p', r = inl (l, p') -> p < p' -> fd p (sunion (pf e) (pf s))) /\
  (forall a k ns p vals env cut r, pseq a k ns p vals env cut r -> lk_items rs ns = true ->
     forall vals' env' p', r = SSucc vals' env' p' -> p < p' ->
     forall res rem, inv p rem -> fd p (scan nulf pf ns res rem)) /\
  (forall alts p r, palts alts p r -> lk_alts rs alts = true -> forall v p', r = PSucc v p' -> p < p' ->
     fd p (pf_alts rs T nulf alts)).
Proof.
  apply peg_mutind; intros; subst; try discriminate.
  all: try (match goal with H : PSucc _ ?p = PSucc _ ?p' , H2 : ?p' < ?p |- _ => exfalso; injection H as ? ?; lia end).
  - (* rule reference *)
    cbn [effg pf_item]. rewrite H. pose proof (lk_rule n r H) as Hl. pose proof (closed_rule n r H) as Hc.
    destruct (rrhs r) as [id alts]. rewrite lk_rhs_eq in Hl. rewrite pf_rhs_eq in Hc. cbn [rhs_alts] in *.
    eapply fd_sub; [exact Hc|]. eapply H1; eauto.
  - (* token kind *)
    cbn [effg pf_item]. rewrite H. cbn [lk_item] in H1. rewrite H in H1.
    unfold tok_step in H2. destruct (nth_error toks p) as [t|] eqn:Et; [|discriminate].
    destruct (test t) eqn:Etest; [|discriminate].
    exists t, n. split; [exact Et|]. split; [left; reflexivity|]. right. split; [apply negb_true_iff; exact H1|].
    rewrite H0, Etest. reflexivity.
  - (* literal *)
    cbn [effg pf_item]. cbn [lk_item] in H. unfold tok_step in H0. destruct (nth_error toks p) as [t|] eqn:Et; [|discriminate].
    destruct (String.eqb (tstr t) (strip_quotes raw)) eqn:Etest; [|discriminate].
    exists t, raw. split; [exact Et|]. split; [left; reflexivity|]. left. split; assumption.
  - (* group *)
    change (fd p (pf_rhs rs T nulf r)). change (lk_rhs rs r = true) in H1. destruct r as [id alts].
    rewrite lk_rhs_eq in H1. rewrite pf_rhs_eq. cbn [rhs_alts] in *. eapply H0; eauto.
  - (* [ alts ] *)
    change (fd p (pf_rhs rs T nulf r)). change (lk_rhs rs r = true) in H1. destruct r as [id alts].
    rewrite lk_rhs_eq in H1. rewrite pf_rhs_eq. cbn [rhs_alts] in *. eapply H0; eauto.
  - (* x? matched *)
    change (fd p (pf i)). change (not_gather i && lk_item rs i = true) in H1. apply andb_prop in H1 as [Hng Hl].
    rewrite <- (effg_ng i Hng). eapply H0; eauto.
  - (* x? empty *) injection H2 as ? ?; subst. lia.
  - (* x* *)
    change (fd p (pf i)). change (not_gather i && lk_item rs i = true) in H1. apply andb_prop in H1 as [Hng Hl].
    destruct res as [[vs q]|[m q]]; [|discriminate]. injection H2 as ? ?; subst. eapply H0; eauto.
  - (* x+ *)
    change (fd p (pf i)). change (not_gather i && lk_item rs i = true) in H1. apply andb_prop in H1 as [Hng Hl].
    destruct res as [[[|w ws] q]|[m q]]; try discriminate. injection H2 as ? ?; subst. eapply H0; eauto.
  - (* s.e+ *)
    change (not_gather s && not_gather e && lk_item rs s && lk_item rs e = true) in H3.
    apply andb_prop in H3 as [H3 Hle]. apply andb_prop in H3 as [H3 Hls]. apply andb_prop in H3 as [Hngs Hnge].
    destruct res as [[vs q]|[m q]]; [|discriminate]. injection H4 as ? ?; subst.
    pose proof (proj1 mono _ _ _ H _ _ eq_refl) as Hle1.
    change (fd p (if nulf (Gather id s e) then sunion (pf e) (pf s) else pf e)). destruct (Nat.eq_dec p p1) as [<-|Hne].
    + rewrite (gather_nul id s e) by (exact (proj1 nsem _ _ _ H _ eq_refl)).
      eapply H2; eauto.
    + assert (He : fd p (pf e)) by (rewrite <- (effg_ng e Hnge); eapply H0; eauto; lia).
      destruct (nulf (Gather id s e)); [|exact He]. eapply fd_sub; [|exact He]. intros x Hx. apply In_sunion. left. exact Hx.
  - (* & *) injection H2 as ? ?; subst. lia.
  - (* ! *) injection H2 as ? ?; subst. lia.
  - (* && *)
    change (fd p (pf i)). change (not_gather i && lk_item rs i = true) in H1. apply andb_prop in H1 as [Hng Hl].
    rewrite <- (effg_ng i Hng). eapply H0; eauto.
  - (* ~ *) injection H0 as ? ?; subst. lia.
  - (* star: stop *) injection H3 as ? ?; subst. lia.
  - (* star: one more *)
    destruct res as [[ws q]|[m q]]; [|discriminate]. injection H5 as ? ?; subst.
    pose proof (proj1 mono _ _ _ H _ _ eq_refl) as Hle1.
    destruct (Nat.eq_dec p p1) as [<-|Hne]; [eapply H2; eauto|].
    rewrite <- (effg_ng i H4). eapply H0; eauto. lia.
  - (* sep: separator fails *) injection H5 as ? ?; subst. lia.
  - (* sep: element fails *) injection H7 as ? ?; subst. lia.
  - (* sep: one more *)
    destruct res as [[ws q]|[m q]]; [|discriminate]. injection H9 as ? ?; subst.
    pose proof (proj1 mono _ _ _ H _ _ eq_refl) as Hle1. pose proof (proj1 mono _ _ _ H1 _ _ eq_refl) as Hle2.
    destruct (Nat.eq_dec p p1) as [<-|Hne1].
    + destruct (Nat.eq_dec p p2) as [<-|Hne2]; [eapply H4; eauto|].
      apply (fd_sub p (pf e)); [intros x Hx; apply In_sunion; left; exact Hx|].
      rewrite <- (effg_ng e H8). eapply H2; eauto. lia.
    + apply (fd_sub p (pf s)); [intros x Hx; apply In_sunion; right; exact Hx|].
      rewrite <- (effg_ng s H7). eapply H0; eauto. lia.
  - (* seq: end *) injection H0 as ? ? ?; subst. lia.
  - (* seq: failing item *) destruct cut; discriminate.
  - (* seq: step *)
    cbn [lk_items] in H3. apply andb_prop in H3 as [Hli Hlns].
    pose proof (proj1 mono _ _ _ H _ _ eq_refl) as Hle1. cbn [scan].
    destruct (Nat.eq_dec p p1) as [<-|Hne].
    + (* the item matched without consuming *)
      destruct (is_neg (ni_item n)) eqn:En.
      * destruct (ni_item n) as [| | | | | | | |j| | |] eqn:Ei; try discriminate.
        change (single_tok rs j && lk_item rs j = true) in Hli. apply andb_prop in Hli as [Hs Hlj].
        inversion H; subst.
        destruct (single_fail j p Hs Hlj) as (d & Hd & Hnd); [assumption|].
        eapply H2; eauto. intros d' t Hin Ht. change (In d' (sunion rem (pf j))) in Hin. rewrite Hd in Hin.
        apply In_sunion in Hin as [Hin|[<-|[]]]; [exact (H6 d' t Hin Ht)|exact (Hnd t Ht)].
      * destruct (is_pos (ni_item n)) eqn:Ep.
        -- destruct (ni_item n) as [| | | | | | |j| | | |] eqn:Ei; try discriminate.
           change (single_tok rs j && lk_item rs j = true) in Hli. apply andb_prop in Hli as [Hs Hlj].
           inversion H; subst.
           match goal with Hj : pitem j p (PSucc _ _) |- _ => destruct (single_succ j p _ _ Hs Hlj Hj) as (t & d & Ht & Hd & Hdesc) end.
           change (eff (PosLook j)) with (pf j). rewrite Hd.
           assert (Hne : d <> "") by (eapply describes_nonempty; exact Hdesc).
           assert (Em : mem_str "" [d] = false).
           { unfold mem_str. cbn [existsb]. rewrite orb_false_r. apply String.eqb_neq. congruence. }
           rewrite Em, orb_true_r. exists t, d. split; [exact Ht|]. split; [|exact Hdesc].
           apply In_sunion. right. apply In_sdiff. split; [left; reflexivity|]. intros Hin. exact (H6 d t Hin Ht Hdesc).
        -- rewrite (proj1 nsem _ _ _ H _ eq_refl). cbn [negb orb].
           destruct (mem_str "" (eff (ni_item n))); eapply H2; eauto.
    + (* the item consumed: its first token is the alternative's *)
      assert (Hlt : p < p1) by lia.
      destruct (is_neg (ni_item n)) eqn:En.
      { destruct (ni_item n) eqn:Ei; try discriminate. inversion H; subst. lia. }
      destruct (H0 Hli _ _ eq_refl Hlt) as (t & m & Ht & Hm & Hdesc).
      assert (Hin : In m (sunion res0 (sdiff (eff (ni_item n)) rem))).
      { apply In_sunion. right. apply In_sdiff. split; [exact Hm|]. intros Hr. exact (H6 m t Hr Ht Hdesc). }
      assert (Hres : forall S, (forall x, In x (sunion res0 (sdiff (eff (ni_item n)) rem)) -> In x S) -> fd p S).
      { intros S HS. exists t, m. auto. }
      destruct (mem_str "" (eff (ni_item n))); [apply Hres; intros x Hx; apply scan_mono; exact Hx|].
      destruct (negb (nulf (ni_item n)) || is_pos (ni_item n)); [apply Hres; auto|apply Hres; intros x Hx; apply scan_mono; exact Hx].
  - (* alternatives: this one *)
    match goal with E : PSucc _ _ = PSucc _ _ |- _ => injection E as ? ?; subst end.
    match goal with Hl : lk_alts rs (_ :: _) = true |- _ => cbn [lk_alts] in Hl; apply andb_prop in Hl as [Hla _] end.
    destruct a as [items act]. rewrite lk_alt_eq in Hla. cbn [alt_items] in *.
    match goal with Hlt : _ < _ |- _ => destruct (H0 Hla _ _ _ eq_refl Hlt [] []) as (t & m & Ht & Hm & Hdesc); [intros d t []|] end.
    exists t, m. split; [exact Ht|]. split; [|exact Hdesc]. cbn [pf_alts]. apply In_sunion. left. rewrite pf_alt_eq.
    apply In_sdiscard. split; [exact Hm|eapply describes_nonempty; exact Hdesc].
  - (* alternatives: a later one *)
    cbn [lk_alts] in H3. apply andb_prop in H3 as [_ Hlr]. eapply fd_sub; [|eapply H2; eauto].
    intros x Hx. cbn [pf_alts]. apply In_sunion. right. exact Hx.
Qed.
End FS.
