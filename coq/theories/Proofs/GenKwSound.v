(* ... and nothing else: every word in the KEYWORDS / SOFT_KEYWORDS table of a generated module is an
   identifier-like literal of the grammar with the matching quote style (no identities needed here). *)
From Coq Require Import List String Ascii NArith ZArith Bool Arith Lia.
From Pegen Require Import Base.StrUtil Base.Values Grammar.Ast Grammar.Induction Grammar.Printer Analysis.Visitor Analysis.Nullable
  Analysis.Literals Gen.Gen Proofs.GenProofs Proofs.GenRefs Proofs.GenKw.
Import ListNotations.
Open Scope string_scope.

Section Sound.
Variable L : list string.          (* the literals of the grammar *)

Definition kw_ok (st : gst) : Prop :=
  (forall w, In w (g_keywords st) -> exists raw, In raw L /\ is_kw true raw = true /\ strip_quotes raw = w) /\
  (forall w, In w (g_soft st) -> exists raw, In raw L /\ is_kw false raw = true /\ strip_quotes raw = w).
Definition todoL (st : gst) : Prop := forall r i, In r (g_todo st) -> In i (top_items r) -> incl (lits_item i) L.
Definition SInv (st : gst) : Prop := kw_ok st /\ todoL st.

Lemma SInv_same st s : same_tc st s -> g_keywords s = g_keywords st -> g_soft s = g_soft st -> SInv st -> SInv s.
Proof. intros (A & _) B C ((K1 & K2) & T). split; [split; [rewrite B; exact K1|rewrite C; exact K2]|]. unfold todoL. rewrite A. exact T. Qed.
Lemma SInv_step st s : (same_tc st s /\ g_keywords s = g_keywords st /\ g_soft s = g_soft st) -> SInv st -> SInv s.
Proof. intros (A & B & C). apply SInv_same; assumption. Qed.

Lemma SInv_queue st rs c : SInv st -> (forall r i, In r rs -> In i (top_items r) -> incl (lits_item i) L) ->
  SInv {| g_counter := g_counter st; g_todo := (g_todo st ++ rs)%list; g_cache := c; g_keywords := g_keywords st;
          g_soft := g_soft st; g_fresh := g_fresh st; g_locals := g_locals st |}.
Proof.
  intros (K & T) Hrs. split; [exact K|]. intros r i Hr Hi. cbn in Hr. apply in_app_or in Hr as [Hr|Hr]; [exact (T r i Hr Hi)|exact (Hrs r i Hr Hi)].
Qed.

Lemma in_rhs_items_lits r i : In i (rhs_items r) -> incl (lits_item i) (lits_rhs r).
Proof.
  destruct r as [id alts]. unfold rhs_items. cbn [rhs_alts]. rewrite lits_rhs_eq. intros H.
  apply in_flat_map in H as (a & Ha & Hi). apply in_map_iff in Hi as (n & <- & Hn).
  intros x Hx. apply in_flat_map. exists a. split; [exact Ha|]. destruct a as [items act]. rewrite lits_alt_eq.
  apply in_flat_map. exists n. split; [exact Hn|exact Hx].
Qed.

Lemma cm_sound : forall fuel,
  (forall i st nc st', incl (lits_item i) L -> SInv st -> cm_item fuel i st = (inl nc, st') -> SInv st') /\
  (forall r st nc st', incl (lits_rhs r) L -> SInv st -> cm_rhs fuel r st = (inl nc, st') -> SInv st').
Proof.
  induction fuel as [|f [IHi IHr]]; [split; intros; discriminate|]. split.
  - intros i st nc st' HL HI H. destruct i as [n|raw|r|j|id j|id j|id s e|j|j|j| |r]; cbn [cm_item] in H.
    + destruct (String.eqb n "SOFT_KEYWORD"); [apply gret_spec in H as (_ & ->); exact HI|].
      destruct (mem_str n TOKS1); [apply gret_spec in H as (_ & ->); exact HI|].
      destruct (mem_str n TOKS2); apply gret_spec in H as (_ & ->); exact HI.
    + apply gbind_inv in H as (u0 & t0 & F0 & H). apply gret_spec in H as (_ & ->).
      destruct (is_identifier (strip_quotes raw)) eqn:Eid; [|apply gret_spec in F0 as (_ & ->); exact HI].
      unfold add_keyword in F0. injection F0 as _ <-. destruct HI as ((K1 & K2) & T).
      assert (Hraw : In raw L) by (apply HL; left; reflexivity).
      split; [|exact T]. split; cbn; destruct (endswith "'" raw) eqn:Eq.
      * intros w [<-|Hw]; [|exact (K1 w Hw)]. exists raw. split; [exact Hraw|]. split; [|reflexivity].
        unfold is_kw. rewrite Eid, Eq. reflexivity.
      * exact K1.
      * exact K2.
      * intros w [<-|Hw]; [|exact (K2 w Hw)]. exists raw. split; [exact Hraw|]. split; [|reflexivity].
        unfold is_kw. rewrite Eid, Eq. reflexivity.
    + exact (IHr r st nc st' HL HI H).
    + apply gbind_inv in H as (y & s & F0 & H). pose proof (IHi j st y s HL HI F0) as Hs.
      destruct (endswith "," _); apply gret_spec in H as (_ & ->); exact Hs.
    + apply gbind_inv in H as (c0 & t0 & F0 & H). apply cache_get_spec in F0 as (-> & ->). destruct (assocN id (g_cache st)) as [v|].
      { apply gret_spec in H as (_ & ->). exact HI. }
      apply gbind_inv in H as (k & t1 & F1 & H). apply gbind_inv in H as (i1 & t2 & F2 & H). apply gbind_inv in H as (i2 & t3 & F3 & H).
      apply gbind_inv in H as (u4 & t4 & F4 & H). apply gbind_inv in H as (u5 & t5 & F5 & H). apply gret_spec in H as (_ & ->).
      pose proof (next_counter_kw _ _ _ F1) as S1. pose proof (fresh_id_kw _ _ _ F2) as S2. pose proof (fresh_id_kw _ _ _ F3) as S3.
      apply add_todo_spec in F4. apply cache_put_spec in F5. subst t5 t4.
      apply (SInv_queue t3 [_] _ (SInv_step _ _ S3 (SInv_step _ _ S2 (SInv_step _ _ S1 HI)))).
      intros r i [<-|[]] Hi. rewrite (top_items_loop _ _ _ _ (loop0_name k)) in Hi. destruct Hi as [<-|[]]. exact HL.
    + apply gbind_inv in H as (c0 & t0 & F0 & H). apply cache_get_spec in F0 as (-> & ->). destruct (assocN id (g_cache st)) as [v|].
      { apply gret_spec in H as (_ & ->). exact HI. }
      apply gbind_inv in H as (k & t1 & F1 & H). apply gbind_inv in H as (i1 & t2 & F2 & H). apply gbind_inv in H as (i2 & t3 & F3 & H).
      apply gbind_inv in H as (u4 & t4 & F4 & H). apply gbind_inv in H as (u5 & t5 & F5 & H). apply gret_spec in H as (_ & ->).
      pose proof (next_counter_kw _ _ _ F1) as S1. pose proof (fresh_id_kw _ _ _ F2) as S2. pose proof (fresh_id_kw _ _ _ F3) as S3.
      apply add_todo_spec in F4. apply cache_put_spec in F5. subst t5 t4.
      apply (SInv_queue t3 [_] _ (SInv_step _ _ S3 (SInv_step _ _ S2 (SInv_step _ _ S1 HI)))).
      intros r i [<-|[]] Hi. rewrite (top_items_loop _ _ _ _ (loop1_name k)) in Hi. destruct Hi as [<-|[]]. exact HL.
    + (* Gather *)
      apply gbind_inv in H as (c0 & t0 & F0 & H). apply cache_get_spec in F0 as (-> & ->). destruct (assocN id (g_cache st)) as [v|].
      { apply gret_spec in H as (_ & ->). exact HI. }
      apply gbind_inv in H as (k & t1 & F1 & H). apply gbind_inv in H as (k2 & t2 & F2 & H).
      apply gbind_inv in H as (i1 & t3 & F3 & H). apply gbind_inv in H as (i2 & t4 & F4 & H). apply gbind_inv in H as (i3 & t5 & F5 & H).
      apply gbind_inv in H as (i4 & t6 & F6 & H). apply gbind_inv in H as (i5 & t7 & F7 & H). apply gbind_inv in H as (i6 & t8 & F8 & H).
      apply gbind_inv in H as (u9 & t9 & F9 & H). apply gbind_inv in H as (u10 & t10 & F10 & H). apply gbind_inv in H as (u11 & t11 & F11 & H).
      apply gret_spec in H as (_ & ->).
      pose proof (next_counter_kw _ _ _ F1) as S1. pose proof (next_counter_kw _ _ _ F2) as S2.
      pose proof (fresh_id_kw _ _ _ F3) as S3. pose proof (fresh_id_kw _ _ _ F4) as S4. pose proof (fresh_id_kw _ _ _ F5) as S5.
      pose proof (fresh_id_kw _ _ _ F6) as S6. pose proof (fresh_id_kw _ _ _ F7) as S7. pose proof (fresh_id_kw _ _ _ F8) as S8.
      apply add_todo_spec in F9. apply add_todo_spec in F10. apply cache_put_spec in F11. subst t11 t10 t9.
      assert (HI8 : SInv t8) by exact (SInv_step _ _ S8 (SInv_step _ _ S7 (SInv_step _ _ S6 (SInv_step _ _ S5 (SInv_step _ _ S4
                                         (SInv_step _ _ S3 (SInv_step _ _ S2 (SInv_step _ _ S1 HI)))))))).
      cbn [lits_item] in HL.
      set (extra := ("_loop0_" ++ nat_to_string k2)%string) in *.
      set (r1 := mk_rule extra (Rhs i1 [Alt [NItem i2 None None s; NItem i3 (Some "elem") None e]
                                   (Some {| atext := "elem"; aused := ["elem"]; aparses := true |})])).
      set (r2 := mk_rule ("_gather_" ++ nat_to_string k) (Rhs i4 [Alt [NItem i5 (Some "elem") None e; NItem i6 (Some "seq") None (NameLeaf extra)] None])).
      assert (T1 : top_items r1 = [s; e]) by (unfold r1, extra; apply top_items_extra; apply loop0_name).
      assert (T2 : top_items r2 = [e; NameLeaf extra]) by (unfold r2; apply top_items_gather).
      assert (Hq : SInv {| g_counter := g_counter t8; g_todo := (g_todo t8 ++ [r1; r2])%list;
                           g_cache := (id, (Some ("_gather_" ++ nat_to_string k), CMeth ("_gather_" ++ nat_to_string k))) :: g_cache t8;
                           g_keywords := g_keywords t8; g_soft := g_soft t8; g_fresh := g_fresh t8; g_locals := g_locals t8 |}).
      { apply SInv_queue; [exact HI8|]. intros r i [<-|[<-|[]]] Hi.
        - rewrite T1 in Hi. destruct Hi as [<-|[<-|[]]]; intros x Hx; apply HL; apply in_or_app; [left|right]; exact Hx.
        - rewrite T2 in Hi. destruct Hi as [<-|[<-|[]]]; [intros x Hx; apply HL; apply in_or_app; right; exact Hx|intros x []]. }
      destruct Hq as (K & T). split; [exact K|]. intros r i Hr Hi. apply (T r i); [|exact Hi].
      cbn [g_todo add_todo cache_put snd] in Hr |- *. rewrite <- app_assoc in Hr. exact Hr.
    + apply gbind_inv in H as (y & s & F0 & H). pose proof (IHi j st y s HL HI F0) as Hs.
      destruct (split_call _) as [[hd tl]|err]; [|discriminate]. apply gret_spec in H as (_ & ->). exact Hs.
    + apply gbind_inv in H as (y & s & F0 & H). pose proof (IHi j st y s HL HI F0) as Hs.
      destruct (split_call _) as [[hd tl]|err]; [|discriminate]. apply gret_spec in H as (_ & ->). exact Hs.
    + destruct j as [n|raw|r|j|id j|id j|id s e|j|j|j| |r]; try discriminate.
      * apply gbind_inv in H as (y & s & F0 & H). apply gret_spec in H as (_ & ->). exact (IHi (NameLeaf n) st y s HL HI F0).
      * apply gbind_inv in H as (y & s & F0 & H). apply gret_spec in H as (_ & ->). exact (IHi (StringLeaf raw) st y s HL HI F0).
      * apply gbind_inv in H as (y & s & F0 & H). pose proof (IHr r st y s HL HI F0) as Hs.
        destruct (snd y); apply gret_spec in H as (_ & ->); exact Hs.
    + apply gret_spec in H as (_ & ->). exact HI.
    + exact (IHr r st nc st' HL HI H).
  - intros r st nc st' HL HI H. destruct r as [id alts]. cbn [cm_rhs] in H.
    apply gbind_inv in H as (c0 & t0 & F0 & H). apply cache_get_spec in F0 as (-> & ->). destruct (assocN id (g_cache st)) as [v|].
    { apply gret_spec in H as (_ & ->). exact HI. }
    apply gbind_inv in H as (v & t1 & F1 & H). apply gbind_inv in H as (u2 & t2 & F2 & H). apply gret_spec in H as (_ & ->).
    apply cache_put_spec in F2. subst t2.
    assert (Hput : forall s, SInv s -> SInv (snd (cache_put id v s))) by (intros s (K & T); split; [exact K|exact T]).
    apply Hput.
    assert (Hgen : not_single (Rhs id alts) ->
              (k <- next_counter ;; let name := ("_tmp_" ++ nat_to_string k)%string in
               _ <- add_todo (mk_rule name (Rhs id alts)) ;; gret (Some name, CMeth name)) st = (inl v, t1) -> SInv t1).
    { intros Hns Hg. apply gbind_inv in Hg as (k & s1 & G1 & Hg). apply gbind_inv in Hg as (u & s2 & G2 & Hg).
      apply gret_spec in Hg as (_ & ->). pose proof (next_counter_kw _ _ _ G1) as S1. apply add_todo_spec in G2. subst s2.
      apply (SInv_queue s1 [_] _ (SInv_step _ _ S1 HI)). intros r i [<-|[]] Hi. rewrite (top_items_tmp k _ Hns) in Hi.
      intros x Hx. apply HL. exact (in_rhs_items_lits _ _ Hi x Hx). }
    destruct alts as [|[[|[i0 nm0 ty0 it0] [|n2 items]] [act|]] [|a2 alts]]; try (exact (Hgen I F1)).
    apply gbind_inv in F1 as (w & s1 & G1 & F1). apply gret_spec in F1 as (_ & ->).
    apply (IHi it0 st w s1); [|exact HI|exact G1].
    intros x Hx. apply HL. rewrite lits_rhs_eq. cbn [flat_map]. rewrite app_nil_r, lits_alt_eq. cbn [flat_map ni_item]. rewrite app_nil_r. exact Hx.
Qed.
End Sound.

Section EmitSound.
Variable L : list string.
Variable invalid_tbl : list (string * bexp).
Variable iter_fields : list (string * list string).
Variable rs0 : list rule.
Variable nullable_rules left_rec leaders : list string.
Variable item_flag : N -> bool.
Notation SInv := (SInv L).

Lemma emit_item_sound n used unreachable is_gather st c st' :
  incl (lits_item (ni_item n)) L -> SInv st -> emit_item n used unreachable is_gather st = (inl c, st') -> SInv st'.
Proof.
  intros HL HI H. unfold emit_item in H. apply gbind_inv in H as (nc & t0 & F0 & H).
  pose proof (proj1 (cm_sound L _) _ _ _ _ HL HI F0) as H0.
  match type of H with (match ?nm with _ => _ end) _ = _ => destruct nm as [x|] end.
  - destruct (String.eqb x ""); [apply gret_spec in H as (_ & ->); exact H0|].
    destruct (String.eqb x "cut"); [apply gret_spec in H as (_ & ->); exact H0|].
    apply gbind_inv in H as (x' & t1 & F1 & H). apply gret_spec in H as (_ & ->). exact (SInv_step L _ _ (dedupe_kw _ _ _ _ F1) H0).
  - apply gret_spec in H as (_ & ->). exact H0.
Qed.

Lemma emit_items_sound used unreachable is_gather : forall l st cs st',
  (forall n, In n l -> incl (lits_item (ni_item n)) L) -> SInv st -> emit_items l used unreachable is_gather st = (inl cs, st') -> SInv st'.
Proof.
  induction l as [|n l IH]; intros st cs st' HL HI H; cbn [emit_items] in H.
  - apply gret_spec in H as (_ & ->). exact HI.
  - apply gbind_inv in H as (c & t0 & F0 & H). apply gbind_inv in H as (cs0 & t1 & F1 & H). apply gret_spec in H as (_ & ->).
    exact (IH _ _ _ (fun m Hm => HL m (or_intror Hm)) (emit_item_sound _ _ _ _ _ _ _ (HL n (or_introl eq_refl)) HI F0) F1).
Qed.

Lemma emit_alt_sound a is_loop is_gather st x st' :
  (forall n, In n (alt_items a) -> incl (lits_item (ni_item n)) L) -> SInv st ->
  emit_alt invalid_tbl iter_fields a is_loop is_gather st = (inl x, st') -> SInv st'.
Proof.
  intros HL HI H. unfold emit_alt in H.
  apply gbind_inv in H as (u0 & t0 & F0 & H).
  assert (S0 : t0 = st).
  { match type of F0 with (match ?o with _ => _ end) _ = _ => destruct o as [ac|] end;
      [destruct (aparses ac); [apply gret_spec in F0 as (_ & ->); reflexivity|discriminate]|apply gret_spec in F0 as (_ & ->); reflexivity]. }
  subst t0.
  apply gbind_inv in H as (u1 & t1 & F1 & H). pose proof (set_locals_kw _ _ _ _ F1) as S1.
  apply gbind_inv in H as (conjs & t2 & F2 & H).
  pose proof (emit_items_sound _ _ _ _ _ _ _ HL (SInv_step L _ _ S1 HI) F2) as H2.
  apply gbind_inv in H as (locals & t3 & F3 & H). apply get_locals_spec in F3. subst t3.
  apply gbind_inv in H as (final & t4 & F4 & H). apply gret_spec in H as (_ & ->).
  assert (S4 : t4 = t2).
  { repeat match type of F4 with
           | (match ?o with _ => _ end) _ = _ => destruct o
           | (if ?b then _ else _) _ = _ => destruct b
           | gret _ _ = _ => apply gret_spec in F4 as (_ & ->); reflexivity
           | gfail _ _ = _ => discriminate
           end. }
  subst t4. exact H2.
Qed.

Lemma emit_alts_sound is_loop is_gather : forall l st xs st',
  (forall a n, In a l -> In n (alt_items a) -> incl (lits_item (ni_item n)) L) -> SInv st ->
  emit_alts invalid_tbl iter_fields l is_loop is_gather st = (inl xs, st') -> SInv st'.
Proof.
  induction l as [|a l IH]; intros st xs st' HL HI H; cbn [emit_alts] in H.
  - apply gret_spec in H as (_ & ->). exact HI.
  - apply gbind_inv in H as (x & t0 & F0 & H). apply gbind_inv in H as (xs0 & t1 & F1 & H). apply gret_spec in H as (_ & ->).
    exact (IH _ _ _ (fun b n Hb Hn => HL b n (or_intror Hb) Hn)
             (emit_alt_sound _ _ _ _ _ _ (fun n Hn => HL a n (or_introl eq_refl) Hn) HI F0) F1).
Qed.

Lemma emit_rule_sound r st m st' :
  (forall i, In i (top_items r) -> incl (lits_item i) L) -> SInv st ->
  emit_rule invalid_tbl iter_fields rs0 nullable_rules left_rec leaders item_flag r st = (inl m, st') -> SInv st'.
Proof.
  intros HL HI H. unfold emit_rule in H.
  apply gbind_inv in H as (u0 & t0 & F0 & H).
  assert (S0 : t0 = st).
  { destruct (is_loop_name (rname r)); [|apply gret_spec in F0 as (_ & ->); reflexivity].
    destruct (rhs_alts (flatten r)) as [|a [|a2 l]]; try discriminate. apply gret_spec in F0 as (_ & ->). reflexivity. }
  subst t0. apply gbind_inv in H as (alts & t1 & F1 & H). apply gret_spec in H as (_ & ->).
  apply (emit_alts_sound _ _ _ _ _ _ (fun a n Ha Hn => HL (ni_item n) ltac:(unfold top_items; apply in_flat_map; exists a; split; [exact Ha|apply in_map; exact Hn])) HI F1).
Qed.

Lemma emit_all_sound : forall fuel st ms st', SInv st ->
  emit_all invalid_tbl iter_fields rs0 nullable_rules left_rec leaders item_flag fuel st = (inl ms, st') -> SInv st'.
Proof.
  induction fuel as [|f IH]; intros st ms st' HI H; cbn [emit_all] in H; [discriminate|].
  apply gbind_inv in H as (o & t0 & F0 & H). destruct o as [r|].
  - apply pop_todo_kw in F0 as (Et & Ec & Ek & Es).
    apply gbind_inv in H as (m & t1 & F1 & H). apply gbind_inv in H as (ms0 & t2 & F2 & H). apply gret_spec in H as (_ & ->).
    destruct HI as ((K1 & K2) & T).
    assert (HI0 : SInv t0).
    { split; [split; [rewrite Ek; exact K1|rewrite Es; exact K2]|]. intros R i HR Hi. apply (T R i); [rewrite Et; right; exact HR|exact Hi]. }
    apply (IH t1 ms0 t2); [|exact F2]. apply (emit_rule_sound r t0 m t1); [|exact HI0|exact F1].
    intros i Hi. apply (T r i); [rewrite Et; left; reflexivity|exact Hi].
  - unfold pop_todo in F0. destruct (g_todo st); [|discriminate]. injection F0 as <-. apply gret_spec in H as (_ & ->). exact HI.
Qed.
End EmitSound.

Lemma top_items_lits g r : In r (rules g) -> forall i, In i (top_items r) -> incl (lits_item i) (grammar_lits g).
Proof.
  intros Hr i Hi x Hx. unfold grammar_lits. apply in_flat_map. exists r. split; [exact Hr|].
  assert (Hsub : incl (lits_rhs (flatten r)) (lits_rhs (rrhs r))).
  { unfold flatten. destruct (is_loop_name (rname r)); [apply incl_refl|].
    destruct (rrhs r) as [id alts]. destruct alts as [|[[|[i0 nm0 ty0 it0] [|n2 items]] [act|]] [|a2 alts]]; try apply incl_refl;
      destruct it0; try apply incl_refl.
    intros y Hy. rewrite lits_rhs_eq. cbn [flat_map]. rewrite app_nil_r, lits_alt_eq. cbn [flat_map ni_item lits_item]. rewrite app_nil_r. exact Hy. }
  apply Hsub. exact (in_rhs_items_lits (flatten r) i Hi x Hx).
Qed.

Theorem generator_collects_only_keywords : forall invalid_tbl iter_fields pre suf file fb g an M,
  generate invalid_tbl iter_fields pre suf file fb g an = inl M ->
  (forall w, In w (i_keywords M) -> exists raw, In raw (grammar_lits g) /\ is_kw true raw = true /\ strip_quotes raw = w) /\
  (forall w, In w (i_soft_keywords M) -> exists raw, In raw (grammar_lits g) /\ is_kw false raw = true /\ strip_quotes raw = w).
Proof.
  intros tbl itf pre suf file fb g an M H. unfold generate in H.
  match type of H with (match ?e with _ => _ end) = _ => destruct e as [[ms|err] st] eqn:EA end; [|discriminate].
  injection H as <-. cbn [i_keywords i_soft_keywords].
  assert (HI : SInv (grammar_lits g) {| g_counter := 0; g_todo := rules g; g_cache := []; g_keywords := []; g_soft := []; g_fresh := fb; g_locals := [] |}).
  { split; [split; intros w []|]. intros r i Hr Hi. exact (top_items_lits g r Hr i Hi). }
  destruct (emit_all_sound (grammar_lits g) _ _ _ _ _ _ _ _ _ _ _ HI EA) as ((K1 & K2) & _).
  split; intros w Hw; apply (proj1 (sort_set_In _ _)) in Hw; [exact (K1 w Hw)|exact (K2 w Hw)].
Qed.

(* both directions: the tables ARE the quoted words *)
Theorem generated_keyword_tables_are_exact : forall invalid_tbl iter_fields pre suf file fb g an M,
  ids_distinct g ->
  generate invalid_tbl iter_fields pre suf file fb g an = inl M ->
  (forall w, In w (i_keywords M) <-> In w (hard_keywords g)) /\
  (forall w, In w (i_soft_keywords M) <-> In w (soft_keywords g)).
Proof.
  intros tbl itf pre suf file fb g an M Hids H.
  destruct (generator_collects_only_keywords _ _ _ _ _ _ _ _ _ H) as (S1 & S2).
  pose proof (generator_collects_every_keyword _ _ _ _ _ _ _ _ _ Hids H) as C.
  split; intros w; unfold hard_keywords, soft_keywords; rewrite sort_set_In, in_map_iff; split.
  - intros Hw. destruct (S1 w Hw) as (raw & Hr & Hk & <-). exists raw. split; [reflexivity|]. apply filter_In. split; assumption.
  - intros (raw & <- & Hf). apply filter_In in Hf as (Hr & Hk). unfold is_kw in Hk. apply andb_prop in Hk as (Hid & Hq).
    specialize (C raw Hr Hid). destruct (endswith "'" raw); [exact C|discriminate].
  - intros Hw. destruct (S2 w Hw) as (raw & Hr & Hk & <-). exists raw. split; [reflexivity|]. apply filter_In. split; assumption.
  - intros (raw & <- & Hf). apply filter_In in Hf as (Hr & Hk). unfold is_kw in Hk. apply andb_prop in Hk as (Hid & Hq).
    specialize (C raw Hr Hid). destruct (endswith "'" raw); [discriminate|exact C].
Qed.
