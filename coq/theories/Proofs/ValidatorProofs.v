From Coq Require Import List String Bool.
From Pegen Require Import Base.StrUtil Grammar.Ast Grammar.Printer Analysis.Validator.
Import ListNotations.
Open Scope string_scope.

Lemma list_prefixb_spec (p l : list string) :
  list_prefixb String.eqb p l = true <-> exists rest, l = (p ++ rest)%list.
Proof.
  revert l; induction p as [|x p IH]; intros l; cbn.
  - split; [intros _; exists l; reflexivity | reflexivity].
  - destruct l as [|y l].
    + split; [discriminate | intros [rest H]; discriminate].
    + rewrite andb_true_iff, String.eqb_eq, IH. split.
      * intros [-> [rest ->]]. exists rest; reflexivity.
      * intros [rest H]. injection H as -> ->. split; [reflexivity | exists rest; reflexivity].
Qed.

Section V.
Variable simple : bool.
Notation istrs := (items_strs simple).

(* item-wise prefix, stated on the sequences of rendered items *)
Definition item_prefix (a b : alt) : Prop := exists rest, istrs b = (istrs a ++ rest)%list.

Lemma check_intersection_exact a b : check_intersection simple a b = true <-> item_prefix a b.
Proof. unfold check_intersection, item_prefix. apply list_prefixb_spec. Qed.

Lemma first_shadowed_some a later b :
  first_shadowed simple a later = Some b -> In b later /\ item_prefix a b.
Proof.
  induction later as [|c later IH]; cbn; [discriminate|].
  destruct (check_intersection simple a c) eqn:E.
  - intros [= <-]. split; [left; reflexivity | apply check_intersection_exact; exact E].
  - intros H. destruct (IH H) as [Hin Hp]. split; [right; exact Hin | exact Hp].
Qed.

Lemma first_shadowed_none a later :
  first_shadowed simple a later = None <-> forall b, In b later -> ~ item_prefix a b.
Proof.
  induction later as [|c later IH]; cbn.
  - split; [intros _ b [] | reflexivity].
  - destruct (check_intersection simple a c) eqn:E.
    + split; [discriminate|]. intros H. exfalso. apply (H c (or_introl eq_refl)).
      apply check_intersection_exact; exact E.
    + rewrite IH. split.
      * intros H b [<-|Hb]; [|apply H; exact Hb].
        intros Hp. apply check_intersection_exact in Hp. congruence.
      * intros H b Hb. apply H. right; exact Hb.
Qed.

(* "a occurs before b in alts" *)
Inductive before (a b : alt) : list alt -> Prop :=
| before_here rest : In b rest -> before a b (a :: rest)
| before_later c rest : before a b rest -> before a b (c :: rest).

Lemma validate_alts_some alts b :
  validate_alts simple alts = Some b -> exists a, before a b alts /\ item_prefix a b.
Proof.
  induction alts as [|a rest IH]; cbn; [discriminate|].
  destruct (first_shadowed simple a rest) as [c|] eqn:E.
  - intros [= <-]. apply first_shadowed_some in E as [Hin Hp].
    exists a. split; [constructor; exact Hin | exact Hp].
  - intros H. destruct (IH H) as [a' [Hb Hp]]. exists a'. split; [apply before_later; exact Hb | exact Hp].
Qed.

Lemma validate_alts_none alts :
  validate_alts simple alts = None <-> forall a b, before a b alts -> ~ item_prefix a b.
Proof.
  induction alts as [|a rest IH]; cbn.
  - split; [intros _ a b H; inversion H | reflexivity].
  - destruct (first_shadowed simple a rest) as [c|] eqn:E.
    + split; [discriminate|]. intros H. exfalso.
      apply first_shadowed_some in E as [Hin Hp]. exact (H a c (before_here _ _ _ Hin) Hp).
    + rewrite IH. pose proof (proj1 (first_shadowed_none a rest) E) as Hn. split.
      * intros H x y Hb. inversion Hb; subst; [apply Hn; assumption | apply H; assumption].
      * intros H x y Hb. apply H. apply before_later; exact Hb.
Qed.

(* grammar level: an error is raised iff some rule has an earlier alternative that is an
   item-wise prefix of a later one; the alternative reported is such a later alternative *)
Lemma validate_rules_none rs :
  validate_rules simple rs = None <->
  forall r, In r rs -> forall a b, before a b (rhs_alts (rrhs r)) -> ~ item_prefix a b.
Proof.
  induction rs as [|r rs IH]; cbn.
  - split; [intros _ r [] | reflexivity].
  - destruct (validate_alts simple (rhs_alts (rrhs r))) as [b|] eqn:E.
    + split; [discriminate|]. intros H. exfalso.
      apply validate_alts_some in E as [a [Hb Hp]]. exact (H r (or_introl eq_refl) a b Hb Hp).
    + rewrite IH. pose proof (proj1 (validate_alts_none _) E) as Hn. split.
      * intros H r' [<-|Hin]; [exact Hn | apply H; exact Hin].
      * intros H r' Hin. apply H. right; exact Hin.
Qed.

Lemma validate_rules_some rs n s :
  validate_rules simple rs = Some (n, s) ->
  exists r a b, In r rs /\ rname r = n /\ before a b (rhs_alts (rrhs r)) /\ item_prefix a b
                /\ s = alt_str simple b.
Proof.
  induction rs as [|r rs IH]; cbn; [discriminate|].
  destruct (validate_alts simple (rhs_alts (rrhs r))) as [b|] eqn:E.
  - intros [= <- <-]. apply validate_alts_some in E as [a [Hb Hp]].
    exists r, a, b. repeat split; auto.
  - intros H. destruct (IH H) as [r' [a [b [Hin Hr]]]]. exists r', a, b. split; [right; exact Hin | exact Hr].
Qed.

End V.
