(* The table FirstSetCalculator computes is CLOSED under the FIRST equations (Analysis/FirstPure.v) -- for every grammar in
   which no rule can reach itself at the same position (a rank that decreases along initial invocations) and whose
   per-item flags are the pure reading (what Proofs/NullableItems.v proves of the analysis).  With
   C19_first_token_sound this makes FIRST sound for all such grammars, not just for the explored ones.

   Structure: entries of the table are never overwritten once stored (Persist); a value returned for an item equals the
   pure value under EVERY table that agrees with the entries stored so far (so in particular under the final table);
   the recursion guard (a rule whose visit is in progress yields the empty set) is never hit, because the rules in
   progress all have a larger rank than anything visited at an initial position. *)
From Coq Require Import List String NArith Bool Arith Lia.
From Pegen Require Import Base.StrUtil Grammar.Ast Grammar.Induction Analysis.Visitor Analysis.Nullable
  Analysis.FirstSets Analysis.FirstPure Proofs.NullableProofs Proofs.VisitAll Proofs.NullableItems.
Import ListNotations.
Open Scope string_scope.

(* ---------- sets as lists ---------- *)
Lemma mem_str_In' x l : mem_str x l = true <-> In x l.
Proof.
  unfold mem_str. rewrite existsb_exists. split.
  - intros (y & Hy & E). apply String.eqb_eq in E. now subst.
  - intros H. exists x. split; [exact H|apply String.eqb_refl].
Qed.
Lemma sadd_eq x s : sadd x s = if mem_str x s then s else (s ++ [x])%list.
Proof. destruct x; reflexivity. Qed.
Lemma sadd_in x y s : In y (sadd x s) <-> y = x \/ In y s.
Proof.
  rewrite sadd_eq. destruct (mem_str x s) eqn:E.
  - split; [intros H; right; exact H|]. intros [->|H]; [apply mem_str_In'; exact E|exact H].
  - rewrite in_app_iff. cbn. split; [intros [H|[H|[]]]; [right; exact H|left; symmetry; exact H]|].
    intros [->|H]; [right; left; reflexivity|left; exact H].
Qed.
Lemma sunion_in a b y : In y (sunion a b) <-> In y a \/ In y b.
Proof.
  unfold sunion. revert a. induction b as [|x b IH]; intros a; cbn [fold_left].
  - split; [intros H; left; exact H|intros [H|[]]; exact H].
  - rewrite IH, sadd_in. cbn. split; [intros [[->|H]|H]; auto|intros [H|[->|H]]; auto].
Qed.
Lemma sdiscard_in x a y : In y (sdiscard x a) <-> In y a /\ y <> x.
Proof.
  unfold sdiscard. rewrite filter_In. split; intros [H1 H2]; split; auto.
  - intros ->. rewrite String.eqb_refl in H2. discriminate.
  - destruct (String.eqb x y) eqn:E; [apply String.eqb_eq in E; congruence|reflexivity].
Qed.

Lemma sdiff_in a b y : In y (sdiff a b) <-> In y a /\ ~ In y b.
Proof.
  unfold sdiff. rewrite filter_In. split; intros [H1 H2]; split; auto.
  - intros Hb. apply mem_str_In' in Hb. rewrite Hb in H2. discriminate.
  - destruct (mem_str y b) eqn:E; [apply mem_str_In' in E; contradiction|reflexivity].
Qed.
Definition seq (a b : sset) : Prop := forall y, In y a <-> In y b.
Lemma seq_refl a : seq a a. Proof. intros y; reflexivity. Qed.
Lemma seq_sunion a a' b b' : seq a a' -> seq b b' -> seq (sunion a b) (sunion a' b').
Proof. intros H1 H2 y. rewrite !sunion_in, (H1 y), (H2 y). reflexivity. Qed.
Lemma seq_sdiff a a' b b' : seq a a' -> seq b b' -> seq (sdiff a b) (sdiff a' b').
Proof. intros H1 H2 y. rewrite !sdiff_in, (H1 y), (H2 y). reflexivity. Qed.
Lemma seq_sdiscard x a a' : seq a a' -> seq (sdiscard x a) (sdiscard x a').
Proof. intros H y. rewrite !sdiscard_in, (H y). reflexivity. Qed.
Lemma mem_seq x a a' : seq a a' -> mem_str x a = mem_str x a'.
Proof.
  intros H. destruct (mem_str x a) eqn:E1; destruct (mem_str x a') eqn:E2; try reflexivity.
  - apply mem_str_In' in E1. apply H in E1. apply mem_str_In' in E1. congruence.
  - apply mem_str_In' in E2. apply H in E2. apply mem_str_In' in E2. congruence.
Qed.

Section FC.
Variable rs : list rule.
Variable rn : string -> bool.                 (* Rule.nullable *)
Variable inl : N -> bool.                     (* NamedItem.nullable, by identity *)
Variable nulf : item -> bool.                 (* the pure reading of an item's nullability *)
Variable rk : string -> nat.
Variable good : item -> bool.                 (* side condition on the items of the grammar under which "" means nullable *)

Definition is_rule (n : string) : bool := match find_rule rs n with Some _ => true | None => false end.

Hypothesis Hnodup : NoDup (map rname rs).
Hypothesis Hflag : forall r n, In r rs -> In n (inside_rhs (rrhs r)) ->
  inl (ni_id n) = nulf (ni_item n) /\ good (ni_item n) = true.
Hypothesis Hrank : forall r, In r rs -> forall m, In m (in_rhs inl (rrhs r)) -> is_rule m = true -> rk m < rk (rname r).
(* "" in the FIRST set of an item means the item can match nothing *)
Hypothesis Hneg : forall j, nulf (NegLook j) = true.
Hypothesis Hempty : forall T i, good i = true -> (forall k, is_rule k = true -> mem_str "" (T k) = true -> rn k = true) ->
  mem_str "" (pf_item rs T nulf i) = true -> nulf i = true.

Notation vr := (fv_rule rs rn inl).
Notation fvi f := (fv_item rs inl (vr f)).
Notation fvr f := (fv_rhs rs inl (vr f)).
Notation fva f := (fv_alt rs inl (vr f)).
Notation pfi T := (pf_item rs T nulf).
Notation pfr T := (pf_rhs rs T nulf).
Notation pfa T := (pf_alt rs T nulf).

Definition look (st : fst_state) (k : string) : option sset := assoc_s k (f_sets st).
Definition Agree (T : string -> sset) (st : fst_state) : Prop := forall k s, look st k = Some s -> T k = s.
Definition Persist (st st' : fst_state) : Prop := forall k s, look st k = Some s -> look st' k = Some s.
Definition EmptyOK (st : fst_state) : Prop := forall k s, look st k = Some s -> mem_str "" s = true -> rn k = true.
Definition ClosedE (st : fst_state) : Prop :=
  forall T, Agree T st -> forall k s r, look st k = Some s -> find_rule rs k = Some r -> subset_b (pfr T (rrhs r)) s = true.
Definition WF (st : fst_state) : Prop :=
  f_err st = false /\ NoDup (f_inproc st) /\
  (forall x, In x (f_inproc st) -> is_rule x = true /\ look st x = None) /\
  (forall k s, look st k = Some s -> is_rule k = true) /\ EmptyOK st /\ ClosedE st.
Definition FuelOK (f : nat) (st : fst_state) : Prop := List.length rs < List.length (f_inproc st) + f.
Definition Bound (b : nat) (st : fst_state) : Prop := forall x, In x (f_inproc st) -> b <= rk x.
Definition below (b : nat) (l : list string) : Prop := forall m, In m l -> is_rule m = true -> rk m < b.
Definition flagged (l : list nitem) : Prop := forall n, In n l -> inl (ni_id n) = nulf (ni_item n) /\ good (ni_item n) = true.

Lemma persist_refl st : Persist st st. Proof. intros k s H. exact H. Qed.
Lemma persist_trans a b c : Persist a b -> Persist b c -> Persist a c.
Proof. intros H1 H2 k s H. apply H2, H1, H. Qed.
Lemma agree_back T st st' : Persist st st' -> Agree T st' -> Agree T st.
Proof. intros Hp Ha k s H. apply Ha, Hp, H. Qed.
Lemma below_app b l1 l2 : below b (l1 ++ l2) <-> below b l1 /\ below b l2.
Proof.
  unfold below. split.
  - intros H. split; intros m Hm; apply H; apply in_or_app; [left|right]; exact Hm.
  - intros [H1 H2] m Hm. apply in_app_or in Hm as [Hm|Hm]; [apply H1|apply H2]; exact Hm.
Qed.
Lemma flagged_app l1 l2 : flagged (l1 ++ l2) <-> flagged l1 /\ flagged l2.
Proof.
  unfold flagged. split.
  - intros H. split; intros n Hn; apply H; apply in_or_app; [left|right]; exact Hn.
  - intros [H1 H2] n Hn. apply in_app_or in Hn as [Hn|Hn]; [apply H1|apply H2]; exact Hn.
Qed.

(* assoc after fs_set *)
Lemma assoc_fs_set k n s l : assoc_s k (fs_set n s l) = if String.eqb k n then Some s else assoc_s k l.
Proof.
  induction l as [|[k' v'] l IH]; cbn [fs_set assoc_s].
  - destruct (String.eqb k n); reflexivity.
  - destruct (String.eqb n k') eqn:E.
    + apply String.eqb_eq in E. subst k'. cbn [assoc_s]. destruct (String.eqb k n); reflexivity.
    + cbn [assoc_s]. destruct (String.eqb k k') eqn:E2.
      * apply String.eqb_eq in E2. subst k'. rewrite String.eqb_sym in E. rewrite E. reflexivity.
      * exact IH.
Qed.

(* the two loops of the calculator, as top-level functions *)
Definition step_items (vrule : string -> FM) (G : list nitem -> sset -> sset -> fst_state -> sset * fst_state)
  (n : nitem) (l' : list nitem) (result to_remove : sset) (st : fst_state) : sset * fst_state :=
  let '(nw0, st0) := fv_item rs inl vrule (ni_item n) st in
  let '(nw, st1) := match ni_item n with
                    | Gather _ s _ => if inl (ni_id n)
                                      then let '(r2, st2) := fv_item rs inl vrule s st0 in (sunion nw0 r2, st2)
                                      else (nw0, st0)
                    | _ => (nw0, st0)
                    end in
  if is_neg (ni_item n) then G l' result (sunion to_remove nw) st1
  else
    let result' := sunion result (sdiff nw to_remove) in
    if mem_str "" nw then G l' result' to_remove st1
    else if negb (inl (ni_id n)) || is_pos (ni_item n) then (result', st1)
    else G l' result' to_remove st1.
Fixpoint go_items (vrule : string -> FM) (l : list nitem) (result to_remove : sset) : fst_state -> sset * fst_state :=
  match l with
  | [] => fun st => (result, st)
  | n :: l' => fun st => step_items vrule (go_items vrule) n l' result to_remove st
  end.
Fixpoint go_alts (vrule : string -> FM) (l : list alt) (acc : sset) : FM :=
  match l with
  | [] => fun st => (acc, st)
  | a :: l' => fun st => let '(s, st') := fv_alt rs inl vrule a st in go_alts vrule l' (sunion acc s) st'
  end.
Lemma step_ext vrule G1 G2 n l r t st : (forall r0 t0 s0, G1 l r0 t0 s0 = G2 l r0 t0 s0) ->
  step_items vrule G1 n l r t st = step_items vrule G2 n l r t st.
Proof.
  intros H. unfold step_items. destruct (fv_item rs inl vrule (ni_item n) st) as [nw0 st0].
  destruct (match ni_item n with
            | Gather _ s _ => if inl (ni_id n) then let '(r2, st2) := fv_item rs inl vrule s st0 in (sunion nw0 r2, st2) else (nw0, st0)
            | _ => (nw0, st0) end) as [nw st1].
  rewrite !H. reflexivity.
Qed.
Lemma fv_alt_eq vrule items act st :
  fv_alt rs inl vrule (Alt items act) st = let '(res, st') := go_items vrule items [] [] st in (sdiscard "" res, st').
Proof.
  cbn [fv_alt].
  lazymatch goal with |- ?L = _ => lazymatch L with match ?x with pair _ _ => _ end =>
    lazymatch x with ?g ?a ?b ?c ?d =>
      assert (E : forall l r t s0, g l r t s0 = go_items vrule l r t s0)
        by (induction l as [|n l IH]; intros r t s0; [reflexivity|];
            change (step_items vrule g n l r t s0 = go_items vrule (n :: l) r t s0);
            cbn [go_items]; apply step_ext; exact IH)
    end end end.
  rewrite E. reflexivity.
Qed.
Lemma fv_rhs_eq vrule id alts st : fv_rhs rs inl vrule (Rhs id alts) st = go_alts vrule alts [] st.
Proof.
  cbn [fv_rhs].
  lazymatch goal with |- ?L = _ => lazymatch L with ?g ?a ?b ?c =>
    assert (E : forall l acc s0, g l acc s0 = go_alts vrule l acc s0)
      by (induction l as [|a0 l IH]; intros acc s0; [reflexivity|];
          change ((let '(s, st') := fv_alt rs inl vrule a0 s0 in g l (sunion acc s) st') = go_alts vrule (a0 :: l) acc s0);
          cbn [go_alts]; destruct (fv_alt rs inl vrule a0 s0) as [s st']; apply IH)
  end end.
  apply E.
Qed.
(*
*)

(* what an item / a rule visit guarantees *)
Definition Post (st : fst_state) (st' : fst_state) : Prop :=
  WF st' /\ f_inproc st' = f_inproc st /\ Persist st st'.

Section Fuel.
Variable f : nat.
(* the rule visits at this fuel behave *)
Hypothesis HR : forall name r st s st', find_rule rs name = Some r -> WF st -> FuelOK f st ->
  (forall x, In x (f_inproc st) -> rk name < rk x) -> look st name = None ->
  vr f name st = (s, st') ->
  Post st st' /\ look st' name = Some s.

Definition Pi (i : item) : Prop := forall st s st' b, WF st -> FuelOK f st -> Bound b st ->
  below b (in_item inl i) -> flagged (inside_item i) -> fvi f i st = (s, st') ->
  Post st st' /\ (forall T, Agree T st' -> seq s (pfi T i)).
Definition Pr (r : rhs) : Prop := forall st s st' b, WF st -> FuelOK f st -> Bound b st ->
  below b (in_rhs inl r) -> flagged (inside_rhs r) -> fvr f r st = (s, st') ->
  Post st st' /\ (forall T, Agree T st' -> seq s (pfr T r)).
Definition Pa (a : alt) : Prop := forall st s st' b, WF st -> FuelOK f st -> Bound b st ->
  below b (in_alt inl a) -> flagged (inside_alt a) -> fva f a st = (s, st') ->
  Post st st' /\ (forall T, Agree T st' -> seq s (pfa T a)).
Definition Pn (n : nitem) : Prop := Pi (ni_item n) /\
  match ni_item n with Gather _ sep _ => Pi sep | _ => True end.

Lemma post_refl st : WF st -> Post st st.
Proof. intros H. split; [exact H|]. split; [reflexivity|apply persist_refl]. Qed.

Lemma fuel_same f0 st st' : f_inproc st' = f_inproc st -> FuelOK f0 st -> FuelOK f0 st'.
Proof. unfold FuelOK. intros ->. auto. Qed.
Lemma bound_same b st st' : f_inproc st' = f_inproc st -> Bound b st -> Bound b st'.
Proof. unfold Bound. intros ->. auto. Qed.

Lemma leaf_case n : Pi (NameLeaf n).
Proof.
  intros st s st' b HW HF HB Hb _. cbn [fv_item]. destruct (find_rule rs n) as [r|] eqn:Ef.
  - assert (Hlt : forall x, In x (f_inproc st) -> rk n < rk x).
    { intros x Hx. specialize (HB x Hx). assert (rk n < b); [|lia]. apply Hb; [left; reflexivity|]. unfold is_rule. rewrite Ef. reflexivity. }
    assert (Hnin : ~ In n (f_inproc st)) by (intros Hin; specialize (Hlt n Hin); lia).
    destruct (assoc_s n (f_sets st)) as [s0|] eqn:Ea.
    + destruct (mem_str n (f_inproc st)) eqn:Em; [apply mem_str_In' in Em; contradiction|].
      intros [= <- <-]. split; [apply post_refl; exact HW|]. intros T HT. cbn [pf_item]. rewrite Ef. rewrite (HT n s0 Ea). intros y; reflexivity.
    + destruct (vr f n st) as [s1 st1] eqn:Ev. intros [= <- <-].
      destruct (HR n r st s1 st1 Ef HW HF Hlt Ea Ev) as ((HW1 & Hin1 & Hp1) & Hl1).
      set (st2 := {| f_sets := fs_set n s1 (f_sets st1); f_inproc := f_inproc st1; f_err := f_err st1 |}).
      assert (Hsame : forall k, look st2 k = look st1 k).
      { intros k. unfold look, st2. cbn [f_sets]. rewrite assoc_fs_set. destruct (String.eqb k n) eqn:E; [|reflexivity].
        apply String.eqb_eq in E. subst k. symmetry. exact Hl1. }
      assert (HW2 : WF st2).
      { destruct HW1 as (A & B & C & D & E & F). split; [exact A|]. split; [exact B|]. split; [|split; [|split]].
        - intros x Hx. rewrite Hsame. exact (C x Hx).
        - intros k s0. rewrite Hsame. apply D.
        - intros k s0. rewrite Hsame. apply E.
        - intros T HT k s0 r0. rewrite Hsame. apply F. intros k' s'. rewrite <- Hsame. apply HT. }
      split; [split; [exact HW2|split; [exact Hin1|]]|].
      * intros k s0 H. rewrite Hsame. apply Hp1. exact H.
      * intros T HT. cbn [pf_item]. rewrite Ef. rewrite (HT n s1); [intros y; reflexivity|]. rewrite Hsame. exact Hl1.
  - intros [= <- <-]. split; [apply post_refl; exact HW|]. intros T _. cbn [pf_item]. rewrite Ef. intros y; reflexivity.
Qed.

Lemma post_trans a b c : Post a b -> Post b c -> Post a c.
Proof.
  intros (W1 & I1 & P1) (W2 & I2 & P2). split; [exact W2|]. split; [rewrite I2; exact I1|eapply persist_trans; eauto].
Qed.

Lemma in_nitem_eq g n : in_nitem g n =
  (in_item g (ni_item n) ++ match ni_item n with Gather _ s _ => if g (ni_id n) then in_item g s else [] | _ => [] end)%list.
Proof.
  destruct n as [id nm ty i]. cbn [ni_item ni_id].
  destruct i; try (cbn [in_nitem]; rewrite app_nil_r; reflexivity).
  change (in_nitem g (NItem id nm ty (Gather id0 i1 i2))) with
    (if g id then (in_item g (Gather id0 i1 i2) ++ in_item g i1)%list else in_item g (Gather id0 i1 i2)).
  destruct (g id); [reflexivity|rewrite app_nil_r; reflexivity].
Qed.

Definition tab (st : fst_state) (k : string) : sset := match look st k with Some s => s | None => [] end.
Lemma tab_agree st : Agree (tab st) st.
Proof. intros k s H. unfold tab. rewrite H. reflexivity. Qed.
Lemma tab_empty st : WF st -> forall k, is_rule k = true -> mem_str "" (tab st k) = true -> rn k = true.
Proof.
  intros (_ & _ & _ & _ & HE & _) k _ Hm. unfold tab in Hm. destruct (look st k) as [s|] eqn:E; [exact (HE k s E Hm)|discriminate].
Qed.

(* the optional separator part of a NamedItem holding a gather *)
Lemma gather_part n st0 nw0 nw st1 b :
  Pn n -> WF st0 -> FuelOK f st0 -> Bound b st0 -> below b (in_nitem inl n) -> flagged (inside_nitem n) ->
  (forall T, Agree T st0 -> seq nw0 (pfi T (ni_item n))) ->
  match ni_item n with
  | Gather _ s _ => if inl (ni_id n) then let '(r2, st2) := fvi f s st0 in (sunion nw0 r2, st2) else (nw0, st0)
  | _ => (nw0, st0)
  end = (nw, st1) ->
  Post st0 st1 /\ (forall T, Agree T st1 -> seq nw (effg nulf (pfi T) (ni_item n))).
Proof.
  intros [_ Hsep] HW HF HB Hb Hfl V0 H.
  assert (Hn : inl (ni_id n) = nulf (ni_item n)) by (apply (Hfl n); destruct n; left; reflexivity).
  rewrite in_nitem_eq in Hb. apply below_app in Hb as [_ Hbs].
  destruct (ni_item n) as [x|x|x|x|x y|x y|gid sp el|x|x|x| |x] eqn:Ei;
    try (injection H as <- <-; split; [apply post_refl; exact HW|intros T HT; cbn [effg]; exact (V0 T HT)]).
  destruct (inl (ni_id n)) eqn:En.
  - destruct (fvi f sp st0) as [r2 st2] eqn:E2. injection H as <- <-.
    assert (Hfs : flagged (inside_item sp)).
    { intros m Hm. apply Hfl. destruct n as [id nm ty i]. cbn [ni_item] in Ei. subst i. right. cbn [inside_item].
      apply in_or_app. left. exact Hm. }
    destruct (Hsep st0 r2 st2 b HW HF HB Hbs Hfs E2) as (HP & V2). split; [exact HP|].
    intros T HT. cbn [effg]. rewrite <- Hn. apply seq_sunion; [|exact (V2 T HT)].
    apply V0. eapply agree_back; [exact (proj2 (proj2 HP))|exact HT].
  - injection H as <- <-. split; [apply post_refl; exact HW|]. intros T HT. cbn [effg]. rewrite <- Hn. exact (V0 T HT).
Qed.

Lemma go_items_ok : forall items, Forall Pn items ->
  forall res_m rem_m st out st' b, WF st -> FuelOK f st -> Bound b st ->
  below b (in_items inl items) -> flagged (flat_map inside_nitem items) ->
  go_items (vr f) items res_m rem_m st = (out, st') ->
  Post st st' /\
  (forall T, Agree T st' -> forall res_p rem_p, seq res_m res_p -> seq rem_m rem_p ->
     seq out (scan nulf (pfi T) items res_p rem_p)).
Proof.
  induction 1 as [|n l Hn _ IH]; intros res_m rem_m st out st' b HW HF HB Hb Hfl H.
  - cbn [go_items] in H. injection H as <- <-. split; [apply post_refl; exact HW|]. intros T _ res_p rem_p Hr _. exact Hr.
  - cbn [go_items] in H. unfold step_items in H.
    cbn [in_items] in Hb. apply below_app in Hb as [Hbn Hbl]. cbn [flat_map] in Hfl. apply flagged_app in Hfl as [Hfn Hfr].
    assert (Hidn : inl (ni_id n) = nulf (ni_item n)) by (apply (Hfn n); destruct n; left; reflexivity).
    assert (Hgood : good (ni_item n) = true) by (apply (Hfn n); destruct n; left; reflexivity).
    destruct (fvi f (ni_item n) st) as [nw0 st0] eqn:E0.
    assert (Hbi : below b (in_item inl (ni_item n))) by (rewrite in_nitem_eq in Hbn; apply below_app in Hbn as [A _]; exact A).
    assert (Hfi : flagged (inside_item (ni_item n))) by (intros m Hm; apply Hfn; destruct n; right; exact Hm).
    destruct (proj1 Hn st nw0 st0 b HW HF HB Hbi Hfi E0) as (P0 & V0).
    destruct (match ni_item n with
              | Gather _ s _ => if inl (ni_id n) then let '(r2, st2) := fvi f s st0 in (sunion nw0 r2, st2) else (nw0, st0)
              | _ => (nw0, st0) end) as [nw st1] eqn:E1.
    destruct P0 as (W0 & I0 & Pe0).
    destruct (gather_part n st0 nw0 nw st1 b Hn W0 (fuel_same f _ _ I0 HF) (bound_same b _ _ I0 HB) Hbn Hfn V0 E1) as (P1 & V1).
    destruct P1 as (W1 & I1 & Pe1).
    assert (HF1 : FuelOK f st1) by (apply (fuel_same f st0); [exact I1|apply (fuel_same f st); assumption]).
    assert (HB1 : Bound b st1) by (apply (bound_same b st0); [exact I1|apply (bound_same b st); assumption]).
    assert (P01 : Post st st1) by (split; [exact W1|split; [rewrite I1; exact I0|eapply persist_trans; eauto]]).
    (* the rest of the list may be scanned only if the item is flagged; every continuing branch implies it *)
    assert (Hcont : inl (ni_id n) = true -> forall res2 rem2, go_items (vr f) l res2 rem2 st1 = (out, st') ->
              Post st st' /\ Persist st1 st' /\
              (forall T, Agree T st' -> forall res_p rem_p, seq res2 res_p -> seq rem2 rem_p ->
                           seq out (scan nulf (pfi T) l res_p rem_p))).
    { intros Ht res2 rem2 Hgo. rewrite Ht in Hbl.
      destruct (IH res2 rem2 st1 out st' b W1 HF1 HB1 Hbl Hfr Hgo) as (P2 & V2).
      split; [eapply post_trans; eauto|]. split; [exact (proj2 (proj2 P2))|exact V2]. }
    destruct (is_neg (ni_item n)) eqn:Eneg.
    + assert (Ht : inl (ni_id n) = true).
      { rewrite Hidn. destruct (ni_item n); try discriminate. apply Hneg. }
      destruct (Hcont Ht _ _ H) as (P2 & Pe2 & V2). split; [exact P2|].
      intros T HT res_p rem_p Hr Hm. cbn [scan]. rewrite Eneg. apply V2; [exact HT|exact Hr|].
      apply seq_sunion; [exact Hm|]. apply V1. eapply agree_back; [exact Pe2|exact HT].
    + destruct (mem_str "" nw) eqn:Em.
      * (* "" is in the set: the item can match nothing, hence it is flagged *)
        assert (Ht : inl (ni_id n) = true).
        { destruct (inl (ni_id n)) eqn:En; [reflexivity|]. exfalso.
          pose proof (V1 (tab st1) (tab_agree st1)) as Vt. rewrite (mem_seq _ _ _ Vt) in Em.
          assert (Hnf : nulf (ni_item n) = false) by (rewrite <- Hidn; reflexivity).
          assert (Ep : effg nulf (pfi (tab st1)) (ni_item n) = pfi (tab st1) (ni_item n)).
          { unfold effg. destruct (ni_item n); try reflexivity. rewrite Hnf. reflexivity. }
          rewrite Ep in Em. rewrite (Hempty (tab st1) (ni_item n) Hgood (tab_empty st1 W1) Em) in Hnf. discriminate. }
        destruct (Hcont Ht _ _ H) as (P2 & Pe2 & V2). split; [exact P2|].
        intros T HT res_p rem_p Hr Hm. cbn [scan]. rewrite Eneg.
        assert (Vn : seq nw (effg nulf (pfi T) (ni_item n))) by (apply V1; eapply agree_back; [exact Pe2|exact HT]).
        rewrite <- (mem_seq _ _ _ Vn), Em. apply V2; [exact HT| |exact Hm].
        apply seq_sunion; [exact Hr|]. apply seq_sdiff; [exact Vn|exact Hm].
      * destruct (negb (inl (ni_id n)) || is_pos (ni_item n)) eqn:Estop.
        -- injection H as <- <-. split; [exact P01|].
           intros T HT res_p rem_p Hr Hm. cbn [scan]. rewrite Eneg.
           assert (Vn : seq nw (effg nulf (pfi T) (ni_item n))) by (apply V1; exact HT).
           rewrite <- (mem_seq _ _ _ Vn), Em. rewrite <- Hidn, Estop.
           apply seq_sunion; [exact Hr|]. apply seq_sdiff; [exact Vn|exact Hm].
        -- assert (Ht : inl (ni_id n) = true).
           { apply orb_false_iff in Estop as [A _]. apply negb_false_iff in A. exact A. }
           destruct (Hcont Ht _ _ H) as (P2 & Pe2 & V2). split; [exact P2|].
           intros T HT res_p rem_p Hr Hm. cbn [scan]. rewrite Eneg.
           assert (Vn : seq nw (effg nulf (pfi T) (ni_item n))) by (apply V1; eapply agree_back; [exact Pe2|exact HT]).
           rewrite <- (mem_seq _ _ _ Vn), Em. rewrite <- Hidn, Estop. apply V2; [exact HT| |exact Hm].
           apply seq_sunion; [exact Hr|]. apply seq_sdiff; [exact Vn|exact Hm].
Qed.

Lemma go_alts_ok : forall alts, Forall Pa alts ->
  forall acc st out st' b, WF st -> FuelOK f st -> Bound b st ->
  below b (in_alts inl alts) -> flagged (flat_map inside_alt alts) ->
  go_alts (vr f) alts acc st = (out, st') ->
  Post st st' /\ (forall T, Agree T st' -> forall acc_p, seq acc acc_p -> seq out (sunion acc_p (pf_alts rs T nulf alts))).
Proof.
  induction 1 as [|a l Ha _ IH]; intros acc st out st' b HW HF HB Hb Hfl H.
  - cbn [go_alts] in H. injection H as <- <-. split; [apply post_refl; exact HW|].
    intros T _ acc_p Hs y. cbn [pf_alts]. rewrite sunion_in. cbn. rewrite (Hs y). tauto.
  - cbn [go_alts] in H. destruct (fva f a st) as [s1 st1] eqn:E1.
    cbn [in_alts] in Hb. apply below_app in Hb as [Hba Hbl]. cbn [flat_map] in Hfl. apply flagged_app in Hfl as [Hfa Hfr].
    destruct (Ha st s1 st1 b HW HF HB Hba Hfa E1) as ((W1 & I1 & Pe1) & V1).
    destruct (IH (sunion acc s1) st1 out st' b W1 (fuel_same f _ _ I1 HF) (bound_same b _ _ I1 HB) Hbl Hfr H) as (P2 & V2).
    split; [eapply post_trans; [split; [exact W1|split; [exact I1|exact Pe1]]|exact P2]|].
    intros T HT acc_p Hs. cbn [pf_alts].
    assert (V1T : seq s1 (pfa T a)) by (apply V1; eapply agree_back; [exact (proj2 (proj2 P2))|exact HT]).
    intros y. rewrite (V2 T HT (sunion acc_p (pfa T a)) (seq_sunion _ _ _ _ Hs V1T) y). rewrite !sunion_in. tauto.
Qed.

Definition PiS (i : item) : Prop := Pi i /\ match i with Gather _ sp _ => Pi sp | _ => True end.
Lemma items_ok : (forall i, PiS i) /\ (forall r, Pr r) /\ (forall a, Pa a) /\ (forall n, Pn n).
Proof.
  apply grammar_ast_ind.
  - intros n. split; [exact (leaf_case n)|exact I].
  - intros raw. split; [|exact I]. intros st s st' b HW _ _ _ _. cbn [fv_item]. intros [= <- <-].
    split; [apply post_refl; exact HW|]. intros T _. apply seq_refl.
  - intros r IH. split; [exact IH|exact I].
  - intros j [IH _]. split; [exact IH|exact I].
  - intros id j [IH _]. split; [exact IH|exact I].
  - intros id j [IH _]. split; [exact IH|exact I].
  - intros id sp el [IHs _] [IHe _]. split; [|exact IHs]. intros st s st' b HW HF HB Hb Hfl. cbn [fv_item]. intros H.
    apply (IHe st s st' b HW HF HB Hb); [|exact H]. intros m Hm. apply Hfl. cbn [inside_item]. apply in_or_app. right. exact Hm.
  - intros j [IH _]. split; [exact IH|exact I].
  - intros j [IH _]. split; [exact IH|exact I].
  - intros j [IH _]. split; [exact IH|exact I].
  - split; [|exact I]. intros st s st' b HW _ _ _ _. cbn [fv_item]. intros [= <- <-].
    split; [apply post_refl; exact HW|]. intros T _. apply seq_refl.
  - intros r IH. split; [exact IH|exact I].
  - (* Rhs *) intros id alts HF0 st s st' b HW HF HB Hb Hfl. rewrite fv_rhs_eq. intros H.
    rewrite in_rhs_eq in Hb. rewrite inside_rhs_eq in Hfl.
    destruct (go_alts_ok alts HF0 [] st s st' b HW HF HB Hb Hfl H) as (P & V). split; [exact P|].
    intros T HT. rewrite pf_rhs_eq. intros y. rewrite (V T HT [] (seq_refl _) y). rewrite sunion_in. cbn. tauto.
  - (* Alt *) intros items act HF0 st s st' b HW HF HB Hb Hfl. rewrite fv_alt_eq.
    destruct (go_items (vr f) items [] [] st) as [res st1] eqn:E. intros [= <- <-].
    rewrite in_alt_eq in Hb. rewrite inside_alt_eq in Hfl.
    destruct (go_items_ok items HF0 [] [] st res st1 b HW HF HB Hb Hfl E) as (P & V). split; [exact P|].
    intros T HT. rewrite pf_alt_eq. apply seq_sdiscard. apply (V T HT); apply seq_refl.
  - (* NamedItem *) intros id nm ty i [IH Hs]. split; [exact IH|]. cbn [ni_item]. destruct i; try exact I. exact Hs.
Qed.
End Fuel.

Definition RuleOK (f : nat) : Prop := forall name r st s st', find_rule rs name = Some r -> WF st -> FuelOK f st ->
  (forall x, In x (f_inproc st) -> rk name < rk x) -> look st name = None ->
  vr f name st = (s, st') -> Post st st' /\ look st' name = Some s.

Lemma inproc_len st : WF st -> List.length (f_inproc st) <= List.length rs.
Proof.
  intros (_ & Hnd & Hin & _). rewrite <- (map_length rname rs). apply NoDup_incl_length; [exact Hnd|].
  intros x Hx. destruct (Hin x Hx) as [Hr _]. unfold is_rule in Hr. destruct (find_rule rs x) as [r|] eqn:E; [|discriminate].
  destruct (find_rule_some _ _ _ E) as [Hi <-]. apply in_map. exact Hi.
Qed.

Lemma no_empty_pfr T r : ~ In "" (pfr T r).
Proof.
  destruct r as [id alts]. rewrite pf_rhs_eq. induction alts as [|a l IH]; cbn [pf_alts]; [intros []|].
  rewrite sunion_in. intros [H|H]; [|exact (IH H)]. destruct a as [items act]. rewrite pf_alt_eq in H.
  apply sdiscard_in in H as [_ H]. apply H. reflexivity.
Qed.

Lemma filter_head name l : ~ In name l ->
  filter (fun x => negb (String.eqb x name)) (name :: l) = l.
Proof.
  intros Hn. cbn [filter]. rewrite String.eqb_refl. cbn [negb].
  induction l as [|y l IH]; [reflexivity|]. cbn [filter].
  destruct (String.eqb y name) eqn:E; [apply String.eqb_eq in E; subst; exfalso; apply Hn; left; reflexivity|].
  cbn [negb]. f_equal. apply IH. intros H. apply Hn. right. exact H.
Qed.

Lemma subset_b_spec a b : subset_b a b = true <-> (forall y, In y a -> In y b).
Proof.
  unfold subset_b. rewrite forallb_forall. split; intros H y Hy; [apply mem_str_In'|apply mem_str_In']; apply H; exact Hy.
Qed.

Lemma rule_ok : forall f, RuleOK f.
Proof.
  induction f as [|f IH]; intros name r st s st' Hf HW HF Hlt Hlook Hrun.
  - exfalso. pose proof (inproc_len st HW). unfold FuelOK in HF. lia.
  - cbn [fv_rule] in Hrun. rewrite Hf in Hrun.
    assert (Hnin : ~ In name (f_inproc st)) by (intros Hin; specialize (Hlt name Hin); lia).
    destruct (mem_str name (f_inproc st)) eqn:Em; [apply mem_str_In' in Em; contradiction|].
    unfold look in Hlook. rewrite Hlook in Hrun.
    set (st1 := {| f_sets := f_sets st; f_inproc := name :: f_inproc st; f_err := f_err st |}) in *.
    destruct (fvr f (rrhs r) st1) as [t st2] eqn:E2.
    destruct (find_rule_some _ _ _ Hf) as [Hin Hname]. subst name.
    destruct HW as (A & B & C & D & E & F).
    assert (HW1 : WF st1).
    { split; [exact A|]. split; [constructor; assumption|]. split; [|split; [exact D|split; [exact E|exact F]]].
      intros x [<-|Hx]; [split; [unfold is_rule; rewrite Hf; reflexivity|exact Hlook]|exact (C x Hx)]. }
    assert (HF1 : FuelOK f st1) by (unfold FuelOK in *; cbn [f_inproc st1 List.length]; lia).
    assert (HB1 : Bound (rk (rname r)) st1).
    { intros x [<-|Hx]; [lia|]. specialize (Hlt x Hx). lia. }
    destruct (proj1 (proj2 (items_ok f IH)) (rrhs r) st1 t st2 (rk (rname r)) HW1 HF1 HB1 (Hrank r Hin) (fun n0 => Hflag r n0 Hin) E2)
      as ((W2 & I2 & Pe2) & V2).
    injection Hrun as <- <-.
    set (t' := if rn (rname r) then sadd "" t else t).
    set (st3 := {| f_sets := fs_set (rname r) t' (f_sets st2);
                   f_inproc := filter (fun x => negb (String.eqb x (rname r))) (f_inproc st2); f_err := f_err st2 |}).
    assert (Hl3 : forall k, look st3 k = if String.eqb k (rname r) then Some t' else look st2 k).
    { intros k. unfold look, st3. cbn [f_sets]. apply assoc_fs_set. }
    assert (Hin3 : f_inproc st3 = f_inproc st).
    { unfold st3. cbn [f_inproc]. rewrite I2. cbn [st1 f_inproc]. apply filter_head. exact Hnin. }
    destruct W2 as (A2 & B2 & C2 & D2 & E2' & F2).
    assert (Hl2 : look st2 (rname r) = None) by (apply C2; rewrite I2; left; reflexivity).
    assert (Hsub : forall y, In y t -> In y t').
    { intros y Hy. unfold t'. destruct (rn (rname r)); [apply sadd_in; right; exact Hy|exact Hy]. }
    assert (HW3 : WF st3).
    { split; [exact A2|]. split; [rewrite Hin3; exact B|]. split; [|split; [|split]].
      - intros x Hx. rewrite Hin3 in Hx. split; [exact (proj1 (C x Hx))|]. rewrite Hl3.
        destruct (String.eqb x (rname r)) eqn:Ex; [apply String.eqb_eq in Ex; subst x; contradiction|].
        apply C2. rewrite I2. right. exact Hx.
      - intros k s0. rewrite Hl3. destruct (String.eqb k (rname r)) eqn:Ek; [|apply D2].
        intros _. apply String.eqb_eq in Ek. subst k. unfold is_rule. rewrite Hf. reflexivity.
      - intros k s0. rewrite Hl3. destruct (String.eqb k (rname r)) eqn:Ek; [|apply E2'].
        intros [= <-] Hm. apply String.eqb_eq in Ek. subst k. unfold t' in Hm. destruct (rn (rname r)) eqn:Ern; [reflexivity|].
        exfalso. apply mem_str_In' in Hm. apply (V2 (tab st2) (tab_agree st2)) in Hm. exact (no_empty_pfr _ _ Hm).
      - intros T HT k s0 r0. rewrite Hl3.
        assert (HT2 : Agree T st2).
        { intros k' s' Hk'. apply HT. rewrite Hl3. destruct (String.eqb k' (rname r)) eqn:Ek'; [|exact Hk'].
          apply String.eqb_eq in Ek'. subst k'. rewrite Hl2 in Hk'. discriminate. }
        destruct (String.eqb k (rname r)) eqn:Ek.
        + intros [= <-] Hfr. apply String.eqb_eq in Ek. subst k. rewrite Hf in Hfr. injection Hfr as <-.
          apply subset_b_spec. intros y Hy. apply Hsub. apply (V2 T HT2). exact Hy.
        + intros Hk Hfr. exact (F2 T HT2 k s0 r0 Hk Hfr). }
    split; [split; [exact HW3|split; [exact Hin3|]]|].
    + intros k s0 Hk. rewrite Hl3. destruct (String.eqb k (rname r)) eqn:Ek.
      * apply String.eqb_eq in Ek. subst k. unfold look in Hk. rewrite Hlook in Hk. discriminate.
      * apply Pe2. exact Hk.
    + rewrite Hl3, String.eqb_refl. reflexivity.
Qed.

Definition table_fun (T : list (string * sset)) (k : string) : sset := match assoc_s k T with Some s => s | None => [] end.

Lemma fold_ok : forall l, incl l rs -> forall st, WF st -> f_inproc st = [] ->
  let st' := fold_left (fun st r => snd (vr (S (List.length rs)) (rname r) st)) l st in
  WF st' /\ f_inproc st' = [] /\ Persist st st' /\ (forall r, In r l -> exists s, look st' (rname r) = Some s).
Proof.
  induction l as [|r l IH]; intros Hl st HW Hi; cbn [fold_left].
  - split; [exact HW|]. split; [exact Hi|]. split; [apply persist_refl|intros r []].
  - assert (Hin : In r rs) by (apply Hl; left; reflexivity).
    pose proof (find_rule_nodup _ _ Hnodup Hin) as Hf.
    destruct (vr (S (List.length rs)) (rname r) st) as [s st1] eqn:Ev. cbn [snd].
    assert (H1 : WF st1 /\ f_inproc st1 = [] /\ Persist st st1 /\ exists s0, look st1 (rname r) = Some s0).
    { destruct (look st (rname r)) as [s0|] eqn:El.
      - cbn [fv_rule] in Ev. rewrite Hf, Hi in Ev. cbn [mem_str existsb] in Ev. unfold look in El. rewrite El in Ev.
        injection Ev as <- <-. split; [exact HW|]. split; [exact Hi|]. split; [apply persist_refl|exists s0; exact El].
      - destruct (rule_ok (S (List.length rs)) (rname r) r st s st1 Hf HW) as ((W1 & I1 & P1) & L1); try assumption.
        + unfold FuelOK. rewrite Hi. cbn. lia.
        + rewrite Hi. intros x [].
        + split; [exact W1|]. split; [rewrite I1; exact Hi|]. split; [exact P1|exists s; exact L1]. }
    destruct H1 as (W1 & I1 & P1 & [s0 L1]).
    destruct (IH (fun x Hx => Hl x (or_intror Hx)) st1 W1 I1) as (W2 & I2 & P2 & L2).
    split; [exact W2|]. split; [exact I2|]. split; [eapply persist_trans; eauto|].
    intros r0 [<-|Hr0]; [exists s0; apply P2; exact L1|exact (L2 r0 Hr0)].
Qed.

Theorem calculate_closed T : calculate rs rn inl = Some T -> closed_b rs (table_fun T) nulf = true.
Proof.
  unfold calculate.
  set (st0 := {| f_sets := []; f_inproc := []; f_err := false |}).
  assert (HW0 : WF st0).
  { split; [reflexivity|]. split; [constructor|]. split; [intros x []|]. split; [intros k s H; discriminate H|].
    split; [intros k s H; discriminate H|intros T0 _ k s r H; discriminate H]. }
  destruct (fold_ok rs (incl_refl _) st0 HW0 eq_refl) as (W & I & _ & L).
  set (stf := fold_left (fun st r => snd (vr (S (List.length rs)) (rname r) st)) rs st0) in *.
  destruct W as (A & B & C & D & E & F). rewrite A. intros [= <-].
  unfold closed_b. apply forallb_forall. intros r Hr. destruct (L r Hr) as [s Hs].
  assert (HA : Agree (table_fun (f_sets stf)) stf).
  { intros k s0 Hk. unfold table_fun. unfold look in Hk. rewrite Hk. reflexivity. }
  assert (Et : table_fun (f_sets stf) (rname r) = s) by (apply HA; exact Hs). rewrite Et.
  exact (F _ HA (rname r) s r Hs (find_rule_nodup _ _ Hnodup Hr)).
Qed.
End FC.
