(* Memoization is transparent: for a module without left-recursive leaders, run quietly with error
   mode off, the cached interpreter returns what the uncached one returns (outcome incl. the token an
   error points at; on success also the position and the furthest token fetched), whenever the
   uncached run terminates.  Simulation with the invariant "every memo entry is what the uncached
   invocation at that position returns, and fetches nothing beyond what has been fetched". *)
From Coq Require Import List String NArith ZArith Bool Arith Lia.
From Pegen Require Import Base.StrUtil Base.Values Runtime.Tokenizer Sem.Peg Gen.Gen Runtime.Exec
  Proofs.FuelMono Proofs.CacheStable.
Import ListNotations.
Open Scope string_scope.

Section Sim.
Variable K : kinds.
Variable toks : list rtok.
Variable M : ir_module.
Variable aeval : string -> env -> option value.
Variable exact_types token_dict : list (string * N).
Hypothesis Hnolr : no_left_rec M = true.
(* the error-mode flag of the run: any value if the module has no *_without_invalid method, off otherwise *)
Variable b : bool.
Hypothesis Hflag : b = false \/ no_wi M = true.
Notation stable := (stable b).

Notation runU := (run K toks false false M aeval exact_types token_dict).
Notation runC := (run K toks false true M aeval exact_types token_dict).

(* the uncached invocation a memo key stands for *)
Definition unc_inv (f : nat) (n : string) (a : option string) (s : pstate) : R :=
  match a with
  | Some lit => logged "expect" false (prim_tok toks (expect_test K exact_types token_dict lit)) s
  | None => match find_meth M n with
            | Some _ => runU f n s
            | None => match prim_test K M n with
                      | Some test => logged n false (prim_tok toks test) s
                      | None => (Raise (XAttributeError n), s)
                      end
            end
  end.

Definition entry_valid (F : nat) (k : ckey) (r : value * nat) : Prop :=
  let '(p, n, a) := k in
  exists f0, forall t, pos t = p -> invalid t = b -> F <= fetched t ->
    exists t', unc_inv f0 n a t = (Ok (fst r), t') /\ pos t' = snd r /\ fetched t' = fetched t /\ invalid t' = b.
Definition cache_valid (c : list (ckey * (value * nat))) (F : nat) : Prop :=
  forall k r, cache_find k c = Some r -> entry_valid F k r.

Definition sim (s1 s2 : pstate) : Prop :=
  pos s1 = pos s2 /\ fetched s1 = fetched s2 /\ invalid s1 = b /\ invalid s2 = b /\ cache_valid (cache s1) (fetched s1).

(* the cached result rC matches the uncached result rU *)
Definition matches (rU rC : R) : Prop :=
  fst rC = fst rU /\ forall v, fst rU = Ok v -> sim (snd rC) (snd rU).

Lemma entry_valid_mono F F' k r : F <= F' -> entry_valid F k r -> entry_valid F' k r.
Proof.
  destruct k as [[p n] a]. intros Hle (f0 & H). exists f0. intros t Hp Hi Hf. apply H; auto. lia.
Qed.
Lemma cache_valid_mono c F F' : F <= F' -> cache_valid c F -> cache_valid c F'.
Proof. intros Hle H k r Hk. exact (entry_valid_mono _ _ _ _ Hle (H k r Hk)). Qed.

Lemma ckey_eqb_eq (a c : ckey) : ckey_eqb a c = true -> a = c.
Proof.
  destruct a as [[m1 n1] a1], c as [[m2 n2] a2]. unfold ckey_eqb. intros H.
  apply andb_prop in H as [H H3]. apply andb_prop in H as [H1 H2].
  apply Nat.eqb_eq in H1. apply String.eqb_eq in H2. subst.
  destruct a1, a2; cbn in H3; try discriminate; [apply String.eqb_eq in H3; subst|]; reflexivity.
Qed.

Lemma cache_valid_set c F k r : cache_valid c F -> entry_valid F k r -> cache_valid ((k, r) :: c) F.
Proof.
  intros Hc Hk k' r'. cbn [cache_find]. destruct (ckey_eqb k' k) eqn:E.
  - apply ckey_eqb_eq in E. subst k'. intros [= <-]. exact Hk.
  - apply Hc.
Qed.

(* generic memoization step: [bodyU]/[bodyC] are the uncached and the cached body of the invocation the key
   (pos, n, a) stands for; [unc_inv f0 n a] is [logged name false bodyU] *)
Lemma memo_sim name n a f0 (bodyU bodyC : pstate -> R) :
  (forall s, unc_inv f0 n a s = logged name false bodyU s) ->
  stable (unc_inv f0 n a) ->
  (forall f1 s, done (unc_inv f0 n a s) -> done (unc_inv f1 n a s) -> unc_inv f1 n a s = unc_inv f0 n a s) ->
  (forall s1 s2, sim s1 s2 -> done (bodyU s2) -> matches (bodyU s2) (bodyC s1)) ->
  forall s1 s2, sim s1 s2 -> done (unc_inv f0 n a s2) ->
  matches (unc_inv f0 n a s2) (logged name false (memoize toks false true n a bodyC) s1).
Proof.
  intros Hshape Hst Hfuel Hb s1 s2 Hs Hd. pose proof Hs as (Hp & Hf & Hi1 & Hi2 & Hc).
  unfold logged at 1. unfold memoize. cbn [negb]. cbn beta. destruct (cache_find (pos s1, n, a) (cache s1)) as [[tree e]|] eqn:Ec.
  - (* hit *)
    destruct (Hc _ _ Ec) as (f1 & Hv). destruct (Hv s2 (eq_sym Hp) Hi2 ltac:(lia)) as (t' & E' & Hp' & Hf' & Hi').
    cbn [fst snd] in *.
    assert (Hd1 : done (unc_inv f1 n a s2)) by (rewrite E'; discriminate).
    rewrite <- (Hfuel f1 s2 Hd Hd1). rewrite E'. cbn.
    split; [reflexivity|]. intros v [= <-]. unfold sim. cbn. repeat split; try congruence.
    exact Hc.
  - (* miss *)
    cbn [bind_r]. rewrite Hshape in Hd |- *. unfold logged in Hd |- *.
    assert (Hdb : done (bodyU s2)) by (destruct (bodyU s2) as [[w| |] s']; cbn in *; [discriminate|discriminate|exact Hd]).
    destruct (Hb s1 s2 Hs Hdb) as (Ho & Hok).
    destruct (bodyU s2) as [[w| |] s2b] eqn:EU; destruct (bodyC s1) as [oc s1b] eqn:EC; cbn [fst snd] in *; subst oc; cbn [bind_r].
    + destruct (Hok w eq_refl) as (Hpb & Hfb & Hib1 & Hib2 & Hcb).
      split; [reflexivity|]. intros v [= <-]. unfold sim. cbn.
      repeat split; try congruence.
      apply cache_valid_set; [exact Hcb|].
      (* the new entry: what the uncached invocation returns from any twin state *)
      exists f0. intros t Hpt Hit Hft. cbn [fst snd].
      assert (EUinv : unc_inv f0 n a s2 = (Ok w, log {| ev_name := name; ev_before := pos s2; ev_ok := truthy w; ev_after := pos s2b; ev_lookahead := false |} s2b)).
      { rewrite Hshape. unfold logged. rewrite EU. reflexivity. }
      destruct (Hst _ _ _ EUinv Hi2) as (_ & _ & Htw).
      destruct (Htw t) as (t' & Et & Hp' & Hf' & Hi').
      { repeat split; [congruence|exact Hit|cbn; lia]. }
      exists t'. split; [exact Et|]. cbn in Hp'. repeat split; congruence.
    + split; [reflexivity|]. intros v [=].
    + exfalso. apply Hdb. reflexivity.
Qed.

Lemma stable_ext (f g : pstate -> R) : (forall s, f s = g s) -> stable g -> stable f.
Proof.
  intros He Hg s v s' H Hi. rewrite He in H. destruct (Hg _ _ _ H Hi) as (H1 & H2 & H3). split; [exact H1|]. split; [exact H2|].
  intros t Ht. destruct (H3 t Ht) as (t' & E' & Hfo). exists t'. rewrite He. split; [exact E'|exact Hfo].
Qed.

Lemma sim_log e e' s1 s2 : sim s1 s2 -> sim (log e s1) (log e' s2).
Proof. intros H. exact H. Qed.
Lemma sim_with_pos p s1 s2 : sim s1 s2 -> sim (with_pos s1 p) (with_pos s2 p).
Proof. intros (Hp & Hf & Hi1 & Hi2 & Hc). unfold sim. cbn. auto. Qed.
Lemma sim_with_pos_S s1 s2 : sim s1 s2 -> sim (with_pos s1 (S (pos s1))) (with_pos s2 (S (pos s2))).
Proof. intros H. pose proof H as (Hp & _). rewrite Hp. apply sim_with_pos. exact H. Qed.
Lemma sim_restore m s1 s2 : sim s1 s2 ->
  sim (if m_without_invalid m then with_invalid s1 b else s1) (if m_without_invalid m then with_invalid s2 b else s2).
Proof. intros (Hp & Hf & Hi1 & Hi2 & Hc). destruct (m_without_invalid m); unfold sim; cbn; auto. Qed.

Lemma matches_raise e s1 s2 : matches (Raise e, s2) (Raise e, s1).
Proof. split; [reflexivity|]. intros v [=]. Qed.
Lemma matches_ok v s1 s2 : sim s1 s2 -> matches (Ok v, s2) (Ok v, s1).
Proof. intros H. split; [reflexivity|]. intros w _. exact H. Qed.

Lemma bind_sim (rU rC : R) kU kC : matches rU rC -> done (bind_r rU kU) ->
  (forall v s1 s2, sim s1 s2 -> done (kU v s2) -> matches (kU v s2) (kC v s1)) ->
  matches (bind_r rU kU) (bind_r rC kC).
Proof.
  destruct rU as [[v| |] s2], rC as [oc s1]; intros (Ho & Hok) Hd Hk; cbn in Ho; subst oc; cbn [bind_r] in *.
  - apply Hk; [exact (Hok v eq_refl)|exact Hd].
  - apply matches_raise.
  - exfalso. apply Hd. reflexivity.
Qed.

Lemma peek_sim s1 s2 : sim s1 s2 ->
  fst (peek toks s1) = fst (peek toks s2) /\ (fst (peek toks s2) <> None -> sim (snd (peek toks s1)) (snd (peek toks s2))).
Proof.
  intros (Hp & Hf & Hi1 & Hi2 & Hc). unfold peek. rewrite Hp. destruct (nth_error toks (pos s2)); cbn; (split; [reflexivity|]).
  - intros _. unfold sim; cbn; repeat split; auto; try congruence. eapply cache_valid_mono; [|exact Hc]. lia.
  - intros H. contradiction.
Qed.

Lemma prim_tok_sim test s1 s2 : sim s1 s2 -> matches (prim_tok toks test s2) (prim_tok toks test s1).
Proof.
  intros Hs. destruct (peek_sim _ _ Hs) as (H1 & H2). unfold prim_tok.
  destruct (peek toks s1) as [o1 s1'], (peek toks s2) as [o2 s2']. cbn in H1, H2. subst o1.
  destruct o2 as [tk|]; [|apply matches_raise].
  specialize (H2 ltac:(discriminate)). destruct (test tk); apply matches_ok; [apply sim_with_pos_S|]; auto.
Qed.

Lemma diagnose_sim s1 s2 : sim s1 s2 -> fst (diagnose toks s1) = fst (diagnose toks s2).
Proof.
  intros Hs. pose proof Hs as (Hp & Hf & _). unfold diagnose. rewrite Hf. destruct (fetched s2); [|reflexivity].
  destruct (peek_sim _ _ Hs) as (H1 & _). destruct (peek toks s1) as [o1 s1'], (peek toks s2) as [o2 s2']. cbn in *. subst o1. reflexivity.
Qed.

Section Open.
Variable recC recU : string -> pstate -> R.
Hypothesis Hsim : forall n s1 s2, sim s1 s2 -> done (recU n s2) -> matches (recU n s2) (recC n s1).

Notation rcallU := (run_call K toks false false M exact_types token_dict recU).
Notation rcallC := (run_call K toks false true M exact_types token_dict recC).

Lemma logged_sim n la fU fC s1 s2 : sim s1 s2 -> done (logged n la fU s2) ->
  (done (fU s2) -> matches (fU s2) (fC s1)) -> matches (logged n la fU s2) (logged n la fC s1).
Proof.
  intros Hs Hd Hf. unfold logged in *.
  assert (Hdf : done (fU s2)) by (destruct (fU s2) as [[w| |] s']; cbn in *; [discriminate|discriminate|exact Hd]).
  destruct (Hf Hdf) as (Ho & Hok). destruct (fU s2) as [[w| |] s2'], (fC s1) as [oc s1']; cbn in Ho; subst oc.
  - apply matches_ok. apply sim_log. exact (Hok w eq_refl).
  - apply matches_raise.
  - exfalso. apply Hdf. reflexivity.
Qed.

Lemma prim_inv_sim name n a test s1 s2 :
  (forall f s, unc_inv f n a s = logged name false (prim_tok toks test) s) ->
  sim s1 s2 ->
  matches (logged name false (memoize toks false false n a (prim_tok toks test)) s2)
          (logged name false (memoize toks false true n a (prim_tok toks test)) s1).
Proof.
  intros Hshape Hs.
  assert (Hd : done (unc_inv 0 n a s2)).
  { rewrite Hshape. unfold logged, prim_tok. destruct (peek toks s2) as [[tk|] s']; [destruct (test tk)|]; discriminate. }
  assert (Heq : logged name false (memoize toks false false n a (prim_tok toks test)) s2 = unc_inv 0 n a s2)
    by (rewrite Hshape; reflexivity).
  rewrite Heq.
  apply (memo_sim name n a 0 (prim_tok toks test) (prim_tok toks test) (Hshape 0)).
  - apply (stable_ext _ _ (Hshape 0)). apply logged_stable. apply prim_tok_stable.
  - intros f1 s _ _. rewrite !Hshape. reflexivity.
  - intros t1 t2 Ht _. apply prim_tok_sim. exact Ht.
  - exact Hs.
  - exact Hd.
Qed.

Lemma run_call_sim : forall c s1 s2, sim s1 s2 -> done (rcallU c s2) -> matches (rcallU c s2) (rcallC c s1).
Proof.
  fix IH 1. intros c. destruct c as [n|a|c|positive head tail c| |c msg]; intros s1 s2 Hs Hd; cbn [run_call] in *.
  - destruct (find_meth M n) as [m|] eqn:F; [exact (Hsim n s1 s2 Hs Hd)|].
    destruct (prim_test K M n) as [test|] eqn:P; [|apply matches_raise].
    apply prim_inv_sim; [|exact Hs]. intros f s. unfold unc_inv. rewrite F, P. reflexivity.
  - destruct (py_arg a) as [lit|x]; [|apply matches_raise].
    apply prim_inv_sim; [|exact Hs]. intros f s. reflexivity.
  - apply bind_sim; [exact (IH c s1 s2 Hs (bind_done _ _ Hd))|exact Hd|].
    intros v t1 t2 Ht _. apply matches_ok. exact Ht.
  - assert (Hgen : forall t1 t2, sim t1 t2 ->
       done (logged (if positive then "positive_lookahead" else "negative_lookahead") true
         (fun st => let mark := pos st in bind_r (rcallU c st) (fun v st1 =>
            (Ok (if positive then v else if truthy v then VFalse else VTrue), with_pos st1 mark))) t2) ->
       matches
        (logged (if positive then "positive_lookahead" else "negative_lookahead") true
         (fun st => let mark := pos st in bind_r (rcallU c st) (fun v st1 =>
            (Ok (if positive then v else if truthy v then VFalse else VTrue), with_pos st1 mark))) t2)
        (logged (if positive then "positive_lookahead" else "negative_lookahead") true
         (fun st => let mark := pos st in bind_r (rcallC c st) (fun v st1 =>
            (Ok (if positive then v else if truthy v then VFalse else VTrue), with_pos st1 mark))) t1)).
    { intros t1 t2 Ht Hdt. apply logged_sim; [exact Ht|exact Hdt|]. cbn zeta. intros Hdb.
      apply bind_sim; [exact (IH c t1 t2 Ht (bind_done _ _ Hdb))|exact Hdb|].
      intros v u1 u2 Hu _. destruct Ht as (Hpt & _). rewrite Hpt. apply matches_ok. apply sim_with_pos. exact Hu. }
    destruct c as [n|a|c0|p0 h0 t0 c0| |c0 msg0]; try (exact (Hgen s1 s2 Hs Hd)).
    apply bind_sim; [exact (IH c0 s1 s2 Hs (bind_done _ _ Hd))|exact Hd|].
    intros v t1 t2 Ht Hdt. apply logged_sim; [exact Ht|exact Hdt|]. intros _.
    destruct v; try (apply matches_ok; exact Ht).
    pose proof (diagnose_sim _ _ Ht) as Hdg. destruct (diagnose toks t1) as [d1 u1], (diagnose toks t2) as [d2 u2].
    cbn in Hdg. subst d1. apply matches_raise.
  - apply matches_ok. exact Hs.
  - apply bind_sim; [exact (IH c s1 s2 Hs (bind_done _ _ Hd))|exact Hd|].
    intros v t1 t2 Ht _. destruct v; try (apply matches_ok; exact Ht).
    pose proof (diagnose_sim _ _ Ht) as Hdg. destruct (diagnose toks t1) as [d1 u1], (diagnose toks t2) as [d2 u2].
    cbn in Hdg. subst d1. apply matches_raise.
Qed.

Notation rconjsU := (run_conjs K toks false false M exact_types token_dict recU).
Notation rconjsC := (run_conjs K toks false true M exact_types token_dict recC).

(* outcome and environment agree; on a normal outcome the states are related *)
Definition matches3 (rU rC : outcome * env * pstate) : Prop :=
  fst (fst rC) = fst (fst rU) /\ snd (fst rC) = snd (fst rU) /\
  forall v, fst (fst rU) = Ok v -> sim (snd rC) (snd rU).

Lemma run_conjs_sim cs : forall e s1 s2, sim s1 s2 -> fst (fst (rconjsU cs e s2)) <> OutOfFuel ->
  matches3 (rconjsU cs e s2) (rconjsC cs e s1).
Proof.
  induction cs as [|c cs IHc]; intros e s1 s2 Hs Hd; cbn [run_conjs] in *.
  - split; [reflexivity|]. split; [reflexivity|]. intros v _. exact Hs.
  - assert (H1 : done (rcallU (cj_call c) s2)).
    { destruct (rcallU (cj_call c) s2) as [[v| |] s']; cbn in *; [discriminate|discriminate|exact Hd]. }
    destruct (run_call_sim _ _ _ Hs H1) as (Ho & Hok). revert Hd.
    destruct (rcallU (cj_call c) s2) as [[w| |] t2], (rcallC (cj_call c) s1) as [oc t1]; cbn in Ho; subst oc; intros Hd.
    + specialize (Hok w eq_refl). cbn in Hok.
      match goal with |- context [if ?b then _ else _] => destruct b eqn:B end.
      * apply IHc; [exact Hok|exact Hd].
      * split; [reflexivity|]. split; [reflexivity|]. intros v _. exact Hok.
    + split; [reflexivity|]. split; [reflexivity|]. intros v [=].
    + exfalso. apply H1. reflexivity.
Qed.

Notation raltsU := (run_alts K toks false false M aeval exact_types token_dict recU).
Notation raltsC := (run_alts K toks false true M aeval exact_types token_dict recC).

Lemma last_tok_sim s1 s2 : sim s1 s2 -> last_tok K toks s1 = last_tok K toks s2.
Proof. intros (Hp & _). unfold last_tok. rewrite Hp. reflexivity. Qed.

Lemma run_alts_sim m mark start_tok alts : forall e0 s1 s2, sim s1 s2 ->
  done (raltsU m mark start_tok b alts e0 s2) ->
  matches (raltsU m mark start_tok b alts e0 s2) (raltsC m mark start_tok b alts e0 s1).
Proof.
  induction alts as [|a alts IHa]; intros e0 s1 s2 Hs Hd; cbn [run_alts] in *.
  - apply matches_ok. apply sim_restore. exact Hs.
  - pose proof Hs as (Hp & Hf & Hi1 & Hi2 & Hc). rewrite Hi1. rewrite Hi2 in Hd |- *.
    destruct (a_guard a && negb b).
    + apply IHa; [apply sim_with_pos; exact Hs|exact Hd].
    + assert (H1 : fst (fst (rconjsU (a_conjs a) e0 s2)) <> OutOfFuel).
      { destruct (rconjsU (a_conjs a) e0 s2) as [[[v| |] e] s']; cbn in *; [discriminate|discriminate|exact Hd]. }
      destruct (run_conjs_sim _ e0 _ _ Hs H1) as (Ho & He & Hok). revert Hd.
      destruct (rconjsU (a_conjs a) e0 s2) as [[[w| |] e] t2], (rconjsC (a_conjs a) e0 s1) as [[oc ec] t1];
        cbn in Ho, He; subst oc ec; intros Hd.
      * specialize (Hok w eq_refl). cbn in Hok. destruct (truthy w).
        -- rewrite (last_tok_sim _ _ Hok). destruct (a_locations a && _); [apply matches_raise|].
           destruct (aeval (a_action a) _); [|apply matches_raise].
           apply matches_ok. apply sim_restore. exact Hok.
        -- destruct (a_has_cut a && _).
           ++ apply matches_ok. apply sim_restore. apply sim_with_pos. exact Hok.
           ++ apply IHa; [apply sim_with_pos; exact Hok|exact Hd].
      * apply matches_raise.
      * exfalso. apply H1. reflexivity.
Qed.

Notation rloopU := (run_loop K toks false false M aeval exact_types token_dict recU).
Notation rloopC := (run_loop K toks false true M aeval exact_types token_dict recC).

Lemma run_loop_sim m a : forall fuel mark start_tok children e0 s1 s2, sim s1 s2 ->
  done (rloopU fuel m a mark start_tok children e0 s2) ->
  matches (rloopU fuel m a mark start_tok children e0 s2) (rloopC fuel m a mark start_tok children e0 s1).
Proof.
  induction fuel as [|f IHf]; intros mark start_tok children e0 s1 s2 Hs Hd; cbn [run_loop] in *; [exfalso; apply Hd; reflexivity|].
  pose proof Hs as (Hp & Hf & Hi1 & Hi2 & Hc). rewrite Hi1. rewrite Hi2 in Hd |- *.
  destruct (a_guard a && negb b); [apply matches_ok; apply sim_with_pos; exact Hs|].
  assert (H1 : fst (fst (rconjsU (a_conjs a) e0 s2)) <> OutOfFuel).
  { destruct (rconjsU (a_conjs a) e0 s2) as [[[v| |] e] s']; cbn in *; [discriminate|discriminate|exact Hd]. }
  destruct (run_conjs_sim _ e0 _ _ Hs H1) as (Ho & He & Hok). revert Hd.
  destruct (rconjsU (a_conjs a) e0 s2) as [[[w| |] e] t2], (rconjsC (a_conjs a) e0 s1) as [[oc ec] t1];
    cbn in Ho, He; subst oc ec; intros Hd.
  - specialize (Hok w eq_refl). cbn in Hok. destruct (truthy w).
    + rewrite (last_tok_sim _ _ Hok). destruct (a_locations a && _); [apply matches_raise|].
      destruct (aeval (a_action a) _); [|apply matches_raise].
      destruct Hok as (Hpk & Hrest). rewrite Hpk. apply IHf; [unfold sim; tauto|exact Hd].
    + destruct (a_has_cut a && _); apply matches_ok; apply sim_with_pos; exact Hok.
  - apply matches_raise.
  - exfalso. apply H1. reflexivity.
Qed.

Lemma enter_same m (st : pstate) : wi_ok b m -> invalid st = b ->
  (if m_without_invalid m then with_invalid st false else st) = st.
Proof.
  intros [Hb0|Hm] Hi.
  - destruct (m_without_invalid m); [|reflexivity]. destruct st as [p0 f0 c0 i0 e0]; cbn in *. rewrite Hi, Hb0. reflexivity.
  - rewrite Hm. reflexivity.
Qed.

Lemma run_body_sim fuel m s1 s2 : wi_ok b m -> sim s1 s2 ->
  done (run_body K toks false false M aeval exact_types token_dict recU fuel m s2) ->
  matches (run_body K toks false false M aeval exact_types token_dict recU fuel m s2)
          (run_body K toks false true M aeval exact_types token_dict recC fuel m s1).
Proof.
  intros Hm Hs Hd. unfold run_body in *. pose proof Hs as (Hp & Hf & Hi1 & Hi2 & Hc). rewrite Hi1. rewrite Hi2 in Hd |- *.
  rewrite (enter_same m s1 Hm Hi1). rewrite (enter_same m s2 Hm Hi2) in Hd |- *. rewrite Hp.
  assert (Hgo : forall start_tok u1 u2, sim u1 u2 ->
    done (if m_loop m
     then match m_alts m with
          | [a] => match rloopU fuel m a (pos s2) start_tok [] [] u2 with
                   | (Ok v, st2) => (Ok (loop_ret m v), if m_without_invalid m then with_invalid st2 b else st2)
                   | other => other end
          | _ => (Raise XAssertion, u2) end
     else raltsU m (pos s2) start_tok b (m_alts m) [] u2) ->
    matches
    (if m_loop m
     then match m_alts m with
          | [a] => match rloopU fuel m a (pos s2) start_tok [] [] u2 with
                   | (Ok v, st2) => (Ok (loop_ret m v), if m_without_invalid m then with_invalid st2 b else st2)
                   | other => other end
          | _ => (Raise XAssertion, u2) end
     else raltsU m (pos s2) start_tok b (m_alts m) [] u2)
    (if m_loop m
     then match m_alts m with
          | [a] => match rloopC fuel m a (pos s2) start_tok [] [] u1 with
                   | (Ok v, st2) => (Ok (loop_ret m v), if m_without_invalid m then with_invalid st2 b else st2)
                   | other => other end
          | _ => (Raise XAssertion, u1) end
     else raltsC m (pos s2) start_tok b (m_alts m) [] u1)).
  { intros start_tok u1 u2 Hu Hdu. destruct (m_loop m).
    - destruct (m_alts m) as [|a [|a2 rest]]; try apply matches_raise.
      assert (H1 : done (rloopU fuel m a (pos s2) start_tok [] [] u2)).
      { destruct (rloopU fuel m a (pos s2) start_tok [] [] u2) as [[v| |] s']; cbn in *; [discriminate|discriminate|exact Hdu]. }
      destruct (run_loop_sim m a fuel _ _ _ _ _ _ Hu H1) as (Ho & Hok).
      destruct (rloopU fuel m a (pos s2) start_tok [] [] u2) as [[w| |] v2], (rloopC fuel m a (pos s2) start_tok [] [] u1) as [oc v1];
        cbn in Ho; subst oc.
      + apply matches_ok. apply sim_restore. exact (Hok w eq_refl).
      + apply matches_raise.
      + exfalso. apply H1. reflexivity.
    - apply run_alts_sim; assumption. }
  destruct (m_locations m).
  - destruct (peek_sim _ _ Hs) as (P1 & P2). destruct (peek toks s1) as [o1 u1], (peek toks s2) as [o2 u2]. cbn in P1, P2. subst o1.
    destruct o2 as [tk|]; [|apply matches_raise]. apply Hgo; [apply P2; discriminate|exact Hd].
  - apply Hgo; [exact Hs|exact Hd].
Qed.
End Open.

Lemma unc_inv_meth f n m s : find_meth M n = Some m -> unc_inv f n None s = runU f n s.
Proof. intros F. unfold unc_inv. rewrite F. reflexivity. Qed.

Theorem cache_transparent : forall fuel n s1 s2, sim s1 s2 -> done (runU fuel n s2) -> matches (runU fuel n s2) (runC fuel n s1).
Proof.
  induction fuel as [|f IH]; intros n s1 s2 Hs Hd; [exfalso; apply Hd; reflexivity|].
  cbn [run] in *. unfold run_meth in *. destruct (find_meth M n) as [m|] eqn:F; [|apply matches_raise].
  pose proof (find_meth_nolr M Hnolr _ _ F) as Hdeco.
  assert (Hbody : forall t1 t2, sim t1 t2 ->
            done (run_body K toks false false M aeval exact_types token_dict (runU f) f m t2) ->
            matches (run_body K toks false false M aeval exact_types token_dict (runU f) f m t2)
                    (run_body K toks false true M aeval exact_types token_dict (runC f) f m t1)).
  { intros t1 t2 Ht Hdt. apply run_body_sim; [|exact (find_meth_wi M b Hflag _ _ F)|exact Ht|exact Hdt].
    intros n0 u1 u2 Hu Hdu. apply IH; assumption. }
  destruct (m_deco m) eqn:D; [|contradiction|].
  - (* @memoize *)
    assert (Hshape : forall s, unc_inv (S f) n None s =
              logged n false (run_body K toks false false M aeval exact_types token_dict (runU f) f m) s).
    { intros s. rewrite (unc_inv_meth _ _ _ _ F). cbn [run]. unfold run_meth. rewrite F, D. reflexivity. }
    assert (Heq : logged n false (memoize toks false false n None (run_body K toks false false M aeval exact_types token_dict (runU f) f m)) s2
                  = unc_inv (S f) n None s2) by (rewrite Hshape; reflexivity).
    rewrite Heq in Hd |- *.
    apply (memo_sim n n None (S f) _ _ Hshape).
    + apply (stable_ext _ (runU (S f) n)); [intros s; apply (unc_inv_meth _ _ _ _ F)|]. apply run_stable; [exact Hnolr|exact Hflag].
    + intros f1 s Hd0 Hd1. rewrite !(unc_inv_meth _ _ _ _ F) in *.
      destruct (le_ge_dec f1 (S f)) as [Hle|Hge].
      * symmetry. apply (fuel_mono K toks false false M aeval exact_types token_dict f1 (S f) n Hle s Hd1).
      * apply (fuel_mono K toks false false M aeval exact_types token_dict (S f) f1 n Hge s Hd0).
    + exact Hbody.
    + exact Hs.
    + exact Hd.
  - (* @logger: no cache *)
    apply logged_sim; [exact Hs|exact Hd|]. unfold logger_wrap. cbn [negb]. intros Hdb. apply Hbody; [exact Hs|exact Hdb].
Qed.
End Sim.
