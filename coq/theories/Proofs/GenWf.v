(* The generated module is well-formed ([ir_wf], the hypothesis of the position, flag and cache-entry
   theorems) for EVERY grammar in which forced items stand only directly among the items of an
   alternative (not inside groups, optionals, repetitions, gathers or lookaheads), no repetition or
   gather is applied directly to a cut, and no rule name starts with an underscore. *)
From Coq Require Import List String Ascii NArith ZArith Bool Arith Lia.
From Pegen Require Import Base.StrUtil Base.Values Grammar.Ast Grammar.Induction Grammar.Printer Analysis.Visitor Analysis.Nullable
  Runtime.Tokenizer Sem.Peg Gen.Gen Runtime.Exec Proofs.ExecInv Proofs.GenRefs.
From Pegen Require Import Proofs.LocRun.
Import ListNotations.
Open Scope string_scope.

(* no forced item anywhere inside; repetitions and gathers not directly over a cut *)
Fixpoint nf_item (i : item) : bool :=
  match i with
  | NameLeaf _ | StringLeaf _ | Cut => true
  | Forced _ => false
  | Group r | RhsItem r => nf_rhs r
  | Opt j | PosLook j | NegLook j => nf_item j
  | Repeat0 _ j | Repeat1 _ j => negb (is_cut_item j) && nf_item j
  | Gather _ s e => negb (is_cut_item s) && negb (is_cut_item e) && nf_item s && nf_item e
  end
with nf_rhs (r : rhs) : bool :=
  match r with Rhs _ alts => (fix go (l : list alt) := match l with [] => true | a :: l' => nf_alt a && go l' end) alts end
with nf_alt (a : alt) : bool :=
  match a with Alt items _ =>
    (fix go (l : list nitem) := match l with [] => true | n :: l' => (match n with NItem _ _ _ i => nf_item i end) && go l' end) items
  end.
Definition nf_nitem (n : nitem) : bool := nf_item (ni_item n).
Lemma nf_rhs_forall id alts : nf_rhs (Rhs id alts) = forallb nf_alt alts.
Proof. cbn [nf_rhs]. induction alts as [|a l IH]; [reflexivity|]. cbn [forallb]. rewrite <- IH. reflexivity. Qed.
Lemma nf_alt_forall items act : nf_alt (Alt items act) = forallb nf_nitem items.
Proof. cbn [nf_alt]. induction items as [|n l IH]; [reflexivity|]. cbn [forallb]. rewrite <- IH. destruct n; reflexivity. Qed.

(* an item of an alternative: forced items allowed at this level only *)
Definition top_item (i : item) : bool := match i with Forced j => nf_item j | _ => nf_item i end.
Definition top_alt (a : alt) : bool := forallb (fun n => top_item (ni_item n)) (alt_items a).
Definition top_rhs (r : rhs) : bool := forallb top_alt (rhs_alts r).

Lemma nf_top i : nf_item i = true -> top_item i = true.
Proof. destruct i; cbn [nf_item top_item]; try discriminate; auto. Qed.
Lemma nf_top_alt a : nf_alt a = true -> top_alt a = true.
Proof.
  destruct a as [items act]. rewrite nf_alt_forall. unfold top_alt. cbn [alt_items]. intros H. rewrite forallb_forall in *.
  intros n Hn. apply nf_top. exact (H n Hn).
Qed.
Lemma nf_top_rhs r : nf_rhs r = true -> top_rhs r = true.
Proof.
  destruct r as [id alts]. rewrite nf_rhs_forall. unfold top_rhs. cbn [rhs_alts]. intros H. rewrite forallb_forall in *.
  intros a Ha. apply nf_top_alt. exact (H a Ha).
Qed.

(* no expect_forced anywhere in a call *)
Fixpoint cfree (c : call) : bool :=
  match c with
  | CForced _ _ => false
  | CComma c' | CLook _ _ _ c' => cfree c'
  | _ => true
  end.
Lemma cfree_wf c : cfree c = true -> call_wf c = true.
Proof. induction c; cbn; auto; try discriminate. intros H. destruct c; cbn in *; auto; discriminate. Qed.

(* the action of an alternative itself asks for LOCATIONS (python_generator: "LOCATIONS" in alt.action) *)
Definition act_loc (act : option action) : bool :=
  match act with Some ac => contains "LOCATIONS" (atext ac) | None => false end.
(* the body of a loop helper: no cut among its items, and its own action (none, or `elem`) does not ask for LOCATIONS *)
Definition no_cut_items (r : rhs) : bool :=
  match r with Rhs _ [Alt items act] => forallb (fun n => negb (is_cut_item (ni_item n))) items && negb (act_loc act) | _ => true end.
Definition todo_wf (r : rule) : Prop :=
  top_rhs (rrhs r) = true /\ (is_loop_name (rname r) = true -> no_cut_items (rrhs r) = true).
Definition WInv (st : gst) : Prop :=
  Forall todo_wf (g_todo st) /\ Forall (fun kv => cfree (snd (snd kv)) = true) (g_cache st).

Lemma WInv_same st st' : same_tc st st' -> WInv st -> WInv st'.
Proof. intros (A & B) (H1 & H2). split; [rewrite A; exact H1|rewrite B; exact H2]. Qed.
Lemma WInv_add_todo st r : WInv st -> todo_wf r -> WInv (snd (add_todo r st)).
Proof. intros (H1 & H2) Hr. split; cbn; [apply Forall_app; split; [exact H1|constructor; [exact Hr|constructor]]|exact H2]. Qed.
Lemma WInv_cache_put st id v : WInv st -> cfree (snd v) = true -> WInv (snd (cache_put id v st)).
Proof. intros (H1 & H2) Hv. split; [exact H1|]. cbn. constructor; [exact Hv|exact H2]. Qed.
Lemma WInv_cache_get st id v : WInv st -> assocN id (g_cache st) = Some v -> cfree (snd v) = true.
Proof.
  intros (_ & H2). induction (g_cache st) as [|[k w] l IH]; cbn; [discriminate|].
  inversion H2 as [|? ? Hw Hl]; subst. destruct (N.eqb id k); [intros [= <-]; exact Hw|apply IH; exact Hl].
Qed.

Lemma loop_name_tmp k : is_loop_name ("_tmp_" ++ nat_to_string k) = false.
Proof. reflexivity. Qed.
Lemma loop_name_gather k : is_loop_name ("_gather_" ++ nat_to_string k) = false.
Proof. reflexivity. Qed.

Ltac gb H := let y := fresh "y" in let s := fresh "s" in let E := fresh "E" in
  apply gbind_inv in H as (y & s & E & H).

Lemma cm_wf : forall fuel,
  (forall i st nc st', nf_item i = true -> WInv st -> cm_item fuel i st = (inl nc, st') -> WInv st' /\ cfree (snd nc) = true) /\
  (forall r st nc st', nf_rhs r = true -> WInv st -> cm_rhs fuel r st = (inl nc, st') -> WInv st' /\ cfree (snd nc) = true).
Proof.
  induction fuel as [|f [IHi IHr]]; [split; intros; discriminate|]. split.
  - intros i st nc st' Hok HI H. destruct i as [n|raw|r|j|id j|id j|id s e|j|j|j| |r]; cbn [cm_item] in H.
    + destruct (String.eqb n "SOFT_KEYWORD"); [apply gret_spec in H as (-> & ->); auto|].
      destruct (mem_str n TOKS1); [apply gret_spec in H as (-> & ->); auto|].
      destruct (mem_str n TOKS2); apply gret_spec in H as (-> & ->); auto.
    + gb H. apply gret_spec in H as (-> & ->).
      assert (Hsame : same_tc st s) by (destruct (is_identifier _); [eapply add_keyword_spec; eauto|apply gret_spec in E as (_ & ->); split; reflexivity]).
      split; [eapply WInv_same; eauto|reflexivity].
    + apply (IHr r st nc st'); auto.
    + gb H. destruct (IHi j st y s Hok HI E) as (B & C).
      destruct (endswith "," _); apply gret_spec in H as (-> & ->); (split; [exact B|exact C]).
    + (* Repeat0 *)
      cbn [nf_item] in Hok. apply andb_prop in Hok as [Hc Hj].
      gb H. apply cache_get_spec in E as (-> & ->). destruct (assocN id (g_cache st)) as [v|] eqn:EC.
      { apply gret_spec in H as (-> & ->). split; [exact HI|eapply WInv_cache_get; eauto]. }
      gb H. gb H. gb H. gb H. gb H. apply gret_spec in H as (-> & ->).
      pose proof (next_counter_spec _ _ _ E) as S1. pose proof (fresh_id_spec _ _ _ E0) as S2. pose proof (fresh_id_spec _ _ _ E1) as S3.
      apply add_todo_spec in E2. apply cache_put_spec in E3. subst s3 s2.
      split; [|reflexivity]. apply WInv_cache_put; [|reflexivity]. apply WInv_add_todo.
      * exact (WInv_same _ _ S3 (WInv_same _ _ S2 (WInv_same _ _ S1 HI))).
      * split; cbn [rrhs rname mk_rule].
        -- unfold top_rhs, top_alt. cbn. rewrite (nf_top _ Hj). reflexivity.
        -- intros _. cbn. rewrite Hc. reflexivity.
    + (* Repeat1 *)
      cbn [nf_item] in Hok. apply andb_prop in Hok as [Hc Hj].
      gb H. apply cache_get_spec in E as (-> & ->). destruct (assocN id (g_cache st)) as [v|] eqn:EC.
      { apply gret_spec in H as (-> & ->). split; [exact HI|eapply WInv_cache_get; eauto]. }
      gb H. gb H. gb H. gb H. gb H. apply gret_spec in H as (-> & ->).
      pose proof (next_counter_spec _ _ _ E) as S1. pose proof (fresh_id_spec _ _ _ E0) as S2. pose proof (fresh_id_spec _ _ _ E1) as S3.
      apply add_todo_spec in E2. apply cache_put_spec in E3. subst s3 s2.
      split; [|reflexivity]. apply WInv_cache_put; [|reflexivity]. apply WInv_add_todo.
      * exact (WInv_same _ _ S3 (WInv_same _ _ S2 (WInv_same _ _ S1 HI))).
      * split; cbn [rrhs rname mk_rule].
        -- unfold top_rhs, top_alt. cbn. rewrite (nf_top _ Hj). reflexivity.
        -- intros _. cbn. rewrite Hc. reflexivity.
    + (* Gather *)
      cbn [nf_item] in Hok. apply andb_prop in Hok as [Hok He]. apply andb_prop in Hok as [Hok Hs].
      apply andb_prop in Hok as [Hcs Hce].
      gb H. apply cache_get_spec in E as (-> & ->). destruct (assocN id (g_cache st)) as [v|] eqn:EC.
      { apply gret_spec in H as (-> & ->). split; [exact HI|eapply WInv_cache_get; eauto]. }
      gb H. gb H. gb H. gb H. gb H. gb H. gb H. gb H. gb H. gb H. gb H. apply gret_spec in H as (-> & ->).
      pose proof (next_counter_spec _ _ _ E) as S1. pose proof (next_counter_spec _ _ _ E0) as S2.
      pose proof (fresh_id_spec _ _ _ E1) as S3. pose proof (fresh_id_spec _ _ _ E2) as S4. pose proof (fresh_id_spec _ _ _ E3) as S5.
      pose proof (fresh_id_spec _ _ _ E4) as S6. pose proof (fresh_id_spec _ _ _ E5) as S7. pose proof (fresh_id_spec _ _ _ E6) as S8.
      apply add_todo_spec in E7. apply add_todo_spec in E8. apply cache_put_spec in E9. subst s10 s9 s8.
      split; [|reflexivity]. apply WInv_cache_put; [|reflexivity]. apply WInv_add_todo; [apply WInv_add_todo|].
      * exact (WInv_same _ _ S8 (WInv_same _ _ S7 (WInv_same _ _ S6 (WInv_same _ _ S5 (WInv_same _ _ S4
               (WInv_same _ _ S3 (WInv_same _ _ S2 (WInv_same _ _ S1 HI)))))))).
      * split; cbn [rrhs rname mk_rule].
        -- unfold top_rhs, top_alt. cbn. rewrite (nf_top _ Hs), (nf_top _ He). reflexivity.
        -- intros _. cbn. rewrite Hcs, Hce. reflexivity.
      * split; cbn [rrhs rname mk_rule].
        -- unfold top_rhs, top_alt. cbn. rewrite (nf_top _ He). reflexivity.
        -- rewrite loop_name_gather. discriminate.
    + gb H. destruct (IHi j st y s Hok HI E) as (B & C).
      destruct (split_call _) as [[hd tl]|err]; [|discriminate]. apply gret_spec in H as (-> & ->). split; [exact B|exact C].
    + gb H. destruct (IHi j st y s Hok HI E) as (B & C).
      destruct (split_call _) as [[hd tl]|err]; [|discriminate]. apply gret_spec in H as (-> & ->). split; [exact B|exact C].
    + discriminate.
    + apply gret_spec in H as (-> & ->). auto.
    + apply (IHr r st nc st'); auto.
  - intros r st nc st' Hok HI H. destruct r as [id alts]. cbn [cm_rhs] in H.
    gb H. apply cache_get_spec in E as (-> & ->). destruct (assocN id (g_cache st)) as [v|] eqn:EC.
    { apply gret_spec in H as (-> & ->). split; [exact HI|eapply WInv_cache_get; eauto]. }
    gb H. gb H. apply gret_spec in H as (-> & ->). apply cache_put_spec in E0. subst s0.
    assert (Hv : WInv s /\ cfree (snd y) = true).
    { assert (Hgen : (k <- next_counter ;; let name := ("_tmp_" ++ nat_to_string k)%string in
                       _ <- add_todo (mk_rule name (Rhs id alts)) ;; gret (Some name, CMeth name)) st = (inl y, s) ->
                      WInv s /\ cfree (snd y) = true).
      { intros Hg. apply gbind_inv in Hg as (k & t0 & F0 & Hg). apply gbind_inv in Hg as (u & t1 & F1 & Hg).
        apply gret_spec in Hg as (-> & ->). pose proof (next_counter_spec _ _ _ F0) as S1.
        apply add_todo_spec in F1. subst t1. split; [|reflexivity]. apply WInv_add_todo; [exact (WInv_same _ _ S1 HI)|].
        split; cbn [rrhs rname mk_rule]; [apply nf_top_rhs; exact Hok|rewrite loop_name_tmp; discriminate]. }
      destruct alts as [|[[|[i0 nm0 ty0 it0] [|n2 items]] [act|]] [|a2 alts]]; try (exact (Hgen E)).
      apply gbind_inv in E as (w & t0 & F0 & E). apply gret_spec in E as (-> & ->).
      assert (Hit : nf_item it0 = true).
      { rewrite nf_rhs_forall in Hok. cbn [forallb] in Hok. rewrite nf_alt_forall in Hok. cbn [forallb nf_nitem ni_item] in Hok.
        rewrite !andb_true_r in Hok. exact Hok. }
      destruct (IHi it0 st w _ Hit HI F0) as (B & C). split; [exact B|exact C]. }
    destruct Hv as (B & C). split; [apply WInv_cache_put; [exact B|exact C]|exact C].
Qed.

Lemma forced_wrap_wf c msg : cfree c = true ->
  call_wf (match c with CComma c0 => CComma c0 | _ => CForced c msg end) = true.
Proof.
  intros H. destruct c; try discriminate.
  - reflexivity.
  - reflexivity.
  - exact (cfree_wf (CComma c) H).
  - exact (cfree_wf (CLook positive head tail c) H).
  - reflexivity.
Qed.

Lemma cm_top_wf fuel i st nc st' : top_item i = true -> WInv st -> cm_item (S fuel) i st = (inl nc, st') ->
  WInv st' /\ call_wf (snd nc) = true.
Proof.
  intros Hok HI H. destruct i as [n|raw|r|j|id j|id j|id s e|j|j|j| |r];
    try (destruct (proj1 (cm_wf (S fuel)) _ _ _ _ Hok HI H) as (B & C); split; [exact B|apply cfree_wf; exact C]).
  cbn [top_item] in Hok. cbn [cm_item] in H.
  destruct j as [n|raw|r|j|id j|id j|id s e|j|j|j| |r]; try discriminate.
  - gb H. apply gret_spec in H as (-> & ->). destruct (proj1 (cm_wf fuel) _ _ _ _ Hok HI E) as (B & C).
    split; [exact B|]. cbn [snd call_wf]. apply cfree_wf. exact C.
  - gb H. apply gret_spec in H as (-> & ->). destruct (proj1 (cm_wf fuel) _ _ _ _ Hok HI E) as (B & C).
    split; [exact B|]. cbn [snd call_wf]. apply cfree_wf. exact C.
  - gb H. cbn [nf_item] in Hok. destruct (proj2 (cm_wf fuel) _ _ _ _ Hok HI E) as (B & C).
    destruct (snd y) eqn:Ey; apply gret_spec in H as (-> & ->); (split; [exact B|]); cbn [snd];
      match goal with |- call_wf ?X = true => first [exact (forced_wrap_wf _ _ C) | apply cfree_wf; exact C] end.
Qed.

Section EmitWf.
Variable invalid_tbl : list (string * bexp).
Variable iter_fields : list (string * list string).
Variable rs0 : list rule.
Variable nullable_rules left_rec leaders : list string.
Variable item_flag : N -> bool.

Lemma emit_item_wf n used unreachable is_gather st c st' :
  top_item (ni_item n) = true -> WInv st -> emit_item n used unreachable is_gather st = (inl c, st') ->
  WInv st' /\ call_wf (cj_call c) = true.
Proof.
  intros Hok HI H. unfold emit_item in H. apply gbind_inv in H as (nc & t0 & F0 & H).
  destruct (cm_top_wf _ _ _ _ _ Hok HI F0) as (B & C).
  match type of H with (match ?nm with _ => _ end) _ = _ => destruct nm as [x|] end.
  - destruct (String.eqb x ""); [apply gret_spec in H as (-> & ->); auto|].
    destruct (String.eqb x "cut"); [apply gret_spec in H as (-> & ->); auto|].
    apply gbind_inv in H as (x' & t1 & F1 & H). apply gret_spec in H as (-> & ->). pose proof (dedupe_spec _ _ _ _ F1) as S1.
    split; [eapply WInv_same; eauto|exact C].
  - apply gret_spec in H as (-> & ->). auto.
Qed.

Lemma emit_items_wf used unreachable is_gather : forall l st cs st',
  forallb (fun n => top_item (ni_item n)) l = true -> WInv st -> emit_items l used unreachable is_gather st = (inl cs, st') ->
  WInv st' /\ forallb (fun c => call_wf (cj_call c)) cs = true.
Proof.
  induction l as [|n l IH]; intros st cs st' Hok HI H; cbn [emit_items] in H.
  - apply gret_spec in H as (-> & ->). auto.
  - cbn [forallb] in Hok. apply andb_prop in Hok as [Hn Hl].
    apply gbind_inv in H as (c & t0 & F0 & H). apply gbind_inv in H as (cs0 & t1 & F1 & H). apply gret_spec in H as (-> & ->).
    destruct (emit_item_wf _ _ _ _ _ _ _ Hn HI F0) as (B1 & C1). destruct (IH _ _ _ Hl B1 F1) as (B2 & C2).
    split; [exact B2|]. cbn [forallb]. rewrite C1, C2. reflexivity.
Qed.

Lemma emit_alt_wf a is_loop is_gather st x st' :
  top_alt a = true -> WInv st -> emit_alt invalid_tbl iter_fields a is_loop is_gather st = (inl x, st') ->
  WInv st' /\ alt_wf x = true /\ a_has_cut x = existsb (fun n => is_cut_item (ni_item n)) (alt_items a).
Proof.
  intros Hok HI H. unfold emit_alt in H. unfold top_alt in Hok.
  apply gbind_inv in H as (u0 & t0 & F0 & H).
  assert (S0 : t0 = st).
  { match type of F0 with (match ?o with _ => _ end) _ = _ => destruct o as [ac|] end;
      [destruct (aparses ac); [apply gret_spec in F0 as (_ & ->); reflexivity|discriminate]|apply gret_spec in F0 as (_ & ->); reflexivity]. }
  subst t0.
  apply gbind_inv in H as (u1 & t1 & F1 & H). pose proof (set_locals_spec _ _ _ _ F1) as S1.
  apply gbind_inv in H as (conjs & t2 & F2 & H).
  destruct (emit_items_wf _ _ _ _ _ _ _ Hok (WInv_same _ _ S1 HI) F2) as (B & C).
  apply gbind_inv in H as (locals & t3 & F3 & H). apply get_locals_spec in F3. subst t3.
  apply gbind_inv in H as (final & t4 & F4 & H). apply gret_spec in H as (-> & ->).
  assert (S4 : t4 = t2).
  { repeat match type of F4 with
           | (match ?o with _ => _ end) _ = _ => destruct o
           | (if ?b then _ else _) _ = _ => destruct b
           | gret _ _ = _ => apply gret_spec in F4 as (_ & ->); reflexivity
           | gfail _ _ = _ => discriminate
           end. }
  subst t4. split; [exact B|]. split; [exact C|reflexivity].
Qed.

Lemma emit_alts_wf is_loop is_gather : forall l st xs st',
  forallb top_alt l = true -> WInv st -> emit_alts invalid_tbl iter_fields l is_loop is_gather st = (inl xs, st') ->
  WInv st' /\ forallb alt_wf xs = true /\
  map a_has_cut xs = map (fun a => existsb (fun n => is_cut_item (ni_item n)) (alt_items a)) l.
Proof.
  induction l as [|a l IH]; intros st xs st' Hok HI H; cbn [emit_alts] in H.
  - apply gret_spec in H as (-> & ->). auto.
  - cbn [forallb] in Hok. apply andb_prop in Hok as [Ha Hl].
    apply gbind_inv in H as (x & t0 & F0 & H). apply gbind_inv in H as (xs0 & t1 & F1 & H). apply gret_spec in H as (-> & ->).
    destruct (emit_alt_wf _ _ _ _ _ _ Ha HI F0) as (B1 & C1 & D1). destruct (IH _ _ _ Hl B1 F1) as (B2 & C2 & D2).
    split; [exact B2|]. split; [cbn [forallb]; rewrite C1, C2; reflexivity|]. cbn [map]. rewrite D1, D2. reflexivity.
Qed.

Lemma top_rhs_flatten r : top_rhs (rrhs r) = true -> top_rhs (flatten r) = true.
Proof.
  intros H. unfold flatten. destruct (is_loop_name (rname r)); [exact H|].
  destruct (rrhs r) as [id alts]. destruct alts as [|[[|[i0 nm0 ty0 it0] [|n2 items]] [act|]] [|a2 alts]]; try exact H;
    destruct it0; try exact H.
  unfold top_rhs, top_alt in H. cbn in H. rewrite !andb_true_r in H. apply nf_top_rhs. exact H.
Qed.

Lemma emit_rule_wf r st m st' : todo_wf r -> WInv st ->
  emit_rule invalid_tbl iter_fields rs0 nullable_rules left_rec leaders item_flag r st = (inl m, st') ->
  WInv st' /\ meth_wf m = true.
Proof.
  intros (Ht & Hl) HI H. unfold emit_rule in H.
  apply gbind_inv in H as (u0 & t0 & F0 & H).
  assert (S0 : t0 = st /\ (is_loop_name (rname r) = true -> exists a, rhs_alts (flatten r) = [a])).
  { destruct (is_loop_name (rname r)); [|apply gret_spec in F0 as (_ & ->); split; [reflexivity|discriminate]].
    destruct (rhs_alts (flatten r)) as [|a [|a2 l]]; try discriminate. apply gret_spec in F0 as (_ & ->). split; [reflexivity|].
    intros _. exists a. reflexivity. }
  destruct S0 as (-> & Hsingle). apply gbind_inv in H as (alts & t1 & F1 & H). apply gret_spec in H as (-> & ->).
  pose proof (top_rhs_flatten r Ht) as Hb.
  destruct (emit_alts_wf _ _ _ _ _ _ Hb HI F1) as (B & C & D). split; [exact B|].
  unfold meth_wf. cbn [m_alts m_loop]. rewrite C. cbn [andb].
  destruct (is_loop_name (rname r)) eqn:L; [|reflexivity].
  destruct (Hsingle eq_refl) as (a & Ea). specialize (Hl eq_refl).
  assert (Hfl : flatten r = rrhs r) by (unfold flatten; rewrite L; reflexivity).
  rewrite Hfl in Ea, D. destruct (rrhs r) as [id alts0]. cbn [rhs_alts] in Ea, D. subst alts0.
  destruct a as [items act]. cbn [no_cut_items] in Hl. apply andb_prop in Hl as [Hl _]. destruct alts as [|x [|x2 l]]; cbn [map] in D; try discriminate.
  injection D as D. cbn [forallb]. rewrite D. cbn [alt_items]. rewrite andb_true_r.
  apply negb_true_iff. apply not_true_is_false. intros He. apply existsb_exists in He as (n & Hn & Hc).
  rewrite forallb_forall in Hl. specialize (Hl n Hn). rewrite Hc in Hl. discriminate.
Qed.

Lemma emit_all_wf : forall fuel st ms st', WInv st ->
  emit_all invalid_tbl iter_fields rs0 nullable_rules left_rec leaders item_flag fuel st = (inl ms, st') ->
  forallb meth_wf ms = true.
Proof.
  induction fuel as [|f IH]; intros st ms st' HI H; cbn [emit_all] in H; [discriminate|].
  apply gbind_inv in H as (o & t0 & F0 & H). apply pop_todo_spec in F0. destruct o as [r|].
  - destruct F0 as (Et & Ec).
    apply gbind_inv in H as (m & t1 & F1 & H). apply gbind_inv in H as (ms0 & t2 & F2 & H). apply gret_spec in H as (-> & ->).
    destruct HI as (H1 & H2). rewrite Et in H1. inversion H1 as [|? ? Hr Hrest]; subst.
    assert (HI0 : WInv t0) by (split; [exact Hrest|rewrite Ec; exact H2]).
    destruct (emit_rule_wf r t0 m t1 Hr HI0 F1) as (B1 & C1).
    cbn [forallb]. rewrite C1. cbn [andb]. exact (IH _ _ _ B1 F2).
  - apply gret_spec in H as (-> & ->). reflexivity.
Qed.
(* ---- LOCATIONS: which emitted alternatives ask for them, and that their method captures the start (C15) ---- *)
Lemma contains_loc_unreachable : contains "LOCATIONS" "UNREACHABLE" = false.
Proof. reflexivity. Qed.
Lemma contains_loc_empty : contains "LOCATIONS" "" = false.
Proof. reflexivity. Qed.

Lemma emit_alt_loc a is_loop is_gather st x st' :
  emit_alt invalid_tbl iter_fields a is_loop is_gather st = (inl x, st') -> a_locations x = act_loc (alt_action a).
Proof.
  intros H. unfold emit_alt in H.
  apply gbind_inv in H as (u0 & t0 & F0 & H).
  apply gbind_inv in H as (u1 & t1 & F1 & H).
  apply gbind_inv in H as (conjs & t2 & F2 & H).
  apply gbind_inv in H as (locals & t3 & F3 & H).
  apply gbind_inv in H as (final & t4 & F4 & H). apply gret_spec in H as (-> & ->).
  cbn [a_locations]. unfold act_loc.
  destruct (alt_action a) as [ac|]; [destruct (String.eqb (atext ac) "") eqn:Ee|].
  - apply String.eqb_eq in Ee. rewrite Ee.
    destruct (negb is_gather && has_invalid_alt invalid_tbl iter_fields a); reflexivity.
  - reflexivity.
  - destruct (negb is_gather && has_invalid_alt invalid_tbl iter_fields a); reflexivity.
Qed.

Lemma emit_alts_loc is_loop is_gather : forall l st xs st',
  emit_alts invalid_tbl iter_fields l is_loop is_gather st = (inl xs, st') ->
  map a_locations xs = map (fun a => act_loc (alt_action a)) l.
Proof.
  induction l as [|a l IH]; intros st xs st' H; cbn [emit_alts] in H.
  - apply gret_spec in H as (-> & ->). reflexivity.
  - apply gbind_inv in H as (x & t0 & F0 & H). apply gbind_inv in H as (xs0 & t1 & F1 & H). apply gret_spec in H as (-> & ->).
    cbn [map]. rewrite (emit_alt_loc _ _ _ _ _ _ F0), (IH _ _ _ F1). reflexivity.
Qed.

Lemma existsb_via_map {A} (f : A -> bool) (l : list A) : existsb f l = existsb (fun b : bool => b) (map f l).
Proof. induction l as [|a l IH]; cbn; [reflexivity|rewrite IH; reflexivity]. Qed.

(* an alternative whose own action asks for LOCATIONS makes alts_uses_locations true *)
Lemma own_loc_uses id alts : existsb (fun a => act_loc (alt_action a)) alts = true -> uses_loc_rhs (Rhs id alts) = true.
Proof.
  cbn [uses_loc_rhs]. induction alts as [|a alts IH]; cbn [existsb]; [discriminate|].
  intros H. apply orb_prop in H as [H|H].
  - destruct a as [items act]. cbn [alt_action] in H. cbn [uses_loc_alt]. unfold act_loc in H. rewrite H. reflexivity.
  - rewrite (IH H). apply orb_true_r.
Qed.

Lemma uses_loc_flatten r : uses_loc_rhs (flatten r) = true -> uses_loc_rhs (rrhs r) = true.
Proof.
  intros H. unfold flatten in H. destruct (is_loop_name (rname r)); [exact H|].
  destruct (rrhs r) as [id alts]. destruct alts as [|[[|[i0 nm0 ty0 it0] [|n2 items]] [act|]] [|a2 alts]]; try exact H;
    destruct it0; try exact H.
  cbn. cbn in H. rewrite H. reflexivity.
Qed.

Lemma emit_rule_loc r st m st' : todo_wf r ->
  emit_rule invalid_tbl iter_fields rs0 nullable_rules left_rec leaders item_flag r st = (inl m, st') ->
  meth_loc_ok m = true.
Proof.
  intros (Ht & Hl) H. unfold emit_rule in H.
  apply gbind_inv in H as (u0 & t0 & F0 & H).
  assert (S0 : is_loop_name (rname r) = true -> exists a, rhs_alts (flatten r) = [a]).
  { destruct (is_loop_name (rname r)); [|discriminate].
    destruct (rhs_alts (flatten r)) as [|a [|a2 l]]; try discriminate. intros _. exists a. reflexivity. }
  apply gbind_inv in H as (alts & t1 & F1 & H). apply gret_spec in H as (-> & ->).
  pose proof (emit_alts_loc _ _ _ _ _ _ F1) as D.
  unfold meth_loc_ok. cbn [m_alts m_loop m_locations].
  assert (E : existsb a_locations alts = existsb (fun a => act_loc (alt_action a)) (rhs_alts (flatten r))).
  { rewrite (existsb_via_map a_locations alts), D, <- existsb_via_map. reflexivity. }
  rewrite E.
  destruct (existsb (fun a => act_loc (alt_action a)) (rhs_alts (flatten r))) eqn:X; [|reflexivity].
  destruct (is_loop_name (rname r)) eqn:L.
  - exfalso. destruct (S0 eq_refl) as (a & Ea). specialize (Hl eq_refl).
    assert (Hfl : flatten r = rrhs r) by (unfold flatten; rewrite L; reflexivity).
    rewrite Hfl in Ea, X. destruct (rrhs r) as [id alts0]. cbn [rhs_alts] in Ea, X. subst alts0.
    destruct a as [items act]. cbn [no_cut_items] in Hl. apply andb_prop in Hl as [_ Hl].
    cbn [existsb alt_action] in X. rewrite orb_false_r in X. rewrite X in Hl. discriminate.
  - rewrite andb_true_r. apply uses_loc_flatten.
    destruct (flatten r) as [id alts0]. cbn [rhs_alts] in X. apply own_loc_uses. exact X.
Qed.

Lemma emit_all_loc : forall fuel st ms st', WInv st ->
  emit_all invalid_tbl iter_fields rs0 nullable_rules left_rec leaders item_flag fuel st = (inl ms, st') ->
  forallb meth_loc_ok ms = true.
Proof.
  induction fuel as [|f IH]; intros st ms st' HI H; cbn [emit_all] in H; [discriminate|].
  apply gbind_inv in H as (o & t0 & F0 & H). apply pop_todo_spec in F0. destruct o as [r|].
  - destruct F0 as (Et & Ec).
    apply gbind_inv in H as (m & t1 & F1 & H). apply gbind_inv in H as (ms0 & t2 & F2 & H). apply gret_spec in H as (-> & ->).
    destruct HI as (H1 & H2). rewrite Et in H1. inversion H1 as [|? ? Hr Hrest]; subst.
    assert (HI0 : WInv t0) by (split; [exact Hrest|rewrite Ec; exact H2]).
    destruct (emit_rule_wf r t0 m t1 Hr HI0 F1) as (B1 & _).
    cbn [forallb]. rewrite (emit_rule_loc r t0 m t1 Hr F1). cbn [andb]. exact (IH _ _ _ B1 F2).
  - apply gret_spec in H as (-> & ->). reflexivity.
Qed.
End EmitWf.

(* forced items only directly among the items of rule alternatives, no repetition of a cut, no underscore rule names *)
Definition grammar_shape_ok (g : grammar) : bool :=
  forallb (fun r => top_rhs (rrhs r) && negb (startswith "_" (rname r))) (rules g).

Lemma loop_name_underscore n : is_loop_name n = true -> startswith "_" n = true.
Proof.
  unfold is_loop_name, startswith. destruct n as [|c n']; cbn [String.prefix]; [discriminate|].
  destruct (ascii_dec "_"%char c); [intros _; destruct n'; reflexivity|discriminate].
Qed.

Theorem generated_ir_wf : forall invalid_tbl iter_fields pre suf file fb g an M,
  grammar_shape_ok g = true ->
  generate invalid_tbl iter_fields pre suf file fb g an = inl M -> ir_wf M = true.
Proof.
  intros tbl itf pre suf file fb g an M Hok H. unfold generate in H.
  match type of H with (match ?e with _ => _ end) = _ => destruct e as [[ms|err] st] eqn:EA end; [|discriminate].
  injection H as <-. unfold ir_wf. cbn [i_meths].
  eapply emit_all_wf; [|exact EA]. split; cbn; [|constructor].
  apply Forall_forall. intros r Hr. unfold grammar_shape_ok in Hok. rewrite forallb_forall in Hok. specialize (Hok r Hr).
  apply andb_prop in Hok as [H1 H2]. split; [exact H1|]. intros Hl. apply loop_name_underscore in Hl. rewrite Hl in H2. discriminate.
Qed.

(* C15: in the module generated from EVERY grammar of that shape, a method one of whose alternatives asks for LOCATIONS
   captures the start position at its entry and is not a loop helper -- the hypotheses of the interpreter-level theorem
   (Proofs/LocRun.v) hold of every method of every generated parser. *)
Theorem generated_loc_ok : forall invalid_tbl iter_fields pre suf file fb g an M,
  grammar_shape_ok g = true ->
  generate invalid_tbl iter_fields pre suf file fb g an = inl M -> forallb meth_loc_ok (i_meths M) = true.
Proof.
  intros tbl itf pre suf file fb g an M Hok H. unfold generate in H.
  match type of H with (match ?e with _ => _ end) = _ => destruct e as [[ms|err] st] eqn:EA end; [|discriminate].
  injection H as <-. cbn [i_meths].
  eapply emit_all_loc; [|exact EA]. split; cbn; [|constructor].
  apply Forall_forall. intros r Hr. unfold grammar_shape_ok in Hok. rewrite forallb_forall in Hok. specialize (Hok r Hr).
  apply andb_prop in Hok as [H1 H2]. split; [exact H1|]. intros Hl. apply loop_name_underscore in Hl. rewrite Hl in H2. discriminate.
Qed.
