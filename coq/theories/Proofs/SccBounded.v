(* Exhaustive small-scope check of the path-based SCC model against mutual reachability,
   evaluated inside the kernel (vm_compute).  The bounds are part of every statement. *)
From Coq Require Import List NArith Arith Bool.
From Pegen Require Import Analysis.Scc.
Import ListNotations.
Local Open Scope list_scope.

Definition ngraph := graph nat.
Definition nsccs := sccs nat Nat.eqb.
Definition nmem := vmem nat Nat.eqb.
Definition nsuccs := succs nat Nat.eqb.

(* specification: reachability in at most k steps *)
Fixpoint reach (k : nat) (g : ngraph) (a b : nat) : bool :=
  match k with
  | O => Nat.eqb a b
  | S k' => Nat.eqb a b || existsb (fun c => reach k' g c b) (nsuccs g a)
  end.
Definition same_scc n g a b := reach n g a b && reach n g b a.

(* the yielded components form a partition of the vertices into mutual-reachability classes *)
Definition check (n : nat) (vs : list nat) (g : ngraph) : bool :=
  let r := nsccs vs g in
  forallb (fun v => Nat.eqb (List.length (filter (fun c => nmem v c) r)) 1) (seq 0 n) &&
  Nat.eqb (List.length (concat r)) n &&
  forallb (fun c => match c with
                    | [] => false
                    | a :: _ => forallb (fun v => Bool.eqb (nmem v c) (same_scc n g a v)) (seq 0 n)
                    end) r.

(* all permutations of a list *)
Fixpoint inserts (x : nat) (l : list nat) : list (list nat) :=
  match l with
  | [] => [[x]]
  | y :: l' => (x :: l) :: map (cons y) (inserts x l')
  end.
Fixpoint perms (l : list nat) : list (list nat) :=
  match l with [] => [[]] | x :: l' => flat_map (inserts x) (perms l') end.

(* adjacency of vertex i in graph number m on n vertices: edge i->j iff bit (i*n+j) of m *)
Definition adj_of (n : nat) (m : N) (i : nat) : list nat :=
  filter (fun j => N.testbit m (N.of_nat (i * n + j))) (seq 0 n).

(* all graphs whose adjacency lists are arbitrary orderings of the edge sets of graph m *)
Fixpoint orderings (n : nat) (m : N) (vs : list nat) : list ngraph :=
  match vs with
  | [] => [[]]
  | i :: vs' => flat_map (fun rest => map (fun a => (i, a) :: rest) (perms (adj_of n m i))) (orderings n m vs')
  end.

Fixpoint allN (k : nat) (f : N -> bool) (from : N) : bool :=
  match k with O => true | S k' => f from && allN k' f (from + 1) end.

(* every digraph on n vertices (self-loops included), every vertex order, every adjacency order *)
Definition check_all_orders (n : nat) (ngraphs : nat) : bool :=
  allN ngraphs (fun m =>
    forallb (fun vs => forallb (fun g => check n vs g) (orderings n m vs)) (perms (seq 0 n))) 0.

(* every digraph on n vertices with increasing and decreasing adjacency order, every vertex order *)
Definition check_two_orders (n : nat) (ngraphs : nat) : bool :=
  allN ngraphs (fun m =>
    forallb (fun vs =>
      check n vs (map (fun i => (i, adj_of n m i)) vs) &&
      check n vs (map (fun i => (i, rev (adj_of n m i))) vs)) (perms (seq 0 n))) 0.

Theorem scc_correct_1 : check_all_orders 1 2 = true.
Proof. vm_compute. reflexivity. Qed.
Theorem scc_correct_2 : check_all_orders 2 16 = true.
Proof. vm_compute. reflexivity. Qed.
Theorem scc_correct_3 : check_all_orders 3 512 = true.
Proof. vm_compute. reflexivity. Qed.
