(* The executable evaluator Sem/PegEval.v is sound for the reference semantics Sem/Peg.v: whatever
   it returns is derivable in the relation (instantiated with the evaluator's naming convention
   and action handling); with determinism (PegProofs.det_all) it is THE outcome. *)
From Coq Require Import List String NArith ZArith Bool Arith Lia.
From Pegen Require Import Base.StrUtil Base.Values Grammar.Ast Grammar.Printer Runtime.Tokenizer Sem.Peg Sem.PegEval
  Proofs.PegProofs.
Import ListNotations.
Open Scope string_scope.

Section S.
Variable K : kinds.
Variable rs : list rule.
Variable toks : list rtok.
Variable keywords soft_keywords : list string.
Variable aeval_str : string -> env -> option value.

(* the instance of the relation's parameters that the evaluator implements *)
Definition ev_names (a : alt) (k : nat) : option string :=
  nth k (bound_names (alt_items a) (action_used a) []) None.
Definition ev_aeval (a : alt) (vals : list value) (e : list (string * value)) (s p' : nat) : option value :=
  match action_used a, alt_action a with
  | Some _, Some ac => aeval_str (subst_action (atext ac)) (loc_bindings K toks s p' ++ e)%list
  | _, _ => Some (match vals with [v] => v | _ => VList vals end)
  end.

Notation pitem := (peg_item K rs toks keywords soft_keywords ev_aeval ev_names forced_text).
Notation pstar := (peg_star K rs toks keywords soft_keywords ev_aeval ev_names forced_text).
Notation psep := (peg_sep K rs toks keywords soft_keywords ev_aeval ev_names forced_text).
Notation pseq := (peg_seq K rs toks keywords soft_keywords ev_aeval ev_names forced_text).
Notation palts := (peg_alts K rs toks keywords soft_keywords ev_aeval ev_names forced_text).
Notation evf := (ev K rs toks keywords soft_keywords aeval_str).

Definition sound (g : goal) (res : gres) : Prop :=
  match g, res with
  | GItem i p, RItem r => pitem i p r
  | GAlts alts p, RItem r => palts alts p r
  | GStar i p, RList r => pstar i p r
  | GSep s e p, RList r => psep s e p r
  | GSeq ns p vals e cut, RSeq r =>
      forall a k, (forall j n nm, nth_error ns j = Some (n, nm) -> ev_names a (k + j) = nm) ->
      pseq a k (map fst ns) p vals e cut r
  | _, _ => False
  end.

Lemma bound_names_length items used : forall seen, List.length (bound_names items used seen) = List.length items.
Proof.
  induction items as [|n l IH]; intros seen; cbn [bound_names]; [reflexivity|].
  destruct (base_name n); [|cbn; rewrite IH; reflexivity].
  destruct (_ && _); cbn [List.length]; rewrite IH; reflexivity.
Qed.

Lemma map_fst_combine {A B} (l : list A) (m : list B) : List.length m = List.length l -> map fst (combine l m) = l.
Proof.
  revert m. induction l as [|x l IH]; intros [|y m] H; cbn in *; try discriminate; [reflexivity|].
  f_equal. apply IH. lia.
Qed.

Lemma nth_error_combine {A B} (l : list A) (m : list B) j x y :
  nth_error (combine l m) j = Some (x, y) -> nth_error m j = Some y.
Proof.
  revert m j. induction l as [|a l IH]; intros [|b m] [|j]; cbn; try discriminate.
  - intros [= _ <-]. reflexivity.
  - apply IH.
Qed.

Theorem ev_sound : forall fuel g res, evf fuel g = Some res -> sound g res.
Proof.
  induction fuel as [|f IH]; intros g res H; [discriminate|].
  cbn [ev] in H. destruct g as [i p|alts p|ns p vals e cut|i p|s e p].
  - (* items *)
    destruct i.
    + (* NameLeaf *)
      destruct (find_rule rs n) as [r|] eqn:Er.
      * pose proof (IH _ _ H) as Hs. destruct res; try contradiction. cbn [sound] in *. eapply P_rule; eauto.
      * destruct (kind_match K keywords soft_keywords n _) eqn:Ek; [|discriminate].
        injection H as <-. cbn [sound].
        assert (Hall : forall t, kind_match K keywords soft_keywords n t
                                 = Some (match kind_match K keywords soft_keywords n t with Some b => b | None => false end)).
        { intros t. unfold kind_match in *.
          repeat match goal with |- context [if String.eqb n ?s then _ else _] => destruct (String.eqb n s); [reflexivity|] end.
          discriminate. }
        apply (P_token K rs toks keywords soft_keywords ev_aeval ev_names forced_text n p _ Er Hall).
    + injection H as <-. cbn [sound]. apply P_lit.
    + pose proof (IH _ _ H) as Hs. destruct res; try contradiction. cbn [sound] in *. apply P_group. exact Hs.
    + (* Opt *)
      destruct (evf f (GItem i p)) as [[[v p'| |m q]|?|?]|] eqn:E; try discriminate;
        pose proof (IH _ _ E) as Hs; cbn [sound] in Hs; try contradiction; injection H as <-; cbn [sound].
      * apply P_opt_some. exact Hs.
      * apply P_opt_none. exact Hs.
      * apply P_opt_err. exact Hs.
    + (* Repeat0 *)
      destruct (evf f (GStar i p)) as [[?|?|[[vs p']|[m q]]]|] eqn:E; try discriminate;
        pose proof (IH _ _ E) as Hs; cbn [sound] in Hs; injection H as <-; cbn [sound].
      * exact (P_rep0 K rs toks keywords soft_keywords ev_aeval ev_names forced_text id i p _ Hs).
      * exact (P_rep0 K rs toks keywords soft_keywords ev_aeval ev_names forced_text id i p _ Hs).
    + (* Repeat1 *)
      destruct (evf f (GStar i p)) as [[?|?|[[vs p']|[m q]]]|] eqn:E; try discriminate;
        pose proof (IH _ _ E) as Hs; cbn [sound] in Hs.
      * destruct vs as [|w ws]; injection H as <-; cbn [sound];
          exact (P_rep1 K rs toks keywords soft_keywords ev_aeval ev_names forced_text id i p _ Hs).
      * injection H as <-. cbn [sound]. exact (P_rep1 K rs toks keywords soft_keywords ev_aeval ev_names forced_text id i p _ Hs).
    + (* Gather *)
      destruct (evf f (GItem i2 p)) as [[[v p1| |m q]|?|?]|] eqn:E; try discriminate;
        pose proof (IH _ _ E) as Hs; cbn [sound] in Hs; try contradiction.
      * destruct (evf f (GSep i1 i2 p1)) as [[?|?|[[vs p']|[m q]]]|] eqn:E2; try discriminate;
          pose proof (IH _ _ E2) as Hs2; cbn [sound] in Hs2; injection H as <-; cbn [sound].
        -- exact (P_gather K rs toks keywords soft_keywords ev_aeval ev_names forced_text id i1 i2 p v p1 _ Hs Hs2).
        -- exact (P_gather K rs toks keywords soft_keywords ev_aeval ev_names forced_text id i1 i2 p v p1 _ Hs Hs2).
      * injection H as <-. cbn [sound]. apply P_gather_fail. exact Hs.
      * injection H as <-. cbn [sound]. apply P_gather_err. exact Hs.
    + (* PosLook *)
      destruct (evf f (GItem i p)) as [[[v p'| |m q]|?|?]|] eqn:E; try discriminate;
        pose proof (IH _ _ E) as Hs; cbn [sound] in Hs; try contradiction; injection H as <-; cbn [sound].
      * eapply P_pos_ok. exact Hs.
      * apply P_pos_fail. exact Hs.
      * apply P_pos_err. exact Hs.
    + (* NegLook *)
      destruct (evf f (GItem i p)) as [[[v p'| |m q]|?|?]|] eqn:E; try discriminate;
        pose proof (IH _ _ E) as Hs; cbn [sound] in Hs; try contradiction; injection H as <-; cbn [sound].
      * eapply P_neg_fail. exact Hs.
      * apply P_neg_ok. exact Hs.
      * apply P_neg_err. exact Hs.
    + (* Forced *)
      destruct (evf f (GItem i p)) as [[[v p'| |m q]|?|?]|] eqn:E; try discriminate;
        pose proof (IH _ _ E) as Hs; cbn [sound] in Hs; try contradiction; injection H as <-; cbn [sound].
      * apply P_forced_ok. exact Hs.
      * apply P_forced_fail. exact Hs.
      * apply P_forced_err. exact Hs.
    + injection H as <-. cbn [sound]. apply P_cut.
    + pose proof (IH _ _ H) as Hs. destruct res; try contradiction. cbn [sound] in *. apply P_rhsitem. exact Hs.
  - (* alternatives *)
    destruct alts as [|a rest]; [injection H as <-; cbn [sound]; apply PA_nil|].
    set (names := bound_names (alt_items a) (action_used a) []) in *.
    destruct (evf f (GSeq (combine (alt_items a) names) p [] [] false)) as [[?|[vals e p'| | |m q]|?]|] eqn:E; try discriminate;
      pose proof (IH _ _ E) as Hs; cbn [sound] in Hs; try contradiction.
    all: assert (Hseq : forall r, (forall a0 k, (forall j n nm, nth_error (combine (alt_items a) names) j = Some (n, nm) -> ev_names a0 (k + j) = nm) ->
             pseq a0 k (map fst (combine (alt_items a) names)) p [] [] false r) -> pseq a 0 (alt_items a) p [] [] false r);
      [intros r Hr; rewrite <- (map_fst_combine (alt_items a) names) at 1 by (apply bound_names_length);
       apply Hr; intros j n nm Hj; apply nth_error_combine in Hj; unfold ev_names; fold names; cbn [Nat.add];
       apply nth_error_nth; exact Hj|].
    + (* the items matched *)
      apply Hseq in Hs.
      destruct (action_used a) as [u|] eqn:Eu.
      * destruct (alt_action a) as [ac|] eqn:Ea.
        -- destruct (aeval_str _ _) as [v|] eqn:Ev; injection H as <-; cbn [sound].
           ++ eapply PA_ok; [exact Hs|]. unfold alt_value, ev_aeval. rewrite Ea, Eu. exact Ev.
           ++ eapply PA_raise; [exact Hs|]. unfold alt_value, ev_aeval. rewrite Ea, Eu. exact Ev.
        -- injection H as <-. cbn [sound]. eapply PA_ok; [exact Hs|]. unfold alt_value. rewrite Ea. reflexivity.
      * injection H as <-. cbn [sound]. eapply PA_ok; [exact Hs|]. unfold alt_value, ev_aeval. rewrite Eu.
        destruct (alt_action a); reflexivity.
    + (* failed: next alternative *)
      apply Hseq in Hs. pose proof (IH _ _ H) as Hr. destruct res; try contradiction. cbn [sound] in *. eapply PA_next; eauto.
    + apply Hseq in Hs. injection H as <-. cbn [sound]. apply PA_cut. exact Hs.
    + apply Hseq in Hs. injection H as <-. cbn [sound]. apply PA_err. exact Hs.
  - (* sequences *)
    destruct ns as [|[n nm] rest].
    + injection H as <-. cbn [sound map]. intros a k _. apply PQ_nil.
    + destruct (evf f (GItem (ni_item n) p)) as [[[v p1| |m q]|?|?]|] eqn:E; try discriminate;
        pose proof (IH _ _ E) as Hs; cbn [sound] in Hs; try contradiction.
      * pose proof (IH _ _ H) as Hr. destruct res as [?|r|?]; try contradiction. cbn [sound map fst] in *.
        intros a k Hn. eapply PQ_step; [exact Hs|].
        assert (Hk : ev_names a k = nm) by (rewrite <- (Nat.add_0_r k); apply (Hn 0 n nm); reflexivity).
        assert (Hn' : forall j n' nm', nth_error rest j = Some (n', nm') -> ev_names a (S k + j) = nm').
        { intros j n' nm' Hj. rewrite Nat.add_succ_comm. apply (Hn (S j) n' nm'). exact Hj. }
        specialize (Hr a (S k) Hn'). unfold bind_name. rewrite Hk.
        destruct nm, (is_lookahead (ni_item n)); exact Hr.
      * injection H as <-. cbn [sound map fst]. intros a k _. apply PQ_fail. exact Hs.
      * injection H as <-. cbn [sound map fst]. intros a k _. apply PQ_err. exact Hs.
  - (* star *)
    destruct (evf f (GItem i p)) as [[[v p1| |m q]|?|?]|] eqn:E; try discriminate;
      pose proof (IH _ _ E) as Hs; cbn [sound] in Hs; try contradiction.
    + destruct (evf f (GStar i p1)) as [[?|?|[[vs p']|[m q]]]|] eqn:E2; try discriminate;
        pose proof (IH _ _ E2) as Hs2; cbn [sound] in Hs2; try contradiction; injection H as <-; cbn [sound].
      * exact (PS_more K rs toks keywords soft_keywords ev_aeval ev_names forced_text i p v p1 _ Hs Hs2).
      * exact (PS_more K rs toks keywords soft_keywords ev_aeval ev_names forced_text i p v p1 _ Hs Hs2).
    + injection H as <-. cbn [sound]. apply PS_stop. exact Hs.
    + injection H as <-. cbn [sound]. apply PS_err. exact Hs.
  - (* separated *)
    destruct (evf f (GItem s p)) as [[[vs p1| |m q]|?|?]|] eqn:E; try discriminate;
      pose proof (IH _ _ E) as Hs; cbn [sound] in Hs; try contradiction.
    + destruct (evf f (GItem e p1)) as [[[v p2| |m q]|?|?]|] eqn:E2; try discriminate;
        pose proof (IH _ _ E2) as Hs2; cbn [sound] in Hs2; try contradiction.
      * destruct (evf f (GSep s e p2)) as [[?|?|[[l p']|[m q]]]|] eqn:E3; try discriminate;
          pose proof (IH _ _ E3) as Hs3; cbn [sound] in Hs3; try contradiction; injection H as <-; cbn [sound].
        -- exact (PG_more K rs toks keywords soft_keywords ev_aeval ev_names forced_text s e p vs p1 v p2 _ Hs Hs2 Hs3).
        -- exact (PG_more K rs toks keywords soft_keywords ev_aeval ev_names forced_text s e p vs p1 v p2 _ Hs Hs2 Hs3).
      * injection H as <-. cbn [sound]. eapply PG_stop_e; eauto.
      * injection H as <-. cbn [sound]. eapply PG_err_e; eauto.
    + injection H as <-. cbn [sound]. apply PG_stop_s. exact Hs.
    + injection H as <-. cbn [sound]. apply PG_err_s. exact Hs.
Qed.
End S.
