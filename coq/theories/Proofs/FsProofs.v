From Coq Require Import List String NArith Bool Arith.
From Pegen Require Import Build.FsModel.
Import ListNotations.
Open Scope string_scope.

Lemma build_cases : forall old gr f s o tr, build old gr f = (s, o, tr) ->
  (target s = target old /\ o <> Done) \/
  (exists text, gr = GenOK text /\ target s = Some text /\ (o = Done \/ o = Killed)).
Proof.
  intros old gr f s o tr. unfold build, cleanup.
  destruct gr as [text|]; [|intros [= <- <- <-]; left; split; [reflexivity|discriminate]].
  repeat match goal with
  | |- context [match hit ?f ?k with _ => _ end] => destruct (hit f k) as [[[|] ?]|]
  | |- context [if ?b then _ else _] => destruct b
  end; intros [= <- <- <-]; cbn;
  first [ left; split; [reflexivity|discriminate]
        | right; exists text; repeat split; auto ].
Qed.

