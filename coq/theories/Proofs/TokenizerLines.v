(* The line table of the tokenizer wrapper holds the real lines of the text for every line that a
   pulled token touches; get_lines answers from it (string mode) or from the file (path mode). *)
From Coq Require Import List String NArith Bool Arith Lia.
From Pegen Require Import Base.StrUtil Runtime.Tokenizer Proofs.TokenizerProofs.
Import ListNotations.

Section TL.
Variable C : tokconsts.
Variable raw0 : list rtok.
Variable text : list string.           (* the source text, by physical lines (with line ends) *)

(* tokenize's contract for TokenInfo.line: it is the text of the physical line(s) the token spans *)
Definition tok_line_ok (t : rtok) : Prop :=
  1 <= sline t /\ forall j l, nth_error (tok_lines t) j = Some l -> nth_error text (sline t + j - 1) = Some l.
Hypothesis Hwf : forall t, In t raw0 -> tok_line_ok t.

Definition sound (ls : list (nat * string)) : Prop :=
  forall n l, assoc_nat n ls = Some l -> 1 <= n /\ nth_error text (n - 1) = Some l.
Definition covers (ls : list (nat * string)) (t : rtok) : Prop :=
  forall j, j < List.length (tok_lines t) -> assoc_nat (sline t + j) ls <> None.

Lemma assoc_app k (a b : list (nat * string)) :
  assoc_nat k (a ++ b) = match assoc_nat k a with Some v => Some v | None => assoc_nat k b end.
Proof. induction a as [|[k' v] a IH]; cbn; [reflexivity|]. destruct (Nat.eqb k k'); auto. Qed.

Lemma assoc_setdefault k ls n l :
  assoc_nat k (setdefault ls n l) =
  match assoc_nat k ls with Some v => Some v | None => if Nat.eqb k n then Some l else None end.
Proof.
  unfold setdefault. destruct (assoc_nat n ls) eqn:E.
  - destruct (assoc_nat k ls) eqn:E2; [reflexivity|]. destruct (Nat.eqb k n) eqn:E3; [|reflexivity].
    apply Nat.eqb_eq in E3; subst; congruence.
  - rewrite assoc_app. destruct (assoc_nat k ls); [reflexivity|]. cbn. destruct (Nat.eqb k n); reflexivity.
Qed.

Lemma record_lines_assoc L : forall ls n0 k,
  assoc_nat k (record_lines ls n0 L) =
  match assoc_nat k ls with
  | Some v => Some v
  | None => if Nat.leb n0 k then nth_error L (k - n0) else None
  end.
Proof.
  induction L as [|l L IH]; intros ls n0 k; cbn [record_lines].
  - destruct (assoc_nat k ls); [reflexivity|]. destruct (Nat.leb n0 k); [|reflexivity].
    destruct (k - n0); reflexivity.
  - rewrite IH, assoc_setdefault. destruct (assoc_nat k ls); [reflexivity|].
    destruct (Nat.eqb k n0) eqn:E.
    + apply Nat.eqb_eq in E; subst. rewrite Nat.leb_refl, Nat.sub_diag. reflexivity.
    + apply Nat.eqb_neq in E. destruct (Nat.leb_spec (S n0) k), (Nat.leb_spec n0 k); try lia; [|reflexivity].
      replace (k - n0) with (S (k - S n0)) by lia. reflexivity.
Qed.

Notation note := (note_lines false).

Lemma note_sound ls t : sound ls -> tok_line_ok t -> sound (note ls t).
Proof.
  intros Hs [H1 H2] n l. unfold note_lines. rewrite record_lines_assoc.
  destruct (assoc_nat n ls) eqn:E; [intros [= <-]; apply (Hs _ _ E)|].
  destruct (Nat.leb (sline t) n) eqn:E1; [|discriminate]. apply Nat.leb_le in E1.
  intros H. split; [lia|]. specialize (H2 _ _ H). replace (n - 1) with (sline t + (n - sline t) - 1) by lia. exact H2.
Qed.

Lemma note_keeps ls t k : assoc_nat k ls <> None -> assoc_nat k (note ls t) <> None.
Proof.
  unfold note_lines. rewrite record_lines_assoc. destruct (assoc_nat k ls); [discriminate|congruence].
Qed.

Lemma note_covers ls t : covers (note ls t) t.
Proof.
  intros j Hj. unfold note_lines. rewrite record_lines_assoc.
  destruct (assoc_nat (sline t + j) ls); [discriminate|].
  replace (Nat.leb (sline t) (sline t + j)) with true by (symmetry; apply Nat.leb_le; lia).
  replace (sline t + j - sline t) with j by lia.
  intros H. apply nth_error_None in H. lia.
Qed.

Definition table (pre : list rtok) : list (nat * string) := fold_left note pre [].

Lemma table_sound pre : (forall t, In t pre -> tok_line_ok t) -> sound (table pre).
Proof.
  unfold table. induction pre as [|t pre IH] using rev_ind; intros H.
  - intros n l; cbn; discriminate.
  - rewrite fold_left_app; cbn. apply note_sound.
    + apply IH. intros t0 Ht0. apply H. apply in_or_app; left; exact Ht0.
    + apply H. apply in_or_app; right; left; reflexivity.
Qed.

Lemma table_covers pre t : In t pre -> covers (table pre) t.
Proof.
  unfold table. induction pre as [|t0 pre IH] using rev_ind; [intros []|].
  intros Hin. rewrite fold_left_app; cbn. apply in_app_or in Hin as [Hin|[<-|[]]].
  - intros j Hj. apply note_keeps. apply IH; assumption.
  - apply note_covers.
Qed.

(* the fetch loop extends the table by exactly the tokens it pulls *)
Lemma fetch_table s : forall p tk ls i s' p' tk' ls' ok,
  fetch C false s p tk ls i = (s', p', tk', ls', ok) ->
  exists now, s = (now ++ s')%list /\ ls' = fold_left note now ls.
Proof.
  induction s as [|t s IH]; intros p tk ls i s' p' tk' ls' ok; cbn [fetch].
  - destruct (negb (Nat.eqb i (List.length tk))); intros [= <- <- <- <- <-]; exists []; split; reflexivity.
  - destruct (negb (Nat.eqb i (List.length tk))).
    + intros [= <- <- <- <- <-]. exists []; split; reflexivity.
    + destruct (dropped C (last_opt tk) t); intros H; apply IH in H as [now [-> ->]];
        exists (t :: now); split; reflexivity.
Qed.

Definition InvL (st : tkz) : Prop := lines st = table (firstn (pulled st) raw0).

Lemma invL_init : InvL (init raw0).
Proof. reflexivity. Qed.

Lemma do_peek_invL st st' o : Inv C raw0 st -> InvL st -> do_peek C false st = (st', o) -> InvL st'.
Proof.
  intros HI HL. pose proof HI as [(pre & Hraw & Hp & Htk) Hidx _]. unfold do_peek.
  destruct (fetch C false (src st) (pulled st) (toks st) (lines st) (idx st)) as [[[[s' p'] tk'] ls'] ok] eqn:F.
  destruct (fetch_spec C false raw0 _ _ _ _ _ _ _ _ _ _ _ Hraw Hp Htk Hidx F) as (pre' & H1 & H2 & _).
  destruct (fetch_table _ _ _ _ _ _ _ _ _ _ F) as (now & Hs & Hls).
  assert (Hpre' : pre' = (pre ++ now)%list).
  { rewrite Hs in Hraw. rewrite Hraw, app_assoc in H1. now apply app_inv_tail in H1. }
  assert (HL' : ls' = table (firstn p' raw0)).
  { assert (F1 : firstn p' raw0 = pre') by (rewrite <- H2, H1; apply firstn_length_app).
    assert (F0 : firstn (pulled st) raw0 = pre) by (rewrite <- Hp, Hraw; apply firstn_length_app).
    rewrite Hls, HL, F1, F0. unfold table. rewrite Hpre', fold_left_app. reflexivity. }
  destruct ok; [destruct (nth_error tk' (idx st))|]; intros [= <- <-]; exact HL'.
Qed.

Lemma step_invL st o st' r : Inv C raw0 st -> InvL st -> step C false [] st o = (st', r) -> InvL st'.
Proof.
  intros HI HL. destruct o; cbn [step].
  - apply do_peek_invL; assumption.
  - destruct (do_peek C false st) as [st1 r1] eqn:P. pose proof (do_peek_invL _ _ _ HI HL P) as H1.
    destruct r1; intros [= <- <-]; exact H1.
  - intros [= <- <-]; exact HL.
  - destruct (Nat.eqb m (idx st)); [intros [= <- <-]; exact HL|].
    destruct (Nat.leb m (List.length (toks st))); intros [= <- <-]; exact HL.
  - destruct (toks st).
    + destruct (do_peek C false st) as [st1 r1] eqn:P. pose proof (do_peek_invL _ _ _ HI HL P) as H1.
      destruct r1; try (intros [= <- <-]; exact H1). destruct (last_opt (toks st1)); intros [= <- <-]; exact H1.
    + destruct (last_opt (r0 :: l)); intros [= <- <-]; exact HL.
  - destruct (last_non_ws C _); intros [= <- <-]; exact HL.
  - intros H. assert (st' = st); [|subst; exact HL].
    revert H. cbn. destruct (lines st); [|destruct (get_all _ ls)]; intros [= <- _]; reflexivity.
Qed.

Lemma run_invL ops : forall st0 st outs, Inv C raw0 st0 -> InvL st0 ->
  run C false [] st0 ops = (st, outs) -> InvL st.
Proof.
  induction ops as [|o ops IH]; intros st0 st outs HI HL; cbn [run].
  - intros [= <- <-]; exact HL.
  - destruct (step C false [] st0 o) as [st1 r] eqn:S1. destruct (run C false [] st1 ops) as [st2 rs] eqn:R.
    intros [= <- <-]. eapply IH; [| |exact R].
    + exact (proj1 (step_refines C false [] raw0 _ _ _ _ HI S1)).
    + eapply step_invL; eassumption.
Qed.

Lemma firstn_In {A} (l : list A) n x : In x (firstn n l) -> In x l.
Proof. revert n; induction l as [|a l IH]; intros [|n]; cbn; try tauto. intros [H|H]; [left; exact H | right; eapply IH; exact H]. Qed.

(* a line number is "seen" when some pulled token touches it *)
Definition seen (st : tkz) (n : nat) : Prop :=
  exists t j, In t (firstn (pulled st) raw0) /\ j < List.length (tok_lines t) /\ n = sline t + j.

Definition real_lines (ns : list nat) (L : list string) : Prop :=
  Forall2 (fun n l => 1 <= n /\ nth_error text (n - 1) = Some l) ns L.

Lemma get_all_table st ns : InvL st -> (forall n, In n ns -> seen st n) ->
  exists L, get_all (fun n => assoc_nat n (lines st)) ns = Some L /\ real_lines ns L.
Proof.
  intros HL. induction ns as [|n ns IH]; intros Hseen; cbn.
  - exists []. split; [reflexivity|constructor].
  - destruct IH as [L [HG HR]]; [intros; apply Hseen; right; assumption|].
    destruct (Hseen n (or_introl eq_refl)) as (t & j & Hin & Hj & ->).
    pose proof (table_covers _ _ Hin j Hj) as Hc. rewrite <- HL in Hc.
    destruct (assoc_nat (sline t + j) (lines st)) as [l|] eqn:E; [|congruence].
    rewrite HG. exists (l :: L). split; [reflexivity|]. constructor; [|exact HR].
    assert (Hs : sound (lines st)).
    { rewrite HL. apply table_sound. intros t0 Ht0. apply Hwf. eapply firstn_In; eassumption. }
    apply (Hs _ _ E).
Qed.

(* string mode: every requested line that has been seen is reported as the real line *)
Theorem get_lines_string st ns : Inv C raw0 st -> InvL st -> ns <> [] ->
  (forall n, In n ns -> seen st n) ->
  exists L, step C false [] st (GetLines ns) = (st, OLines L) /\ real_lines ns L.
Proof.
  intros HI HL Hne Hseen. destruct (get_all_table st ns HL Hseen) as [L [HG HR]].
  cbn [step]. destruct (lines st) as [|x xs] eqn:E.
  - (* an empty table cannot cover a seen line *)
    destruct ns as [|n ns]; [congruence|]. cbn in HG. destruct n; discriminate.
  - rewrite HG. exists L. split; [reflexivity|exact HR].
Qed.

(* path mode: the table stays empty and the answer comes from the file *)
Lemma path_lines_empty s : forall p tk ls i s' p' tk' ls' ok,
  fetch C true s p tk ls i = (s', p', tk', ls', ok) -> ls' = ls.
Proof.
  induction s as [|t s IH]; intros p tk ls i s' p' tk' ls' ok; cbn [fetch].
  - destruct (negb _); intros [= <- <- <- <- <-]; reflexivity.
  - destruct (negb _); [intros [= <- <- <- <- <-]; reflexivity|].
    unfold note_lines. destruct (dropped C (last_opt tk) t); apply IH.
Qed.

Definition file_line (k : nat) : option string :=
  match nth_error text k with
  | Some l => Some l
  | None => if Nat.eqb k (List.length text) then Some "" else None
  end.

Lemma get_all_file ns : (forall n, In n ns -> 1 <= n <= List.length text) ->
  exists L, get_all (fun n => match n with O => None | S k => file_line k end) ns = Some L /\ real_lines ns L.
Proof.
  induction ns as [|n ns IH]; intros H; cbn.
  - exists []. split; [reflexivity|constructor].
  - destruct IH as [L [HG HR]]; [intros; apply H; right; assumption|].
    destruct (H n (or_introl eq_refl)) as [H1 H2]. destruct n as [|k]; [lia|].
    unfold file_line at 1. destruct (nth_error text k) as [l|] eqn:E; [|apply nth_error_None in E; lia].
    rewrite HG. exists (l :: L). split; [reflexivity|]. constructor; [|exact HR].
    split; [lia|]. cbn. rewrite Nat.sub_0_r. exact E.
Qed.

Theorem get_lines_path st ns : lines st = [] ->
  (forall n, In n ns -> 1 <= n <= List.length text) ->
  exists L, step C true text st (GetLines ns) = (st, OLines L) /\ real_lines ns L.
Proof.
  intros HE Hr. destruct (get_all_file ns Hr) as [L [HG HR]]. cbn [step]. rewrite HE. unfold file_line in HG. rewrite HG.
  exists L; split; [reflexivity|exact HR].
Qed.

Theorem get_lines_string_reachable ops st outs ns :
  run C false [] (init raw0) ops = (st, outs) -> ns <> [] ->
  (forall n, In n ns -> seen st n) ->
  exists L, step C false [] st (GetLines ns) = (st, OLines L) /\ real_lines ns L.
Proof.
  intros H Hne Hseen. apply get_lines_string; auto.
  - exact (reachable_inv C false [] raw0 ops st outs H).
  - exact (run_invL ops _ _ _ (inv_init C raw0) invL_init H).
Qed.

Lemma real_lines_unique ns L L' : real_lines ns L -> real_lines ns L' -> L = L'.
Proof.
  intros H; revert L'; induction H as [|n l ns L [_ H1] _ IH]; intros L' H'.
  - inversion H'; reflexivity.
  - inversion H' as [|n' l' ns' L'' [_ Hl'] Hrest]; subst. f_equal; [congruence | apply IH; exact Hrest].
Qed.

End TL.
