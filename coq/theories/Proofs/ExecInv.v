(* Position invariant of the runtime model: every invocation that yields a falsy value leaves
   the cursor where it was, successful ones never move it backwards, lookahead helpers never
   move it, and the memo cache only ever holds entries with these properties. *)
From Coq Require Import List String NArith ZArith Bool Arith Lia.
From Pegen Require Import Base.StrUtil Base.Values Runtime.Tokenizer Sem.Peg Gen.Gen Runtime.Exec.
Import ListNotations.
Open Scope string_scope.

Section Inv.
Variable K : kinds.
Variable toks : list rtok.
Variable verbose use_cache : bool.
Variable M : ir_module.
Variable aeval : string -> env -> option value.
Variable exact_types token_dict : list (string * N).

(* every value an action produces is truthy (pegen's convention: a falsy result means failure) *)
Hypothesis Htruthy : forall text e v, aeval text e = Some v -> truthy v = true.

(* IR well-formedness: no lookahead directly over a forced item (its argument would be evaluated,
   and consume, before the helper takes its mark); loop methods have no cut of their own *)
Fixpoint call_wf (c : call) : bool :=
  match c with
  | CLook _ _ _ (CForced _ _) => false
  | CLook _ _ _ c' | CComma c' | CForced c' _ => call_wf c'
  | _ => true
  end.
Definition alt_wf (a : ialt) : bool := forallb (fun c => call_wf (cj_call c)) (a_conjs a).
Definition meth_wf (m : meth) : bool :=
  forallb alt_wf (m_alts m) && (if m_loop m then forallb (fun a => negb (a_has_cut a)) (m_alts m) else true).
Definition ir_wf : bool := forallb meth_wf (i_meths M).
Hypothesis Hwf : ir_wf = true.

Definition entry_ok (p : nat) (r : value * nat) : Prop := p <= snd r /\ (truthy (fst r) = false -> snd r = p).
Definition cache_ok (c : list (ckey * (value * nat))) : Prop :=
  forall p n a r, cache_find (p, n, a) c = Some r -> entry_ok p r.
Definition event_ok (e : event) : Prop :=
  ev_before e <= ev_after e /\ (ev_ok e = false -> ev_after e = ev_before e) /\
  (ev_lookahead e = true -> ev_after e = ev_before e).
Definition Inv (st : pstate) : Prop := cache_ok (cache st) /\ Forall event_ok (events st) /\ invalid st = false.

Definition post (st : pstate) (r : R) : Prop :=
  Inv (snd r) /\
  match fst r with Ok v => pos st <= pos (snd r) /\ (truthy v = false -> pos (snd r) = pos st) | _ => True end.
(* for computations that must not move the cursor at all *)
Definition post_still (st : pstate) (r : R) : Prop :=
  Inv (snd r) /\ match fst r with Ok _ => pos (snd r) = pos st | _ => True end.

Lemma inv_with_pos st p : Inv st -> Inv (with_pos st p).
Proof. intros H; exact H. Qed.

Lemma ckey_eqb_eq a b : ckey_eqb a b = true -> a = b.
Proof.
  destruct a as [[m1 n1] a1], b as [[m2 n2] a2]. unfold ckey_eqb. intros H.
  apply andb_prop in H as [H H3]. apply andb_prop in H as [H1 H2].
  apply Nat.eqb_eq in H1. apply String.eqb_eq in H2. subst.
  destruct a1, a2; cbn in H3; try discriminate; [apply String.eqb_eq in H3; subst|]; reflexivity.
Qed.

Lemma inv_cache_set st k v e : Inv st -> entry_ok (fst (fst k)) (v, e) -> Inv (cache_set k (v, e) st).
Proof.
  intros (Hc & He & Hi) Hk. split; [|split; auto]. cbn [cache cache_set].
  intros p n a r. cbn [cache_find]. destruct (ckey_eqb (p, n, a) k) eqn:E.
  - apply ckey_eqb_eq in E. subst k. intros [= <-]. exact Hk.
  - apply Hc.
Qed.

Lemma inv_restore st (b : bool) : Inv st -> Inv (if b then with_invalid st false else st).
Proof. intros (Hc & He & Hi). destruct b; (split; [exact Hc|split; [exact He|]]); [reflexivity|exact Hi]. Qed.

Lemma inv_log st e : Inv st -> event_ok e -> Inv (log e st).
Proof. intros (Hc & He & Hi) H. split; [exact Hc|split; [constructor; assumption|exact Hi]]. Qed.

Lemma peek_inv st t st' : Inv st -> peek toks st = (t, st') -> Inv st' /\ pos st' = pos st.
Proof. unfold peek. destruct (nth_error toks (pos st)); intros H [= <- <-]; split; auto. Qed.

Lemma showpeek_still st : Inv st -> post_still st (showpeek toks st).
Proof.
  intros H. unfold showpeek. destruct (peek toks st) as [[t|] st'] eqn:E;
    destruct (peek_inv _ _ _ H E); split; cbn; auto.
Qed.

Lemma prim_tok_post test st : Inv st -> post st (prim_tok toks test st).
Proof.
  intros H. unfold prim_tok. destruct (peek toks st) as [[t|] st'] eqn:E; destruct (peek_inv _ _ _ H E) as [HI Hp].
  - destruct (test t); split; cbn; auto.
    + split; [lia|discriminate].
    + split; [lia|auto].
  - split; cbn; auto.
Qed.

Lemma diagnose_inv st t st' : Inv st -> diagnose toks st = (t, st') -> Inv st'.
Proof.
  unfold diagnose. destruct (fetched st).
  - destruct (peek toks st) as [t0 st0] eqn:E. intros H [= <- <-]. exact (proj1 (peek_inv _ _ _ H E)).
  - intros H [= <- <-]. exact H.
Qed.

Lemma logged_post n f st : (Inv st -> post st (f st)) -> Inv st -> post st (logged n false f st).
Proof.
  intros Hf HI. specialize (Hf HI). unfold logged. destruct (f st) as [[v| |] st'] eqn:E; cbn in *; auto.
  destruct Hf as [HI' [H1 H2]]. split; cbn; [|auto].
  apply inv_log; [exact HI'|]. split; cbn; [exact H1|]. split; [exact H2|discriminate].
Qed.

Lemma logged_still n f st : (Inv st -> post_still st (f st)) -> Inv st -> post_still st (logged n true f st).
Proof.
  intros Hf HI. specialize (Hf HI). unfold logged, post_still in *. destruct (f st) as [[v| |] st'] eqn:E; cbn in *; auto.
  destruct Hf as [HI' H1]. split; cbn; [|auto].
  apply inv_log; [exact HI'|]. split; cbn; [rewrite H1; lia|]. split; intros _; exact H1.
Qed.

Lemma pre_show st : Inv st ->
  exists o st1, (if verbose then showpeek toks st else (Ok VNone, st)) = (o, st1) /\ Inv st1 /\
                (forall v, o = Ok v -> pos st1 = pos st).
Proof.
  intros HI. destruct verbose.
  - pose proof (showpeek_still st HI) as [H1 H2]. destruct (showpeek toks st) as [o st1]. exists o, st1. cbn in *.
    split; [reflexivity|split; [exact H1|]]. intros v ->. exact H2.
  - exists (Ok VNone), st. auto.
Qed.

Lemma memoize_post n a body st : (forall st, Inv st -> post st (body st)) -> Inv st ->
  post st (memoize toks verbose use_cache n a body st).
Proof.
  intros Hb HI. unfold memoize. destruct (negb use_cache); [apply Hb; exact HI|].
  destruct (cache_find (pos st, n, a) (cache st)) as [[tree endmark]|] eqn:F.
  - destruct HI as (Hc & He & Hi). destruct (Hc _ _ _ _ F) as [H1 H2]. split; cbn; [split; auto|auto].
  - destruct (pre_show st HI) as (o & st1 & Es & HI1 & Hp1). rewrite Es. unfold bind_r.
    destruct o as [v0| |]; try solve [split; cbn; auto]. specialize (Hp1 v0 eq_refl).
    specialize (Hb st1 HI1). unfold post in Hb. destruct (body st1) as [[tree| |] st2] eqn:E2; cbn in *;
      try solve [unfold post; cbn; tauto].
    destruct Hb as [HI2 [H1 H2]]. split; cbn.
    + apply inv_cache_set; [exact HI2|]. unfold entry_ok; cbn. split; [lia|intros Ht; specialize (H2 Ht); lia].
    + split; [lia|intros Ht; specialize (H2 Ht); lia].
Qed.

Lemma logger_post body st : (forall st, Inv st -> post st (body st)) -> Inv st -> post st (logger_wrap toks verbose body st).
Proof.
  intros Hb HI. unfold logger_wrap. destruct (negb verbose); [apply Hb; exact HI|].
  pose proof (showpeek_still st HI) as [H1 H2]. destruct (showpeek toks st) as [[v| |] st1]; cbn in *; try solve [split; cbn; auto].
  specialize (Hb st1 H1). unfold post in *. rewrite <- H2. exact Hb.
Qed.

(* seed growing *)
Lemma grow_post fuel : forall key mark body lastresult lastmark st,
  fst (fst key) = mark ->
  (forall st, Inv st -> post st (body st)) -> Inv st ->
  mark <= lastmark -> (truthy lastresult = false -> lastmark = mark) ->
  let r := grow fuel key mark body lastresult lastmark st in
  Inv (snd r) /\ match fst r with Ok v => mark <= pos (snd r) /\ (truthy v = false -> pos (snd r) = mark) | _ => True end.
Proof.
  induction fuel as [|f IH]; intros key mark body lastresult lastmark st Hk Hb HI Hle Hf; cbn [grow]; [split; cbn; auto|].
  specialize (Hb (with_pos st mark) (inv_with_pos _ _ HI)) as Hb1.
  unfold post in Hb1.
  destruct (body (with_pos st mark)) as [[result| |] st1] eqn:E; cbn [bind_r]; cbn in Hb1; try solve [split; cbn; tauto].
  destruct Hb1 as [HI1 [H1 H2]].
  destruct (truthy result) eqn:T; cbn [negb].
  - destruct (truthy lastresult && Nat.leb (pos st1) lastmark) eqn:L.
    + split; cbn; auto.
    + assert (Hge : mark <= pos st1) by (cbn in H1; lia).
      apply IH; [exact Hk | exact Hb | | exact Hge | congruence].
      apply inv_cache_set; [exact HI1|]. rewrite Hk. split; cbn; [lia|congruence].
  - split; cbn; auto.
Qed.

Lemma memoize_left_rec_post fuel n body st : (forall st, Inv st -> post st (body st)) -> Inv st ->
  post st (memoize_left_rec toks verbose fuel n body st).
Proof.
  intros Hb HI. unfold memoize_left_rec.
  destruct (cache_find (pos st, n, None) (cache st)) as [[tree endmark]|] eqn:F.
  - destruct HI as (Hc & He & Hi). destruct (Hc _ _ _ _ F) as [H1 H2]. cbn in H1, H2.
    destruct (truthy tree) eqn:T; split; cbn; try (split; auto); try lia; congruence.
  - pose proof (pre_show st HI) as Hs.
    destruct Hs as (o & st0 & Es & HI0 & Hp0). rewrite Es. unfold bind_r.
    destruct o as [v0| |]; try solve [split; cbn; auto]. specialize (Hp0 v0 eq_refl).
    assert (HIc : Inv (cache_set (pos st, n, None) (VNone, pos st) st0)).
    { apply inv_cache_set; [exact HI0|]. split; cbn; auto. }
    pose proof (grow_post fuel (pos st, n, None) (pos st) body VNone (pos st) _ eq_refl Hb HIc (Nat.le_refl _) (fun _ => eq_refl)) as Hg.
    cbn zeta in Hg. destruct (grow fuel (pos st, n, None) (pos st) body VNone (pos st) _) as [[tree| |] st1]; cbn in Hg; try (split; cbn; tauto).
    destruct Hg as [HI1 [H1 H2]].
    destruct (truthy tree) eqn:T; split; cbn.
    + apply inv_cache_set; [exact HI1|]. split; cbn; [lia|congruence].
    + split; [lia|congruence].
    + apply inv_cache_set; [apply inv_with_pos; exact HI1|]. split; cbn; auto.
    + auto.
Qed.

(* ---------------- the interpreter proper ---------------- *)
Section Open.
Variable rec : string -> pstate -> R.
Hypothesis Hrec : forall n st, Inv st -> post st (rec n st).

Notation rcall := (run_call K toks verbose use_cache M exact_types token_dict rec).

Lemma run_call_post c : call_wf c = true -> forall st, Inv st -> post st (rcall c st).
Proof.
  induction c as [n|a|c IH|positive head tail c IH| |c IH msg]; intros Hw st HI; cbn [run_call].
  - destruct (find_meth M n); [apply Hrec; exact HI|].
    destruct (prim_test K M n) as [test|]; [|split; cbn; auto].
    apply logged_post; [|exact HI]. intros HI'. apply memoize_post; [|exact HI']. intros; apply prim_tok_post; assumption.
  - destruct (py_arg a); [|split; cbn; auto].
    apply logged_post; [|exact HI]. intros HI'. apply memoize_post; [|exact HI']. intros; apply prim_tok_post; assumption.
  - cbn [call_wf] in Hw. specialize (IH Hw st HI). unfold bind_r. destruct (rcall c st) as [[v| |] st']; cbn in *; try tauto.
    destruct IH as [HI' [H1 H2]]. split; cbn; [exact HI'|]. split; [exact H1|discriminate].
  - (* lookahead *)
    assert (Hc : call_wf c = true /\ (forall c'' m, c <> CForced c'' m)).
    { cbn [call_wf] in Hw. destruct c; try (split; [exact Hw|intros; discriminate]). discriminate. }
    destruct Hc as [Hwc Hnf]. specialize (IH Hwc).
    assert (Hgen : post st (logged (if positive then "positive_lookahead" else "negative_lookahead") true
                    (fun st => let mark := pos st in bind_r (rcall c st) (fun v st1 =>
                       (Ok (if positive then v else if truthy v then VFalse else VTrue), with_pos st1 mark))) st)).
    { pose proof (logged_still (if positive then "positive_lookahead" else "negative_lookahead")
                    (fun st => let mark := pos st in bind_r (rcall c st) (fun v st1 =>
                       (Ok (if positive then v else if truthy v then VFalse else VTrue), with_pos st1 mark))) st) as HL.
      assert (Hs : Inv st -> post_still st (let mark := pos st in bind_r (rcall c st) (fun v st1 =>
                       (Ok (if positive then v else if truthy v then VFalse else VTrue), with_pos st1 mark)))).
      { intros HI0. specialize (IH st HI0). cbn zeta. unfold bind_r. destruct (rcall c st) as [[v| |] st1]; cbn in *; try tauto.
        destruct IH as [HI1 _]. split; cbn; auto. }
      specialize (HL Hs HI). destruct HL as [HL1 HL2]. split; [exact HL1|].
      destruct (fst (logged _ true _ st)); auto. rewrite HL2. split; [lia|auto]. }
    destruct c; try exact Hgen. exfalso. eapply Hnf; reflexivity.
  - split; cbn; [exact HI|]. split; [lia|discriminate].
  - cbn [call_wf] in Hw. specialize (IH Hw st HI). unfold bind_r. destruct (rcall c st) as [[v| |] st'] eqn:E; cbn in *; try tauto.
    destruct IH as [HI' [H1 H2]].
    destruct v; try solve [split; cbn; auto].
    destruct (diagnose toks st') as [t st''] eqn:D. split; cbn; auto. exact (diagnose_inv st' t st'' HI' D).
Qed.

Lemma run_conjs_post cs : forallb (fun c => call_wf (cj_call c)) cs = true -> forall e st, Inv st ->
  let '(o, e', st') := run_conjs K toks verbose use_cache M exact_types token_dict rec cs e st in
  Inv st' /\ match o with Ok _ => pos st <= pos st' | _ => True end.
Proof.
  induction cs as [|c cs IH]; intros Hw e st HI; cbn [run_conjs]; [split; auto|].
  cbn in Hw. apply andb_prop in Hw as [Hw1 Hw2].
  pose proof (run_call_post (cj_call c) Hw1 st HI) as Hp.
  unfold post in Hp. destruct (rcall (cj_call c) st) as [[v| |] st'] eqn:E; cbn in Hp; try solve [destruct Hp; split; auto].
  destruct Hp as [HI' [H1 _]].
  match goal with |- context [if ?b then _ else _] => destruct b end.
  - match goal with |- context [run_conjs _ _ _ _ _ _ _ _ cs ?e1 st'] => specialize (IH Hw2 e1 st' HI');
      destruct (run_conjs K toks verbose use_cache M exact_types token_dict rec cs e1 st') as [[o2 e2] st2] end.
    destruct IH as [? ?]. split; auto. destruct o2; auto. lia.
  - split; auto.
Qed.

Notation ralts := (run_alts K toks verbose use_cache M aeval exact_types token_dict rec).

Lemma run_alts_post m mark start_tok alts : forallb alt_wf alts = true ->
  forall e0 st, Inv st -> mark <= pos st ->
  let r := ralts m mark start_tok false alts e0 st in
  Inv (snd r) /\ match fst r with Ok v => mark <= pos (snd r) /\ (truthy v = false -> pos (snd r) = mark \/ alts = [] /\ pos (snd r) = pos st) | _ => True end.
Proof.
  induction alts as [|a alts IH]; intros Hw e0 st HI Hm; cbn [run_alts].
  - cbn. split; [apply inv_restore; exact HI|]. destruct (m_without_invalid m); cbn; split; auto.
  - cbn in Hw. apply andb_prop in Hw as [Hwa Hws].
    assert (Hinv_false : invalid st = false) by (destruct HI as (_ & _ & H); exact H).
    destruct (a_guard a && negb (invalid st)) eqn:G.
    + specialize (IH Hws e0 (with_pos st mark) (inv_with_pos _ _ HI) (Nat.le_refl _)). cbn zeta in IH.
      destruct (ralts m mark start_tok false alts e0 (with_pos st mark)) as [o st']; cbn in *.
      destruct IH as [? IH]; split; auto. destruct o; auto. destruct IH as [? IH]; split; auto.
      intros Hv; destruct (IH Hv) as [|[-> ?]]; auto.
    + pose proof (run_conjs_post (a_conjs a) Hwa e0 st HI) as Hp.
      destruct (run_conjs K toks verbose use_cache M exact_types token_dict rec (a_conjs a) e0 st) as [[o e] st'].
      destruct Hp as [HI' Hp]. destruct o as [v| |]; cbn; auto.
      assert (Hrest : forall s, Inv s -> Inv (if m_without_invalid m then with_invalid s false else s))
        by (intros; apply inv_restore; assumption).
      destruct (truthy v) eqn:Tv.
      * destruct (a_locations a && _); [split; cbn; auto|].
        destruct (aeval (a_action a) _) as [w|] eqn:A; [|split; cbn; auto].
        split; cbn; [apply Hrest; exact HI'|]. destruct (m_without_invalid m); cbn; (split; [lia|]);
          rewrite (Htruthy _ _ _ A); discriminate.
      * destruct (a_has_cut a && _).
        -- split; cbn; [apply Hrest; apply inv_with_pos; exact HI'|]. destruct (m_without_invalid m); cbn; split; auto.
        -- specialize (IH Hws e (with_pos st' mark) (inv_with_pos _ _ HI') (Nat.le_refl _)). cbn zeta in IH.
           destruct (ralts m mark start_tok false alts e (with_pos st' mark)) as [o2 st2]; cbn in *.
           destruct IH as [? IH]; split; auto. destruct o2; auto. destruct IH as [? IH]; split; auto.
           intros Hv; destruct (IH Hv) as [|[-> ?]]; auto.
Qed.

Notation rloop := (run_loop K toks verbose use_cache M aeval exact_types token_dict rec).

Lemma run_loop_post fuel m a : alt_wf a = true -> a_has_cut a = false ->
  forall mark0 mark start_tok children e0 st, Inv st -> mark0 <= mark -> mark <= pos st ->
  (children = [] -> mark = mark0) ->
  let r := rloop fuel m a mark start_tok children e0 st in
  Inv (snd r) /\ match fst r with Ok v => mark0 <= pos (snd r) /\ (truthy v = false -> pos (snd r) = mark0) | _ => True end.
Proof.
  intros Hw Hcut. induction fuel as [|f IH]; intros mark0 mark start_tok children e0 st HI H0 Hm Hch; cbn [run_loop]; [split; cbn; auto|].
  destruct (a_guard a && negb (invalid st)).
  - split; cbn; [exact HI|]. split; [lia|]. destruct children; [intros _; auto|discriminate].
  - pose proof (run_conjs_post (a_conjs a) Hw e0 st HI) as Hp.
    destruct (run_conjs K toks verbose use_cache M exact_types token_dict rec (a_conjs a) e0 st) as [[o e] st'].
    destruct Hp as [HI' Hp]. destruct o as [v| |]; cbn; auto.
    destruct (truthy v).
    + destruct (a_locations a && _); [split; cbn; auto|].
      destruct (aeval (a_action a) _) as [w|]; [|split; cbn; auto].
      apply IH; [exact HI' | lia | lia |]. intros H. destruct children; discriminate.
    + rewrite Hcut. cbn [andb]. split; cbn; [exact HI'|]. split; [lia|]. destruct children; [intros _; auto|discriminate].
Qed.

Lemma truthy_loop_ret m v : truthy (loop_ret m v) = truthy v.
Proof. unfold loop_ret. destruct (is_loop1_name (m_name m)); [|reflexivity]. destruct (truthy v) eqn:E; [exact E|reflexivity]. Qed.

Lemma run_body_post fuel m : meth_wf m = true -> forall st, Inv st ->
  post st (run_body K toks verbose use_cache M aeval exact_types token_dict rec fuel m st).
Proof.
  intros Hw st HI. unfold meth_wf in Hw. apply andb_prop in Hw as [Hwa Hwl].
  unfold run_body. assert (Hinv : invalid st = false) by (destruct HI as (_ & _ & H); exact H).
  set (st0 := if m_without_invalid m then with_invalid st false else st).
  assert (HI0 : Inv st0) by (subst st0; apply inv_restore; exact HI).
  assert (Hp0 : pos st0 = pos st) by (subst st0; destruct (m_without_invalid m); reflexivity).
  rewrite Hinv.
  assert (Hgo : forall start_tok st1, Inv st1 -> pos st1 = pos st0 ->
     post st ((if m_loop m
               then match m_alts m with
                    | [a] => match rloop fuel m a (pos st0) start_tok [] [] st1 with
                             | (Ok v, st2) => (Ok (loop_ret m v), if m_without_invalid m then with_invalid st2 false else st2)
                             | other => other end
                    | _ => (Raise XAssertion, st1) end
               else ralts m (pos st0) start_tok false (m_alts m) [] st1))).
  { intros start_tok st1 HI1 Hp1. destruct (m_loop m) eqn:L.
    - destruct (m_alts m) as [|a [|a2 rest]] eqn:EA; try solve [split; cbn; auto].
      cbn in Hwa, Hwl. apply andb_prop in Hwa as [Hwa _]. apply andb_prop in Hwl as [Hcut _]. apply negb_true_iff in Hcut.
      pose proof (run_loop_post fuel m a Hwa Hcut (pos st0) (pos st0) start_tok [] [] st1 HI1 (Nat.le_refl _) ltac:(lia) (fun _ => eq_refl)) as H.
      cbn zeta in H. destruct (rloop fuel m a (pos st0) start_tok [] [] st1) as [[v| |] st2]; cbn in *;
        try solve [unfold post; cbn; tauto].
      destruct H as [HI2 [H1 H2]]. split; cbn.
      + apply inv_restore; exact HI2.
      + rewrite truthy_loop_ret. destruct (m_without_invalid m); cbn; rewrite <- Hp0; auto.
    - pose proof (run_alts_post m (pos st0) start_tok (m_alts m) Hwa [] st1 HI1 ltac:(lia)) as H. cbn zeta in H.
      destruct (ralts m (pos st0) start_tok false (m_alts m) [] st1) as [[v| |] st2]; cbn in *;
        try solve [unfold post; cbn; tauto].
      destruct H as [HI2 [H1 H2]]. split; [exact HI2|]. rewrite <- Hp0. split; [exact H1|].
      cbn. intros Hv. destruct (H2 Hv) as [H|[_ H]]; [exact H|congruence]. }
  destruct (m_locations m).
  - destruct (peek toks st0) as [[t|] st1] eqn:E; destruct (peek_inv _ _ _ HI0 E) as [HI1 Hp1].
    + apply Hgo; auto.
    + split; cbn; auto.
  - apply Hgo; auto.
Qed.
End Open.

Definition good_rec (rec : string -> pstate -> R) : Prop := forall n st, Inv st -> post st (rec n st).

Lemma find_meth_wf n m : find_meth M n = Some m -> meth_wf m = true.
Proof.
  unfold find_meth. intros H. apply find_some in H as [Hin _].
  unfold ir_wf in Hwf. rewrite forallb_forall in Hwf. apply Hwf; exact Hin.
Qed.

Lemma run_meth_good fuel rec : good_rec rec ->
  good_rec (run_meth K toks verbose use_cache M aeval exact_types token_dict fuel rec).
Proof.
  intros Hrec n st HI. unfold run_meth. destruct (find_meth M n) as [m|] eqn:F; [|split; cbn; auto].
  pose proof (find_meth_wf _ _ F) as Hm.
  apply logged_post; [|exact HI]. intros HI'.
  destruct (m_deco m).
  - apply memoize_post; [|exact HI']. intros; apply run_body_post; auto.
  - apply memoize_left_rec_post; [|exact HI']. intros; apply run_body_post; auto.
  - apply logger_post; [|exact HI']. intros; apply run_body_post; auto.
Qed.

Theorem position_invariant fuel : good_rec (run K toks verbose use_cache M aeval exact_types token_dict fuel).
Proof.
  induction fuel as [|f IH]; intros n st HI; cbn [run]; [split; cbn; auto|].
  apply run_meth_good; [exact IH|exact HI].
Qed.

End Inv.
