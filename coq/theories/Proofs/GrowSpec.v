(* The growth loop of memoize_left_rec computes the limit of "re-evaluate the body with the
   previous result as the seed": if, whenever the cache holds the k-th result for the rule at the
   mark, the body produces the (k+1)-th result ending strictly later (k < n), and with the n-th
   result as seed it fails or makes no progress, then the loop returns exactly the n-th result
   and leaves the cursor at its end. *)
From Coq Require Import List String NArith Bool Arith Lia.
From Pegen Require Import Base.StrUtil Base.Values Runtime.Tokenizer Sem.Peg Gen.Gen Runtime.Exec.
Import ListNotations.

Lemma ckey_eqb_refl k : ckey_eqb k k = true.
Proof.
  destruct k as [[m n] a]. unfold ckey_eqb. rewrite Nat.eqb_refl, String.eqb_refl. cbn.
  destruct a; [apply String.eqb_refl|reflexivity].
Qed.

Lemma cache_find_set k v st : cache_find k (cache (cache_set k v st)) = Some v.
Proof. cbn. rewrite ckey_eqb_refl. reflexivity. Qed.

Section G.
Variables (key : ckey) (mark : nat) (body : pstate -> R).
Variable r : nat -> value.          (* the successive results: r 0 is the primed failure *)
Variable m : nat -> nat.            (* their end positions: m 0 = mark *)
Variable n : nat.

(* the seed visible to the body *)
Definition seeded (k : nat) (st : pstate) : Prop := cache_find key (cache st) = Some (r k, m k).

(* growing steps: with the k-th result as seed the body yields the (k+1)-th, ending strictly later *)
Hypothesis Hstep : forall k st, k < n -> seeded k st -> pos st = mark ->
  exists st', body st = (Ok (r (S k)), st') /\ pos st' = m (S k) /\ truthy (r (S k)) = true /\
              (m k < m (S k) \/ truthy (r k) = false).      (* the first result need not consume anything *)
(* the last step: failure, or no progress *)
Hypothesis Hstop : forall st, seeded n st -> pos st = mark ->
  exists v st', body st = (Ok v, st') /\ (truthy v = false \/ (truthy (r n) = true /\ pos st' <= m n)).

Theorem grow_is_iteration : forall j k fuel st,
  k + j = n -> j < fuel -> seeded k st ->
  exists st', grow fuel key mark body (r k) (m k) st = (Ok (r n), st') /\ pos st' = m n.
Proof.
  induction j as [|j IH]; intros k fuel st Hk Hf Hs.
  - assert (k = n) by lia. subst k. destruct fuel as [|f]; [lia|]. cbn [grow].
    destruct (Hstop (with_pos st mark)) as (v & st' & Hb & Hv); [exact Hs|reflexivity|].
    rewrite Hb. cbn [bind_r]. destruct Hv as [Hv|Hv].
    + rewrite Hv. cbn [negb]. eexists. split; reflexivity.
    + destruct (negb (truthy v)); [eexists; split; reflexivity|]. destruct Hv as [Ht Hv].
      apply Nat.leb_le in Hv. rewrite Hv, Ht. eexists. split; reflexivity.
  - destruct fuel as [|f]; [lia|]. cbn [grow].
    destruct (Hstep k (with_pos st mark)) as (st' & Hb & Hp & Ht & Hlt); [lia|exact Hs|reflexivity|].
    rewrite Hb. cbn [bind_r]. rewrite Ht. cbn [negb]. rewrite Hp.
    assert (E : truthy (r k) && Nat.leb (m (S k)) (m k) = false).
    { destruct Hlt as [Hlt|Hlt]; [apply Nat.leb_gt in Hlt; rewrite Hlt; apply andb_false_r|rewrite Hlt; reflexivity]. }
    rewrite E.
    apply (IH (S k) f); [lia|lia|]. unfold seeded. apply cache_find_set.
Qed.
End G.

(* the decorator as a whole (quiet mode, no entry for this rule at this position yet): it primes the
   cache with a failure, grows, and records and returns the limit *)
Theorem memoize_left_rec_is_iteration :
  forall toks name body (r : nat -> value) (m : nat -> nat) n st fuel,
  let mark := pos st in
  let key : ckey := (mark, name, None) in
  r 0 = VNone -> m 0 = mark ->
  (forall k st, k < n -> seeded key r m k st -> pos st = mark ->
     exists st', body st = (Ok (r (S k)), st') /\ pos st' = m (S k) /\ truthy (r (S k)) = true /\
                 (m k < m (S k) \/ truthy (r k) = false)) ->
  (forall st, seeded key r m n st -> pos st = mark ->
     exists v st', body st = (Ok v, st') /\ (truthy v = false \/ (truthy (r n) = true /\ pos st' <= m n))) ->
  cache_find key (cache st) = None -> n < fuel ->
  exists st', memoize_left_rec toks false fuel name body st = (Ok (r n), st')
              /\ pos st' = (if truthy (r n) then m n else mark)
              /\ cache_find key (cache st') = Some (r n, pos st').
Proof.
  intros toks name body r m n st fuel mark key Hr0 Hm0 Hstep Hstop Hnone Hf.
  unfold memoize_left_rec. fold mark. fold key. rewrite Hnone. cbn [bind_r].
  destruct (grow_is_iteration key mark body r m n Hstep Hstop n 0 fuel (cache_set key (VNone, mark) st) eq_refl Hf) as (st1 & Hg & Hp).
  { unfold seeded. rewrite Hr0, Hm0. apply cache_find_set. }
  rewrite Hr0, Hm0 in Hg. rewrite Hg. cbn [bind_r].
  eexists. split; [reflexivity|]. split.
  - destruct (truthy (r n)); [exact Hp|reflexivity].
  - apply cache_find_set.
Qed.

(* Termination of seed growing: every iteration that goes on ends strictly later than the previous
   one, and no match ends beyond the input: with more fuel than there are positions left, the loop
   itself never runs out of fuel (if the body does not). *)
Theorem grow_terminates :
  forall (L : nat) key mark body,
  (forall st, fst (body st) <> OutOfFuel) ->
  (forall st v st', body st = (Ok v, st') -> pos st' <= L) ->
  (forall st v st', body st = (Ok v, st') -> truthy v = true -> pos st <= pos st') ->
  forall d fuel lastresult lastmark st,
  (truthy lastresult = false -> lastmark <= mark) ->
  (L - lastmark) + (if truthy lastresult then 0 else 1) < d -> d <= fuel ->
  fst (grow fuel key mark body lastresult lastmark st) <> OutOfFuel.
Proof.
  intros L key mark body Hnf Hle Hmono. induction d as [|d IH]; intros fuel lastresult lastmark st Hfirst Hd Hf; [lia|].
  destruct fuel as [|f]; [lia|]. cbn [grow].
  destruct (body (with_pos st mark)) as [o st1] eqn:Eb.
  destruct o as [v| |]; cbn [bind_r fst].
  - destruct (truthy v) eqn:Tv; cbn [negb]; [|discriminate].
    destruct (truthy lastresult && Nat.leb (pos st1) lastmark) eqn:El; [discriminate|].
    pose proof (Hle _ _ _ Eb) as Hp. pose proof (Hmono _ _ _ Eb Tv) as Hm. cbn in Hm.
    apply IH; [congruence| |lia]. rewrite Tv.
    destruct (truthy lastresult) eqn:Tl.
    + cbn [andb] in El. apply Nat.leb_gt in El. lia.
    + specialize (Hfirst eq_refl). lia.
  - discriminate.
  - exfalso. apply (Hnf (with_pos st mark)). rewrite Eb. reflexivity.
Qed.
