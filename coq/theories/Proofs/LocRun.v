(* C15 at the level of the interpreter: what the action of an alternative RECEIVES as location
   information, for every module, callee behaviour, state (history) and fuel.

   - [run_alts_action] / [run_body_action]: when a (non-loop) method returns a truthy value, that value is
     what the action of one of its alternatives produced on an environment whose location names are
     built from the token peeked at method entry and from [last_tok] of the state right after that
     alternative's conjunction -- whatever earlier alternatives, lookaheads or cache replays did.
   - [last_in_range]: if the matched range [s, e) holds a token that is not layout, the scan that
     [last_tok] performs (from e downwards over the whole prefix) stops INSIDE the range, at the last
     such token.
   Composed in Props/C15.v. *)
From Coq Require Import List String NArith ZArith Bool Arith Lia.
From Pegen Require Import Base.StrUtil Base.Values Runtime.Tokenizer Sem.Peg Gen.Gen Runtime.Exec Proofs.LocProofs.
Import ListNotations.
Open Scope string_scope.

(* hypotheses of the interpreter-level theorem on a method, as a decidable predicate: a method one of whose alternatives
   asks for LOCATIONS captures the start position at its entry and is not a loop helper *)
Definition meth_loc_ok (m : meth) : bool :=
  if existsb a_locations (m_alts m) then m_locations m && negb (m_loop m) else true.

Section Range.
Variable C : tokconsts.

(* [end_token_spec] without the bound on e (a cursor is never beyond the list, but nothing here needs it) *)
Lemma end_token_spec' (toks : list rtok) (e j : nat) (t : rtok) :
  j < e -> nth_error toks j = Some t -> is_ws C t = false ->
  (forall k x, j < k < e -> nth_error toks k = Some x -> is_ws C x = true) ->
  last_non_ws C (rev (firstn e toks)) = Some t.
Proof.
  intros Hj Hn Ht Hk.
  assert (Hjl : j < List.length toks) by (apply nth_error_Some; congruence).
  destruct (Nat.le_gt_cases e (List.length toks)) as [He|He].
  - apply (end_token_spec C toks e j t); assumption.
  - rewrite firstn_all2 by lia. rewrite <- (firstn_all toks).
    apply (end_token_spec C toks (List.length toks) j t); try assumption; try lia.
    intros k x Hkr Hx. apply (Hk k x); [lia|exact Hx].
Qed.

Lemma last_in_range (toks : list rtok) (s : nat) : forall e,
  (exists j x, s <= j < e /\ nth_error toks j = Some x /\ is_ws C x = false) ->
  exists j t, s <= j < e /\ nth_error toks j = Some t /\ is_ws C t = false /\
              (forall k x, j < k < e -> nth_error toks k = Some x -> is_ws C x = true) /\
              last_non_ws C (rev (firstn e toks)) = Some t.
Proof.
  assert (H0 : forall e, (exists j x, s <= j < e /\ nth_error toks j = Some x /\ is_ws C x = false) ->
    exists j t, s <= j < e /\ nth_error toks j = Some t /\ is_ws C t = false /\
                (forall k x, j < k < e -> nth_error toks k = Some x -> is_ws C x = true)).
  { induction e as [|e IH]; intros (j & x & Hr & Hn & Hw); [lia|].
    destruct (nth_error toks e) as [y|] eqn:Ey.
    - destruct (is_ws C y) eqn:Wy.
      + assert (Hje : j <> e) by (intros ->; congruence).
        destruct IH as (j' & t & Hr' & Hn' & Hw' & Hk'); [exists j, x; repeat split; try assumption; lia|].
        exists j', t. repeat split; try assumption; try lia.
        intros k z Hkr Hz. destruct (Nat.eq_dec k e) as [->|Hne]; [congruence|].
        apply (Hk' k z); [lia|exact Hz].
      + exists e, y. repeat split; try assumption; try lia. all: try (intros k z Hkr; lia).
    - assert (Hje : j <> e) by (intros ->; congruence).
      destruct IH as (j' & t & Hr' & Hn' & Hw' & Hk'); [exists j, x; repeat split; try assumption; lia|].
      exists j', t. repeat split; try assumption; try lia.
      intros k z Hkr Hz. destruct (Nat.eq_dec k e) as [->|Hne]; [congruence|].
      apply (Hk' k z); [lia|exact Hz]. }
  intros e H. destruct (H0 e H) as (j & t & Hr & Hn & Hw & Hk).
  exists j, t. repeat split; try assumption; try lia.
  apply (end_token_spec' toks e j t); try assumption; lia.
Qed.
End Range.

Section Run.
Variable K : kinds.
Variable toks : list rtok.
Variable verbose use_cache : bool.
Variable M : ir_module.
Variable aeval : string -> env -> option value.
Variable exact_types token_dict : list (string * N).
Variable rec : string -> pstate -> R.

Notation ralts := (run_alts K toks verbose use_cache M aeval exact_types token_dict rec).
Notation rconjs := (run_conjs K toks verbose use_cache M exact_types token_dict rec).
Notation rbody := (run_body K toks verbose use_cache M aeval exact_types token_dict rec).

(* the environment the action of alternative [a] is evaluated in, [st'] being the state right after
   the conjunction of [a] succeeded and [e] the names it bound *)
Definition act_env (a : ialt) (start_tok : option rtok) (st' : pstate) (e : env) : env :=
  if a_locations a then loc_env start_tok (last_tok K toks st') e
  else match start_tok with Some _ => loc_env start_tok None e | None => e end.

(* "alternative a of the method matched from the mark to st' and its action produced v" *)
Definition matched_by (mark : nat) (start_tok : option rtok) (a : ialt) (v : value) (st' : pstate) : Prop :=
  exists e1 st1 w e,
    pos st1 = mark /\ rconjs (a_conjs a) e1 st1 = (Ok w, e, st') /\ truthy w = true /\
    aeval (a_action a) (act_env a start_tok st' e) = Some v /\
    (a_locations a = true -> exists t, last_tok K toks st' = Some t).

Lemma pos_restore (b : bool) st p : pos (if b then with_invalid st p else st) = pos st.
Proof. destruct b; reflexivity. Qed.

Lemma run_alts_action m mark start_tok prev alts : forall e0 st v st2,
  pos st = mark ->
  ralts m mark start_tok prev alts e0 st = (Ok v, st2) -> truthy v = true ->
  exists a st', In a alts /\ matched_by mark start_tok a v st' /\ pos st2 = pos st'.
Proof.
  induction alts as [|a alts IH]; intros e0 st v st2 Hp H Hv; cbn [run_alts] in H.
  - injection H as <- _. discriminate Hv.
  - destruct (a_guard a && negb (invalid st)).
    + destruct (IH e0 (with_pos st mark) v st2 eq_refl H Hv) as (a' & st' & Hin & Hm & Hq).
      exists a', st'. split; [right; exact Hin|]. split; assumption.
    + destruct (rconjs (a_conjs a) e0 st) as [[o e] st'] eqn:Ec.
      destruct o as [w| |]; try discriminate H.
      destruct (truthy w) eqn:Tw.
      * destruct (a_locations a && match last_tok K toks st' with None => true | Some _ => false end) eqn:El;
          [discriminate H|].
        fold (act_env a start_tok st' e) in H.
        destruct (aeval (a_action a) (act_env a start_tok st' e)) as [v'|] eqn:Ea; [|discriminate H].
        injection H as -> <-.
        exists a, st'. split; [left; reflexivity|]. split; [|apply pos_restore].
        exists e0, st, w, e. repeat split; try assumption.
        intros Hl. rewrite Hl in El. cbn in El. destruct (last_tok K toks st') as [t|]; [exists t; reflexivity|discriminate El].
      * destruct (a_has_cut a && match env_get e "cut" with Some c => truthy c | None => false end).
        -- injection H as <- _. discriminate Hv.
        -- destruct (IH e (with_pos st' mark) v st2 eq_refl H Hv) as (a' & st'1 & Hin & Hm & Hq).
           exists a', st'1. split; [right; exact Hin|]. split; assumption.
Qed.

(* a method that captures the start position (m_locations) and is not a loop helper *)
Theorem run_body_action fuel m st v st2 :
  m_loop m = false -> m_locations m = true ->
  rbody fuel m st = (Ok v, st2) -> truthy v = true ->
  exists t0 a st', nth_error toks (pos st) = Some t0 /\ In a (m_alts m) /\
                   matched_by (pos st) (Some t0) a v st' /\ pos st2 = pos st'.
Proof.
  intros Hl Hloc H Hv. unfold run_body in H. rewrite Hl, Hloc in H.
  set (st0 := if m_without_invalid m then with_invalid st false else st) in *.
  assert (Hp0 : pos st0 = pos st) by (subst st0; destruct (m_without_invalid m); reflexivity).
  unfold peek in H. rewrite Hp0 in H.
  destruct (nth_error toks (pos st)) as [t0|] eqn:Et; [|discriminate H].
  pose proof (fun Hs => run_alts_action _ _ _ _ _ _ _ _ _ Hs H Hv) as X.
  destruct (X eq_refl) as (a & st' & Hin & Hm & Hq).
  exists t0, a, st'. repeat split; assumption.
Qed.

(* what the four location names evaluate to in the action's environment *)
Lemma act_env_start a t0 st' e :
  env_get (act_env a (Some t0) st' e) "start_lineno" = Some (VInt (Z.of_nat (sline t0))) /\
  env_get (act_env a (Some t0) st' e) "start_col_offset" = Some (VInt (Z.of_nat (scol t0))).
Proof. unfold act_env, loc_env. destruct (a_locations a); split; reflexivity. Qed.

Lemma act_env_end a t0 st' e t : a_locations a = true -> last_tok K toks st' = Some t ->
  env_get (act_env a (Some t0) st' e) "end_lineno" = Some (VInt (Z.of_nat (eline t))) /\
  env_get (act_env a (Some t0) st' e) "end_col_offset" = Some (VInt (Z.of_nat (ecol t))).
Proof. intros Ha Hl. unfold act_env, loc_env. rewrite Ha, Hl. split; reflexivity. Qed.

End Run.
