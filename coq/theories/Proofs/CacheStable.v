(* The uncached, quiet interpreter (use_cache = false, verbose = false, no left-recursive leader)
   reads its state only through the position: a successful invocation repeated from any state at
   the same position that has already fetched as far gives the same value and end position and
   fetches nothing new.  This is what makes a memo entry reusable. *)
From Coq Require Import List String NArith ZArith Bool Arith Lia.
From Pegen Require Import Base.StrUtil Base.Values Runtime.Tokenizer Sem.Peg Gen.Gen Runtime.Exec.
Import ListNotations.
Open Scope string_scope.

Section Stable.
Variable K : kinds.
Variable toks : list rtok.
Variable M : ir_module.
Variable aeval : string -> env -> option value.
Variable exact_types token_dict : list (string * N).

Definition no_left_rec : bool :=
  forallb (fun m => match m_deco m with DMemoLeftRec => false | _ => true end) (i_meths M).
Hypothesis Hnolr : no_left_rec = true.

(* the error-mode flag the run starts with: any value if no method is a *_without_invalid method, off otherwise *)
Variable b : bool.
Definition no_wi : bool := forallb (fun m => negb (m_without_invalid m)) (i_meths M).
Definition wi_ok (m : meth) : Prop := b = false \/ m_without_invalid m = false.
Hypothesis Hb : b = false \/ no_wi = true.

(* t' follows s': same position, nothing new fetched, flag off *)
Definition follows (s' t t' : pstate) : Prop := pos t' = pos s' /\ fetched t' = fetched t /\ invalid t' = b.
Definition twin (s s' t : pstate) : Prop := pos t = pos s /\ invalid t = b /\ fetched s' <= fetched t.

Definition stable (f : pstate -> R) : Prop := forall s v s', f s = (Ok v, s') -> invalid s = b ->
  invalid s' = b /\ fetched s <= fetched s' /\
  forall t, twin s s' t -> exists t', f t = (Ok v, t') /\ follows s' t t'.

Lemma peek_some s tk s0 : peek toks s = (Some tk, s0) ->
  pos s0 = pos s /\ invalid s0 = invalid s /\ fetched s0 = Nat.max (fetched s) (S (pos s)) /\ nth_error toks (pos s) = Some tk.
Proof. unfold peek. destruct (nth_error toks (pos s)) eqn:E; intros [= <- <-]; cbn; auto. Qed.

Lemma peek_twin s tk s0 t : peek toks s = (Some tk, s0) -> pos t = pos s -> fetched s0 <= fetched t ->
  exists t0, peek toks t = (Some tk, t0) /\ pos t0 = pos t /\ fetched t0 = fetched t /\ invalid t0 = invalid t.
Proof.
  intros H Hp Hf. destruct (peek_some _ _ _ H) as (_ & _ & Hfe & Hn). unfold peek. rewrite Hp, Hn.
  eexists. split; [reflexivity|]. cbn. repeat split. lia.
Qed.

Lemma prim_tok_stable test : stable (prim_tok toks test).
Proof.
  intros s v s' H Hi. unfold prim_tok in H. destruct (peek toks s) as [[tk|] s0] eqn:E; [|discriminate].
  destruct (peek_some _ _ _ E) as (Hp0 & Hi0 & Hf0 & Hn).
  destruct (test tk) eqn:T; injection H as <- <-; cbn; (split; [congruence|]); (split; [lia|]);
    intros t (Hp & Hit & Hft); cbn in Hft;
    destruct (peek_twin _ _ _ t E Hp Hft) as (t0 & E' & Hp' & Hf' & Hi'); unfold prim_tok; rewrite E', T;
    eexists; (split; [reflexivity|]); unfold follows; cbn; repeat split; congruence.
Qed.

Lemma logged_stable n la f : stable f -> stable (logged n la f).
Proof.
  intros Hf s v s' H Hi. unfold logged in H. destruct (f s) as [[w| |] s1] eqn:E; try discriminate.
  injection H as <- <-. destruct (Hf _ _ _ E Hi) as (H1 & H2 & H3). cbn. split; [exact H1|]. split; [exact H2|].
  intros t Ht. destruct (H3 t Ht) as (t' & E' & Hfo). unfold logged. rewrite E'.
  eexists. split; [destruct Ht as (-> & _); reflexivity|]. exact Hfo.
Qed.

Lemma memoize_off_stable n a f : stable f -> stable (memoize toks false false n a f).
Proof. intros Hf. unfold memoize. cbn. exact Hf. Qed.

Lemma logger_off_stable f : stable f -> stable (logger_wrap toks false f).
Proof. intros Hf. unfold logger_wrap. cbn. exact Hf. Qed.

Section Open.
Variable rec : string -> pstate -> R.
Hypothesis Hrec : forall n, stable (rec n).

Notation rcall := (run_call K toks false false M exact_types token_dict rec).

Lemma twin_trans s s1 s2 t : twin s s2 t -> fetched s1 <= fetched s2 -> twin s s1 t.
Proof. intros (H1 & H2 & H3) H. repeat split; auto. lia. Qed.

Lemma run_call_stable : forall c, stable (rcall c).
Proof.
  fix IH 1. intros c. destruct c as [n|a|c|positive head tail c| |c msg]; intros s v s' H Hi; cbn [run_call] in *.
  - destruct (find_meth M n); [exact (Hrec n _ _ _ H Hi)|]. destruct (prim_test K M n); [|discriminate].
    exact (logged_stable _ _ _ (memoize_off_stable _ _ _ (prim_tok_stable _)) _ _ _ H Hi).
  - destruct (py_arg a); [|discriminate].
    exact (logged_stable _ _ _ (memoize_off_stable _ _ _ (prim_tok_stable _)) _ _ _ H Hi).
  - unfold bind_r in H. destruct (rcall c s) as [[w| |] s1] eqn:E; try discriminate. injection H as <- <-.
    destruct (IH c _ _ _ E Hi) as (H1 & H2 & H3). split; [exact H1|]. split; [exact H2|].
    intros t Ht. destruct (H3 t Ht) as (t' & E' & Hfo). unfold bind_r. rewrite E'. eexists. split; [reflexivity|exact Hfo].
  - assert (Hgen : stable (logged (if positive then "positive_lookahead" else "negative_lookahead") true
              (fun st => let mark := pos st in bind_r (rcall c st) (fun v st1 =>
                 (Ok (if positive then v else if truthy v then VFalse else VTrue), with_pos st1 mark))))).
    { apply logged_stable. intros s0 w s0' H0 Hi0. cbn zeta in H0. unfold bind_r in H0.
      destruct (rcall c s0) as [[u| |] s1] eqn:E; try discriminate. injection H0 as <- <-.
      destruct (IH c _ _ _ E Hi0) as (H1 & H2 & H3). cbn. split; [exact H1|]. split; [exact H2|].
      intros t Ht. destruct (H3 t Ht) as (t' & E' & Hp' & Hf' & Hi'). cbn zeta. unfold bind_r. rewrite E'.
      eexists. split; [reflexivity|]. unfold follows. cbn. destruct Ht as (Hpt & _). repeat split; congruence. }
    destruct c as [n|a|c0|p0 h0 t0 c0| |c0 msg0]; try (exact (Hgen _ _ _ H Hi)).
    unfold bind_r in H. destruct (rcall c0 s) as [[w| |] s1] eqn:E; try discriminate.
    destruct (IH c0 _ _ _ E Hi) as (H1 & H2 & H3).
    unfold logged in H. destruct w; try (injection H as <- <-; cbn; (split; [exact H1|]); (split; [exact H2|]);
      intros tw Ht; destruct (H3 tw Ht) as (t' & E' & Hfo); cbn [run_call]; unfold bind_r; rewrite E'; unfold logged;
      eexists; (split; [reflexivity|]); exact Hfo).
    destruct (diagnose toks s1); discriminate.
  - injection H as <- <-. split; [exact Hi|]. split; [lia|]. intros t (Hp & Hit & Hft). eexists. split; [reflexivity|].
    unfold follows. auto.
  - unfold bind_r in H. destruct (rcall c s) as [[w| |] s1] eqn:E; try discriminate.
    destruct (IH c _ _ _ E Hi) as (H1 & H2 & H3).
    destruct w; try (injection H as <- <-; (split; [exact H1|]); (split; [exact H2|]);
      intros tw Ht; destruct (H3 tw Ht) as (t' & E' & Hfo); unfold bind_r; rewrite E'; eexists; (split; [reflexivity|]); exact Hfo).
    destruct (diagnose toks s1); discriminate.
Qed.

Notation rconjs := (run_conjs K toks false false M exact_types token_dict rec).

Lemma run_conjs_stable cs : forall e s v e' s', rconjs cs e s = (Ok v, e', s') -> invalid s = b ->
  invalid s' = b /\ fetched s <= fetched s' /\
  forall t, twin s s' t -> exists t', rconjs cs e t = (Ok v, e', t') /\ follows s' t t'.
Proof.
  induction cs as [|c cs IHc]; intros e s v e' s' H Hi; cbn [run_conjs] in *.
  - injection H as <- <- <-. split; [exact Hi|]. split; [lia|]. intros t (Hp & Hit & Hft). eexists. split; [reflexivity|].
    unfold follows. auto.
  - destruct (rcall (cj_call c) s) as [[w| |] s1] eqn:E; try discriminate.
    destruct (run_call_stable _ _ _ _ E Hi) as (H1 & H2 & H3).
    match type of H with (if ?b then _ else _) = _ => destruct b eqn:B end.
    + destruct (IHc _ _ _ _ _ H H1) as (G1 & G2 & G3). split; [exact G1|]. split; [lia|].
      intros t Ht. destruct (H3 t (twin_trans _ _ _ _ Ht G2)) as (t1 & E1 & Hp1 & Hf1 & Hi1).
      destruct (G3 t1) as (t' & E' & Hp' & Hf' & Hi').
      { destruct Ht as (_ & _ & Hft). repeat split; auto. lia. }
      exists t'. rewrite E1, B. split; [exact E'|]. unfold follows. repeat split; congruence.
    + injection H as <- <- <-. split; [exact H1|]. split; [exact H2|].
      intros t Ht. destruct (H3 t Ht) as (t1 & E1 & Hfo). exists t1. rewrite E1, B. split; [reflexivity|exact Hfo].
Qed.

Notation ralts := (run_alts K toks false false M aeval exact_types token_dict rec).

Lemma last_tok_pos s t : pos t = pos s -> last_tok K toks t = last_tok K toks s.
Proof. unfold last_tok. intros ->. reflexivity. Qed.

Lemma restore_flag m (st : pstate) : wi_ok m -> invalid st = b ->
  invalid (if m_without_invalid m then with_invalid st b else st) = b.
Proof. intros _ H. destruct (m_without_invalid m); [reflexivity|exact H]. Qed.

Lemma run_alts_stable m mark start_tok alts : wi_ok m -> forall e0 s v s', ralts m mark start_tok b alts e0 s = (Ok v, s') ->
  invalid s = b ->
  invalid s' = b /\ fetched s <= fetched s' /\
  forall t, twin s s' t -> exists t', ralts m mark start_tok b alts e0 t = (Ok v, t') /\ follows s' t t'.
Proof.
  intros Hm. induction alts as [|a alts IHa]; intros e0 s v s' H Hi; cbn [run_alts] in *.
  - injection H as <- <-. split; [apply restore_flag; assumption|].
    split; [destruct (m_without_invalid m); cbn; lia|].
    intros t (Hp & Hit & Hft). eexists. split; [reflexivity|]. unfold follows.
    destruct (m_without_invalid m); cbn in *; auto.
  - rewrite Hi in H.
    assert (Hguard : forall t, invalid t = b -> a_guard a && negb (invalid t) = a_guard a && negb b)
      by (intros t0 ->; reflexivity).
    destruct (a_guard a && negb b) eqn:G.
    + destruct (IHa _ _ _ _ H Hi) as (G1 & G2 & G3). split; [exact G1|]. split; [exact G2|].
      intros t Ht. destruct (G3 (with_pos t mark)) as (t' & E' & Hfo).
      { destruct Ht as (Hp & Hit & Hft). repeat split; auto. }
      exists t'. rewrite (Hguard t (proj1 (proj2 Ht))). split; [exact E'|exact Hfo].
    + destruct (rconjs (a_conjs a) e0 s) as [[[w| |] e] s1] eqn:E; try discriminate.
      destruct (run_conjs_stable _ _ _ _ _ _ E Hi) as (H1 & H2 & H3).
      destruct (truthy w) eqn:Tw.
      * destruct (a_locations a && _) eqn:L; [discriminate|].
        destruct (aeval (a_action a) _) as [u|] eqn:A; [|discriminate]. injection H as <- <-.
        split; [apply restore_flag; assumption|].
        split; [destruct (m_without_invalid m); cbn; exact H2|].
        intros t Ht.
        assert (Ht1 : twin s s1 t).
        { destruct Ht as (Hp & Hit & Hft). repeat split; auto. destruct (m_without_invalid m); cbn in Hft; exact Hft. }
        destruct (H3 t Ht1) as (t1 & E1 & Hp1 & Hf1 & Hi1).
        rewrite (Hguard t (proj1 (proj2 Ht))). rewrite E1, Tw. rewrite (last_tok_pos s1 t1 Hp1), L, A.
        eexists. split; [reflexivity|]. unfold follows. destruct (m_without_invalid m); cbn; auto.
      * destruct (a_has_cut a && _) eqn:C.
        -- injection H as <- <-.
           split; [apply restore_flag; assumption|].
           split; [destruct (m_without_invalid m); cbn; exact H2|].
           intros t Ht.
           assert (Ht1 : twin s s1 t).
           { destruct Ht as (Hp & Hit & Hft). repeat split; auto. destruct (m_without_invalid m); cbn in Hft; exact Hft. }
           destruct (H3 t Ht1) as (t1 & E1 & Hp1 & Hf1 & Hi1).
           rewrite (Hguard t (proj1 (proj2 Ht))). rewrite E1, Tw, C.
           eexists. split; [reflexivity|]. unfold follows. destruct (m_without_invalid m); cbn; auto.
        -- destruct (IHa _ _ _ _ H H1) as (G1 & G2 & G3). split; [exact G1|]. split; [cbn in G2; lia|].
           intros t Ht.
           assert (Ht1 : twin s s1 t).
           { destruct Ht as (Hp & Hit & Hft). repeat split; auto. cbn in G2. lia. }
           destruct (H3 t Ht1) as (t1 & E1 & Hp1 & Hf1 & Hi1).
           destruct (G3 (with_pos t1 mark)) as (t' & E' & Hp' & Hf' & Hi').
           { destruct Ht as (Hp & Hit & Hft). repeat split; auto. cbn. lia. }
           rewrite (Hguard t (proj1 (proj2 Ht))). rewrite E1, Tw, C. exists t'. split; [exact E'|].
           unfold follows. cbn in Hf'. repeat split; congruence.
Qed.

Notation rloop := (run_loop K toks false false M aeval exact_types token_dict rec).

Lemma run_loop_stable m a : forall fuel mark start_tok children e0 s v s',
  rloop fuel m a mark start_tok children e0 s = (Ok v, s') -> invalid s = b ->
  invalid s' = b /\ fetched s <= fetched s' /\
  forall t, twin s s' t -> exists t', rloop fuel m a mark start_tok children e0 t = (Ok v, t') /\ follows s' t t'.
Proof.
  induction fuel as [|f IHf]; intros mark start_tok children e0 s v s' H Hi; cbn [run_loop] in *; [discriminate|].
  rewrite Hi in H.
  assert (Hguard : forall t, invalid t = b -> a_guard a && negb (invalid t) = a_guard a && negb b)
    by (intros t0 ->; reflexivity).
  destruct (a_guard a && negb b) eqn:G.
  - injection H as <- <-. split; [exact Hi|]. split; [cbn; lia|]. intros t (Hp & Hit & Hft).
    rewrite (Hguard t Hit). eexists. split; [reflexivity|]. unfold follows. cbn. auto.
  - destruct (rconjs (a_conjs a) e0 s) as [[[w| |] e] s1] eqn:E; try discriminate.
    destruct (run_conjs_stable _ _ _ _ _ _ E Hi) as (H1 & H2 & H3).
    destruct (truthy w) eqn:Tw.
    + destruct (a_locations a && _) eqn:L; [discriminate|].
      destruct (aeval (a_action a) _) as [u|] eqn:A; [|discriminate].
      destruct (IHf _ _ _ _ _ _ _ H H1) as (G1 & G2 & G3). split; [exact G1|]. split; [lia|].
      intros t Ht.
      assert (Ht1 : twin s s1 t) by (destruct Ht as (Hp & Hit & Hft); repeat split; auto; lia).
      destruct (H3 t Ht1) as (t1 & E1 & Hp1 & Hf1 & Hi1).
      destruct (G3 t1) as (t' & E' & Hp' & Hf' & Hi').
      { destruct Ht as (Hp & Hit & Hft). repeat split; auto. lia. }
      rewrite (Hguard t (proj1 (proj2 Ht))). rewrite E1, Tw. rewrite (last_tok_pos s1 t1 Hp1), L, A. rewrite Hp1.
      exists t'. split; [exact E'|]. unfold follows. repeat split; congruence.
    + assert (Hend : forall t, twin s s1 t -> exists t1, rconjs (a_conjs a) e0 t = (Ok w, e, t1) /\ follows s1 t t1) by exact H3.
      destruct (a_has_cut a && _) eqn:C; injection H as <- <-; (split; [exact H1|]); (split; [cbn; exact H2|]);
        intros t Ht; destruct (Hend t Ht) as (t1 & E1 & Hp1 & Hf1 & Hi1);
        rewrite (Hguard t (proj1 (proj2 Ht))); rewrite E1, Tw, C; eexists; (split; [reflexivity|]);
        unfold follows; cbn; auto.
Qed.

(* entering a method: a *_without_invalid method clears the flag -- which, by [wi_ok], is already off *)
Lemma enter_flag m (st : pstate) : wi_ok m -> invalid st = b ->
  (if m_without_invalid m then with_invalid st false else st) = st \/ m_without_invalid m = false /\ True.
Proof.
  intros [Hb0|Hm] Hi.
  - left. destruct (m_without_invalid m); [|reflexivity]. destruct st as [p0 f0 c0 i0 e0]; cbn in *. rewrite Hi, Hb0. reflexivity.
  - left. rewrite Hm. reflexivity.
Qed.

Lemma run_body_stable fuel m : wi_ok m -> stable (run_body K toks false false M aeval exact_types token_dict rec fuel m).
Proof.
  intros Hm s v s' H Hi. unfold run_body in *. rewrite Hi in H.
  assert (Hent : forall st, invalid st = b -> (if m_without_invalid m then with_invalid st false else st) = st).
  { intros st Hst. destruct (enter_flag m st Hm Hst) as [E|[E _]]; [exact E|rewrite E; reflexivity]. }
  rewrite (Hent s Hi) in H.
  assert (Hgo : forall start_tok st1 , invalid st1 = b ->
    (if m_loop m
     then match m_alts m with
          | [a] => match rloop fuel m a (pos s) start_tok [] [] st1 with
                   | (Ok v, st2) => (Ok (loop_ret m v), if m_without_invalid m then with_invalid st2 b else st2)
                   | other => other end
          | _ => (Raise XAssertion, st1) end
     else ralts m (pos s) start_tok b (m_alts m) [] st1) = (Ok v, s') ->
    invalid s' = b /\ fetched st1 <= fetched s' /\
    forall t1, twin st1 s' t1 -> exists t', 
    (if m_loop m
     then match m_alts m with
          | [a] => match rloop fuel m a (pos s) start_tok [] [] t1 with
                   | (Ok v, st2) => (Ok (loop_ret m v), if m_without_invalid m then with_invalid st2 b else st2)
                   | other => other end
          | _ => (Raise XAssertion, t1) end
     else ralts m (pos s) start_tok b (m_alts m) [] t1) = (Ok v, t') /\ follows s' t1 t').
  { intros start_tok st1 Hi1 Hr. destruct (m_loop m).
    - destruct (m_alts m) as [|a [|a2 rest]]; try discriminate.
      destruct (rloop fuel m a (pos s) start_tok [] [] st1) as [[w| |] s2] eqn:E; try discriminate.
      injection Hr as <- <-. destruct (run_loop_stable _ _ _ _ _ _ _ _ _ _ E Hi1) as (G1 & G2 & G3).
      split; [apply restore_flag; assumption|].
      split; [destruct (m_without_invalid m); cbn; exact G2|].
      intros t1 Ht1. destruct (G3 t1) as (t' & E' & Hp' & Hf' & Hi').
      { destruct Ht1 as (Hp & Hit & Hft). repeat split; auto. destruct (m_without_invalid m); cbn in Hft; exact Hft. }
      rewrite E'. eexists. split; [reflexivity|]. unfold follows. destruct (m_without_invalid m); cbn; auto.
    - exact (run_alts_stable _ _ _ _ Hm _ _ _ _ Hr Hi1). }
  destruct (m_locations m).
  - destruct (peek toks s) as [[tk|] s1] eqn:E; [|discriminate].
    destruct (peek_some _ _ _ E) as (Hp1 & Hi1 & Hf1 & Hn).
    destruct (Hgo (Some tk) s1 ltac:(congruence) H) as (G1 & G2 & G3).
    split; [exact G1|]. split; [lia|].
    intros t (Hp & Hit & Hft). rewrite Hit. rewrite (Hent t Hit).
    destruct (peek_twin _ _ _ t E Hp ltac:(lia)) as (t1 & E1 & Hpt1 & Hft1 & Hit1).
    rewrite E1. rewrite Hp.
    destruct (G3 t1) as (t' & E' & Hp' & Hf' & Hi').
    { repeat split; [congruence|congruence|lia]. }
    exists t'. split; [exact E'|]. unfold follows. repeat split; congruence.
  - destruct (Hgo None s Hi H) as (G1 & G2 & G3). split; [exact G1|]. split; [lia|].
    intros t (Hp & Hit & Hft). rewrite Hit. rewrite (Hent t Hit).
    rewrite Hp. destruct (G3 t) as (t' & E' & Hp' & Hf' & Hi').
    { repeat split; [congruence|congruence|lia]. }
    exists t'. split; [exact E'|]. unfold follows. repeat split; congruence.
Qed.
End Open.

Lemma find_meth_nolr n m : find_meth M n = Some m -> m_deco m <> DMemoLeftRec.
Proof.
  unfold find_meth. intros H. apply find_some in H as [Hin _]. unfold no_left_rec in Hnolr.
  rewrite forallb_forall in Hnolr. specialize (Hnolr _ Hin). intros E. rewrite E in Hnolr. discriminate.
Qed.

Lemma find_meth_wi n m : find_meth M n = Some m -> wi_ok m.
Proof.
  unfold find_meth. intros H. apply find_some in H as [Hin _]. destruct Hb as [H0|H1]; [left; exact H0|right].
  unfold no_wi in H1. rewrite forallb_forall in H1. specialize (H1 _ Hin). destruct (m_without_invalid m); [discriminate|reflexivity].
Qed.

Lemma run_meth_stable fuel rec : (forall n, stable (rec n)) ->
  forall n, stable (run_meth K toks false false M aeval exact_types token_dict fuel rec n).
Proof.
  intros Hrec n. unfold run_meth. destruct (find_meth M n) as [m|] eqn:F; [|intros s v s' H; discriminate].
  pose proof (find_meth_nolr _ _ F) as Hd. pose proof (find_meth_wi _ _ F) as Hw. apply logged_stable.
  destruct (m_deco m); [|contradiction|].
  - apply memoize_off_stable. apply run_body_stable; [exact Hrec|exact Hw].
  - apply logger_off_stable. apply run_body_stable; [exact Hrec|exact Hw].
Qed.

Theorem run_stable fuel : forall n, stable (run K toks false false M aeval exact_types token_dict fuel n).
Proof.
  induction fuel as [|f IH]; intros n; cbn [run]; [intros s v s' H; discriminate|].
  apply run_meth_stable. exact IH.
Qed.
End Stable.
