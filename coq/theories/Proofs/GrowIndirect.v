(* Indirect left recursion as a theorem about the interpreter:  a: c 'x' | 'b' ;  c: a  -- a is the leader (grows the
   seed), c is only logged.  Entered at a or at c, the result on  b x^n  is the left-nested tree, for every n. *)
From Coq Require Import List String NArith Bool Arith Lia.
From Pegen Require Import Base.StrUtil Base.Values Runtime.Tokenizer Sem.Peg Gen.Gen Runtime.Exec Proofs.GrowSpec Proofs.GrowAxb.
Import ListNotations.
Open Scope string_scope.

Definition ind_alt1 : ialt :=
  {| a_has_cut := false; a_guard := false; a_conjs := [axb_cj "c" (CMeth "c"); axb_cj "literal" (CExpect "'x'")];
     a_locations := false; a_action := "[c, literal]"; a_names := ["c"; "literal"]; a_explicit := false; a_unreachable := false |}.
Definition ind_a : meth :=
  {| m_name := "a"; m_deco := DMemoLeftRec; m_type := "Any"; m_comment := "# a: c 'x' | 'b'"; m_nullable := false;
     m_without_invalid := false; m_locations := false; m_loop := false; m_gather := false; m_alts := [ind_alt1; axb_alt2] |}.
Definition ind_altc : ialt :=
  {| a_has_cut := false; a_guard := false; a_conjs := [axb_cj "a" (CMeth "a")];
     a_locations := false; a_action := "a"; a_names := ["a"]; a_explicit := false; a_unreachable := false |}.
Definition ind_c : meth :=
  {| m_name := "c"; m_deco := DLogger; m_type := "Any"; m_comment := "# c: a"; m_nullable := false;
     m_without_invalid := false; m_locations := false; m_loop := false; m_gather := false; m_alts := [ind_altc] |}.
(* the three default actions *)
Definition ind_aeval (text : string) (e : env) : option value :=
  if String.eqb text "literal" then env_get e "literal"
  else if String.eqb text "a" then env_get e "a"
  else match env_get e "c", env_get e "literal" with Some x, Some y => Some (VList [x; y]) | _, _ => None end.

Section Ind.
Variable K : kinds.
Variable toks : list rtok.
Variable M : ir_module.
Hypothesis HMa : find_meth M "a" = Some ind_a.
Hypothesis HMc : find_meth M "c" = Some ind_c.
Notation RUN := (run K toks false false M ind_aeval [] []).
Notation rcall := (run_call K toks false false M [] []).
Notation rconjs := (run_conjs K toks false false M [] []).
Notation ralts := (run_alts K toks false false M ind_aeval [] []).
Definition bodyA (f : nat) : pstate -> R := run_body K toks false false M ind_aeval [] [] (RUN f) f ind_a.
Definition bodyC (f : nat) : pstate -> R := run_body K toks false false M ind_aeval [] [] (RUN f) f ind_c.

Lemma run_a F st : RUN (S F) "a" st = logged "a" false (memoize_left_rec toks false F "a" (bodyA F)) st.
Proof.
  change (run_meth K toks false false M ind_aeval [] [] F (RUN F) "a" st = logged "a" false (memoize_left_rec toks false F "a" (bodyA F)) st).
  unfold run_meth. rewrite HMa. reflexivity.
Qed.
Lemma run_c F st : RUN (S F) "c" st = logged "c" false (bodyC F) st.
Proof.
  change (run_meth K toks false false M ind_aeval [] [] F (RUN F) "c" st = logged "c" false (bodyC F) st).
  unfold run_meth. rewrite HMc. reflexivity.
Qed.
Lemma call_a rec st : rcall rec (CMeth "a") st = rec "a" st.
Proof. cbn [run_call]. rewrite HMa. reflexivity. Qed.
Lemma call_c rec st : rcall rec (CMeth "c") st = rec "c" st.
Proof. cbn [run_call]. rewrite HMc. reflexivity. Qed.
Ltac conj_fields := cbn [cj_call axb_cj cj_notnone cj_var].

(* self.a() while the seed is in the cache *)
Lemma seed_hit f st v e : cache_find (pos st, "a", None) (cache st) = Some (v, e) ->
  exists st1, RUN (S f) "a" st = (Ok v, st1) /\ pos st1 = (if truthy v then e else pos st).
Proof.
  intros H. rewrite run_a. unfold logged, memoize_left_rec. rewrite H. destruct (truthy v); eexists; split; reflexivity.
Qed.

(* self.c() while the seed is in the cache: c calls a, which replays the seed *)
Lemma bodyC_eq f st : bodyC f st = ralts (RUN f) ind_c (pos st) None (invalid st) [ind_altc] [] st.
Proof. reflexivity. Qed.
Lemma c_hit f st v e : cache_find (pos st, "a", None) (cache st) = Some (v, e) -> truthy v = true ->
  exists st1, RUN (S (S f)) "c" st = (Ok v, st1) /\ pos st1 = e.
Proof.
  intros H Hv. rewrite run_c. unfold logged. rewrite bodyC_eq. cbn [run_alts]. cbn [a_guard ind_altc andb a_conjs run_conjs]. conj_fields.
  rewrite call_a. destruct (seed_hit f st v e H) as (st1 & -> & Hp1). rewrite Hv in Hp1. rewrite Hv.
  cbn [truthy a_locations andb a_action]. cbn [ind_aeval String.eqb Ascii.eqb Bool.eqb env_get]. cbn.
  eexists. split; [reflexivity|]. cbn [pos log]. exact Hp1.
Qed.
Lemma c_miss f st : cache_find (pos st, "a", None) (cache st) = Some (VNone, pos st) ->
  exists st1, RUN (S (S f)) "c" st = (Ok VNone, st1) /\ pos st1 = pos st.
Proof.
  intros H. rewrite run_c. unfold logged. rewrite bodyC_eq. cbn [run_alts]. cbn [a_guard ind_altc andb a_conjs run_conjs]. conj_fields.
  rewrite call_a. destruct (seed_hit f st VNone (pos st) H) as (st1 & -> & Hp1). cbn [truthy] in Hp1.
  cbn [truthy a_has_cut andb m_without_invalid ind_c]. eexists. split; [reflexivity|]. reflexivity.
Qed.

(* the conjunctions of a's first alternative *)
Lemma alt1_no_seed f st : cache_find (pos st, "a", None) (cache st) = Some (VNone, pos st) ->
  exists e st1, rconjs (RUN (S (S f))) (a_conjs ind_alt1) [] st = (Ok VFalse, e, st1) /\ pos st1 = pos st.
Proof.
  intros Hs. cbn [a_conjs ind_alt1 run_conjs]. conj_fields. rewrite call_c.
  destruct (c_miss f st Hs) as (st1 & -> & Hp1). cbn [truthy]. eexists _, _. split; [reflexivity|exact Hp1].
Qed.
Lemma alt1_seed f st v k t : cache_find (pos st, "a", None) (cache st) = Some (v, k) -> truthy v = true ->
  nth_error toks k = Some t ->
  (tstr t = "x" -> exists st2, rconjs (RUN (S (S f))) (a_conjs ind_alt1) [] st = (Ok VTrue, [("literal", VTok t); ("c", v)], st2) /\ pos st2 = S k) /\
  (tstr t <> "x" -> exists e st2, rconjs (RUN (S (S f))) (a_conjs ind_alt1) [] st = (Ok VFalse, e, st2)).
Proof.
  intros Hs Hv Hn. cbn [a_conjs ind_alt1 run_conjs]. conj_fields. rewrite call_c.
  destruct (c_hit f st v k Hs Hv) as (st1 & -> & Hp1). rewrite Hv.
  split; intros Ht.
  - destruct (expect_true K toks M (RUN (S (S f))) "'x'" "x" st1 t qx) as (st2 & E2 & Hp2); [rewrite Hp1; exact Hn|apply test_true; exact Ht|].
    rewrite E2. cbn [truthy]. eexists. split; [reflexivity|]. rewrite Hp2, Hp1. reflexivity.
  - destruct (expect_false K toks M (RUN (S (S f))) "'x'" "x" st1 t qx) as (st2 & E2 & Hp2); [rewrite Hp1; exact Hn|apply test_false; exact Ht|].
    rewrite E2. cbn [truthy]. eexists _, _. reflexivity.
Qed.

(* the body of a: the alternatives in order *)
Lemma bodyA_eq f st : bodyA f st = ralts (RUN f) ind_a (pos st) None (invalid st) [ind_alt1; axb_alt2] [] st.
Proof. reflexivity. Qed.
Lemma body_alt1 f st v t st2 :
  rconjs (RUN (S (S f))) (a_conjs ind_alt1) [] st = (Ok VTrue, [("literal", VTok t); ("c", v)], st2) ->
  bodyA (S (S f)) st = (Ok (VList [v; VTok t]), st2).
Proof.
  intros E. rewrite bodyA_eq. cbn [run_alts]. cbn [a_guard ind_alt1 andb]. rewrite E. reflexivity.
Qed.
Lemma body_alt2 f st e1 st1 b :
  rconjs (RUN (S (S f))) (a_conjs ind_alt1) [] st = (Ok VFalse, e1, st1) ->
  nth_error toks (pos st) = Some b ->
  (tstr b = "b" -> exists st2, bodyA (S (S f)) st = (Ok (VTok b), st2) /\ pos st2 = S (pos st)) /\
  (tstr b <> "b" -> exists st2, bodyA (S (S f)) st = (Ok VNone, st2) /\ pos st2 = pos st).
Proof.
  intros E Hn. rewrite bodyA_eq. cbn [run_alts]. cbn [a_guard ind_alt1 andb]. rewrite E. cbn [truthy a_has_cut ind_alt1 andb].
  cbn [a_guard axb_alt2 andb].
  destruct (alt2_b K toks M (RUN (S (S f))) e1 (with_pos st1 (pos st)) b Hn) as [Hyes Hno]. split; intros Ht.
  - destruct (Hyes Ht) as (st2 & -> & Hp2). eexists. split; [reflexivity|exact Hp2].
  - destruct (Hno Ht) as (e2 & st2 & ->). cbn [truthy a_has_cut axb_alt2 andb m_without_invalid ind_a]. eexists. split; reflexivity.
Qed.

Section Input.
Variables (b y : rtok) (xs rest : list rtok).
Hypothesis Htoks : toks = b :: xs ++ y :: rest.
Hypothesis Hb : tstr b = "b".
Hypothesis Hxs : Forall (fun t => tstr t = "x") xs.
Hypothesis Hy : tstr y <> "x".
Notation res := (res b xs).

Lemma step f k st : k < S (List.length xs) -> seeded (0, "a", None) res (fun k => k) k st -> pos st = 0 ->
  exists st', bodyA (S (S f)) st = (Ok (res (S k)), st') /\ pos st' = S k /\ truthy (res (S k)) = true /\ (k < S k \/ truthy (res k) = false).
Proof.
  intros Hk Hs Hp. unfold seeded in Hs. destruct k as [|j].
  - cbn [GrowAxb.res] in Hs. rewrite <- Hp in Hs. destruct (alt1_no_seed f st Hs) as (e1 & st1 & E1 & _).
    assert (Hn : nth_error toks (pos st) = Some b) by (rewrite Hp; exact (tok0 toks b y xs rest Htoks)).
    destruct (proj1 (body_alt2 f st e1 st1 b E1 Hn) Hb) as (st2 & E2 & Hp2).
    exists st2. split; [exact E2|]. split; [rewrite Hp2, Hp; reflexivity|]. split; [reflexivity|left; lia].
  - assert (Hj : j < List.length xs) by lia. destruct (nth_error xs j) as [x|] eqn:Ex; [|apply nth_error_None in Ex; lia].
    destruct (tok_x toks b y xs rest Htoks Hxs j x Ex) as [Hn Hx]. rewrite <- Hp in Hs at 1.
    destruct (proj1 (alt1_seed f st (res (S j)) (S j) x Hs (res_truthy b xs j) Hn) Hx) as (st2 & E2 & Hp2).
    exists st2. split; [|split; [exact Hp2|split; [apply res_truthy|left; lia]]].
    rewrite (body_alt1 f st _ _ _ E2). cbn [GrowAxb.res]. rewrite (firstn_snoc xs j x Ex), nest_snoc. reflexivity.
Qed.

Lemma stop f st : seeded (0, "a", None) res (fun k => k) (S (List.length xs)) st -> pos st = 0 ->
  exists v st', bodyA (S (S f)) st = (Ok v, st') /\
    (truthy v = false \/ (truthy (res (S (List.length xs))) = true /\ pos st' <= S (List.length xs))).
Proof.
  intros Hs Hp. unfold seeded in Hs. rewrite <- Hp in Hs at 1.
  destruct (proj2 (alt1_seed f st _ _ y Hs (res_truthy b xs _) (tok_y toks b y xs rest Htoks)) Hy) as (e1 & st1 & E1).
  assert (Hn : nth_error toks (pos st) = Some b) by (rewrite Hp; exact (tok0 toks b y xs rest Htoks)).
  destruct (proj1 (body_alt2 f st e1 st1 b E1 Hn) Hb) as (st2 & E2 & Hp2).
  exists (VTok b), st2. split; [exact E2|]. right. split; [apply res_truthy|]. rewrite Hp2, Hp. lia.
Qed.

(* entered at the leader *)
Theorem ind_accepts_at_a fuel : List.length xs + 4 <= fuel ->
  exists st', RUN fuel "a" init_state = (Ok (nest (VTok b) xs), st') /\ pos st' = S (List.length xs) /\
              cache_find (0, "a", None) (cache st') = Some (nest (VTok b) xs, S (List.length xs)).
Proof.
  intros Hf. destruct fuel as [|[|[|f]]]; try lia. rewrite run_a.
  destruct (memoize_left_rec_is_iteration toks "a" (bodyA (S (S f))) res (fun k => k) (S (List.length xs)) init_state (S (S f))
              eq_refl eq_refl (step f) (stop f) eq_refl ltac:(lia)) as (st' & E & Hp & Hc).
  unfold logged. cbn [pos init_state] in E, Hc. rewrite E. eexists. split; [|split].
  - cbn [GrowAxb.res]. rewrite firstn_all. reflexivity.
  - cbn [pos log]. rewrite Hp, res_truthy. reflexivity.
  - cbn [cache log]. rewrite Hc. cbn [GrowAxb.res]. rewrite firstn_all. rewrite Hp, res_truthy. reflexivity.
Qed.

(* entered at the other member of the cycle: c calls a, which grows *)
Theorem ind_accepts_at_c fuel : List.length xs + 5 <= fuel ->
  exists st', RUN fuel "c" init_state = (Ok (nest (VTok b) xs), st') /\ pos st' = S (List.length xs).
Proof.
  intros Hf. destruct fuel as [|F]; [lia|]. rewrite run_c. unfold logged. rewrite bodyC_eq.
  cbn [run_alts]. cbn [a_guard ind_altc andb a_conjs run_conjs]. conj_fields. rewrite call_a.
  destruct (ind_accepts_at_a F ltac:(lia)) as (st1 & -> & Hp1 & _).
  assert (Ht : truthy (nest (VTok b) xs) = true) by (apply nest_truthy; reflexivity). rewrite Ht.
  cbn [truthy a_locations andb a_action]. cbn [ind_aeval String.eqb Ascii.eqb Bool.eqb env_get]. cbn.
  eexists. split; [reflexivity|]. cbn [pos log]. exact Hp1.
Qed.
End Input.
End Ind.
