(* From the grammar a module is read back as (rules, _tmp helper rules, repetitions and gathers inline) to the SOURCE
   grammar: whatever the reference semantics derives for the read-back grammar it derives for the source grammar, when
   the two are related as the generator relates them -- a group (or bracketed alternatives) became a reference to a
   helper rule with the same alternatives, or, if it held a single item, that item itself; a repetition repeats a
   one-item group; a gather became a reference to a rule whose body is the gather.  No actions (those are Stage D). *)
From Coq Require Import List String NArith Bool Arith Lia.
From Pegen Require Import Base.StrUtil Base.Values Grammar.Ast Grammar.Induction Runtime.Tokenizer Sem.Peg Proofs.PegProofs.
Import ListNotations.
Open Scope string_scope.

Section D.
Variable K : kinds.
Variable rsS rsT : list rule.            (* source rules; rules of the grammar read back *)
Variable toks : list rtok.
Variable kw soft : list string.
Variable aevalP aevalPT : alt -> list value -> list (string * value) -> nat -> nat -> option value.   (* source side, read-back side *)
Variable nameS nameT : alt -> nat -> option string.
Variable fm : string.                    (* the message of a failing forced item (not compared) *)

Notation pS := (peg_item K rsS toks kw soft aevalP nameS (fun _ => fm)).
Notation starS := (peg_star K rsS toks kw soft aevalP nameS (fun _ => fm)).
Notation sepS := (peg_sep K rsS toks kw soft aevalP nameS (fun _ => fm)).
Notation seqS := (peg_seq K rsS toks kw soft aevalP nameS (fun _ => fm)).
Notation altsS := (peg_alts K rsS toks kw soft aevalP nameS (fun _ => fm)).
Notation pT := (peg_item K rsT toks kw soft aevalPT nameT (fun _ => fm)).
Notation starT := (peg_star K rsT toks kw soft aevalPT nameT (fun _ => fm)).
Notation sepT := (peg_sep K rsT toks kw soft aevalPT nameT (fun _ => fm)).
Notation seqT := (peg_seq K rsT toks kw soft aevalPT nameT (fun _ => fm)).
Notation altsT := (peg_alts K rsT toks kw soft aevalPT nameT (fun _ => fm)).

(* when two alternatives both carry an action: how they must correspond (decided per grammar, see [actb] below) *)
Variable ActRel : alt -> alt -> Prop.

Definition valued (i : item) : bool := negb (is_lookahead i || is_cut i).
Definition never_fails (i : item) : bool := match i with Opt _ | Repeat0 _ _ => true | _ => false end.
Definition one (id : N) (k : N) (nm : option string) (ty : option string) (i : item) : rhs := Rhs id [Alt [NItem k nm ty i] None].

(* Rel0: the generator's correspondence at the root; Rel: the same below any number of one-item groups on the source side *)
Inductive Rel : item -> item -> Prop :=
| R_core i i' : Rel0 i i' -> Rel i i'
| R_group1 id k nm ty i i' : valued i = true -> Rel i i' -> Rel (Group (one id k nm ty i)) i'
| R_rhsitem1 id k nm ty i i' : valued i = true -> Rel i i' -> Rel (RhsItem (one id k nm ty i)) i'
| R_opt_keep j i' : never_fails i' = true -> Rel j i' -> Rel (Opt j) i'     (* an optional of what cannot fail is emitted as is *)
with Rel0 : item -> item -> Prop :=
| C_name n : (find_rule rsS n = None -> find_rule rsT n = None) -> Rel0 (NameLeaf n) (NameLeaf n)
| C_str raw : Rel0 (StringLeaf raw) (StringLeaf raw)
| C_group r t rt : find_rule rsT t = Some rt -> RelAlts (rhs_alts r) (rhs_alts (rrhs rt)) -> Rel0 (Group r) (NameLeaf t)
| C_rhsitem r t rt : find_rule rsT t = Some rt -> RelAlts (rhs_alts r) (rhs_alts (rrhs rt)) -> Rel0 (RhsItem r) (NameLeaf t)
| C_gather id s e g rg s' e' : find_rule rsT g = Some rg ->
    rhs_alts (rrhs rg) = [Alt [NItem 0 None None (Gather 0 s' e')] None] ->
    Rel s s' -> Rel e e' -> Rel0 (Gather id s e) (NameLeaf g)
| C_gather_in id id' s e s' e' : Rel s s' -> Rel e e' -> Rel0 (Gather id s e) (Gather id' s' e')
| C_opt j j' : Rel j j' -> Rel0 (Opt j) (Opt j')
| C_rep0 id id' j j' : Rel j j' -> Rel0 (Repeat0 id j) (Repeat0 id' j')
| C_rep1 id id' j j' : Rel j j' -> Rel0 (Repeat1 id j) (Repeat1 id' j')
| C_pos j j' : Rel j j' -> Rel0 (PosLook j) (PosLook j')
| C_neg j j' : Rel j j' -> Rel0 (NegLook j) (NegLook j')
| C_forced j j' : Rel j j' -> Rel0 (Forced j) (Forced j')
| C_cut : Rel0 Cut Cut
| C_wrap j j' id k nm ty : valued j = true -> Rel j j' -> Rel0 j (Group (one id k nm ty j'))
with RelAlts : list alt -> list alt -> Prop :=
| RA_nil : RelAlts [] []
| RA_cons a a' l l' : RelItems (alt_items a) (alt_items a') -> (alt_action a = None /\ alt_action a' = None) \/ ActRel a a' ->
    RelAlts l l' -> RelAlts (a :: l) (a' :: l')
with RelItems : list nitem -> list nitem -> Prop :=
| RI_nil : RelItems [] []
| RI_cons n n' l l' : Rel (ni_item n) (ni_item n') -> RelItems l l' -> RelItems (n :: l) (n' :: l').

Scheme Rel_m := Minimality for Rel Sort Prop
  with Rel0_m := Minimality for Rel0 Sort Prop
  with RelAlts_m := Minimality for RelAlts Sort Prop
  with RelItems_m := Minimality for RelItems Sort Prop.

(* every source rule has its counterpart, with related alternatives *)
(* ... or, when the rule's body is one parenthesised group (Rule.flatten), with the group's alternatives *)
Definition RelBody (alts alts' : list alt) : Prop :=
  RelAlts alts alts' \/ exists k nm ty r0, alts = [Alt [NItem k nm ty (Group r0)] None] /\ RelAlts (rhs_alts r0) alts'.
Hypothesis HN : forall n r, find_rule rsS n = Some r ->
  exists r', find_rule rsT n = Some r' /\ RelBody (rhs_alts (rrhs r)) (rhs_alts (rrhs r')).

(* related actions: the same value on the same environment, the same names for the items, and both present *)
Hypothesis HactRel : forall a a', ActRel a a' ->
  (forall vals env s e, aevalP a vals env s e = aevalPT a' vals env s e) /\ (forall k, nameS a k = nameT a' k) /\
  alt_action a <> None /\ alt_action a' <> None.

Lemma valued_split i : valued i = true -> is_lookahead i = false /\ is_cut i = false.
Proof. unfold valued. intros H. apply negb_true_iff in H. apply orb_false_iff in H. exact H. Qed.

(* related items agree on being a lookahead / a cut *)
Lemma rel_look i i' : Rel i i' -> is_lookahead i = is_lookahead i' /\ is_cut i = is_cut i'.
Proof.
  induction 1 using Rel_m with (P0 := fun i i' => is_lookahead i = is_lookahead i' /\ is_cut i = is_cut i')
    (P1 := fun _ _ => True) (P2 := fun _ _ => True); auto; try (split; reflexivity).
  - destruct IHRel as [A B]. destruct (valued_split _ H) as [H1 H2]. rewrite <- A, <- B, H1, H2. split; reflexivity.
  - destruct IHRel as [A B]. destruct (valued_split _ H) as [H1 H2]. rewrite <- A, <- B, H1, H2. split; reflexivity.
  - destruct i'; try discriminate H; split; reflexivity.
  - destruct (valued_split _ H) as [H1 H2]. rewrite H1, H2. split; reflexivity.
Qed.

(* a one-item alternative without action behaves like its item, when the item carries a value *)
Lemma single_alt k nm ty i p res : valued i = true -> pS i p res -> altsS [Alt [NItem k nm ty i] None] p res.
Proof.
  intros Hv H. destruct (valued_split _ Hv) as [Hl Hc].
  destruct res as [v p'| |m q].
  - eapply PA_ok.
    + cbn [alt_items]. eapply PQ_step; [exact H|]. cbn [ni_item]. rewrite Hl, Hc. cbn [orb]. apply PQ_nil.
    + reflexivity.
  - eapply PA_next; [|apply PA_nil]. cbn [alt_items].
    exact (PQ_fail K rsS toks kw soft aevalP nameS (fun _ => fm) _ 0 (NItem k nm ty i) [] p [] [] false H).
  - eapply PA_err. cbn [alt_items]. eapply PQ_err. exact H.
Qed.
Lemma single_alt_inv k nm ty i p res : valued i = true -> altsS [Alt [NItem k nm ty i] None] p res -> pS i p res.
Proof.
  intros Hv H. destruct (valued_split _ Hv) as [Hl Hc].
  inversion H as [ |a rest p0 vals env p' v Hs Hval| a rest p0 res0 Hs Hr | a rest p0 Hs | a rest p0 m q Hs | a rest p0 vals env p' Hs Hval]; subst; cbn [alt_items] in Hs.
  - inversion Hs as [ | | |a k0 n ns p1 vals0 env0 cut v0 p2 res0 Hi Hrest]; subst. cbn [ni_item] in *. rewrite Hl, Hc in Hrest. cbn [orb] in Hrest.
    inversion Hrest; subst. cbn in Hval. injection Hval as <-. exact Hi.
  - inversion Hr; subst. inversion Hs as [ |a k0 n ns p1 vals0 env0 cut Hi| |a k0 n ns p1 vals0 env0 cut v0 p2 res0 Hi Hrest]; subst.
    + exact Hi.
    + inversion Hrest.
  - inversion Hs as [ |a k0 n ns p1 vals0 env0 cut Hi Hx| |a k0 n ns p1 vals0 env0 cut v0 p2 res0 Hi Hrest]; subst.
    inversion Hrest.
  - inversion Hs as [ | |a k0 n ns p1 vals0 env0 cut m0 q0 Hi|a k0 n ns p1 vals0 env0 cut v0 p2 res0 Hi Hrest]; subst.
    + exact Hi.
    + inversion Hrest.
  - cbn in Hval. discriminate Hval.
Qed.
Lemma wrapS id k nm ty i p res : valued i = true -> pS i p res -> pS (Group (one id k nm ty i)) p res.
Proof. intros Hv H. apply P_group. cbn [one rhs_alts]. apply single_alt; assumption. Qed.
Lemma wrapS' id k nm ty i p res : valued i = true -> pS i p res -> pS (RhsItem (one id k nm ty i)) p res.
Proof. intros Hv H. apply P_rhsitem. cbn [one rhs_alts]. apply single_alt; assumption. Qed.

Lemma lift i' p res : (never_fails i' = true -> res <> PFail) ->
  (forall i, Rel0 i i' -> pS i p res) -> forall i, Rel i i' -> pS i p res.
Proof.
  intros Hnf H0 i HR. induction HR as [i i' H|id k nm ty i i' Hv HR IH|id k nm ty i i' Hv HR IH|j i' Hn HR IH].
  - exact (H0 i H).
  - apply wrapS; [exact Hv|exact (IH Hnf H0)].
  - apply wrapS'; [exact Hv|exact (IH Hnf H0)].
  - specialize (IH Hnf H0). specialize (Hnf Hn). destruct res as [v p'| |m q]; [apply P_opt_some; exact IH|congruence|apply P_opt_err; exact IH].
Qed.
Ltac nf := let H := fresh in let E := fresh in intros H;
  first [discriminate H | clear H; intros E; discriminate E
        | clear H; match goal with |- (match ?r with _ => _ end) <> _ => destruct r as [[? ?]|[? ?]]; intros E; discriminate E end].

Inductive srel : sres -> sres -> Prop :=
| sr_succ vals e1 e2 p : srel (SSucc vals e1 p) (SSucc vals e2 p)
| sr_fail : srel SFail SFail
| sr_cut : srel SCutFail SCutFail
| sr_err m q : srel (SErr m q) (SErr m q).

Theorem desugar_sound :
  (forall i' p res, pT i' p res -> forall i, Rel i i' -> pS i p res) /\
  (forall i' p res, starT i' p res -> forall i, Rel i i' -> starS i p res) /\
  (forall s' e' p res, sepT s' e' p res -> forall s e, Rel s s' -> Rel e e' -> sepS s e p res) /\
  (forall a' k ns' p vals env cut r, seqT a' k ns' p vals env cut r ->
     forall a ns envS, RelItems ns ns' -> exists rS, seqS a k ns p vals envS cut rS /\ srel r rS /\
       ((forall j, nameS a j = nameT a' j) -> envS = env -> rS = r)) /\
  (forall alts' p res, altsT alts' p res -> forall alts, RelAlts alts alts' -> altsS alts p res).
Proof.
  apply peg_mutind.
  - (* P_rule *) intros n r' p res Hf _ IH. apply lift; [nf|]. intros i H0. inversion H0 as [n0 Hn| |r t rt Ht HA|r t rt Ht HA|id s e g rg s' e' Hg Hb Hs He| | | | | | | | |j j' id k nm ty Hv HR]; subst.
    + destruct (find_rule rsS n) as [r|] eqn:Es.
      * destruct (HN n r Es) as (r2 & Hf2 & HA). rewrite Hf in Hf2. injection Hf2 as <-. eapply P_rule; [exact Es|].
        destruct HA as [HA|(k & nm & ty & r0 & -> & HA)]; [exact (IH _ HA)|].
        apply single_alt; [reflexivity|]. apply P_group. exact (IH _ HA).
      * rewrite (Hn eq_refl) in Hf. discriminate Hf.
    + rewrite Hf in Ht. injection Ht as <-. apply P_group. exact (IH _ HA).
    + rewrite Hf in Ht. injection Ht as <-. apply P_rhsitem. exact (IH _ HA).
    + rewrite Hf in Hg. injection Hg as <-. rewrite Hb in IH.
      apply (single_alt_inv 0 None None); [reflexivity|]. apply IH.
      apply RA_cons; [|left; split; reflexivity|apply RA_nil]. cbn [alt_items]. apply RI_cons; [|apply RI_nil]. cbn [ni_item].
      apply R_core. apply C_gather_in; assumption.
  - (* P_token *) intros n p test Hf Hk. apply lift; [nf|]. intros i H0. inversion H0 as [n0 Hn| |r t rt Ht HA|r t rt Ht HA|id s e g rg s' e' Hg Hb Hs He| | | | | | | | |j j' id k nm ty Hv HR]; subst.
    + destruct (find_rule rsS n) as [r|] eqn:Es.
      * destruct (HN n r Es) as (r2 & Hf2 & _). rewrite Hf in Hf2. discriminate Hf2.
      * apply P_token; assumption.
    + rewrite Hf in Ht. discriminate Ht.
    + rewrite Hf in Ht. discriminate Ht.
    + rewrite Hf in Hg. discriminate Hg.
  - (* P_lit *) intros raw p. apply lift; [nf|]. intros i H0. inversion H0; subst. apply P_lit.
  - (* P_group *) intros r' p res _ IH. apply lift; [nf|]. intros i H0. inversion H0 as [ | | | | | | | | | | | | |j j' id k nm ty Hv HR]; subst.
    apply (single_alt_inv k nm ty); [exact Hv|]. apply IH. cbn [one rhs_alts].
    apply RA_cons; [|left; split; reflexivity|apply RA_nil]. cbn [alt_items]. apply RI_cons; [exact HR|apply RI_nil].
  - (* P_rhsitem *) intros r' p res _ _. apply lift; [nf|]. intros i H0. inversion H0.
  - (* opt *) intros j' p v p' _ IH. apply lift; [nf|]. intros i H0. inversion H0; subst. apply P_opt_some. apply IH. assumption.
  - intros j' p _ IH. apply lift; [nf|]. intros i H0. inversion H0; subst. apply P_opt_none. apply IH. assumption.
  - intros j' p m q _ IH. apply lift; [nf|]. intros i H0. inversion H0; subst. apply P_opt_err. apply IH. assumption.
  - (* rep0 *) intros id' j' p res _ IH. apply lift; [nf|]. intros i H0. inversion H0; subst. apply P_rep0. apply IH. assumption.
  - intros id' j' p res _ IH. apply lift; [nf|]. intros i H0. inversion H0; subst. apply P_rep1. apply IH. assumption.
  - (* gather *) intros id' s' e' p _ IH. apply lift; [nf|]. intros i H0. inversion H0; subst. apply P_gather_fail. apply IH. assumption.
  - intros id' s' e' p m q _ IH. apply lift; [nf|]. intros i H0. inversion H0; subst. apply P_gather_err. apply IH. assumption.
  - intros id' s' e' p v p1 res _ IH _ IH2. apply lift; [nf|]. intros i H0. inversion H0; subst. eapply P_gather; [apply IH; assumption|apply IH2; assumption].
  - (* pos *) intros j' p v p' _ IH. apply lift; [nf|]. intros i H0. inversion H0; subst. eapply P_pos_ok. apply IH. assumption.
  - intros j' p _ IH. apply lift; [nf|]. intros i H0. inversion H0; subst. apply P_pos_fail. apply IH. assumption.
  - intros j' p m q _ IH. apply lift; [nf|]. intros i H0. inversion H0; subst. apply P_pos_err. apply IH. assumption.
  - (* neg *) intros j' p _ IH. apply lift; [nf|]. intros i H0. inversion H0; subst. apply P_neg_ok. apply IH. assumption.
  - intros j' p v p' _ IH. apply lift; [nf|]. intros i H0. inversion H0; subst. eapply P_neg_fail. apply IH. assumption.
  - intros j' p m q _ IH. apply lift; [nf|]. intros i H0. inversion H0; subst. apply P_neg_err. apply IH. assumption.
  - (* forced *) intros j' p v p' _ IH. apply lift; [nf|]. intros i H0. inversion H0; subst. apply P_forced_ok. apply IH. assumption.
  - intros j' p _ IH. apply lift; [nf|]. intros i H0. inversion H0; subst.
    apply (P_forced_fail K rsS toks kw soft aevalP nameS (fun _ => fm)). apply IH. assumption.
  - intros j' p m q _ IH. apply lift; [nf|]. intros i H0. inversion H0; subst. apply P_forced_err. apply IH. assumption.
  - (* cut *) intros p. apply lift; [nf|]. intros i H0. inversion H0; subst. apply P_cut.
  - (* star *) intros i' p _ IH i HR. apply PS_stop. exact (IH i HR).
  - intros i' p m q _ IH i HR. apply PS_err. exact (IH i HR).
  - intros i' p v p1 res _ IH _ IH2 i HR. eapply PS_more; [exact (IH i HR)|exact (IH2 i HR)].
  - (* sep *) intros s' e' p _ IH s e Hs He. apply PG_stop_s. exact (IH s Hs).
  - intros s' e' p m q _ IH s e Hs He. apply PG_err_s. exact (IH s Hs).
  - intros s' e' p vs p1 _ IH _ IH2 s e Hs He. eapply PG_stop_e; [exact (IH s Hs)|exact (IH2 e He)].
  - intros s' e' p vs p1 m q _ IH _ IH2 s e Hs He. eapply PG_err_e; [exact (IH s Hs)|exact (IH2 e He)].
  - intros s' e' p vs p1 v p2 res _ IH _ IH2 _ IH3 s e Hs He. eapply PG_more; [exact (IH s Hs)|exact (IH2 e He)|exact (IH3 s e Hs He)].
  - (* seq *) intros a' k p vals env cut a ns envS HR. inversion HR; subst.
    eexists; split; [apply PQ_nil|]. split; [constructor|]. intros _ ->. reflexivity.
  - intros a' k n' ns' p vals env cut _ IH a ns envS HR. inversion HR as [|n n2 l l2 Hn Hl]; subst.
    eexists; split; [apply PQ_fail; exact (IH _ Hn)|]. split; [destruct cut; constructor|]. intros _ _. reflexivity.
  - intros a' k n' ns' p vals env cut m q _ IH a ns envS HR. inversion HR as [|n n2 l l2 Hn Hl]; subst.
    eexists; split; [apply PQ_err; exact (IH _ Hn)|]. split; [constructor|]. intros _ _. reflexivity.
  - intros a' k n' ns' p vals env cut v p1 res _ IH _ IH2 a ns envS HR. inversion HR as [|n n2 l l2 Hn Hl]; subst.
    destruct (rel_look _ _ Hn) as [El Ec].
    destruct (IH2 a l (if is_lookahead (ni_item n) then envS else bind_name nameS a k v envS) Hl) as (rS & HS & Hrel & Heq).
    exists rS. split; [|split; [exact Hrel|]].
    + eapply PQ_step; [exact (IH _ Hn)|]. rewrite El, Ec. rewrite El in HS. exact HS.
    + intros Hnm Henv. apply Heq; [exact Hnm|]. rewrite Henv, El. unfold bind_name. rewrite (Hnm k). reflexivity.
  - (* alts *) intros p alts HR. inversion HR; subst. apply PA_nil.
  - intros a' rest' p vals env p' v _ IH Hval alts HR. inversion HR as [|a a2 l l2 Hi Hact Hl]; subst.
    destruct (IH a (alt_items a) [] Hi) as (rS & HS & Hrel & Heq). destruct Hact as [[Ha Ha']|HA].
    + inversion Hrel; subst. eapply PA_ok; [exact HS|]. unfold alt_value in *. rewrite Ha. rewrite Ha' in Hval. exact Hval.
    + destruct (HactRel _ _ HA) as (Hv & Hnm & Hs & Hs'). rewrite (Heq Hnm eq_refl) in HS.
      eapply PA_ok; [exact HS|]. unfold alt_value in *.
      destruct (alt_action a); [|contradiction]. destruct (alt_action a'); [|contradiction]. rewrite Hv. exact Hval.
  - intros a' rest' p res _ IH _ IH2 alts HR. inversion HR as [|a a2 l l2 Hi Hact Hl]; subst.
    destruct (IH a (alt_items a) [] Hi) as (rS & HS & Hrel & _). inversion Hrel; subst.
    eapply PA_next; [exact HS|exact (IH2 _ Hl)].
  - intros a' rest' p _ IH alts HR. inversion HR as [|a a2 l l2 Hi Hact Hl]; subst.
    destruct (IH a (alt_items a) [] Hi) as (rS & HS & Hrel & _). inversion Hrel; subst. eapply PA_cut; exact HS.
  - intros a' rest' p m q _ IH alts HR. inversion HR as [|a a2 l l2 Hi Hact Hl]; subst.
    destruct (IH a (alt_items a) [] Hi) as (rS & HS & Hrel & _). inversion Hrel; subst. eapply PA_err; exact HS.
  - intros a' rest' p vals env p' _ IH Hval alts HR. inversion HR as [|a a2 l l2 Hi Hact Hl]; subst.
    destruct (IH a (alt_items a) [] Hi) as (rS & HS & Hrel & Heq). destruct Hact as [[Ha Ha']|HA].
    + unfold alt_value in Hval. rewrite Ha' in Hval. discriminate Hval.
    + destruct (HactRel _ _ HA) as (Hv & Hnm & Hs & Hs'). rewrite (Heq Hnm eq_refl) in HS.
      eapply PA_raise; [exact HS|]. unfold alt_value in *.
      destruct (alt_action a); [|contradiction]. destruct (alt_action a'); [|contradiction]. rewrite Hv. exact Hval.
Qed.
End D.

(* ---------- a decision procedure for the correspondence ---------- *)
Fixpoint all2 {A B} (f : A -> B -> bool) (l : list A) (l' : list B) : bool :=
  match l, l' with [], [] => true | a :: l, b :: l' => f a b && all2 f l l' | _, _ => false end.
Definition is_none {A} (o : option A) : bool := match o with None => true | Some _ => false end.

Section Dec.
Variable rsS rsT : list rule.
Variable actb : alt -> alt -> bool.          (* decides the correspondence of two alternatives that carry actions *)
Notation AR := (fun a a' => actb a a' = true).

Definition is_ruleb (rs : list rule) (n : string) : bool := match find_rule rs n with Some _ => true | None => false end.

Fixpoint rel_b (i i' : item) {struct i} : bool :=
  match i with
  | NameLeaf n => match i' with NameLeaf n' => String.eqb n n' && (is_ruleb rsS n || negb (is_ruleb rsT n)) | _ => false end
  | StringLeaf raw => match i' with StringLeaf raw' => String.eqb raw raw' | _ => false end
  | Group r | RhsItem r =>
      match r with
      | Rhs _ [Alt [NItem _ _ _ i0] None] => valued i0 && rel_b i0 i'
      | _ => match i' with
             | NameLeaf t => match find_rule rsT t with Some rt => rel_rhs r (rhs_alts (rrhs rt)) | None => false end
             | _ => false
             end
      end
  | Opt j => match i' with Opt j' => rel_b j j' || rel_b j i' | Repeat0 _ _ => rel_b j i' | _ => false end
  | Repeat0 _ j => match i' with Repeat0 _ (Group (Rhs _ [Alt [NItem _ _ _ j'] None])) => valued j && rel_b j j' | _ => false end
  | Repeat1 _ j => match i' with Repeat1 _ (Group (Rhs _ [Alt [NItem _ _ _ j'] None])) => valued j && rel_b j j' | _ => false end
  | Gather _ s e =>
      match i' with
      | NameLeaf g => match find_rule rsT g with
                      | Some rg => match rhs_alts (rrhs rg) with
                                   | [Alt [NItem 0%N None None (Gather 0%N s' e')] None] => rel_b s s' && rel_b e e'
                                   | _ => false
                                   end
                      | None => false
                      end
      | _ => false
      end
  | PosLook j => match i' with PosLook j' => rel_b j j' | _ => false end
  | NegLook j => match i' with NegLook j' => rel_b j j' | _ => false end
  | Forced j => match i' with Forced j' => rel_b j j' | _ => false end
  | Cut => match i' with Cut => true | _ => false end
  end
with rel_rhs (r : rhs) (alts' : list alt) {struct r} : bool :=
  match r with
  | Rhs _ alts => (fix go (l : list alt) (l' : list alt) {struct l} : bool :=
                     match l, l' with [], [] => true | a :: l, a' :: l' => rel_alt a a' && go l l' | _, _ => false end) alts alts'
  end
with rel_alt (a : alt) (a' : alt) {struct a} : bool :=
  match a with
  | Alt items act => ((is_none act && is_none (alt_action a')) || actb (Alt items act) a') &&
      (fix go (l : list nitem) (l' : list nitem) {struct l} : bool :=
         match l, l' with [], [] => true | n :: l, n' :: l' => rel_nitem n (ni_item n') && go l l' | _, _ => false end) items (alt_items a')
  end
with rel_nitem (n : nitem) (i' : item) {struct n} : bool := match n with NItem _ _ _ i => rel_b i i' end.

Lemma rel_rhs_eq id alts alts' : rel_rhs (Rhs id alts) alts' = all2 rel_alt alts alts'.
Proof. cbn [rel_rhs]. revert alts'. induction alts as [|a l IH]; intros [|a' l']; cbn [all2]; try reflexivity. rewrite <- IH. reflexivity. Qed.
Lemma rel_alt_eq items act a' : rel_alt (Alt items act) a' =
  ((is_none act && is_none (alt_action a')) || actb (Alt items act) a') && all2 (fun n n' => rel_nitem n (ni_item n')) items (alt_items a').
Proof.
  cbn [rel_alt]. f_equal. generalize (alt_items a'). induction items as [|n l IH]; intros [|n' l']; cbn [all2]; try reflexivity.
  rewrite <- IH. reflexivity.
Qed.

Lemma all2_alts alts : Forall (fun a => forall a', rel_alt a a' = true ->
    RelItems rsS rsT AR (alt_items a) (alt_items a') /\ ((alt_action a = None /\ alt_action a' = None) \/ actb a a' = true)) alts ->
  forall alts', all2 rel_alt alts alts' = true -> RelAlts rsS rsT AR alts alts'.
Proof.
  induction 1 as [|a l Ha _ IH]; intros [|a' l'] H; cbn [all2] in H; try discriminate; [apply RA_nil|].
  apply andb_prop in H as [H1 H2]. destruct (Ha a' H1) as (A & B). apply RA_cons; auto.
Qed.
Lemma all2_items items : Forall (fun n => forall i', rel_b (ni_item n) i' = true -> Rel rsS rsT AR (ni_item n) i') items ->
  forall items', all2 (fun n n' => rel_nitem n (ni_item n')) items items' = true -> RelItems rsS rsT AR items items'.
Proof.
  induction 1 as [|n l Hn _ IH]; intros [|n' l'] H; cbn [all2] in H; try discriminate; [apply RI_nil|].
  apply andb_prop in H as [H1 H2]. apply RI_cons; [|exact (IH _ H2)]. apply Hn. destruct n; exact H1.
Qed.

Ltac split_match H := repeat (match type of H with (match ?x with _ => _ end) = true => destruct x; try discriminate H end).
Ltac via_helper HPr H C :=
  match goal with
  | |- Rel _ _ _ _ ?i' => let Ef := fresh "Ef" in
      destruct i'; try discriminate H;
      match type of H with context [find_rule rsT ?x] =>
        destruct (find_rule rsT x) eqn:Ef; [|discriminate H]; apply R_core; eapply C; [exact Ef|apply HPr; exact H] end
  end.

Lemma rel_b_sound :
  (forall i i', rel_b i i' = true -> Rel rsS rsT AR i i') /\
  (forall r, (forall alts', rel_rhs r alts' = true -> RelAlts rsS rsT AR (rhs_alts r) alts') /\
             (forall id k nm ty i0, r = Rhs id [Alt [NItem k nm ty i0] None] -> forall i', rel_b i0 i' = true -> Rel rsS rsT AR i0 i')) /\
  (forall a, (forall a', rel_alt a a' = true -> RelItems rsS rsT AR (alt_items a) (alt_items a') /\ ((alt_action a = None /\ alt_action a' = None) \/ actb a a' = true)) /\
             (forall k nm ty i0 act, a = Alt [NItem k nm ty i0] act -> forall i', rel_b i0 i' = true -> Rel rsS rsT AR i0 i')) /\
  (forall n i', rel_b (ni_item n) i' = true -> Rel rsS rsT AR (ni_item n) i').
Proof.
  apply grammar_ast_ind.
  - (* NameLeaf *) intros n i' H. cbn [rel_b] in H. destruct i' as [n'| | | | | | | | | | | ]; try discriminate H.
    apply andb_prop in H as [H1 H2]. apply String.eqb_eq in H1. subst n'. apply R_core. apply C_name. intros Hs.
    unfold is_ruleb in H2. rewrite Hs in H2. cbn [orb] in H2. destruct (find_rule rsT n); [discriminate H2|reflexivity].
  - intros raw i' H. cbn [rel_b] in H. destruct i'; try discriminate H. apply String.eqb_eq in H. subst. apply R_core. apply C_str.
  - (* Group *) intros r [HPr HP1] i' H. destruct r as [id alts].
    destruct alts as [|[[|[k nm ty i0] [|n2 items]] [act|]] [|a2 rest]]; cbn [rel_b] in H;
      first [solve [via_helper HPr H C_group]|idtac].
    apply andb_prop in H as [Hv H]. apply (R_group1 rsS rsT AR id k nm ty); [exact Hv|]. exact (HP1 id k nm ty i0 eq_refl i' H).
  - intros j IH i' H. cbn [rel_b] in H. destruct i'; try discriminate H.
    + apply orb_prop in H as [H|H]; [apply R_core; apply C_opt; exact (IH _ H)|apply R_opt_keep; [reflexivity|exact (IH _ H)]].
    + apply R_opt_keep; [reflexivity|exact (IH _ H)].
  - intros id j IH i' H. cbn [rel_b] in H. destruct i' as [| | | |id' b| | | | | | | ]; try discriminate H.
    split_match H.
    apply andb_prop in H as [Hv H]. apply R_core. apply C_rep0. apply R_core. apply C_wrap; [exact Hv|]. exact (IH _ H).
  - intros id j IH i' H. cbn [rel_b] in H. destruct i' as [| | | | |id' b| | | | | | ]; try discriminate H.
    split_match H.
    apply andb_prop in H as [Hv H]. apply R_core. apply C_rep1. apply R_core. apply C_wrap; [exact Hv|]. exact (IH _ H).
  - (* Gather *) intros id s e IHs IHe i' H. cbn [rel_b] in H. destruct i' as [g| | | | | | | | | | | ]; try discriminate H.
    destruct (find_rule rsT g) as [rg|] eqn:Eg; [|discriminate H].
    remember (rhs_alts (rrhs rg)) as L eqn:Eb.
    repeat (match type of H with (match ?x with _ => _ end) = true => destruct x; try discriminate H end).
    symmetry in Eb.
    apply andb_prop in H as [H1 H2]. apply R_core. eapply C_gather; [exact Eg|exact Eb|exact (IHs _ H1)|exact (IHe _ H2)].
  - intros j IH i' H. cbn [rel_b] in H. destruct i'; try discriminate H. apply R_core. apply C_pos. exact (IH _ H).
  - intros j IH i' H. cbn [rel_b] in H. destruct i'; try discriminate H. apply R_core. apply C_neg. exact (IH _ H).
  - intros j IH i' H. cbn [rel_b] in H. destruct i'; try discriminate H. apply R_core. apply C_forced. exact (IH _ H).
  - intros i' H. cbn [rel_b] in H. destruct i'; try discriminate H. apply R_core. apply C_cut.
  - (* RhsItem *) intros r [HPr HP1] i' H. destruct r as [id alts].
    destruct alts as [|[[|[k nm ty i0] [|n2 items]] [act|]] [|a2 rest]]; cbn [rel_b] in H;
      first [solve [via_helper HPr H C_rhsitem]|idtac].
    apply andb_prop in H as [Hv H]. apply (R_rhsitem1 rsS rsT AR id k nm ty); [exact Hv|]. exact (HP1 id k nm ty i0 eq_refl i' H).
  - (* Rhs *) intros id alts HF. split.
    + intros alts' H. rewrite rel_rhs_eq in H. cbn [rhs_alts]. apply all2_alts; [|exact H].
      eapply Forall_impl; [|exact HF]. intros a [Ha _]. exact Ha.
    + intros id0 k nm ty i0 E i' H. injection E as _ E. subst alts. inversion HF as [|a l [_ Ha] _]; subst. exact (Ha k nm ty i0 None eq_refl i' H).
  - (* Alt *) intros items act HF. split.
    + intros a' H. rewrite rel_alt_eq in H. apply andb_prop in H as [H H3].
      cbn [alt_items alt_action]. split; [apply all2_items; assumption|]. apply orb_prop in H as [H|H]; [left|right; exact H].
      apply andb_prop in H as [H1 H2]. split; [destruct act; [discriminate H1|reflexivity]|].
      destruct (alt_action a'); [discriminate H2|reflexivity].
    + intros k nm ty i0 act0 E i' H. injection E as E _. subst items. inversion HF as [|n l Hn _]; subst. exact (Hn i' H).
  - intros id nm ty i IH i' H. cbn [ni_item] in *. exact (IH i' H).
Qed.

Definition body_rel_b (r : rhs) (alts' : list alt) : bool :=
  rel_rhs r alts' || match r with Rhs _ [Alt [NItem _ _ _ (Group r0)] None] => rel_rhs r0 alts' | _ => false end.
Definition rules_rel_b : bool :=
  forallb (fun r => match find_rule rsT (rname r) with Some r' => body_rel_b (rrhs r) (rhs_alts (rrhs r')) | None => false end) rsS.
End Dec.

Lemma find_rule_in rs n r : find_rule rs n = Some r -> In r rs /\ rname r = n.
Proof.
  induction rs as [|r0 rs IH]; cbn [find_rule]; [discriminate|]. destruct (String.eqb (rname r0) n) eqn:E.
  - intros [= <-]. split; [left; reflexivity|apply String.eqb_eq; exact E].
  - intros H. destruct (IH H) as [A B]. split; [right; exact A|exact B].
Qed.

Lemma rules_rel_sound rsS rsT actb : rules_rel_b rsS rsT actb = true ->
  forall n r, find_rule rsS n = Some r ->
  exists r', find_rule rsT n = Some r' /\ RelBody rsS rsT (fun a a' => actb a a' = true) (rhs_alts (rrhs r)) (rhs_alts (rrhs r')).
Proof.
  intros H n r Hf. destruct (find_rule_in _ _ _ Hf) as [Hin Hn]. unfold rules_rel_b in H. rewrite forallb_forall in H.
  specialize (H r Hin). rewrite Hn in H. destruct (find_rule rsT n) as [r'|]; [|discriminate H].
  exists r'. split; [reflexivity|]. unfold body_rel_b in H. apply orb_prop in H as [H|H].
  - left. exact (proj1 (proj1 (proj2 (rel_b_sound rsS rsT actb)) (rrhs r)) _ H).
  - right. destruct (rrhs r) as [id [|[[|[k nm ty [| |r0| | | | | | | | | ]] [|]] [|]] [|]]]; try discriminate H.
    exists k, nm, ty, r0. split; [reflexivity|]. exact (proj1 (proj1 (proj2 (rel_b_sound rsS rsT actb)) r0) _ H).
Qed.
